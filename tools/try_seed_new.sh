#!/bin/bash
# usage: try_seed_new.sh <seed-id> [binary]  — applies /verif/seeded/<id>/patch.diff to a scratch copy of /repo and runs the
# seed's property check with the given binary (default bin/zlcheck.new); prints detected/missed. Removes the copy.
S=$1; B=${2:-/verif/bin/zlcheck.new}; P=${S%%-*}
T=$(mktemp -d /tmp/zlseed-XXXXXX)
git -C /repo archive HEAD | tar -x -C $T
mkdir -p $T/.ev/evidence; cp /verif/known_findings.txt $T/.ev/
( cd $T && git init -q . 2>/dev/null && git apply --whitespace=nowarn /verif/seeded/$S/patch.diff ) || { echo "$S: PATCH DOES NOT APPLY"; rm -rf $T; exit 3; }
export GOFLAGS=-mod=mod GOPROXY=off GOSUMDB=off GOTOOLCHAIN=local GOWORK=off
out=$(ZL_REPO=$T ZL_VERIF=$T/.ev $B -property $P -tier quick 2>&1)
if echo "$out" | grep -q "^VIOLATION property=$P"; then echo "$S: detected"; echo "$out" | grep "^REPORT" | sed "s#$T/##g" | cut -c1-260 | head -4; else echo "$S: MISSED"; fi
rm -rf $T
