#!/usr/bin/env python3
"""Generates /verif/MANIFEST.json from the table below (kept next to the checker so the two stay in step)."""
import json, os, sys
V = os.path.dirname(os.path.dirname(os.path.abspath(__file__)))
ALL = ["C%02d" % i for i in range(1, 20)]
GOENV = "GOFLAGS=-mod=mod GOPROXY=off GOSUMDB=off GOTOOLCHAIN=local GOWORK=off"
BASE = json.load(open("/root/.vp/BASELINE.json"))["cmd"] if os.path.exists("/root/.vp/BASELINE.json") else "cd /repo && go test -mod=mod -json -vet=off -count=1 -timeout 25m ./..."

CLAIMED = json.load(open(os.path.join(V, "tools", "claims.json")))
NA = json.load(open(os.path.join(V, "tools", "not_applicable.json")))

checks = []
for pid in ALL:
    if pid not in CLAIMED:
        continue
    c = CLAIMED[pid]
    checks.append({
        "property_id": pid,
        "quick_cmd": "bin/zlcheck -property %s -tier quick" % pid,
        "thorough_cmd": "tools/thorough.sh %s" % pid,
        "evidence_file": "/verif/evidence/%s.json" % pid,
        "replay_cmd_template": "bin/zlcheck -property %s -explain {path}" % pid,
        "engine": "zlcheck",
        "level_claimed": {"category": "other", "text": c["text"], "design_ref": c.get("design_ref", "DESIGN.md section 4 " + pid)},
        "level_note": c["note"],
        "technique": c["technique"],
    })
na = [{"property_id": pid, "reason": NA[pid]} for pid in ALL if pid not in CLAIMED]
m = {
    "version": 1,
    "setup_cmd": "cd /verif/zlcheck && %s go build -o ../bin/zlcheck ." % GOENV,
    "hooks": {"guard": "verif", "enable": "none needed: the checks are static analyses that read /repo's working tree; no hook or instrumentation was added to rs/zerolog",
              "baseline_off_cmd": BASE, "source_commits": [], "add_only": True},
    "engines": [{"name": "zlcheck", "path": "/verif/zlcheck", "serves_properties": sorted(CLAIMED.keys()),
                 "kind_free_text": "custom static analyses over go/packages + go/types + go/ssa (x/tools v0.29.0): path tables, typestate/dataflow, call-graph effects, table extraction; gc -m escape diagnostics for C07"}],
    "checks": checks,
    "not_applicable": na,
    "notes": "Static analysis only: every check parses, type-checks and lowers /repo's current working tree and reports constructs; nothing executes zerolog. Genuine defects found were repaired in /repo as 'fix:' commits (see known_findings.txt); remaining ones are listed there as 'known:'.",
}
json.dump(m, open(os.path.join(V, "MANIFEST.json"), "w"), indent=1)
print("checks:", [c["property_id"] for c in checks], "not_applicable:", [n["property_id"] for n in na])
