#!/usr/bin/env python3
"""Mutant battery (checker validation, never executes zerolog).

Each mutant in /verif/mutants/<PROP>.json is {name, file, old, new, expect: [substr of rule/construct], build: bool};
an optional "base": "<X>.diff" applies that behaviour-preserving refactor from /verif/refactors first (the edit is
then made to the refactored source: the rule must still fire through the refactored shape).
For each one: copy the *current* /repo tree to a scratch dir outside /repo and /verif, apply the
textual edit, confirm it still compiles (go build ./..., go vet is not required), run
bin/zlcheck on the copy and require a VIOLATION whose report mentions `expect`.
Outcomes: killed / blind (applies, compiles, not reported) / stale (edit no longer applies) /
nobuild (mutant does not compile: it is not a valid mutant).  Exit status is always 0 unless
--strict; results are printed as JSON on the last line.
"""
import json, os, shutil, subprocess, sys, tempfile, concurrent.futures as cf

VERIF = os.environ.get("ZL_VERIF", "/verif")
REPO = os.environ.get("ZL_REPO", "/repo")
ENV = dict(os.environ, GOFLAGS="-mod=mod", GOPROXY="off", GOSUMDB="off", GOTOOLCHAIN="local", GOWORK="off")

def run_one(prop, m):
    tmp = tempfile.mkdtemp(prefix="zlmut-")
    try:
        repo = os.path.join(tmp, "repo")
        shutil.copytree(REPO, repo, ignore=shutil.ignore_patterns(".git", "lint"))
        ver = os.path.join(tmp, "verif")
        os.makedirs(os.path.join(ver, "evidence"))
        shutil.copy(os.path.join(VERIF, "known_findings.txt"), ver)
        if m.get("base"):
            # refactored-then-broken variant: a behaviour-preserving diff from /verif/refactors first
            a = subprocess.run(["git", "apply", "--whitespace=nowarn", os.path.join(VERIF, "refactors", m["base"])], cwd=repo, capture_output=True, text=True)
            if a.returncode != 0:
                return m["name"], "stale", "base diff does not apply: " + a.stderr[-200:]
        edits = m.get("edits") or [m]
        for e in edits:
            path = os.path.join(repo, e["file"])
            src = open(path).read()
            if "append" in e:
                src = src + e["append"]
            else:
                if src.count(e["old"]) < 1:
                    return m["name"], "stale", "pattern not found in " + e["file"]
                src = src.replace(e["old"], e["new"], e.get("count", 1))
            open(path, "w").write(src)
        tags = m.get("tags", "")
        b = subprocess.run(["go", "build"] + (["-tags", tags] if tags else []) + ["./..."], cwd=repo, env=ENV, capture_output=True, text=True)
        if b.returncode != 0:
            return m["name"], "nobuild", b.stderr[-400:]
        e2 = dict(ENV, ZL_REPO=repo, ZL_VERIF=ver)
        c = subprocess.run([os.path.join(VERIF, "bin", "zlcheck"), "-property", prop, "-tier", "quick"], env=e2, capture_output=True, text=True)
        out = c.stdout
        reports = [l for l in out.splitlines() if l.startswith("REPORT")]
        exp = m.get("expect", [])
        if isinstance(exp, str):
            exp = [exp]
        if c.returncode == 1 and "VIOLATION property=" + prop in out:
            hit = [l for l in reports if all(x in l for x in exp)]
            if hit:
                return m["name"], "killed", hit[0][:300]
            return m["name"], "blind", "violation reported but not the expected construct: " + " | ".join(r[:200] for r in reports[:3])
        return m["name"], "blind", "exit=%d %s" % (c.returncode, out[-300:] + c.stderr[-300:])
    finally:
        shutil.rmtree(tmp, ignore_errors=True)

def main():
    prop = sys.argv[1]
    only = sys.argv[2:] if len(sys.argv) > 2 else None
    path = os.path.join(VERIF, "mutants", prop + ".json")
    if not os.path.exists(path):
        print(json.dumps({"property": prop, "mutants_run": 0}))
        return
    ms = json.load(open(path))
    if only:
        ms = [m for m in ms if m["name"] in only]
    res = {}
    with cf.ThreadPoolExecutor(max_workers=int(os.environ.get("ZL_MUT_PAR", "4"))) as ex:
        for name, outcome, info in ex.map(lambda m: run_one(prop, m), ms):
            res[name] = {"outcome": outcome, "info": info}
            print("mutant %-40s %-8s %s" % (name, outcome, info[:160]), file=sys.stderr)
    summary = {"property": prop, "mutants_run": len(res),
               "killed": sum(1 for r in res.values() if r["outcome"] == "killed"),
               "blind": sorted(k for k, r in res.items() if r["outcome"] == "blind"),
               "stale": sorted(k for k, r in res.items() if r["outcome"] == "stale"),
               "nobuild": sorted(k for k, r in res.items() if r["outcome"] == "nobuild"),
               "detail": res}
    print(json.dumps(summary))

if __name__ == "__main__":
    main()
