#!/bin/bash
# usage: try_diff.sh <diff-file> [properties...]   — applies the diff to a scratch copy of /repo (never to /repo),
# runs the quick checks against the copy and prints the reports; removes the copy.
D=$1; shift
PROPS=${@:-C01 C02 C03 C04 C05 C06 C07 C08 C09 C10 C11 C12 C13 C14 C15 C16 C17 C18 C19}
T=$(mktemp -d /tmp/zltry-XXXXXX)
git -C /repo archive HEAD | tar -x -C $T
mkdir -p $T/.ev/evidence; cp /verif/known_findings.txt $T/.ev/
( cd $T && git init -q . 2>/dev/null && git apply --whitespace=nowarn $D ) || { echo "DIFF DOES NOT APPLY: $D"; rm -rf $T; exit 3; }
export GOFLAGS=-mod=mod GOPROXY=off GOSUMDB=off GOTOOLCHAIN=local GOWORK=off
( cd $T && go build ./... ) || { echo "DOES NOT BUILD"; rm -rf $T; exit 4; }
bad=0
for p in $PROPS; do
  out=$(ZL_REPO=$T ZL_VERIF=$T/.ev /verif/bin/zlcheck -property $p -tier quick 2>&1)
  rc=$?
  if echo "$out" | grep -q "^VIOLATION" || ! echo "$out" | grep -q "^property="; then
    bad=$((bad+1)); echo "--- $p:"; echo "$out" | grep "^REPORT" | sed "s#$T/##g" | cut -c1-330 | head -6
  fi
done
echo "== $(basename $D): $bad properties alarmed"
rm -rf $T
