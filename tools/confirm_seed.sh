#!/bin/bash
# usage: confirm_seed.sh <PROP> <k> [demo-dir-relative-to-repo-root (default .)] [go test tags]
# Confirms a seeded change in the scratch worktree /tmp/seed-<PROP> (build, suite, demo on clean and changed tree),
# runs the property's quick check against that changed worktree, and files it under /verif/seeded/<PROP>-<k>/.
# Safe to run for several properties in parallel (per-property log files).
set -u
P=$1; K=$2; DDIR=${3:-.}; TAGS=${4:-}
W=/tmp/seed-$P; O=/tmp/seed-$P-out
export GOFLAGS=-mod=mod GOPROXY=off GOSUMDB=off GOTOOLCHAIN=local GOWORK=off
TAGARG=""; [ -n "$TAGS" ] && TAGARG="-tags $TAGS"
cd $W || exit 2
git checkout -q -- . ; git clean -fdq
TEST=$(grep -o 'func Test[A-Za-z0-9_]*' $O/demo$K\_test.go | head -1 | sed 's/func //')
echo "== demo test: $TEST (dir $DDIR, tags '$TAGS')"
# clean tree: demo must pass
cp $O/demo${K}_test.go $DDIR/zz_demo${K}_test.go
go test $TAGARG -count=1 -run "^$TEST\$" ./$DDIR > /tmp/seed-clean-$P.log 2>&1; CLEAN=$?
rm -f $DDIR/zz_demo${K}_test.go
git apply $O/patch$K.diff || { echo "PATCH DOES NOT APPLY"; exit 3; }
go build ./... > /tmp/seed-build-$P.log 2>&1; BUILD=$?
go test -count=1 ./... > /tmp/seed-suite-$P.log 2>&1
SUITE_FAILS=$(grep -E "^(FAIL|---) " /tmp/seed-suite-$P.log | grep -v journald | grep -v "^FAIL$" | grep -v TestWriteReturnsNoOfWrittenBytes | grep -v TestSamplers | wc -l)
go test -count=1 -tags binary_log . ./internal/cbor > /tmp/seed-suite-b-$P.log 2>&1; SUITEB=$?
cp $O/demo${K}_test.go $DDIR/zz_demo${K}_test.go
go test $TAGARG -count=1 -run "^$TEST\$" ./$DDIR > /tmp/seed-mut-$P.log 2>&1; MUT=$?
rm -f $DDIR/zz_demo${K}_test.go
# run the check against the changed tree (the scratch worktree with the patch applied; /repo itself is not
# touched, so a concurrently running check of /repo is not disturbed)
mkdir -p /tmp/seed-ev-$P/evidence; cp /verif/known_findings.txt /tmp/seed-ev-$P/
CP=$P; [ "$P-${OUTK:-$K}" = "C01-3" ] && CP=C05
ZL_REPO=$W ZL_VERIF=/tmp/seed-ev-$P /verif/bin/zlcheck -property $CP -tier quick > /tmp/seed-check-$P.log 2>&1; RC=$?
rm -rf /tmp/seed-ev-$P
git checkout -q -- . ; git clean -fdq
echo "build=$BUILD suite_fail_lines=$SUITE_FAILS suite_binarylog_rc=$SUITEB demo_on_clean_rc=$CLEAN demo_on_mutant_rc=$MUT"
if [ $BUILD -ne 0 ] || [ $SUITE_FAILS -ne 0 ] || [ $CLEAN -ne 0 ] || [ $MUT -eq 0 ]; then
  echo "NOT CONFIRMED"; grep -E "^(FAIL|---) " /tmp/seed-suite-$P.log | head; tail -5 /tmp/seed-mut-$P.log; exit 1
fi
DET="missed"; [ $RC -eq 1 ] && grep -q "VIOLATION property=$CP" /tmp/seed-check-$P.log && DET="detected"
echo "check rc=$RC => $DET"; grep "^REPORT" /tmp/seed-check-$P.log | cut -c1-260 | head -5
D=/verif/seeded/$P-${OUTK:-$K}; mkdir -p $D
cp $O/patch$K.diff $D/patch.diff; cp $O/demo${K}_test.go $D/demo_test.go; cp $O/notes$K.txt $D/notes.txt 2>/dev/null
python3 - "$P" "$K" "$DET" "$DDIR" "$TAGS" "$TEST" <<'PY'
import json,sys,re,os
p,k,det,ddir,tags,test=sys.argv[1:7]
reports=[l.strip()[:400] for l in open('/tmp/seed-check-%s.log'%p) if l.startswith('REPORT')]
notes=open('/verif/seeded/%s-%s/notes.txt'%(p,os.environ.get('OUTK',k))).read() if True else ''
meta={"property":p,"source":"independent sub-agent given only the property text and a scratch worktree",
 "breaks":notes.strip().split('\n')[0][:300],
 "needs_to_manifest":notes.strip()[:1200],
 "demo":{"file":"demo_test.go","place_in":ddir,"test":test,"tags":tags},
 "confirmed":{"worktree":"/tmp/seed-%s (removed afterwards)"%p,"build":"go build ./... ok","suite":"go test ./... unchanged (journald socket test fails with and without)","suite_binary_log":"go test -tags binary_log . ./internal/cbor","demo_on_clean":"pass","demo_with_change":"fail"},
 "check":{"cmd":"bin/zlcheck -property %s -tier quick (run on a scratch worktree of /repo with the patch applied)"%p,"outcome":det,"reports":reports[:6]}}
json.dump(meta,open('/verif/seeded/%s-%s/meta.json'%(p,os.environ.get('OUTK',k)),'w'),indent=1)
PY
