#!/bin/sh
# thorough tier: all build configurations, uncapped path enumeration, then the mutant battery
# (checker validation on scratch copies; its outcome is recorded in the evidence, never in the exit status).
cd "$(dirname "$0")/.." || exit 2
P="$1"
bin/zlcheck -property "$P" -tier thorough
rc=$?
if [ -f "mutants/$P.json" ]; then
  python3 tools/mutants.py "$P" 2>/dev/null | tail -1 > "evidence/$P.mutants.tmp"
  python3 - "$P" <<'PY'
import json, sys
p = sys.argv[1]
try:
    ev = json.load(open("evidence/%s.json" % p))
    mu = json.loads(open("evidence/%s.mutants.tmp" % p).read())
    ev["coverage"]["mutants"] = {k: mu[k] for k in ("mutants_run", "killed", "blind", "stale", "nobuild")}
    json.dump(ev, open("evidence/%s.json" % p, "w"), indent=1)
    print("mutants: run=%d killed=%d blind=%s stale=%s" % (mu["mutants_run"], mu["killed"], mu["blind"], mu["stale"]))
except Exception as e:
    print("mutant battery result not merged:", e)
PY
  rm -f "evidence/$P.mutants.tmp"
fi
exit $rc
