#!/bin/bash
# usage: recheck_seed.sh <seed-id e.g. C08-1> [property to check, default = the seed's own]
# Applies the stored patch to /repo, runs the quick check, undoes the patch, records the outcome.
S=$1; P=${2:-${S%%-*}}
D=/verif/seeded/$S
cd /repo && git apply $D/patch.diff || { echo "patch does not apply"; exit 3; }
mkdir -p /tmp/seed-ev/evidence; cp /verif/known_findings.txt /tmp/seed-ev/
ZL_VERIF=/tmp/seed-ev /verif/bin/zlcheck -property $P -tier quick > /tmp/seed-check.log 2>&1; RC=$?
git -C /repo checkout -q -- .
DET=missed; [ $RC -eq 1 ] && grep -q "VIOLATION property=$P" /tmp/seed-check.log && DET=detected
echo "$S checked with $P: rc=$RC => $DET"; grep "^REPORT" /tmp/seed-check.log | cut -c1-240 | head -3
python3 - "$S" "$P" "$DET" <<'PY'
import json,sys
s,p,det=sys.argv[1:4]
f='/verif/seeded/%s/meta.json'%s
m=json.load(open(f))
reports=[l.strip()[:400] for l in open('/tmp/seed-check.log') if l.startswith('REPORT')]
m.setdefault('rechecks',[])
m['rechecks']=[r for r in m['rechecks'] if r.get('property')!=p]+[{"property":p,"outcome":det,"reports":reports[:4]}]
if p==m['property']:
    if m['check']['outcome']=='missed' and det=='detected':
        m['check']['first_outcome']='missed (check strengthened afterwards)'
    m['check']['outcome']=det; m['check']['reports']=reports[:6]
json.dump(m,open(f,'w'),indent=1)
PY
rm -rf /tmp/seed-ev
