#!/bin/bash
# usage: [RF_PROPS="C01 C02"] run_refactors.sh [names…]  — runs every behaviour-preserving refactor in /verif/refactors through all
# quick checks on scratch copies (8 at a time); a refactor on which any check alarms is a false alarm to fix.
cd /verif/refactors
L=${@:-$(ls *.diff | sed 's/.diff//')}
mkdir -p /tmp/rfres
printf "%s\n" $L | xargs -P 8 -I{} sh -c '/verif/tools/try_diff.sh /verif/refactors/{}.diff $RF_PROPS > /tmp/rfres/{}.log 2>&1'
for n in $L; do tail -1 /tmp/rfres/$n.log; done
