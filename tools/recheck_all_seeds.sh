#!/bin/bash
# usage: recheck_all_seeds.sh [seed-ids…] — re-runs every filed seeded change against the current checker on scratch
# copies of /repo (never /repo itself), 8 at a time; prints one line per seed. C01-3 is checked with C05 (see DESIGN).
cd /verif/seeded
L=${@:-$(ls -d C*-* | sort -V)}
mkdir -p /tmp/seedres
one() {
  S=$1; P=${S%%-*}; [ "$S" = "C01-3" ] && P=C05
  T=$(mktemp -d /tmp/zlseed-XXXXXX)
  git -C /repo archive HEAD | tar -x -C $T
  mkdir -p $T/.ev/evidence; cp /verif/known_findings.txt $T/.ev/
  ( cd $T && git init -q . 2>/dev/null && git apply --whitespace=nowarn /verif/seeded/$S/patch.diff ) || { echo "$S: PATCH DOES NOT APPLY"; rm -rf $T; return; }
  out=$(ZL_REPO=$T ZL_VERIF=$T/.ev /verif/bin/zlcheck -property $P -tier quick 2>&1); rc=$?
  if [ $rc -eq 1 ] && echo "$out" | grep -q "^VIOLATION property=$P"; then echo "$S ($P): detected  $(echo "$out" | grep '^REPORT' | head -1 | sed "s#$T/##g" | cut -c1-150)"; else echo "$S ($P): MISSED rc=$rc"; fi
  rm -rf $T
}
export -f one
export GOFLAGS=-mod=mod GOPROXY=off GOSUMDB=off GOTOOLCHAIN=local GOWORK=off
printf "%s\n" $L | xargs -P 8 -I{} bash -c 'one {}' | sort -V
