package main

// ELEM — scalar/slice sibling agreement inside internal/json (C02, "or a slice variant"):
// the expression that renders one element of AppendXs is the expression that renders the
// value in AppendX, per TimeFieldFormat case.  Both sides are canonicalised to a table
// "format case -> set of rendering calls over the value V" (thin wrappers inlined, helper
// parameters bound to the constants passed at the delegation site) and the tables compared.
// A slice appender that delegates every element to the scalar sibling agrees by construction.

import (
	"fmt"
	"go/constant"
	"go/token"
	"go/types"
	"sort"
	"strings"

	"golang.org/x/tools/go/ssa"
)

const (
	elemV  = "⟨V⟩"
	elemVS = "⟨VS⟩"
)

type elemEnv struct {
	p    *Prog
	bind map[*ssa.Parameter]string
}

func (e *elemEnv) canon(v ssa.Value, depth int) string {
	if depth > 12 {
		return "…"
	}
	if isByteSlice(v.Type()) {
		if par, ok := v.(*ssa.Parameter); ok {
			if s, ok := e.bind[par]; ok && (s == elemV || s == elemVS) {
				return s
			}
		}
		return "_"
	}
	if nt := namedOf(v.Type()); nt != nil && nt.Obj().Name() == "Encoder" {
		return "_"
	}
	switch x := v.(type) {
	case *ssa.Parameter:
		if s, ok := e.bind[x]; ok {
			return s
		}
		return "param:" + x.Name()
	case *ssa.Const:
		if x.Value == nil {
			return "nil"
		}
		if x.Value.Kind() == constant.String {
			return fmt.Sprintf("%q", constant.StringVal(x.Value))
		}
		return x.Value.ExactString()
	case *ssa.Convert:
		return types.TypeString(x.Type(), shortQual) + "(" + e.canon(x.X, depth+1) + ")"
	case *ssa.ChangeType:
		return e.canon(x.X, depth+1)
	case *ssa.MakeInterface:
		return e.canon(x.X, depth+1)
	case *ssa.Slice:
		b := e.canon(x.X, depth+1)
		if b == elemVS {
			return elemVS
		}
		return b + "[:]"
	case *ssa.UnOp:
		if x.Op == token.MUL {
			if ia, ok := x.X.(*ssa.IndexAddr); ok {
				if e.canon(ia.X, depth+1) == elemVS {
					return elemV
				}
			}
			if g, ok := x.X.(*ssa.Global); ok {
				return "global:" + g.Name()
			}
			// a value spilled to a local (address taken): its single initialising store
			if al, ok := x.X.(*ssa.Alloc); ok {
				if init := allocInit(al); init != nil {
					return e.canon(init, depth+1)
				}
			}
			return "*" + e.canon(x.X, depth+1)
		}
		return x.Op.String() + e.canon(x.X, depth+1)
	case *ssa.Index:
		if e.canon(x.X, depth+1) == elemVS {
			return elemV
		}
	case *ssa.Extract:
		// range over a slice yields (ok, k, v) only for strings/maps; slices are index loops
		return e.canon(x.Tuple, depth+1) + "#" + itoa(x.Index)
	case *ssa.BinOp:
		l, r := e.canon(x.X, depth+1), e.canon(x.Y, depth+1)
		if (x.Op == token.QUO || x.Op == token.MUL) && r == "1" {
			return l
		}
		if x.Op == token.MUL && l == "1" {
			return r
		}
		return "(" + l + " " + x.Op.String() + " " + r + ")"
	case *ssa.Phi:
		// an element taken either from vals[0] or from the loop: all edges must agree
		set := map[string]bool{}
		for _, ed := range x.Edges {
			set[e.canon(ed, depth+1)] = true
		}
		if len(set) == 1 {
			for k := range set {
				return k
			}
		}
	case *ssa.Call:
		return e.canonCall(&x.Call, depth+1)
	}
	return descr(v)
}

func (e *elemEnv) canonCall(c *ssa.CallCommon, depth int) string {
	var args []string
	for _, a := range c.Args {
		args = append(args, e.canon(a, depth+1))
	}
	name := ""
	if c.IsInvoke() {
		name = "(" + e.canon(c.Value, depth+1) + ")." + c.Method.Name()
	} else if sc := staticCallee(c); sc != nil {
		// thin module wrappers are inlined
		if InModule(sc) && len(sc.Blocks) == 1 {
			if ret, ok := sc.Blocks[0].Instrs[len(sc.Blocks[0].Instrs)-1].(*ssa.Return); ok && len(ret.Results) == 1 {
				sub := &elemEnv{p: e.p, bind: map[*ssa.Parameter]string{}}
				for i, par := range sc.Params {
					if i < len(args) {
						sub.bind[par] = args[i]
					}
				}
				return sub.canon(ret.Results[0], depth+1)
			}
		}
		if o := sc.Object(); o != nil {
			if InModule(sc) {
				name = "fn:" + o.Name()
			} else {
				name = funcFullName(o.(*types.Func))
			}
		} else {
			name = sc.Name()
		}
	} else if b := builtinName(c); b != "" {
		name = b
	} else {
		name = "dyn:" + e.canon(c.Value, depth+1)
	}
	return name + "(" + strings.Join(args, ",") + ")"
}

// formatKey: the string constant the block is reached under (switch case), or "default".
func (e *elemEnv) formatKey(b *ssa.BasicBlock) string {
	// a boolean setting (useInt) that selects the rendering: "P4=true" / "P4=false"
	for d := b.Idom(); d != nil; d = d.Idom() {
		iff, ok := d.Instrs[len(d.Instrs)-1].(*ssa.If)
		if !ok || d.Succs[0] == d.Succs[1] {
			continue
		}
		cond, pol := iff.Cond, true
		if u, isU := cond.(*ssa.UnOp); isU && u.Op == token.NOT {
			cond, pol = u.X, false
		}
		par, isPar := cond.(*ssa.Parameter)
		if !isPar {
			continue
		}
		name, bound := e.bind[par]
		if !bound || !strings.HasPrefix(name, "P") {
			continue
		}
		for si, t := range d.Succs {
			if len(t.Preds) == 1 && (t == b || t.Dominates(b)) {
				return name + "=" + boolStr((si == 0) == pol)
			}
		}
		// reached only by falling through the other arm's return: the complementary value
		for si, t := range d.Succs {
			other := d.Succs[1-si]
			if len(other.Preds) == 1 && !(other == b || other.Dominates(b)) && endsInReturnOnly(other) && (t == b || t.Dominates(b) || true) {
				return name + "=" + boolStr((si == 0) == pol)
			}
		}
	}
	for d := b.Idom(); d != nil; d = d.Idom() {
		iff, ok := d.Instrs[len(d.Instrs)-1].(*ssa.If)
		if !ok {
			continue
		}
		bo, ok := iff.Cond.(*ssa.BinOp)
		if !ok || bo.Op != token.EQL {
			continue
		}
		var s string
		if cs, ok := constString(bo.Y); ok {
			s = cs
		} else if cs, ok := constString(bo.X); ok {
			s = cs
		} else {
			continue
		}
		t := d.Succs[0]
		if t != d.Succs[1] && len(t.Preds) == 1 && (t == b || t.Dominates(b)) {
			return fmt.Sprintf("%q", s)
		}
	}
	return "default"
}

// render: format case -> rendering calls over V.
func (e *elemEnv) render(f *ssa.Function, depth int, out map[string]map[string]bool, outerKey string) {
	if depth > 4 {
		return
	}
	add := func(k, s string) {
		if out[k] == nil {
			out[k] = map[string]bool{}
		}
		out[k][s] = true
	}
	eachInstr(f, func(b *ssa.BasicBlock, i int, in ssa.Instruction) {
		c, ok := in.(*ssa.Call)
		if !ok || builtinName(&c.Call) != "" {
			return
		}
		if !isByteSlice(c.Type()) {
			return
		}
		var args []string
		hasV, hasVS := false, false
		if c.Call.IsInvoke() {
			if strings.Contains(e.canon(c.Call.Value, 0), elemV) {
				hasV = true
			}
		}
		for _, a := range c.Call.Args {
			s := e.canon(a, 0)
			args = append(args, s)
			if s == elemVS {
				hasVS = true
			} else if strings.Contains(s, elemV) {
				hasV = true
			}
		}
		if !hasV && !hasVS {
			return
		}
		key := e.formatKey(b)
		if key == "default" {
			key = outerKey
		}
		sc := staticCallee(&c.Call)
		if sc != nil && InModule(sc) && sc != f && (hasVS || len(sc.Blocks) == 1) && sc.Blocks != nil {
			sub := &elemEnv{p: e.p, bind: map[*ssa.Parameter]string{}}
			for i, par := range sc.Params {
				if i < len(args) {
					sub.bind[par] = args[i]
				}
			}
			sub.render(sc, depth+1, out, key)
			return
		}
		add(key, e.canonCall(&c.Call, 0))
	})
}

func renderTable(m map[string]map[string]bool) string {
	var ks []string
	for k := range m {
		ks = append(ks, k)
	}
	sort.Strings(ks)
	var parts []string
	for _, k := range ks {
		vs := keysOf(m[k])
		sort.Strings(vs)
		parts = append(parts, k+": "+strings.Join(vs, " | "))
	}
	return strings.Join(parts, "; ")
}

func ruleElemAgreement(r *Run, p *Prog) { ruleElemAgreementIn(r, p, "internal/json", 15) }

// ruleElemAgreementIn: scalar/slice sibling agreement of the Encoder of package rel.
func ruleElemAgreementIn(r *Run, p *Prog, rel string, floor int) {
	enc := p.NamedType(rel, "Encoder")
	if !r.Anchor(enc != nil, "ELEM", rel+".Encoder") {
		return
	}
	methods := p.Methods(rel, "Encoder", true)
	byName := map[string]*ssa.Function{}
	for _, m := range methods {
		byName[m.Name()] = m
	}
	n := 0
	for _, s := range methods {
		if !strings.HasPrefix(s.Name(), "Append") || len(s.Params) < 3 {
			continue
		}
		st, ok := s.Params[2].Type().Underlying().(*typesSlice)
		if !ok || isByteSlice(s.Params[2].Type()) {
			continue
		}
		// the scalar sibling: same name with one 's' removed, value of the element type, same settings
		var sib *ssa.Function
		for i := len("Append"); i < len(s.Name()); i++ {
			if s.Name()[i] != 's' {
				continue
			}
			cand := byName[s.Name()[:i]+s.Name()[i+1:]]
			if cand == nil || len(cand.Params) != len(s.Params) || !types.Identical(cand.Params[2].Type(), st.Elem()) {
				continue
			}
			same := true
			for k := 3; k < len(s.Params); k++ {
				if !types.Identical(cand.Params[k].Type(), s.Params[k].Type()) {
					same = false
				}
			}
			if same {
				sib = cand
			}
		}
		if sib == nil {
			// unique by signature
			var cs []*ssa.Function
			for _, cand := range methods {
				if cand != s && len(cand.Params) == len(s.Params) && types.Identical(cand.Params[2].Type(), st.Elem()) {
					cs = append(cs, cand)
				}
			}
			if len(cs) == 1 {
				sib = cs[0]
			}
		}
		if !r.Anchor(sib != nil, "ELEM", "scalar sibling of "+FnName(s)) {
			continue
		}
		n++
		bindOf := func(f *ssa.Function, val string) *elemEnv {
			e := &elemEnv{p: p, bind: map[*ssa.Parameter]string{}}
			for i, par := range f.Params {
				switch {
				case i == 2:
					e.bind[par] = val
				case i > 2:
					e.bind[par] = "P" + itoa(i)
				}
			}
			return e
		}
		rs := map[string]map[string]bool{}
		bindOf(s, elemVS).render(s, 0, rs, "default")
		// delegation to the sibling on every element?
		var pargs []string
		pargs = append(pargs, "_", "_", elemV)
		for k := 3; k < len(s.Params); k++ {
			pargs = append(pargs, "P"+itoa(k))
		}
		self := "fn:" + sib.Name() + "(" + strings.Join(pargs, ",") + ")"
		deleg := len(rs) > 0
		for _, set := range rs {
			for k := range set {
				if k != self {
					deleg = false
				}
			}
		}
		if len(rs) == 0 {
			r.Ob("ELEM", FnName(s)+"/element", p.Pos(s.Pos()), false, true, "no call renders an element of the slice: elements are not encoded by this appender")
			continue
		}
		if deleg {
			r.Ob("ELEM", FnName(s)+"/element", p.Pos(s.Pos()), true, true, "every element is rendered by the scalar sibling "+sib.Name()+" with the same settings")
			continue
		}
		rx := map[string]map[string]bool{}
		bindOf(sib, elemV).render(sib, 0, rx, "default")
		a, b := renderTable(rs), renderTable(rx)
		ok = a == b
		r.Ob("ELEM", FnName(s)+"/element", p.Pos(s.Pos()), ok, true, tern(ok, "elements rendered as in "+sib.Name()+": "+a,
			fmt.Sprintf("%s renders an element as {%s} but %s renders the same value as {%s}: the slice variant and the scalar entry point encode the same (type, value) differently", s.Name(), a, sib.Name(), b)))
	}
	if n < floor {
		r.Fail("ELEM", "floor", "-", fmt.Sprintf("only %d scalar/slice appender pairs found in %s", n, rel))
	}
}

// endsInReturnOnly: every path from b reaches a return without leaving through other code
// (a guard arm such as `if !useInt { return … }`).
func endsInReturnOnly(b *ssa.BasicBlock) bool {
	seen := map[*ssa.BasicBlock]bool{}
	var walk func(x *ssa.BasicBlock) bool
	walk = func(x *ssa.BasicBlock) bool {
		if seen[x] {
			return true
		}
		seen[x] = true
		if len(x.Succs) == 0 {
			_, isRet := x.Instrs[len(x.Instrs)-1].(*ssa.Return)
			return isRet
		}
		for _, s := range x.Succs {
			if !walk(s) {
				return false
			}
		}
		return true
	}
	return walk(b)
}

// ruleFloatRendering (C02): a float is rendered by strconv's float formatter (or the NaN/Inf
// literals): routing it through an integer conversion (`strconv.AppendInt(dst, int64(v), 10)` as a
// fast path for integral values) loses the sign of -0 and, beyond 2^53, digits.
func ruleFloatRendering(r *Run, p *Prog) {
	n := 0
	for _, f := range p.RootViews([]string{"internal/json"}, "", nil) {
		hasFloat := false
		for _, par := range f.Params {
			if isFloatType(par.Type()) {
				hasFloat = true
			}
			if sl, ok := par.Type().Underlying().(*types.Slice); ok && isFloatType(sl.Elem()) {
				hasFloat = true
			}
		}
		if !hasFloat {
			continue
		}
		n++
		bad := ""
		var pos token.Pos = f.Pos()
		eachInstr(f, func(b *ssa.BasicBlock, i int, in ssa.Instruction) {
			c, ok := in.(*ssa.Call)
			if !ok {
				return
			}
			name := calleeFull(&c.Call)
			switch name {
			case "strconv.AppendInt", "strconv.AppendUint", "strconv.Itoa", "strconv.FormatInt", "strconv.FormatUint":
			default:
				return
			}
			for _, a := range c.Call.Args {
				v := a
				for depth := 0; depth < 4; depth++ {
					cv, ok := v.(*ssa.Convert)
					if !ok {
						break
					}
					if isFloatType(cv.X.Type()) {
						bad = name + "(" + descr(a) + ")"
						pos = c.Pos()
					}
					v = cv.X
				}
			}
		})
		r.Ob("ELEM", originFnName(f, f.Blocks[0].Instrs[0])+"/float-via-strconv-float", p.Pos(pos), bad == "", true, tern(bad == "", "floats are rendered by the float formatter only", "a float is rendered through an integer conversion ("+bad+"): -0.0 comes out as 0 (and large magnitudes lose digits), so the value read back is not the value logged"))
	}
	if n == 0 {
		r.Fail("ELEM", "float-functions", "-", "no float-rendering function found in internal/json")
	}
}

// ruleRawCBORAlphabet (C02): the JSON build renders RawCBOR as a data URL in standard base64.
func ruleRawCBORAlphabet(r *Run, p *Prog) {
	f := p.Func("", "appendCBOR")
	if !r.Anchor(f != nil, "ELEM", "appendCBOR (JSON build)") {
		return
	}
	vars := map[string]bool{}
	eachInstr(p.View(f, "", nil), func(b *ssa.BasicBlock, i int, in ssa.Instruction) {
		for _, op := range in.Operands(nil) {
			if gl, ok := (*op).(*ssa.Global); ok && gl.Pkg != nil && gl.Pkg.Pkg.Path() == "encoding/base64" {
				vars[gl.Name()] = true
			}
		}
	})
	ok := len(vars) == 1 && vars["StdEncoding"]
	r.Ob("ELEM", "appendCBOR/base64-alphabet", p.Pos(f.Pos()), ok, true, tern(ok, "RawCBOR is rendered with base64.StdEncoding (the documented data:application/cbor;base64 form)", fmt.Sprintf("RawCBOR is rendered with base64.%v instead of the standard alphabet: the documented text form does not decode back to the logged bytes", keysOf(vars))))
}

// ruleNetText: the documented text form of IP addresses, prefixes and MAC addresses is the net
// package's own String(): every value the JSON appenders of these types hand to the string
// appender is `<parameter>.String()` — a hand-written fast path ("address/ones") is right for the
// common representations and wrong for a rare one (an IPv4-mapped prefix with a 16-byte mask).
func ruleNetText(r *Run, p *Prog) {
	as := p.Method("internal/json", "Encoder", "AppendString")
	for _, nm := range []string{"AppendIPAddr", "AppendIPPrefix", "AppendMACAddr"} {
		f := p.Method("internal/json", "Encoder", nm)
		if !r.Anchor(f != nil && as != nil, "ELEM", "json.Encoder."+nm) {
			continue
		}
		v := p.View(f, "keep-AppendString", func(g *ssa.Function) bool { return g == as })
		if len(v.Params) < 3 {
			continue
		}
		val := v.Params[2]
		n, okAll, why := 0, true, ""
		eachInstr(v, func(b *ssa.BasicBlock, i int, in ssa.Instruction) {
			c, ok := in.(*ssa.Call)
			if !ok {
				return
			}
			isText := staticCallee(&c.Call) == as
			if bn := builtinName(&c.Call); bn == "append" && isByteSlice(c.Type()) {
				// any other way of writing text (constant quotes aside) is a hand-made rendering
				spread, elems := appendElems(c)
				if spread != nil {
					if _, isConst := constString(spread); !isConst {
						okAll, why = false, "appends "+descr(spread)+" itself"
					}
				}
				for _, e := range elems {
					if e != nil {
						if _, isC := constInt(e); !isC {
							okAll, why = false, "appends "+descr(e)+" itself"
						}
					}
				}
				return
			}
			if !isText || len(c.Call.Args) < 3 {
				return
			}
			n++
			sc, ok := c.Call.Args[2].(*ssa.Call)
			good := false
			if ok {
				if o := calleeObj(&sc.Call); o != nil && o.Name() == "String" && o.Pkg() != nil && o.Pkg().Path() == "net" && len(sc.Call.Args) == 1 {
					recv := sc.Call.Args[0]
					// value receivers are spilled: (&local).String() with local = the parameter
					if recv == ssa.Value(val) {
						good = true
					} else if al, isAl := recv.(*ssa.Alloc); isAl {
						for _, ref := range referrersOf(al) {
							if st, ok := ref.(*ssa.Store); ok && st.Addr == ssa.Value(al) && st.Val == ssa.Value(val) {
								good = true
							}
						}
					}
				}
			}
			if !good {
				okAll, why = false, "renders "+descr(c.Call.Args[2])
			}
		})
		// … on every path: a fast path that formats the address some other way (netip's AppendTo
		// prints an IPv4-mapped address as ::ffff:a.b.c.d) is a second rendering of the same value
		if skip, _ := pathExists(v, nil, isReturn, func(x ssa.Instruction) bool {
			c, ok := x.(*ssa.Call)
			return ok && staticCallee(&c.Call) == as
		}, nil); skip && okAll {
			okAll, why = false, "has a path that does not render through AppendString(value.String())"
		}
		okc := okAll && n > 0
		r.Ob("ELEM", FnName(f)+"/net-text", p.Pos(f.Pos()), okc, true, tern(okc, "rendered as the net package's String() of the value", nm+" "+why+" instead of the value's own String(): some representations of the same address/prefix are rendered in another text form than the documented one"))
	}
}
