package main

// A17 — panic/recover discipline of the CBOR decoder; A23 — input-derived sizes and indices.

import (
	"fmt"
	"go/constant"
	"go/token"
	"go/types"
	"sort"
	"strings"

	"golang.org/x/tools/go/ssa"
)

const cborRel = "internal/cbor"

// hasRecover: the function contains a call to the recover builtin.
func hasRecover(f *ssa.Function) bool {
	found := false
	eachInstr(f, func(b *ssa.BasicBlock, i int, in ssa.Instruction) {
		if c, ok := in.(*ssa.Call); ok && builtinName(&c.Call) == "recover" {
			found = true
		}
	})
	return found
}

func ruleA17(r *Run, p *Prog) {
	var fns []*ssa.Function
	for _, f := range p.ModFns {
		if pkgRel(f) == cborRel {
			fns = append(fns, f)
		}
	}
	if !r.Anchor(len(fns) > 30, "A17", "functions of internal/cbor") {
		return
	}
	// (a) every panic carries an error
	nPanic := 0
	for _, f := range fns {
		inHandler := hasRecover(f)
		eachInstr(f, func(b *ssa.BasicBlock, i int, in ssa.Instruction) {
			pn, ok := in.(*ssa.Panic)
			if !ok {
				return
			}
			nPanic++
			if inHandler {
				// the handler's own re-raise of runtime errors: allowed (A23 makes it unreachable)
				r.Ob("A17a", FnName(f)+"/re-raise", p.Pos(pn.Pos()), true, false, "re-raise inside the recover handler")
				return
			}
			v := pn.X
			for {
				switch x := v.(type) {
				case *ssa.MakeInterface:
					v = x.X
					continue
				case *ssa.ChangeInterface:
					v = x.X
					continue
				}
				break
			}
			ok = isErrorType(v.Type()) || types.Implements(v.Type(), errorIface())
			r.Ob("A17a", FnName(f)+"/panic", p.Pos(pn.Pos()), ok, true, tern(ok, "panic carries an error (recovered and returned by the entry point)", "panic carries a "+types.TypeString(v.Type(), shortQual)+", not an error: the recover handler's r.(error) assertion turns this malformed-input report into a runtime panic"))
		})
	}
	r.Count("a17_panic_sites", nPanic)
	// which functions can reach a panic (package-internal static calls)
	mayPanic := map[*ssa.Function]bool{}
	changed := true
	for changed {
		changed = false
		for _, f := range fns {
			if mayPanic[f] {
				continue
			}
			eachInstr(f, func(b *ssa.BasicBlock, i int, in ssa.Instruction) {
				if _, ok := in.(*ssa.Panic); ok && !hasRecover(f) {
					mayPanic[f] = true
				}
				if cc := callCommon(in); cc != nil {
					if sc := staticCallee(cc); sc != nil && mayPanic[sc] && !protectedCall(f, in) {
						mayPanic[f] = true
					}
				}
			})
			if mayPanic[f] {
				changed = true
			}
		}
	}
	// (b) every decoder function reachable from the module's public surface that can panic is an
	// entry without protection => report
	reach := reachableFromPublicAPI(p)
	for _, f := range fns {
		if f.Parent() != nil || f.Object() == nil || !f.Object().Exported() {
			continue
		}
		if !mayPanicUnprotected(f, mayPanic) {
			if reachesPanic(f, mayPanic) {
				r.Ob("A17b", FnName(f), p.Pos(f.Pos()), true, true, "every call that can panic runs under a deferred recover that dominates it")
			}
			continue
		}
		if !reach[f] {
			r.Ob("A17b", FnName(f)+"/unreachable", p.Pos(f.Pos()), true, false, "lets decoder panics escape but is not reachable from non-test code of the module (test-only entry without recover)")
			continue
		}
		r.Ob("A17b", FnName(f), p.Pos(f.Pos()), false, true, "decoder entry reachable from the library's public surface calls into the panicking decoder without an active deferred recover: malformed input crashes the caller")
	}
}

// reachesPanic: f calls (protected or not) something that may panic
func reachesPanic(f *ssa.Function, mayPanic map[*ssa.Function]bool) bool {
	found := false
	eachInstr(f, func(b *ssa.BasicBlock, i int, in ssa.Instruction) {
		if cc := callCommon(in); cc != nil {
			if sc := staticCallee(cc); sc != nil && (mayPanic[sc] || (InModule(sc) && sc != f && pkgRel(sc) == cborRel && reachesPanicShallow(sc, mayPanic))) {
				found = true
			}
		}
	})
	return found
}

func reachesPanicShallow(f *ssa.Function, mayPanic map[*ssa.Function]bool) bool {
	found := false
	eachInstr(f, func(b *ssa.BasicBlock, i int, in ssa.Instruction) {
		if cc := callCommon(in); cc != nil {
			if sc := staticCallee(cc); sc != nil && mayPanic[sc] {
				found = true
			}
		}
	})
	return found
}

func errorIface() *types.Interface {
	return types.Universe.Lookup("error").Type().Underlying().(*types.Interface)
}

// protectedCall: a defer of a closure containing recover() dominates the instruction.
func protectedCall(f *ssa.Function, at ssa.Instruction) bool {
	ok := false
	eachInstr(f, func(b *ssa.BasicBlock, i int, in ssa.Instruction) {
		d, isD := in.(*ssa.Defer)
		if !isD {
			return
		}
		var cf *ssa.Function
		switch x := d.Call.Value.(type) {
		case *ssa.MakeClosure:
			cf, _ = x.Fn.(*ssa.Function)
		case *ssa.Function:
			cf = x
		}
		if cf == nil || !hasRecover(cf) {
			return
		}
		// every path from entry to `at` passes the defer
		if unprotected, _ := pathExists(f, nil, func(x ssa.Instruction) bool { return x == at }, func(x ssa.Instruction) bool { return x == ssa.Instruction(d) }, nil); !unprotected {
			ok = true
		}
	})
	return ok
}

func mayPanicUnprotected(f *ssa.Function, mayPanic map[*ssa.Function]bool) bool {
	bad := false
	eachInstr(f, func(b *ssa.BasicBlock, i int, in ssa.Instruction) {
		if _, ok := in.(*ssa.Panic); ok && !hasRecover(f) && !protectedCall(f, in) {
			bad = true
		}
		if cc := callCommon(in); cc != nil {
			if sc := staticCallee(cc); sc != nil && mayPanic[sc] && !protectedCall(f, in) {
				bad = true
			}
		}
	})
	return bad
}

// reachableFromPublicAPI: functions reachable (static calls + VTA) from exported functions and
// methods of the module's non-internal, non-main packages and from package initialisers.
func reachableFromPublicAPI(p *Prog) map[*ssa.Function]bool {
	cg := p.CG()
	reach := map[*ssa.Function]bool{}
	var work []*ssa.Function
	for _, f := range p.ModFns {
		if f.Parent() != nil || f.Pkg == nil {
			continue
		}
		path := f.Pkg.Pkg.Path()
		if strings.Contains(path, "/internal/") || strings.HasSuffix(path, "/internal") {
			continue
		}
		if f.Pkg.Pkg.Name() == "main" && f.Name() != "main" && f.Name() != "init" {
			continue
		}
		if f.Name() == "init" || f.Name() == "main" || isUserEntry(f) {
			work = append(work, f)
		}
	}
	for len(work) > 0 {
		f := work[len(work)-1]
		work = work[:len(work)-1]
		if reach[f] {
			continue
		}
		reach[f] = true
		for _, an := range f.AnonFuncs {
			work = append(work, an)
		}
		if n := cg.Nodes[f]; n != nil {
			for _, e := range n.Out {
				if InModule(e.Callee.Func) && !reach[e.Callee.Func] {
					work = append(work, e.Callee.Func)
				}
			}
		}
	}
	return reach
}

// ---------------- A23 ----------------

type a23 struct {
	p        *Prog
	fns      []*ssa.Function
	retTaint map[*ssa.Function]bool // returns input-derived data
	taint    map[ssa.Value]bool
}

// sources: bytes read from the input
func isInputRead(c *ssa.CallCommon) bool {
	for _, n := range []string{"(*bufio.Reader).ReadByte", "(*bufio.Reader).Peek", "(*bufio.Reader).ReadRune", "(*bufio.Reader).Read", "io.ReadFull", "io.ReadAll"} {
		if isCallTo(c, n) {
			return true
		}
	}
	return false
}

func (a *a23) compute() {
	a.taint = map[ssa.Value]bool{}
	a.retTaint = map[*ssa.Function]bool{}
	// parameters of package functions that receive raw input: []byte / string parameters of exported decode functions
	changed := true
	iter := 0
	for changed && iter < 50 {
		changed = false
		iter++
		for _, f := range a.fns {
			eachInstr(f, func(b *ssa.BasicBlock, i int, in ssa.Instruction) {
				v, ok := in.(ssa.Value)
				if !ok || a.taint[v] {
					return
				}
				t := false
				switch x := in.(type) {
				case *ssa.Call:
					if isInputRead(&x.Call) {
						t = true
					} else if bn := builtinName(&x.Call); bn != "" {
						switch bn {
						case "len", "cap":
							t = false // the amount of data actually present is not attacker-chosen beyond the input size
						case "append", "min", "max":
							for _, arg := range x.Call.Args {
								if a.taint[arg] {
									t = true
								}
							}
						}
					} else if sc := staticCallee(&x.Call); sc != nil && a.retTaint[sc] {
						t = true
					} else if sc != nil && !InModule(sc) && sc.Pkg != nil && sc.Pkg.Pkg.Path() == "unicode/utf8" {
						// rune width / validity: structurally bounded (0..4), not an attacker-chosen magnitude
						t = false
					} else if sc != nil && !InModule(sc) {
						// results of library calls on tainted data stay tainted (EncodedLen(n), buf.Bytes(), string ops…)
						rt := x.Type()
						if tup, ok := rt.(*types.Tuple); ok && tup.Len() > 0 {
							rt = tup.At(0).Type()
						}
						if isIntLike(rt) || isByteSlice(rt) || isStringType(rt) {
							for _, arg := range x.Call.Args {
								if a.taint[arg] {
									t = true
								}
							}
						}
					}
				case *ssa.Extract:
					t = a.taint[x.Tuple]
				case *ssa.BinOp:
					t = a.taint[x.X] || a.taint[x.Y]
					switch x.Op {
					case token.EQL, token.NEQ, token.LSS, token.LEQ, token.GTR, token.GEQ:
						t = false
					}
				case *ssa.UnOp:
					if x.Op == token.MUL {
						// load: element of a tainted slice / tainted local
						switch y := x.X.(type) {
						case *ssa.IndexAddr:
							t = a.taint[y.X]
						case *ssa.Alloc:
							t = a.taint[y]
						}
					} else {
						t = a.taint[x.X]
					}
				case *ssa.Convert:
					t = a.taint[x.X]
				case *ssa.ChangeType:
					t = a.taint[x.X]
				case *ssa.Phi:
					for _, e := range x.Edges {
						if a.taint[e] {
							t = true
						}
					}
				case *ssa.Slice:
					t = a.taint[x.X]
				case *ssa.Index:
					t = a.taint[x.X]
				case *ssa.Lookup:
					t = a.taint[x.X]
				case *ssa.MakeInterface:
					t = a.taint[x.X]
				}
				if t {
					a.taint[v] = true
					changed = true
				}
			})
			// stores into locals / slices propagate to the container
			eachInstr(f, func(b *ssa.BasicBlock, i int, in ssa.Instruction) {
				st, ok := in.(*ssa.Store)
				if !ok || !a.taint[st.Val] {
					return
				}
				var cont ssa.Value
				switch y := st.Addr.(type) {
				case *ssa.Alloc:
					cont = y
				case *ssa.IndexAddr:
					cont = y.X
				}
				if cont != nil && !a.taint[cont] {
					a.taint[cont] = true
					changed = true
				}
			})
			// a local buffer handed to a library call together with a reader is filled from the input;
			// arguments of package-internal calls taint the callee's parameters
			eachInstr(f, func(b *ssa.BasicBlock, i int, in ssa.Instruction) {
				cc := callCommon(in)
				if cc == nil {
					return
				}
				sc := staticCallee(cc)
				if sc != nil && !InModule(sc) {
					hasReader := false
					for _, arg := range cc.Args {
						if typeIs(arg.Type(), "bufio", "Reader") || typeIs(arg.Type(), "io", "Reader") || a.taint[arg] && isInterfaceReader(arg.Type()) {
							hasReader = true
						}
					}
					if hasReader {
						for _, arg := range cc.Args {
							v := arg
							if mi, ok := v.(*ssa.MakeInterface); ok {
								v = mi.X
							}
							if al, ok := v.(*ssa.Alloc); ok && !a.taint[al] {
								a.taint[al] = true
								changed = true
							}
						}
					}
				}
				if sc != nil && InModule(sc) && pkgRel(sc) == cborRel && !cc.IsInvoke() {
					for i, arg := range cc.Args {
						if i < len(sc.Params) && a.taint[arg] && !a.taint[sc.Params[i]] {
							a.taint[sc.Params[i]] = true
							changed = true
						}
					}
				}
			})
			// return taint
			if !a.retTaint[f] {
				eachInstr(f, func(b *ssa.BasicBlock, i int, in ssa.Instruction) {
					if ret, ok := in.(*ssa.Return); ok {
						for _, res := range ret.Results {
							if a.taint[res] {
								a.retTaint[f] = true
								changed = true
							}
						}
					}
				})
			}
		}
	}
}

func isIntLike(t types.Type) bool {
	b, ok := t.Underlying().(*types.Basic)
	return ok && b.Info()&types.IsInteger != 0
}

// interval of simple byte-derived expressions
func intervalOf(v ssa.Value, depth int) (lo, hi int64, ok bool) {
	if depth > 6 {
		return 0, 0, false
	}
	if n, isC := constInt(v); isC {
		return n, n, true
	}
	switch x := v.(type) {
	case *ssa.Convert:
		l, h, ok := intervalOf(x.X, depth+1)
		if ok {
			// narrowing conversions can wrap: only accept if the range fits the target
			if tl, th, okT := typeRange(x.Type()); okT && l >= tl && h <= th {
				return l, h, true
			}
			return 0, 0, false
		}
		return typeRangeOK(x.X.Type(), x.Type())
	case *ssa.BinOp:
		l1, h1, ok1 := intervalOf(x.X, depth+1)
		l2, h2, ok2 := intervalOf(x.Y, depth+1)
		switch x.Op {
		case token.SHR:
			if ok1 && ok2 && l2 == h2 && l1 >= 0 && l2 >= 0 && l2 < 63 {
				return l1 >> uint(l2), h1 >> uint(l2), true
			}
		case token.AND:
			if ok2 && l2 == h2 && l2 >= 0 {
				return 0, l2, true
			}
			if ok1 && l1 == h1 && l1 >= 0 {
				return 0, l1, true
			}
		case token.REM:
			if ok2 && l2 == h2 && l2 > 0 && ok1 && l1 >= 0 {
				return 0, l2 - 1, true
			}
		}
		return 0, 0, false
	}
	if l, h, ok := typeRange(v.Type()); ok && h <= 0xffff {
		return l, h, true
	}
	return 0, 0, false
}

func typeRange(t types.Type) (int64, int64, bool) {
	b, ok := t.Underlying().(*types.Basic)
	if !ok {
		return 0, 0, false
	}
	switch b.Kind() {
	case types.Uint8:
		return 0, 255, true
	case types.Int8:
		return -128, 127, true
	case types.Uint16:
		return 0, 65535, true
	case types.Int16:
		return -32768, 32767, true
	case types.Int32:
		return -1 << 31, 1<<31 - 1, true
	case types.Uint32:
		return 0, 1<<32 - 1, true
	case types.Int, types.Int64:
		return -1 << 63, 1<<63 - 1, true
	}
	return 0, 0, false
}

func typeRangeOK(from, to types.Type) (int64, int64, bool) {
	l, h, ok := typeRange(from)
	if !ok {
		return 0, 0, false
	}
	tl, th, ok := typeRange(to)
	if !ok || l < tl || h > th {
		return 0, 0, false
	}
	return l, h, true
}

func ruleA23(r *Run, p *Prog) {
	a := &a23{p: p}
	for _, f := range p.ModFns {
		if pkgRel(f) == cborRel {
			a.fns = append(a.fns, f)
		}
	}
	a.compute()
	nTaint := 0
	for range a.taint {
		nTaint++
	}
	r.Count("a23_tainted_values_"+p.Spec.Name, nTaint)
	var rt []string
	for f := range a.retTaint {
		rt = append(rt, f.Name())
	}
	sort.Strings(rt)
	r.Extra["a23_functions_returning_input_derived_data"] = rt
	if len(rt) < 8 {
		r.Fail("A23", "taint-floor", "-", fmt.Sprintf("only %d decoder functions return input-derived data (≥ 10 on the pinned tree): taint sources not recognised", len(rt)))
	}
	extInts := map[string]bool{}
	for _, f := range a.fns {
		eachInstr(f, func(b *ssa.BasicBlock, i int, in ssa.Instruction) {
			switch x := in.(type) {
			case *ssa.MakeSlice:
				for _, sz := range []ssa.Value{x.Len, x.Cap} {
					if sz != nil && a.taint[sz] {
						ok := a.sanitised(f, in, sz, nil)
						r.Ob("A23", FnName(f)+"/make", p.Pos(x.Pos()), ok, true, tern(ok, "allocation size is input-derived but range-checked", "make() is sized by an integer read from the input ("+descr(sz)+") without a range check tied to the bytes actually present: a negative value is a runtime panic, a large one allocates out of proportion to the input"))
					}
				}
			case *ssa.Slice:
				for _, bnd := range []ssa.Value{x.Low, x.High, x.Max} {
					if bnd != nil && a.taint[bnd] {
						ok := a.sanitised(f, in, bnd, x.X)
						r.Ob("A23", FnName(f)+"/slice-bound", p.Pos(x.Pos()), ok, true, tern(ok, "slice bound is input-derived but range-checked", "slice bound "+descr(bnd)+" is derived from the input and not range-checked: out-of-range slicing is a runtime panic"))
					}
				}
			case *ssa.IndexAddr:
				if k, isC := constInt(x.Index); isC {
					if _, isSlice := x.X.Type().Underlying().(*types.Slice); isSlice && (a.taint[x.X] || isParamValue(x.X)) {
						ok := constIndexGuarded(f, in, x.X, x.Index) || a.lengthKnown(f, in, x.X, k)
						r.Ob("A23", FnName(f)+"/const-index", p.Pos(x.Pos()), ok, true, tern(ok, "constant index into input data is covered by a length check / a successful fixed-size read", "element "+itoa(int(k))+" of input data "+descr(x.X)+" is read without a dominating length check: a short or empty input is an index-out-of-range runtime panic"))
					}
				}
				if a.taint[x.Index] {
					ok := a.indexSafe(f, in, x.Index, x.X)
					r.Ob("A23", FnName(f)+"/index", p.Pos(x.Pos()), ok, true, tern(ok, "input-derived index provably inside the indexed object", "index "+descr(x.Index)+" is derived from the input and not provably inside "+descr(x.X)))
				}
			case *ssa.Index:
				if a.taint[x.Index] {
					ok := a.indexSafe(f, in, x.Index, x.X)
					r.Ob("A23", FnName(f)+"/index", p.Pos(x.Pos()), ok, true, tern(ok, "input-derived index provably inside the indexed object", "index "+descr(x.Index)+" is derived from the input and not provably inside "+descr(x.X)))
				}
			case *ssa.Lookup:
				if _, isStr := x.X.Type().Underlying().(*types.Basic); isStr && a.taint[x.Index] {
					ok := a.indexSafe(f, in, x.Index, x.X)
					r.Ob("A23", FnName(f)+"/index", p.Pos(x.Pos()), ok, true, tern(ok, "input-derived index provably inside the indexed string", "index "+descr(x.Index)+" is derived from the input and not provably inside "+descr(x.X)))
				}
			case *ssa.BinOp:
				if (x.Op == token.QUO || x.Op == token.REM) && isIntLike(x.Type()) && a.taint[x.Y] {
					r.Ob("A23", FnName(f)+"/divisor", p.Pos(x.Pos()), false, true, "integer division by an input-derived value")
				}
			case *ssa.TypeAssert:
				if !x.CommaOk && !hasRecover(f) {
					r.Ob("A23", FnName(f)+"/type-assert", p.Pos(x.Pos()), false, true, "unchecked type assertion in the decoder")
				}
			case *ssa.Call:
				if isCallTo(&x.Call, "(*bytes.Buffer).Grow") || isCallTo(&x.Call, "strings.Repeat") || isCallTo(&x.Call, "bytes.Repeat") {
					for _, arg := range x.Call.Args {
						if a.taint[arg] && isIntLike(arg.Type()) {
							r.Ob("A23", FnName(f)+"/grow", p.Pos(x.Pos()), false, true, "buffer growth sized by an input-derived integer")
						}
					}
				}
				if sc := staticCallee(&x.Call); sc != nil && !InModule(sc) {
					for _, arg := range x.Call.Args {
						if a.taint[arg] && isIntLike(arg.Type()) {
							if o := calleeObj(&x.Call); o != nil {
								extInts[o.FullName()] = true
							}
						}
					}
				}
			}
		})
	}
	var ei []string
	for k := range extInts {
		ei = append(ei, k)
	}
	sort.Strings(ei)
	r.Extra["a23_external_callees_receiving_input_derived_integers"] = ei
	// recursion is bounded by the input: every call that closes a recursive cycle is preceded by a consuming read
	a.recursionConsumes(r)
	ruleDecoderTermination(r, p, a)
}

// sanitised: every path to `at` carries a lower and an upper bound on v.
func (a *a23) sanitised(f *ssa.Function, at ssa.Instruction, v ssa.Value, container ssa.Value) bool {
	cs := necessaryCmps(f, at)
	lower := false
	if l, _, ok := typeRange(v.Type()); ok && l >= 0 {
		lower = true
	}
	if l, _, ok := intervalOf(v, 0); ok && l >= 0 {
		lower = true
	}
	upper := false
	for _, c := range cs {
		x, y, op := c.X, c.Y, c.Op
		if sameValue(y, v) {
			x, y, op = y, x, swapOp(op)
		}
		if !sameValue(x, v) {
			continue
		}
		if n, isC := constInt(y); isC {
			if (op == token.GEQ && n >= 0) || (op == token.GTR && n >= -1) {
				lower = true
			}
			if op == token.LSS || op == token.LEQ {
				upper = true
			}
			continue
		}
		if !a.taint[y] && (op == token.LSS || op == token.LEQ) {
			upper = true
		}
	}
	return lower && upper
}

func (a *a23) indexSafe(f *ssa.Function, at ssa.Instruction, idx ssa.Value, cont ssa.Value) bool {
	// constant-length container and a bounded index expression
	n := int64(-1)
	if s, ok := constString(cont); ok {
		n = int64(len(s))
	}
	if c, ok := cont.(*ssa.Const); ok && c.Value != nil && c.Value.Kind() == constant.String {
		n = int64(len(constant.StringVal(c.Value)))
	}
	if arr, ok := derefType(cont.Type()).Underlying().(*types.Array); ok {
		n = arr.Len()
	}
	if lo, hi, ok := intervalOf(idx, 0); ok && n >= 0 && lo >= 0 && hi < n {
		return true
	}
	// explicit guard idx < len(cont)
	cs := necessaryCmps(f, at)
	// idx = x ± c under dominating constant bounds on x (`if m < 24 || m > 27 { panic }; T[m-24]`)
	if n >= 0 {
		if lo, hi, ok := boundsUnder(cs, idx, 0); ok && lo >= 0 && hi < n {
			return true
		}
	}
	lower := false
	if l, _, ok := intervalOf(idx, 0); ok && l >= 0 {
		lower = true
	}
	upper := hasCmp(cs, func(op token.Token, x, y ssa.Value) bool {
		if !sameValue(x, idx) || op != token.LSS {
			return false
		}
		lc, ok := y.(*ssa.Call)
		return ok && builtinName(&lc.Call) == "len" && sameValue(lc.Call.Args[0], cont)
	})
	if hasCmp(cs, func(op token.Token, x, y ssa.Value) bool {
		n, isC := constInt(y)
		return isC && sameValue(x, idx) && ((op == token.GEQ && n >= 0) || (op == token.GTR && n >= -1))
	}) {
		lower = true
	}
	return lower && upper
}

// boundsUnder: the interval of v given the comparisons cs that hold where v is used: the type's or
// expression's own interval (intervalOf) narrowed by constant comparisons on v, and carried
// through `x + c`, `x - c` and value-preserving conversions.
func boundsUnder(cs []Cmp, v ssa.Value, depth int) (lo, hi int64, ok bool) {
	if depth > 4 {
		return 0, 0, false
	}
	lo, hi, ok = intervalOf(v, 0)
	if !ok {
		if l, h, okT := typeRange(v.Type()); okT {
			lo, hi, ok = l, h, true
		}
	}
	switch x := v.(type) {
	case *ssa.Convert:
		if l, h, ok2 := boundsUnder(cs, x.X, depth+1); ok2 {
			if tl, th, okT := typeRange(x.Type()); okT && l >= tl && h <= th {
				if !ok || l > lo {
					lo = l
				}
				if !ok || h < hi {
					hi = h
				}
				ok = true
			}
		}
	case *ssa.BinOp:
		if c, isC := constInt(x.Y); isC && (x.Op == token.ADD || x.Op == token.SUB) {
			if l, h, ok2 := boundsUnder(cs, x.X, depth+1); ok2 {
				if x.Op == token.SUB {
					c = -c
				}
				l, h = l+c, h+c
				// no wrap-around in the expression's own type
				if tl, th, okT := typeRange(x.Type()); okT && l >= tl && h <= th {
					if !ok || l > lo {
						lo = l
					}
					if !ok || h < hi {
						hi = h
					}
					ok = true
				}
			}
		}
	}
	if !ok {
		return 0, 0, false
	}
	for _, c := range cs {
		x, y, op := c.X, c.Y, c.Op
		if sameValue(y, v) {
			x, y, op = y, x, swapOp(op)
		}
		if !sameValue(x, v) {
			continue
		}
		n, isC := constInt(y)
		if !isC {
			continue
		}
		switch op {
		case token.GEQ:
			if n > lo {
				lo = n
			}
		case token.GTR:
			if n+1 > lo {
				lo = n + 1
			}
		case token.LEQ:
			if n < hi {
				hi = n
			}
		case token.LSS:
			if n-1 < hi {
				hi = n - 1
			}
		case token.EQL:
			lo, hi = n, n
		}
	}
	return lo, hi, lo <= hi
}

// recursionConsumes: for every call edge f→g inside a strongly connected component of the
// package call graph, a consuming read dominates the call in f.
func (a *a23) recursionConsumes(r *Run) {
	p := a.p
	callees := map[*ssa.Function]map[*ssa.Function][]ssa.Instruction{}
	inPkg := map[*ssa.Function]bool{}
	for _, f := range a.fns {
		inPkg[f] = true
	}
	for _, f := range a.fns {
		callees[f] = map[*ssa.Function][]ssa.Instruction{}
		eachInstr(f, func(b *ssa.BasicBlock, i int, in ssa.Instruction) {
			if cc := callCommon(in); cc != nil {
				if sc := staticCallee(cc); sc != nil && inPkg[sc] {
					callees[f][sc] = append(callees[f][sc], in)
				}
			}
		})
	}
	reaches := func(from, to *ssa.Function) bool {
		seen := map[*ssa.Function]bool{}
		var st []*ssa.Function
		for g := range callees[from] {
			st = append(st, g)
		}
		for len(st) > 0 {
			g := st[len(st)-1]
			st = st[:len(st)-1]
			if g == to {
				return true
			}
			if seen[g] {
				continue
			}
			seen[g] = true
			for h := range callees[g] {
				st = append(st, h)
			}
		}
		return false
	}
	// helpers that consume input on every path to their return (e.g. "read the head byte and
	// split it") count as consuming reads: least fixpoint over the package's functions
	mustConsume := map[*ssa.Function]bool{}
	consumes := func(in ssa.Instruction) bool {
		cc := callCommon(in)
		if cc == nil {
			return false
		}
		if isCallTo(cc, "(*bufio.Reader).ReadByte") {
			return true
		}
		if sc := staticCallee(cc); sc != nil && inPkg[sc] && (canonFn(sc) == "readByte" || canonFn(sc) == "readNBytes" || mustConsume[sc]) {
			return true
		}
		return false
	}
	for changed := true; changed; {
		changed = false
		for _, g := range a.fns {
			if mustConsume[g] || g.Blocks == nil {
				continue
			}
			escapes, _ := pathExists(g, nil, isReturn, consumes, nil)
			hasRet := false
			eachInstr(g, func(b *ssa.BasicBlock, i int, in ssa.Instruction) {
				if isReturn(in) {
					hasRet = true
				}
			})
			if !escapes && hasRet {
				mustConsume[g] = true
				changed = true
			}
		}
	}
	// edges whose call site is NOT preceded by a consuming read on every path
	free := map[*ssa.Function]map[*ssa.Function]ssa.Instruction{}
	n := 0
	for _, f := range a.fns {
		if !reaches(f, f) {
			continue
		}
		for g, sites := range callees[f] {
			if !reaches(g, f) && g != f {
				continue
			}
			for _, s := range sites {
				n++
				fr, _ := pathExists(f, nil, func(x ssa.Instruction) bool { return x == s }, consumes, nil)
				if fr {
					if free[f] == nil {
						free[f] = map[*ssa.Function]ssa.Instruction{}
					}
					free[f][g] = s
				}
			}
		}
	}
	// a cycle made only of free edges is an unbounded recursion
	var onCycle func(start, cur *ssa.Function, seen map[*ssa.Function]bool) bool
	onCycle = func(start, cur *ssa.Function, seen map[*ssa.Function]bool) bool {
		for g := range free[cur] {
			if g == start {
				return true
			}
			if !seen[g] {
				seen[g] = true
				if onCycle(start, g, seen) {
					return true
				}
			}
		}
		return false
	}
	for _, f := range a.fns {
		if !reaches(f, f) {
			continue
		}
		bad := onCycle(f, f, map[*ssa.Function]bool{})
		r.Ob("A23", FnName(f)+"/recursion", p.Pos(f.Pos()), !bad, true, tern(!bad, "every recursive cycle through this function consumes at least one input byte (nesting depth bounded by input length)", "a recursive cycle through this function consumes no input: unbounded recursion on a crafted stream"))
	}
	if n == 0 {
		r.Note("A23: no recursive cycle found in internal/cbor")
	}
}

func isInterfaceReader(t types.Type) bool {
	it, ok := t.Underlying().(*types.Interface)
	if !ok {
		return false
	}
	for i := 0; i < it.NumMethods(); i++ {
		if it.Method(i).Name() == "Read" {
			return true
		}
	}
	return false
}

func isParamValue(v ssa.Value) bool {
	_, ok := v.(*ssa.Parameter)
	return ok
}

// lengthKnown: x has more than k elements because it is the result of a fixed-size read that
// succeeded: readNBytes(src, n) with constant n > k, or Peek(n) with n > k under err == nil.
func (a *a23) lengthKnown(f *ssa.Function, at ssa.Instruction, x ssa.Value, k int64) bool {
	return a.lengthKnownD(f, at, x, k, 0)
}

func (a *a23) lengthKnownD(f *ssa.Function, at ssa.Instruction, x ssa.Value, k int64, depth int) bool {
	switch c := x.(type) {
	case *ssa.Slice:
		// pb[lo:hi] with constant bounds of a value whose length is known to reach hi
		lo := int64(0)
		if c.Low != nil {
			n, ok := constInt(c.Low)
			if !ok || n < 0 {
				return false
			}
			lo = n
		}
		if depth > 4 {
			return false
		}
		if c.High != nil {
			hi, ok := constInt(c.High)
			if !ok || hi-lo <= k || hi < 1 {
				return false
			}
			return a.lengthKnownD(f, at, c.X, hi-1, depth+1)
		}
		return a.lengthKnownD(f, at, c.X, k+lo, depth+1)
	case *ssa.Parameter:
		// a private helper (`bigEndianUint32(pb)`): every call site in the package hands it a
		// value whose length is known there; the helper is never used as a value
		if depth > 2 || f.Object() == nil || f.Object().Exported() || f.Signature.Recv() != nil {
			return false
		}
		pi := -1
		for i, q := range f.Params {
			if q == c {
				pi = i
			}
		}
		if pi < 0 {
			return false
		}
		sites, ok := 0, true
		for _, g := range a.fns {
			eachInstr(g, func(b *ssa.BasicBlock, i int, in ssa.Instruction) {
				cc := callCommon(in)
				for _, op := range in.Operands(nil) {
					if op != nil && *op == ssa.Value(f) && (cc == nil || cc.Value != ssa.Value(f)) {
						ok = false // the helper escapes as a value
					}
				}
				if cc == nil || staticCallee(cc) != f {
					return
				}
				if _, isCall := in.(*ssa.Call); !isCall || pi >= len(cc.Args) {
					ok = false
					return
				}
				sites++
				if !a.lengthKnownD(g, in, cc.Args[pi], k, depth+1) {
					ok = false
				}
			})
		}
		return ok && sites > 0
	case *ssa.Call:
		if sc := staticCallee(&c.Call); sc != nil && canonFn(sc) == "readNBytes" && len(c.Call.Args) == 2 {
			return minConst(c.Call.Args[1], 0) > k
		}
	case *ssa.Extract:
		call, ok := c.Tuple.(*ssa.Call)
		if !ok || c.Index != 0 || !isCallTo(&call.Call, "(*bufio.Reader).Peek") {
			return false
		}
		n, isC := constInt(call.Call.Args[1])
		if !isC || n <= k {
			return false
		}
		// err == nil on every path to the access
		return hasCmp(necessaryCmps(f, at), func(op token.Token, a1, b1 ssa.Value) bool {
			ex, ok := a1.(*ssa.Extract)
			return ok && ex.Tuple == ssa.Value(call) && ex.Index == 1 && op == token.EQL && isNilConst(b1)
		})
	}
	return false
}

// minConst: the smallest constant a value can take (through phis); -1 if unknown
func minConst(v ssa.Value, depth int) int64 {
	if depth > 6 {
		return -1
	}
	if n, ok := constInt(v); ok {
		return n
	}
	if ph, ok := v.(*ssa.Phi); ok {
		m := int64(1 << 62)
		for _, e := range ph.Edges {
			x := minConst(e, depth+1)
			if x < 0 {
				return -1
			}
			if x < m {
				m = x
			}
		}
		return m
	}
	return -1
}

// ---- termination: loops bounded by an input-derived count consume input in every iteration ----

type consumeInfo struct {
	a     *a23
	inPkg map[*ssa.Function]bool
	memo  map[*ssa.Function]int // 1 always consumes (or panics), 2 not
}

func (ci *consumeInfo) consumingInstr(in ssa.Instruction) bool {
	cc := callCommon(in)
	if cc == nil {
		return false
	}
	if isCallTo(cc, "(*bufio.Reader).ReadByte") || isCallTo(cc, "io.CopyN") || isCallTo(cc, "io.ReadFull") {
		return true
	}
	if sc := staticCallee(cc); sc != nil && ci.inPkg[sc] {
		return ci.alwaysConsumes(sc)
	}
	// a callback parameter (`forEachItem(src, dst, n, func(i int) bool {…})`): consuming when the
	// function handed in at every call site of the enclosing helper always consumes
	if par, ok := cc.Value.(*ssa.Parameter); ok && !cc.IsInvoke() {
		f := par.Parent()
		pi := -1
		for i, q := range f.Params {
			if q == par {
				pi = i
			}
		}
		if pi < 0 || f.Object() == nil || f.Object().Exported() {
			return false
		}
		sites, all := 0, true
		for g := range ci.inPkg {
			eachInstr(g, func(b *ssa.BasicBlock, i int, x ssa.Instruction) {
				c2 := callCommon(x)
				if c2 == nil {
					return
				}
				for _, op := range x.Operands(nil) {
					if op != nil && *op == ssa.Value(f) && c2.Value != ssa.Value(f) {
						all = false // the helper escapes as a value
					}
				}
				if staticCallee(c2) != f || pi >= len(c2.Args) {
					return
				}
				sites++
				var fn *ssa.Function
				switch a := c2.Args[pi].(type) {
				case *ssa.MakeClosure:
					fn, _ = a.Fn.(*ssa.Function)
				case *ssa.Function:
					fn = a
				}
				if fn == nil || fn.Blocks == nil || !ci.alwaysConsumes(fn) {
					all = false
				}
			})
		}
		return all && sites > 0
	}
	return false
}

// alwaysConsumes: every feasible path from the entry to a return passes a consuming read
// (paths ending in panic are fine: they end the decode with an error).
func (ci *consumeInfo) alwaysConsumes(f *ssa.Function) bool {
	switch ci.memo[f] {
	case 1:
		return true
	case 2, 3:
		return false
	}
	ci.memo[f] = 3 // recursion: assume not (conservative for cycles without own read)
	ok := true
	if f.Blocks == nil {
		ok = false
	} else {
		paths, complete := enumPaths(f, 1, 20000)
		if !complete {
			ok = false
		}
		for _, pa := range paths {
			if _, isRet := pa.Exit.(*ssa.Return); !isRet {
				continue
			}
			if infeasibleMaskedSwitch(pa) {
				continue
			}
			cons := false
			for _, in := range pa.Instrs() {
				if ci.consumingInstr(in) {
					cons = true
					break
				}
			}
			if !cons {
				ok = false
				break
			}
		}
	}
	if ok {
		ci.memo[f] = 1
	} else {
		ci.memo[f] = 2
	}
	return ok
}

// infeasibleMaskedSwitch: the path assumes v != c for every value c that v = x & mask can take.
func infeasibleMaskedSwitch(pa Path) bool {
	ne := map[ssa.Value]map[int64]bool{}
	for _, c := range pa.Cmps() {
		if c.Op != token.NEQ {
			continue
		}
		n, ok := constInt(c.Y)
		if !ok {
			continue
		}
		if ne[c.X] == nil {
			ne[c.X] = map[int64]bool{}
		}
		ne[c.X][n] = true
	}
	for v, set := range ne {
		bo, ok := v.(*ssa.BinOp)
		if !ok || bo.Op != token.AND {
			continue
		}
		mask, ok := constInt(bo.Y)
		if !ok || mask <= 0 || mask > 255 {
			continue
		}
		all := true
		cnt := 0
		for x := int64(0); x <= 255; x++ {
			if x&^mask != 0 {
				continue
			}
			cnt++
			if !set[x] {
				all = false
				break
			}
		}
		if all && cnt > 0 && cnt <= 64 {
			return true
		}
	}
	return false
}

// returnsInputBytes: every value f returns is a byte slice that holds only bytes read from the
// input — the contents of a local bytes.Buffer filled exclusively by io.CopyN/io.Copy, or a fresh
// slice handed to io.ReadFull — so its length never exceeds the number of bytes consumed.
func returnsInputBytes(f *ssa.Function) bool {
	return returnsInputBytesD(f, 0)
}

func returnsInputBytesD(f *ssa.Function, depth int) bool {
	if depth > 3 {
		return false
	}
	if f.Blocks == nil || f.Signature.Results().Len() != 1 || !isByteSlice(f.Signature.Results().At(0).Type()) {
		return false
	}
	ok, n := true, 0
	eachInstr(f, func(b *ssa.BasicBlock, i int, in ssa.Instruction) {
		ret, isRet := in.(*ssa.Return)
		if !isRet {
			return
		}
		n++
		switch x := ret.Results[0].(type) {
		case *ssa.Call:
			// a thin wrapper: returns what another such reader of the package returned
			if sc := staticCallee(&x.Call); sc != nil && sc != f && sc.Pkg == f.Pkg && sc.Blocks != nil && returnsInputBytesD(sc, depth+1) {
				return
			}
			if !isCallTo(&x.Call, "(*bytes.Buffer).Bytes") || len(x.Call.Args) != 1 {
				ok = false
				return
			}
			al, isAl := x.Call.Args[0].(*ssa.Alloc)
			if !isAl {
				ok = false
				return
			}
			filled := false
			for _, ref := range referrersOf(al) {
				switch y := ref.(type) {
				case *ssa.Call:
					if !(isCallTo(&y.Call, "(*bytes.Buffer).Bytes") || isCallTo(&y.Call, "(*bytes.Buffer).Len") || isCallTo(&y.Call, "(*bytes.Buffer).Grow")) {
						ok = false
					}
				case *ssa.MakeInterface:
					for _, r2 := range referrersOf(y) {
						c, isC := r2.(*ssa.Call)
						if isC && (isCallTo(&c.Call, "io.CopyN") || isCallTo(&c.Call, "io.Copy")) && c.Call.Args[0] == ssa.Value(y) {
							filled = true
						} else {
							ok = false
						}
					}
				case *ssa.DebugRef:
				default:
					ok = false
				}
			}
			if !filled {
				ok = false
			}
		case *ssa.MakeSlice:
			filled := false
			for _, ref := range referrersOf(x) {
				switch y := ref.(type) {
				case *ssa.Call:
					if isCallTo(&y.Call, "io.ReadFull") && len(y.Call.Args) == 2 && y.Call.Args[1] == ssa.Value(x) {
						filled = true
					} else if bn := builtinName(&y.Call); bn != "len" && bn != "cap" {
						ok = false
					}
				case *ssa.Return, *ssa.DebugRef:
				default:
					ok = false
				}
			}
			if !filled {
				ok = false
			}
		default:
			ok = false
		}
	})
	return ok && n > 0
}

func ruleDecoderTermination(r *Run, p *Prog, a *a23) {
	ci := &consumeInfo{a: a, inPkg: map[*ssa.Function]bool{}, memo: map[*ssa.Function]int{}}
	for _, f := range a.fns {
		ci.inPkg[f] = true
	}
	n := 0
	for _, f := range a.fns {
		for _, h := range f.Blocks {
			if !isLoopHeader(h) {
				continue
			}
			// is the loop's continuation governed by an input-derived bound, or unbounded (for {})?
			bounded := false
			tainted := false
			for b := range loopBlocks(h) {
				ifi, ok := b.Instrs[len(b.Instrs)-1].(*ssa.If)
				if !ok {
					continue
				}
				exits := false
				for _, s := range b.Succs {
					if !loopBlocks(h)[s] {
						exits = true
					}
				}
				if !exits {
					continue
				}
				bounded = true
				if bo, ok := ifi.Cond.(*ssa.BinOp); ok && (a.taint[bo.X] || a.taint[bo.Y]) {
					tainted = true
				}
				if a.taint[ifi.Cond] {
					tainted = true
				}
			}
			if bounded && !tainted {
				continue
			}
			// a bound that was the size of a fixed-size read which already succeeded is limited by
			// the bytes actually present
			covered := false
			for b := range loopBlocks(h) {
				ifi, ok := b.Instrs[len(b.Instrs)-1].(*ssa.If)
				if !ok {
					continue
				}
				bo, ok := ifi.Cond.(*ssa.BinOp)
				if !ok {
					continue
				}
				for _, bound := range []ssa.Value{bo.X, bo.Y} {
					// `for … range pbs` with pbs the bytes a helper has read from the input: one
					// iteration per byte already consumed
					if lc, ok := bound.(*ssa.Call); ok && builtinName(&lc.Call) == "len" && len(lc.Call.Args) == 1 {
						// the length of an object that already exists (a parameter: bytes the caller has
						// read) bounds the loop by data actually present; an allocation sized by an input
						// integer is judged where it is made (A23 make)
						if _, isParam := lc.Call.Args[0].(*ssa.Parameter); isParam {
							covered = true
						}
						if rc, ok := lc.Call.Args[0].(*ssa.Call); ok {
							if sc := staticCallee(&rc.Call); sc != nil && ci.inPkg[sc] && returnsInputBytes(sc) && rc.Block().Dominates(h) && rc.Block() != h {
								covered = true
							}
						}
					}
					if !a.taint[bound] {
						continue
					}
					eachInstr(f, func(bb *ssa.BasicBlock, i int, in ssa.Instruction) {
						c, ok := in.(*ssa.Call)
						if !ok || !ci.consumingInstr(c) {
							return
						}
						for _, arg := range c.Call.Args {
							if arg == bound && (bb.Dominates(h) && bb != h) {
								covered = true
							}
						}
					})
				}
			}
			if covered {
				continue
			}
			paths, complete := loopIterPaths(h, 4000)
			if !complete {
				r.Ob("A23", FnName(f)+"/loop-consumes", p.Pos(firstPos([]*ssa.BasicBlock{h})), false, true, "cannot enumerate the iterations of a loop whose trip count depends on the input (undecided)")
				continue
			}
			n++
			okc := true
			for _, pa := range paths {
				cons := false
				for _, b := range pa.blocks {
					for _, in := range b.Instrs {
						if ci.consumingInstr(in) {
							cons = true
						}
					}
				}
				if !cons {
					okc = false
				}
			}
			r.Ob("A23", FnName(f)+"/loop-consumes", p.Pos(firstPos([]*ssa.BasicBlock{h})), okc, true, tern(okc, "every iteration of this input-bounded loop consumes at least one input byte (or ends the decode with an error): it stops at end of input", "a loop whose trip count comes from the input can iterate without consuming input: a crafted count makes the decoder spin and produce output out of proportion to its input"))
		}
	}
	if n < 1 {
		r.Fail("A23", "loop-floor", "-", "no input-bounded loop found in the decoder (the array and map decoders expected)")
	}
}
