package main

import (
	"strings"

	"golang.org/x/tools/go/ssa"
)

func init() { register("C17", checkC17) }

func checkC17(r *Run) {
	r.Explain = "Decides the 'errors, not crashes' half of C17 as effect and taint properties of internal/cbor: A17a every panic raised by the decoder carries an error (so the recover handler's r.(error) cannot itself panic); A17b every decoder entry point that is reachable from the library's public surface (ConsoleWriter, syslog, journald, the exported decode helpers) and from which a panic is reachable runs under a deferred recover that dominates the panicking calls; A23 integers derived from input bytes (dataflow taint from ReadByte/Peek through arithmetic, conversions, helper returns and slice elements) never size an allocation, bound a slice or index an object without a dominating range check or a provable interval (byte>>4 into a 16-entry table), no input-derived divisor, no unchecked type assertion, no buffer growth sized by input; recursion consumes at least one input byte before every recursive descent, so nesting depth and memory stay proportional to the input; READERR every failing read of the input (Peek/ReadByte/CopyN … on the *bufio.Reader) has its error tested and the error edge only reaches panics — the decoder never carries on after a failed read or turns it into a normal return, except the between-events EOF probe (so a truncated trailing event is reported as an error); OUTDIRECT the stream entry point hands the per-event decoder the caller's writer itself (or a buffered writer whose Flush is deferred), so the events decoded before a truncated or malformed one have reached the writer when the error is returned; A23c in the writers that consume the decoded event (package journald, syslog.go) every element access and slicing of a string or byte slice is covered by a dominating length test, a range loop over the same object or a constant object, so a well-formed event with an empty key or value cannot become an index-out-of-range panic (ConsoleWriter is not judged by A23c: its field ordering indexes through sort.Search/sort.Slice callbacks, which this rule cannot bound)."
	r.NotDec = "The exact bytes produced for a truncated tail, and that every whole event of a prefix decodes exactly as in the full stream (value-level; structurally the decoder writes event k before touching event k+1). Runtime panics from operations on non-input-derived operands are not obligations of A23."
	r.Assume = []string{"standard-library callees receiving input-derived integers (listed in the evidence) do not panic on any value"}
	for _, cfg := range []string{"J", "B"} {
		p := r.Use(cfg)
		if p == nil {
			return
		}
		ruleA17(r, p)
		ruleA23(r, p)
		ruleReadErr(r, p)
		ruleOutDirect(r, p)
		var cons []*ssa.Function
		for _, f := range p.ModFns {
			if pkgRel(f) == "journald" || (pkgRel(f) == "" && strings.HasPrefix(p.Pos(f.Pos()), "syslog.go:")) {
				cons = append(cons, f)
			}
		}
		ruleConsumerBounds(r, p, "A23c", cons)
	}
	r.Floor("A17a", 30)
	r.Floor("A17b", 3)
	r.Floor("A23", 8)
	r.Floor("READERR", 6)
	r.Floor("OUTDIRECT", 1)
}
