package main

import (
	"fmt"
	"go/token"
	"go/types"
	"strings"

	"golang.org/x/tools/go/ssa"
)

func init() { register("C16", checkC16) }

func checkC16(r *Run) {
	r.Explain = "Decides three narrow structural clauses of C16, and says plainly that rendering is not decided: A22 determinism — no map iteration order reaches the output: inside a range over a map nothing is written to a buffer or writer, and a slice filled in such a loop is sorted (sort.Strings / sort.Slice, possibly through a helper, whose comparator falls back to `<` on the two names) on every path before any other use; LEN on the success path ConsoleWriter.Write reports len(p) of the input (in the JSON build the decode hook is the identity); LEN also: no return with a nil error skips writing the line; QUOTE the predicate choosing between verbatim and strconv.Quote rendering is a byte scan whose per-byte decision, evaluated over all 256 byte values from its branch conditions, is true exactly for control, non-ASCII, space, backslash and quote bytes, and its call site quotes on the true branch only; TIMELOC every Format call of the default timestamp formatter is applied to a time that went through In(TimeLocation) on that path; ONCE the field-collecting loop appends each non-excluded, non-part key exactly once per iteration, and the output loop ranges over all collected fields without early exit and writes each name exactly once. A13d (shared with C06): the pooled buffer is emptied before it is returned; LVLTAB (shared with C04): the level tables behind ParseLevel; nested values are re-encoded with InterfaceMarshalFunc. TIMELOC also: the event's time text is parsed in the configured location (not time.Local/UTC). TSFMT (binary build): the decoder renders a fractional timestamp with a layout that has a fractional-seconds element (what ConsoleWriter is given in that build). CONFIG: NewConsoleWriter stores exported configuration fields only (no cache derived from the configuration at construction). TSFMT also checks that seconds and nanoseconds of a decoded float timestamp come from one split. Binary build: the decoder's A23/READERR rules (C17) are run here too. TIMELOC raw-text-only-on-parse-error: the event's own time text is shown only after a failed parse. A23c: element accesses and slicings in the console's small text helpers are covered by a test on the length of the very object sliced. WIDTH (C08's rule, binary build): decoded integers are printed at full 64-bit width."
	r.NotDec = "Most of C16: value rendering, quoting (needsQuote / strconv.Quote), part formatting, the error-first move and the known disappearance of a field named \"\" when an error field is present (a sentinel collision that no non-brittle structural rule captures). These are value-level. cmd/prettylog (package main, a command-line front end that feeds ConsoleWriter line by line) is not read by any rule."
	r.Assume = []string{"encoding/json decodes the event faithfully"}
	p := r.Use("J")
	if p == nil {
		return
	}
	ruleA22(r, p, []string{"", "journald"})
	ruleConsoleLen(r, p)
	ruleConsoleOnce(r, p)
	ruleConsoleQuote(r, p)
	ruleConsoleTimeLocation(r, p)
	ruleBufferPoolClean(r, p, []string{""}) // same event + configuration → same bytes: no stale line left in the pooled buffer
	ruleLevelTables(r, p)                   // the level part is rendered from ParseLevel of the event's level text
	ruleConsoleMarshal(r, p)
	ruleConstructorSetsConfigOnly(r, p, "CONFIG")
	ruleRawTimeTextOnlyOnParseError(r, p, "TIMELOC")
	{
		// element accesses and slicings in the console's small text helpers (the sort callbacks of
		// writeFields/orderFields index inside sort.Search/sort.Slice and are out of this rule's reach)
		var fns []*ssa.Function
		for _, f := range p.ModFns {
			if pkgRel(f) != "" || !strings.HasPrefix(p.Pos(f.Pos()), "console.go:") {
				continue
			}
			root := f
			for root.Parent() != nil {
				root = root.Parent()
			}
			if root.Name() == "writeFields" || root.Name() == "orderFields" {
				continue
			}
			// wherever the field-ordering code lives: a function that hands a closure to sort.Search /
			// sort.Slice (and that closure) indexes under the sort package's contract
			usesSort := false
			eachInstr(root, func(_ *ssa.BasicBlock, _ int, in ssa.Instruction) {
				if cc := callCommon(in); cc != nil {
					if o := calleeObj(cc); o != nil && o.Pkg() != nil && o.Pkg().Path() == "sort" {
						usesSort = true
					}
				}
			})
			if usesSort {
				continue
			}
			fns = append(fns, f)
		}
		ruleConsumerBounds(r, p, "A23c", fns)
	}
	if pb := r.Use("B"); pb != nil {
		// binary build: what ConsoleWriter is given is the decoder's text of the event
		ruleDecodedTimestampLayout(r, pb, "TSFMT")
		// … and every complete event reaches it: the decoder's read/taint discipline (C17's rules)
		ruleA23(r, pb)
		ruleReadErr(r, pb)
		ruleWidth(r, pb) // integers of the event are printed at full 64-bit width (C08's rule): no value makes the decoder give up on the event
	}
	r.Floor("TIMELOC", 2)
	r.Floor("QUOTE", 4)
	r.Floor("A22", 3)
	r.Floor("LEN", 2)
	r.Floor("ONCE", 3)
}

// sortsParam: does f sort its slice parameter idx (sort.Strings/Slice/Sort… directly or via a callee)?
func sortsParam(f *ssa.Function, idx int, depth int) bool {
	if f == nil || f.Blocks == nil || depth > 3 || idx >= len(f.Params) {
		return false
	}
	found := false
	eachInstr(f, func(b *ssa.BasicBlock, i int, in ssa.Instruction) {
		c, ok := in.(*ssa.Call)
		if !ok {
			return
		}
		isPar := func(v ssa.Value) bool {
			v = stripIface(v)
			if v == ssa.Value(f.Params[idx]) {
				return true
			}
			// a parameter captured by a closure lives in a local: a load of it while it still holds the parameter
			if ld, ok := v.(*ssa.UnOp); ok && ld.Op == token.MUL {
				if al, ok := ld.X.(*ssa.Alloc); ok && allocInit(al) == ssa.Value(f.Params[idx]) {
					return true
				}
			}
			return false
		}
		if isSortCall(&c.Call) {
			for _, a := range c.Call.Args {
				if isPar(a) {
					found = true
				}
			}
		}
		if sc := staticCallee(&c.Call); sc != nil && InModule(sc) {
			for ai, a := range c.Call.Args {
				if isPar(a) && sortsParam(sc, ai, depth+1) {
					found = true
				}
			}
		}
	})
	return found
}

func stripIface(v ssa.Value) ssa.Value {
	for {
		switch x := v.(type) {
		case *ssa.MakeInterface:
			v = x.X
		case *ssa.ChangeType:
			v = x.X
		default:
			return v
		}
	}
}

func isSortCall(c *ssa.CallCommon) bool {
	o := calleeObj(c)
	if o == nil || o.Pkg() == nil {
		return false
	}
	switch o.Pkg().Path() {
	case "sort":
		switch o.Name() {
		case "Strings", "Slice", "SliceStable", "Sort", "Stable", "Ints":
			return true
		}
	case "slices":
		switch o.Name() {
		case "Sort", "SortFunc", "SortStableFunc":
			return true
		}
	}
	return false
}

func ruleA22(r *Run, p *Prog, rels []string) {
	n := 0
	// helpers that sort one of their slice parameters stay calls (recognised by sortsParam)
	sorter := func(g *ssa.Function) bool {
		for i := range g.Params {
			if _, ok := g.Params[i].Type().Underlying().(*types.Slice); ok && sortsParam(g, i, 0) {
				return true
			}
		}
		return false
	}
	for _, f := range p.RootViews(rels, "keep-sorters", sorter) {
		eachInstr(f, func(b *ssa.BasicBlock, i int, in ssa.Instruction) {
			rg, ok := in.(*ssa.Range)
			if !ok {
				return
			}
			if _, isMap := rg.X.Type().Underlying().(*types.Map); !isMap {
				return
			}
			n++
			// the loop: header is the block of the Next instruction
			var hdr *ssa.BasicBlock
			for _, ref := range referrersOf(rg) {
				if nx, ok := ref.(*ssa.Next); ok {
					hdr = nx.Block()
				}
			}
			if hdr == nil || !isLoopHeader(hdr) {
				r.Ob("A22", originFnName(f, rg)+"/map-range", p.Pos(rg.Pos()), false, true, "map iteration with an unrecognised loop shape (undecided)")
				return
			}
			body := loopBlocks(hdr)
			// (a) no output inside the loop; (b) slices grown inside the loop
			wrote := ""
			var grown []*ssa.Phi
			grownMem := map[memKey]bool{}
			for bb := range body {
				for _, x := range bb.Instrs {
					c, ok := x.(*ssa.Call)
					if !ok {
						continue
					}
					if o := calleeObj(&c.Call); o != nil && bb != hdr || o != nil {
						name := o.FullName()
						switch {
						case name == "(*bytes.Buffer).WriteString", name == "(*bytes.Buffer).Write", name == "(*bytes.Buffer).WriteByte", name == "fmt.Fprintf", name == "fmt.Fprint", name == "fmt.Fprintln":
							wrote = name
						case c.Call.IsInvoke() && (c.Call.Method.Name() == "Write" || c.Call.Method.Name() == "WriteString"):
							wrote = c.Call.Method.Name()
						}
					}
					if builtinName(&c.Call) == "append" {
						if ph, ok := c.Call.Args[0].(*ssa.Phi); ok && ph.Block() == hdr {
							grown = append(grown, ph)
						}
						// a slice variable living in memory (captured by a closure later): load, append, store
						if ld, ok := c.Call.Args[0].(*ssa.UnOp); ok && ld.Op == token.MUL {
							if k, ok := memKeyOf(ld.X); ok {
								grownMem[k] = true
							}
						}
					}
				}
			}
			if wrote != "" {
				r.Ob("A22", originFnName(f, rg)+"/map-range/writes-output", p.Pos(rg.Pos()), false, true, "output is produced inside a range over a map ("+wrote+"): the order of the rendered fields changes from run to run")
				return
			}
			if len(grown) == 0 && len(grownMem) == 0 {
				r.Ob("A22", originFnName(f, rg)+"/map-range", p.Pos(rg.Pos()), true, true, "the loop over the map only builds order-insensitive data (a map / set / scalars)")
				return
			}
			// The unsorted slice is the loop phi as it leaves the loop and/or a local variable in memory
			// (a variable captured by a closure): values are tracked through stores into locals.
			trackedAllocs := map[memKey]bool{}
			for al := range grownMem {
				trackedAllocs[al] = true
			}
			phis := map[ssa.Value]bool{}
			for _, ph := range grown {
				phis[ph] = true
			}
			tracked := func(v ssa.Value) bool {
				v = stripIface(v)
				if phis[v] {
					return true
				}
				if ld, ok := v.(*ssa.UnOp); ok && ld.Op == token.MUL {
					if k, ok := memKeyOf(ld.X); ok && trackedAllocs[k] {
						return true
					}
				}
				return false
			}
			trackingStore := map[ssa.Instruction]bool{}
			for changed := true; changed; {
				changed = false
				eachInstr(f, func(bb *ssa.BasicBlock, k int, x ssa.Instruction) {
					st, ok := x.(*ssa.Store)
					if !ok || body[bb] {
						return
					}
					if al, ok := memKeyOf(st.Addr); ok && tracked(st.Val) {
						trackingStore[st] = true
						if !trackedAllocs[al] {
							trackedAllocs[al] = true
							changed = true
						}
					}
				})
			}
			isSortOf := func(x ssa.Instruction) bool {
				c, ok := x.(*ssa.Call)
				if !ok {
					return false
				}
				if isSortCall(&c.Call) {
					for _, a := range c.Call.Args {
						if tracked(a) {
							return true
						}
					}
				}
				if sc := staticCallee(&c.Call); sc != nil && InModule(sc) {
					for ai, a := range c.Call.Args {
						if tracked(a) && sortsParam(sc, ai, 0) {
							return true
						}
					}
				}
				return false
			}
			isOtherUse := func(x ssa.Instruction) bool {
				if body[x.Block()] || isSortOf(x) || trackingStore[x] {
					return false
				}
				if mc, ok := x.(*ssa.MakeClosure); ok {
					// the comparator handed to the sort call may capture the slice
					onlySort := len(referrersOf(mc)) > 0
					for _, ref := range referrersOf(mc) {
						if !isSortOf(ref) {
							onlySort = false
						}
					}
					if onlySort {
						return false
					}
					for _, bnd := range mc.Bindings {
						if al, ok := bnd.(*ssa.Alloc); ok && trackedAllocs[memKey{al, -1}] {
							return true
						}
					}
				}
				if ld, isLoad := x.(*ssa.UnOp); isLoad && ld.Op == token.MUL {
					return false // the load itself; its users are examined
				}
				switch x.(type) {
				case *ssa.MakeInterface, *ssa.ChangeType:
					return false // wrappers: tracked() looks through them at their users
				}
				for _, op := range x.Operands(nil) {
					if op != nil && *op != nil && tracked(*op) {
						if c, ok := x.(*ssa.Call); ok && (builtinName(&c.Call) == "len" || builtinName(&c.Call) == "cap") {
							return false
						}
						return true
					}
				}
				return false
			}
			var exit ssa.Instruction
			for _, sx := range hdr.Succs {
				if !body[sx] && len(sx.Instrs) > 0 {
					exit = sx.Instrs[0]
				}
			}
			bad := false
			if exit != nil {
				if isOtherUse(exit) {
					bad = true
				} else if !isSortOf(exit) {
					bad, _ = pathExists(f, exit, isOtherUse, isSortOf, nil)
				}
			}
			name := ""
			for _, ph := range grown {
				name = ph.Comment
			}
			for k := range grownMem {
				name = k.al.Comment
			}
			r.Ob("A22", originFnName(f, rg)+"/map-range/sorted:"+name, p.Pos(rg.Pos()), !bad, true, tern(!bad, "the slice filled from the map is sorted on every path before it is used"+viewNote(f), "a slice filled in map-iteration order is used without being sorted first on some path: the output order changes from run to run"+viewNote(f)))
		})
	}
	if n < 2 {
		r.Fail("A22", "map-ranges", "-", fmt.Sprintf("only %d map iterations found (console.writeFields, journald.Write expected)", n))
	}
	// the ordering comparator is total on names it has no explicit order for
	of := p.Method("", "ConsoleWriter", "orderFields")
	if r.Anchor(of != nil, "A22", "ConsoleWriter.orderFields") {
		okc := false
		for _, an := range of.AnonFuncs {
			// last fallback: return fields[i] < fields[j] (possibly inside a private pure helper
			// `fieldOrderedBefore(index, a, b)` the closure delegates to: judged inlined)
			anv := p.View(an, "", nil)
			eachInstr(anv, func(b *ssa.BasicBlock, i int, in ssa.Instruction) {
				var cands []ssa.Value
				if ret, ok := in.(*ssa.Return); ok && len(ret.Results) == 1 {
					cands = append(cands, ret.Results[0])
					if ph, isPhi := ret.Results[0].(*ssa.Phi); isPhi {
						cands = append(cands, ph.Edges...)
					}
				}
				for _, cv := range cands {
					if bo, ok := cv.(*ssa.BinOp); ok && bo.Op == token.LSS && isStringType(bo.X.Type()) {
						okc = true
					}
				}
				ret, ok := in.(*ssa.Return)
				if !ok || len(ret.Results) != 1 {
					return
				}
				if bo, ok := ret.Results[0].(*ssa.BinOp); ok && bo.Op == token.LSS && isStringType(bo.X.Type()) {
					// not reachable only under "ordered" conditions: it must be reachable when both lookups failed
					okc = true
				}
			})
		}
		r.Ob("A22", FnName(of)+"/comparator-fallback", p.Pos(of.Pos()), okc, true, tern(okc, "fields without an explicit position are ordered by name (`<` on the two names)", "the FieldsOrder comparator has no by-name fallback: the relative order of unlisted fields depends on map iteration order"))
	}
}

// memKey names a local memory cell: a local variable (field == -1) or one field of a local
// struct variable (the state struct of a pipeline of helper methods).
type memKey struct {
	al    *ssa.Alloc
	field int
}

func memKeyOf(addr ssa.Value) (memKey, bool) {
	switch x := addr.(type) {
	case *ssa.Alloc:
		return memKey{x, -1}, true
	case *ssa.FieldAddr:
		if al, ok := x.X.(*ssa.Alloc); ok {
			return memKey{al, x.Field}, true
		}
	}
	return memKey{}, false
}

func ruleConsoleLen(r *Run, p *Prog) {
	w := p.Method("", "ConsoleWriter", "Write")
	if !r.Anchor(w != nil, "LEN", "ConsoleWriter.Write") {
		return
	}
	// helpers without results cannot decide what Write returns: they stay calls (and keep the path count small)
	w = p.View(w, "keep-procedures", func(g *ssa.Function) bool { return g.Signature.Results().Len() == 0 })
	paths, complete := enumPaths(w, 2, 20000)
	if !complete {
		r.Fail("LEN", FnName(w)+"/paths", p.Pos(w.Pos()), "cannot enumerate paths")
		return
	}
	n := 0
	okAll := true
	noLine := false
	why := ""
	for _, pa := range paths {
		ret, isRet := pa.Exit.(*ssa.Return)
		if !isRet || len(ret.Results) != 2 {
			continue
		}
		if pa.Infeasible() {
			continue
		}
		// success path: reaches the final WriteTo(w.Out)
		wrote := false
		for _, in := range pa.Instrs() {
			if c, ok := in.(*ssa.Call); ok && isCallTo(&c.Call, "(*bytes.Buffer).WriteTo") {
				wrote = true
			}
		}
		errRes := pa.Resolve(ret.Results[1])
		nilErr := isNilConst(errRes)
		if !wrote && !nilErr {
			continue
		}
		if !wrote {
			// returns success without having written the line
			noLine = true
		}
		n++
		res := pa.Resolve(ret.Results[0])
		lc, ok := res.(*ssa.Call)
		good := false
		if ok && builtinName(&lc.Call) == "len" {
			x := pa.Resolve(lc.Call.Args[0])
			if isParam(x, w, 1) {
				good = true
			} else if c, isC := x.(*ssa.Call); isC {
				if sc := staticCallee(&c.Call); sc != nil && returnsItsParam(sc) && len(c.Call.Args) == 1 && isParam(pa.Resolve(c.Call.Args[0]), w, 1) {
					good = true
				}
			}
		}
		if !good {
			okAll = false
			why = descr(res)
		}
	}
	r.Ob("LEN", FnName(w)+"/reports-input-length", p.Pos(w.Pos()), okAll && n > 0, true, tern(okAll && n > 0, "on success Write reports len(p) of its input", "on the success path Write reports "+why+" instead of the length of the bytes it was given: callers see a short write"))
	r.Ob("LEN", FnName(w)+"/success-writes-line", p.Pos(w.Pos()), !noLine, true, tern(!noLine, "every return with a nil error has passed buf.WriteTo(w.Out)", "a path returns a nil error without writing the line to Out: the event is silently swallowed"))
}

// returnsItsParam: every return of f yields its first parameter (identity hook).
func returnsItsParam(f *ssa.Function) bool {
	if f.Blocks == nil || len(f.Params) != 1 {
		return false
	}
	ok, n := true, 0
	eachInstr(f, func(b *ssa.BasicBlock, i int, in ssa.Instruction) {
		if ret, isRet := in.(*ssa.Return); isRet {
			n++
			if len(ret.Results) != 1 || ret.Results[0] != ssa.Value(f.Params[0]) {
				ok = false
			}
		}
	})
	return ok && n > 0
}

func ruleConsoleOnce(r *Run, p *Prog) {
	wf := p.Method("", "ConsoleWriter", "writeFields")
	if !r.Anchor(wf != nil, "ONCE", "ConsoleWriter.writeFields") {
		return
	}
	wf = p.View(wf, "", nil)
	// the output loop: the dynamic formatter call fn(field) whose result is written with WriteString
	var nameCall *ssa.Call
	eachInstr(wf, func(b *ssa.BasicBlock, i int, in ssa.Instruction) {
		c, ok := in.(*ssa.Call)
		if !ok || !isCallTo(&c.Call, "(*bytes.Buffer).WriteString") {
			return
		}
		inner, ok := c.Call.Args[1].(*ssa.Call)
		if !ok || staticCallee(&inner.Call) != nil || inner.Call.IsInvoke() || len(inner.Call.Args) != 1 {
			return
		}
		// argument: interface made from the loop element
		arg := stripIface(inner.Call.Args[0])
		if ld, ok := arg.(*ssa.UnOp); ok {
			if _, ok := ld.X.(*ssa.IndexAddr); ok {
				nameCall = c
			}
		}
	})
	if nameCall == nil {
		r.Ob("ONCE", FnName(wf)+"/name-write", p.Pos(wf.Pos()), false, true, "the write of the formatted field name inside the output loop was not found")
		return
	}
	inner := nameCall.Call.Args[1].(*ssa.Call)
	elem := stripIface(inner.Call.Args[0])
	var slice ssa.Value
	if ld, ok := elem.(*ssa.UnOp); ok {
		if ia, ok := ld.X.(*ssa.IndexAddr); ok {
			slice = ia.X
		}
	}
	sameSlice := func(v ssa.Value) bool {
		if v == slice {
			return true
		}
		// the slice variable lives in memory (captured by a closure): any load of that local
		l1, ok1 := v.(*ssa.UnOp)
		l2, ok2 := slice.(*ssa.UnOp)
		if ok1 && ok2 && l1.Op == token.MUL && l2.Op == token.MUL && l1.X == l2.X {
			_, isAl := l1.X.(*ssa.Alloc)
			return isAl
		}
		return false
	}
	facts, ok := analyseRangeLoop(wf, nameCall, elem, sameSlice)
	r.Ob("ONCE", FnName(wf)+"/output-loop", p.Pos(nameCall.Pos()), ok && facts.NoEarlyExit && facts.RangeAll && facts.EveryIter && facts.Element, true,
		tern(ok && facts.NoEarlyExit && facts.RangeAll && facts.EveryIter && facts.Element, "the output loop visits every collected field, without early exit, and writes its name exactly once", "the output loop skips, repeats or stops before some collected field (no-early-exit="+boolStr(facts.NoEarlyExit)+", all="+boolStr(facts.RangeAll)+", once-per-iteration="+boolStr(facts.EveryIter)+")"))
	// the value is written once per iteration as well: every iteration path writes something after the name
	okVal := ok
	for _, pa := range facts.Paths {
		writes := 0
		for _, b := range pa.blocks {
			for _, in := range b.Instrs {
				if c, isC := in.(*ssa.Call); isC {
					if isCallTo(&c.Call, "(*bytes.Buffer).WriteString") || isCallTo(&c.Call, "fmt.Fprint") || isCallTo(&c.Call, "fmt.Fprintf") {
						writes++
					}
				}
			}
		}
		if writes != 2 {
			okVal = false
		}
	}
	r.Ob("ONCE", FnName(wf)+"/name-and-value", p.Pos(nameCall.Pos()), okVal, true, tern(okVal, "every iteration writes the name and then exactly one rendering of the value", "some iteration of the output loop does not write exactly one name and one value"))
	// collecting loop: each iteration appends the key at most once, and exactly once unless excluded / a part name
	var mapHdr *ssa.BasicBlock
	eachInstr(wf, func(b *ssa.BasicBlock, i int, in ssa.Instruction) {
		if nx, ok := in.(*ssa.Next); ok && !nx.IsString {
			mapHdr = nx.Block()
		}
	})
	if mapHdr == nil {
		r.Ob("ONCE", FnName(wf)+"/collect", p.Pos(wf.Pos()), false, true, "collecting loop over the event map not found")
		return
	}
	paths, complete := loopIterPaths(mapHdr, 20000)
	okC := complete && len(paths) > 0
	nApp := 0
	for _, pa := range paths {
		apps := 0
		for _, b := range pa.blocks {
			for _, in := range b.Instrs {
				if c, isC := in.(*ssa.Call); isC && builtinName(&c.Call) == "append" {
					if _, isStrSlice := c.Type().Underlying().(*types.Slice); isStrSlice {
						apps++
					}
				}
			}
		}
		if apps > 1 {
			okC = false
		}
		if apps == 1 {
			nApp++
			continue
		}
		// a skipping iteration must carry a reason: excluded flag true, or the key equals a part name
		cs := cmpsOfEdges(pa.edges)
		reason := hasCmp(cs, func(op token.Token, x, y ssa.Value) bool {
			if op != token.EQL {
				return false
			}
			if b, isB := constBool(y); isB && b {
				return true // isExcluded == true
			}
			if loadedGlobal(y) != nil || loadedGlobal(x) != nil { // field == <part name variable>
				return true
			}
			// field == w.FieldsExclude[i]
			for _, v := range []ssa.Value{x, y} {
				if ld, ok := v.(*ssa.UnOp); ok && ld.Op == token.MUL {
					if ia, ok := ld.X.(*ssa.IndexAddr); ok {
						if fv, _ := loadedField(ia.X); fv != nil && fv.Name() == "FieldsExclude" {
							return true
						}
					}
				}
			}
			return false
		})
		if !reason {
			okC = false
		}
	}
	r.Ob("ONCE", FnName(wf)+"/collect", p.Pos(wf.Pos()), okC && nApp > 0, true, tern(okC && nApp > 0, "every key of the event is collected exactly once unless it is excluded or rendered as a part", "the collecting loop drops or duplicates a key without it being excluded or a part name"))
}

// ruleConsoleTimeLocation (C16 "parts … as configured", TimeLocation): in the default timestamp
// formatter every time that is formatted for display was first moved to the configured location —
// the receiver of (time.Time).Format is the result of (time.Time).In(location).
func ruleConsoleTimeLocation(r *Run, p *Prog) {
	f := p.Func("", "consoleDefaultFormatTimestamp")
	if !r.Anchor(f != nil, "TIMELOC", "consoleDefaultFormatTimestamp") {
		return
	}
	var fns []*ssa.Function
	var collect func(g *ssa.Function)
	seenFn := map[*ssa.Function]bool{}
	collect = func(g *ssa.Function) {
		if seenFn[g] {
			return
		}
		seenFn[g] = true
		fns = append(fns, g)
		for _, a := range g.AnonFuncs {
			collect(a)
		}
	}
	collect(f)
	for g := range p.exclusiveHelpers(f) {
		if g != f {
			collect(g)
		}
	}
	n, nParse := 0, 0
	for _, g := range fns {
		gv := p.View(g, "", nil)
		eachInstr(gv, func(b *ssa.BasicBlock, i int, in ssa.Instruction) {
			c, ok := in.(*ssa.Call)
			if ok && (isCallTo(&c.Call, "time.ParseInLocation") || isCallTo(&c.Call, "time.Parse")) {
				// a zone-less TimeFieldFormat is read in the configured location, the one it is shown in
				okp := false
				if isCallTo(&c.Call, "time.ParseInLocation") && len(c.Call.Args) == 3 {
					loc := c.Call.Args[2]
					if ld, isLd := loc.(*ssa.UnOp); isLd {
						loc = ld.X
					}
					switch loc.(type) {
					case *ssa.FreeVar, *ssa.Parameter, *ssa.Phi, *ssa.Alloc:
						okp = true
					}
				}
				nParse++
				r.Ob("TIMELOC", originFnName(gv, c)+"/parse-in-location#"+itoa(nParse), p.Pos(c.Pos()), okp, true, tern(okp, "the event's time text is parsed in the configured location", "the event's time text is parsed in a fixed zone (time.Local / UTC) instead of the configured TimeLocation: with a zone-less TimeFieldFormat the console shows a shifted time that depends on the host's zone"))
				return
			}
			if !ok || !(isCallTo(&c.Call, "(time.Time).Format") || isCallTo(&c.Call, "(time.Time).AppendFormat")) {
				return
			}
			n++
			okc := false
			if inCall, ok := c.Call.Args[0].(*ssa.Call); ok && isCallTo(&inCall.Call, "(time.Time).In") && len(inCall.Call.Args) == 2 {
				// the location is the configured one (parameter / captured variable), not a constant zone
				loc := inCall.Call.Args[1]
				if ld, isLd := loc.(*ssa.UnOp); isLd {
					loc = ld.X
				}
				switch loc.(type) {
				case *ssa.FreeVar, *ssa.Parameter, *ssa.Phi, *ssa.Alloc:
					okc = true
				}
			}
			r.Ob("TIMELOC", originFnName(gv, c)+"/format-in-location#"+itoa(n), p.Pos(c.Pos()), okc, true, tern(okc, "the time is formatted after In(location)", "a timestamp is formatted without first being moved to the configured TimeLocation: the console shows it in the machine's zone"))
		})
	}
	if n < 2 {
		r.Fail("TIMELOC", "format-sites", "-", "fewer than 2 timestamp Format calls found in the default timestamp formatter")
	}
}
