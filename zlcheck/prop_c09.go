package main

func init() { register("C09", checkC09) }

func checkC09(r *Run) {
	r.Explain = "Decides CBOR well-formedness as far as it is structural: A2 (binary_log configuration) the front-end typestate — map items come in key/value pairs, every indefinite map/array gets exactly one break, the writer receives one closed item; A18 every inline 5-bit length/value is guarded by `<= 23`, appendCborTypePrefix's (range, byte count, minor) table equals RFC 8949 §3 with big-endian emission, every definite-length header counts the very value that follows as payload (one item per element, no early exit), constant tag headers spell declared tag numbers, literal float items have the announced length, map keys go through AppendString (text strings); A6 the integer appenders widen the logged value without loss under linux/amd64 (and 386 in the thorough tier); A1 no appender result dropped. Floats: head byte, payload width and the three non-finite bit patterns of the CBOR float appenders (shared with C08). DUR the duration appender passes the integer quotient d/unit to the integer appender and float64(d)/float64(unit) to the float appender. WIDTH also: a literal non-finite item is chosen by a sign-specific test (math.IsInf(v, 0) holds for both infinities). A18 length-is-len-of-payload: the string/bytes appenders announce len(x) of the very x they append. A5 arms-not-shadowed: Fields() reaches the tagged arms of net.IP/net.HardwareAddr. COPY: a diode destination appends the event to an empty buffer. A6 front-end: the Event/Array/Context methods pass integers on unchanged or through value-preserving conversions."
	r.NotDec = "Float bit patterns, content of tagged payloads, equality of decoded values, 'read by an independent parser': value-level."
	r.Assume = []string{"user marshalers act through the exported API"}
	p := r.Use("B")
	if p == nil {
		return
	}
	ruleA1(r, p)
	ruleA2(r, p)
	ruleA18(r, p)
	ruleA12Reset(r, p, "newEvent", "Event") // a recycled Event/Array starts empty: no value of a dropped event is carried into the next (C05's rule)
	ruleA12Reset(r, p, "Arr", "Array")
	ruleStringHeaderLen(r, p, "A18")
	ruleTypeSwitchNoShadow(r, p, "A5") // Fields() reaches the tagged arms of net.IP / net.HardwareAddr
	if w := p.Method("diode", "Writer", "Write"); w != nil {
		ruleCopyBeforePublish(r, p, w) // a diode destination hands on exactly the event's bytes
	}
	ruleDurationArithmetic(r, p, "DUR") // durations: integer quotient / float quotient, never rounded through the other domain
	ruleFloatWidth(r, p)                // floats: head byte, width and the three non-finite bit patterns
	ruleA6(r, p, []string{cborRel})
	ruleFrontEndConversions(r, p, "A6")
	if r.Tier == "thorough" {
		if p32 := r.Use("B32"); p32 != nil {
			ruleA6(r, p32, []string{cborRel})
			ruleA18(r, p32)
		}
	}
	r.Floor("A2", 170)
	r.Floor("A18", 50)
	r.Floor("A6", 10)
}
