package main

// A5 — sibling agreement by extracted table (C02): for every user value type the four
// front-ends (Event, Context, Array, Fields) reach the same encoder primitive with the same
// settings operands.

import (
	"fmt"
	"go/token"
	"go/types"
	"sort"
	"strings"

	"golang.org/x/tools/go/ssa"
)

type a5row struct {
	front    string // Event / Context / Array / Fields
	where    string
	pos      token.Pos
	typ      string
	prim     string
	settings string
}

// encValueCall: the call is enc.<AppendX>(dst, v, settings...) with X a value primitive.
func encValueCall(a *a2, c *ssa.Call) (name string, ok bool) {
	sc := staticCallee(&c.Call)
	if sc == nil || sc.Signature.Recv() == nil || namedOf(sc.Signature.Recv().Type()) != a.encNamed || !isAppenderSigRecv(sc.Signature) {
		return "", false
	}
	if _, structural := encKindByName[sc.Name()]; structural {
		return "", false
	}
	return sc.Name(), true
}

func settingsOf(c *ssa.Call, from int) string {
	var parts []string
	for i := from; i < len(c.Call.Args); i++ {
		parts = append(parts, descr(c.Call.Args[i]))
	}
	return strings.Join(parts, ", ")
}

func ruleA5(r *Run, p *Prog) {
	a := newA2(r, p)
	if !r.Anchor(a.ok(), "A5", "front-end carrier types and enc binding") {
		return
	}
	var rows []a5row
	tstr := func(t types.Type) string { return types.TypeString(t, shortQual) }
	// methods of Event / Context / Array
	for _, tn := range []string{"Event", "Context", "Array"} {
		for _, m := range p.Methods("", tn, true) {
			// shared private appenders (`appendFloat64Field(dst, key, v)`) are part of the setter
			m = p.View(m, "", nil)
			var calls []*ssa.Call
			eachInstr(m, func(b *ssa.BasicBlock, i int, in ssa.Instruction) {
				if c, ok := in.(*ssa.Call); ok {
					if _, ok := encValueCall(a, c); ok {
						calls = append(calls, c)
					}
				}
			})
			for _, c := range calls {
				if len(c.Call.Args) < 3 {
					continue
				}
				v := c.Call.Args[2]
				convNote := ""
				if cv, isCv := v.(*ssa.Convert); isCv {
					convNote = "via " + tstr(cv.Type()) + "(…) "
					v = cv.X
				}
				// the value must be a parameter of the method (directly)
				par, ok := v.(*ssa.Parameter)
				if !ok {
					continue
				}
				name, _ := encValueCall(a, c)
				rows = append(rows, a5row{tn, FnName(m), c.Pos(), tstr(par.Type()), name, convNote + settingsOf(c, 3)})
			}
		}
	}
	// Fields: arms of the type switch in appendFieldList
	afl := p.Func("", "appendFieldList")
	if r.Anchor(afl != nil, "A5", "appendFieldList") {
		afl = p.View(afl, "", nil) // arms may delegate to private helpers that switch on the type again
		eachInstr(afl, func(b *ssa.BasicBlock, i int, in ssa.Instruction) {
			c, ok := in.(*ssa.Call)
			if !ok || len(c.Call.Args) < 3 {
				return
			}
			name, ok := encValueCall(a, c)
			if !ok {
				return
			}
			v := c.Call.Args[2]
			t := ""
			convNote := ""
			if cv, isCv := v.(*ssa.Convert); isCv {
				convNote = "via " + tstr(cv.Type()) + "(…)"
				v = cv.X
			}
			// val.(T) extract, or *val.(*T)
			if ld, isLd := v.(*ssa.UnOp); isLd && ld.Op == token.MUL {
				if ex, isEx := ld.X.(*ssa.Extract); isEx {
					if ta, isTA := ex.Tuple.(*ssa.TypeAssert); isTA {
						if pt, isP := ta.AssertedType.(*types.Pointer); isP {
							t = tstr(pt.Elem())
						}
					}
				}
			}
			if ex, isEx := v.(*ssa.Extract); isEx {
				if ta, isTA := ex.Tuple.(*ssa.TypeAssert); isTA {
					t = tstr(ta.AssertedType)
				}
			}
			if ta, isTA := v.(*ssa.TypeAssert); isTA {
				t = tstr(ta.AssertedType)
			}
			if t == "" {
				return
			}
			set := settingsOf(c, 3)
			if convNote != "" {
				set = convNote + " " + set
			}
			rows = append(rows, a5row{"Fields", "appendFieldList", c.Pos(), t, name, set})
		})
	}
	// group by value type
	byType := map[string][]a5row{}
	for _, rw := range rows {
		byType[rw.typ] = append(byType[rw.typ], rw)
	}
	var typesSorted []string
	for t := range byType {
		typesSorted = append(typesSorted, t)
	}
	sort.Strings(typesSorted)
	nCompared := 0
	for _, t := range typesSorted {
		rs := byType[t]
		// types reached by a single front-end have no sibling to disagree with
		fronts := map[string]bool{}
		for _, rw := range rs {
			fronts[rw.front] = true
		}
		// majority tuple
		count := map[string]int{}
		for _, rw := range rs {
			count[rw.prim+"("+rw.settings+")"]++
		}
		best, bestN := "", 0
		var keys []string
		for k := range count {
			keys = append(keys, k)
		}
		sort.Strings(keys)
		for _, k := range keys {
			if count[k] > bestN {
				best, bestN = k, count[k]
			}
		}
		for _, rw := range rs {
			nCompared++
			tuple := rw.prim + "(" + rw.settings + ")"
			ok := tuple == best || len(fronts) == 1 && len(count) == 1
			// the same type may legitimately use different primitives for different field methods
			// (Hex vs Bytes on []byte, RawJSON vs Bytes): only compare rows whose primitive family matches
			if !ok && rw.front != "Fields" && differentFieldKinds(rw, rs, best) {
				ok = true
			}
			r.Ob("A5", rw.where+"/"+t+":"+rw.prim, p.Pos(rw.pos), ok, true, tern(ok, fmt.Sprintf("%s encodes %s with %s", rw.front, t, tuple), fmt.Sprintf("%s encodes %s with %s, while the other entry points use %s: the same (type, value) is encoded differently depending on the entry point", rw.where, t, tuple, best)))
		}
	}
	r.Count("a5_rows", len(rows))
	r.Count("a5_types", len(typesSorted))
	if nCompared < 150 {
		r.Fail("A5", "floor", "-", fmt.Sprintf("only %d front-end/primitive tuples extracted (≥ 170 on the pinned tree)", nCompared))
	}
}

// differentFieldKinds: several primitives exist for one Go type (e.g. []byte: AppendBytes, AppendHex);
// a row disagrees only with rows that use the same primitive.
func differentFieldKinds(rw a5row, rs []a5row, best string) bool {
	// count settings variants among rows with the same primitive
	variants := map[string]int{}
	for _, x := range rs {
		if x.prim == rw.prim {
			variants[x.settings]++
		}
	}
	if len(variants) == 1 {
		return true
	}
	// majority among same-primitive rows
	bestS, bestN := "", 0
	var ks []string
	for k := range variants {
		ks = append(ks, k)
	}
	sort.Strings(ks)
	for _, k := range ks {
		if variants[k] > bestN {
			bestS, bestN = k, variants[k]
		}
	}
	return rw.settings == bestS
}

// ruleErrorMarshalOnce: a value that already went through ErrorMarshalFunc is never handed to a
// function that applies ErrorMarshalFunc to that parameter again (every entry point marshals an
// error exactly once).
func ruleErrorMarshalOnce(r *Run, p *Prog) {
	emf := p.Global("", "ErrorMarshalFunc")
	if !r.Anchor(emf != nil, "A5", "ErrorMarshalFunc") {
		return
	}
	// which (function, parameter) pairs marshal their parameter
	marshals := map[*ssa.Function]map[int]bool{}
	nSites := 0
	for _, f := range p.ModFns {
		if pkgRel(f) != "" {
			continue
		}
		eachInstr(f, func(b *ssa.BasicBlock, i int, in ssa.Instruction) {
			c, ok := in.(*ssa.Call)
			if !ok || loadedGlobal(c.Call.Value) != emf || len(c.Call.Args) != 1 {
				return
			}
			nSites++
			for pi, par := range f.Params {
				if c.Call.Args[0] == ssa.Value(par) {
					if marshals[f] == nil {
						marshals[f] = map[int]bool{}
					}
					marshals[f][pi] = true
				}
			}
		})
	}
	for _, f := range p.ModFns {
		if pkgRel(f) != "" {
			continue
		}
		eachInstr(f, func(b *ssa.BasicBlock, i int, in ssa.Instruction) {
			c, ok := in.(*ssa.Call)
			if !ok || loadedGlobal(c.Call.Value) != emf {
				return
			}
			// values derived from the marshaled result
			derived := map[ssa.Value]bool{c: true}
			changed := true
			for changed {
				changed = false
				eachInstr(f, func(_ *ssa.BasicBlock, _ int, x ssa.Instruction) {
					v, isV := x.(ssa.Value)
					if !isV || derived[v] {
						return
					}
					switch y := x.(type) {
					case *ssa.TypeAssert:
						if derived[y.X] {
							derived[v] = true
							changed = true
						}
					case *ssa.Extract:
						if derived[y.Tuple] {
							derived[v] = true
							changed = true
						}
					case *ssa.ChangeInterface:
						if derived[y.X] {
							derived[v] = true
							changed = true
						}
					case *ssa.MakeInterface:
						if derived[y.X] {
							derived[v] = true
							changed = true
						}
					}
				})
			}
			bad := ""
			eachInstr(f, func(_ *ssa.BasicBlock, _ int, x ssa.Instruction) {
				cc, isC := x.(*ssa.Call)
				if !isC {
					return
				}
				sc := staticCallee(&cc.Call)
				if sc == nil || marshals[sc] == nil {
					return
				}
				for ai, arg := range cc.Call.Args {
					if derived[arg] && marshals[sc][ai] {
						bad = FnName(sc)
					}
				}
			})
			r.Ob("A5", FnName(f)+"/ErrorMarshalFunc-once", p.Pos(c.Pos()), bad == "", true, tern(bad == "", "the marshaled error is encoded without being marshaled again", "the result of ErrorMarshalFunc is passed to "+bad+", which applies ErrorMarshalFunc again: through this entry point an error is marshaled twice (other entry points marshal once)"))
		})
	}
	if nSites < 6 {
		r.Fail("A5", "ErrorMarshalFunc-sites", "-", fmt.Sprintf("only %d call sites of ErrorMarshalFunc found", nSites))
	}
}
