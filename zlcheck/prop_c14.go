package main

import (
	"fmt"
	"go/token"

	"golang.org/x/tools/go/ssa"
)

func init() { register("C14", checkC14) }

func checkC14(r *Run) {
	r.Explain = "Decides the fan-out and failure-containment shape: FANOUT in multiLevelWriter.Write/WriteLevel the loop over the destinations has no exit other than exhaustion, every iteration calls the destination exactly once with the function's own (loop-invariant) level and byte-slice parameters, and the accumulated error follows 'first failure wins' as a per-iteration path table (unchanged once set; set to the destination's error, or to io.ErrShortWrite when the count differs from len(p)); FILTER FilteredLevelWriter.WriteLevel forwards exactly under level >= w.Level and otherwise reports len(p), nil; ERRH in (*Event).msg the error handed to ErrorHandler / the stderr fallback is the one returned by write(), which is the writer's; exactly one of the two runs, once, only when err != nil, and nothing on that arm panics, exits or runs a callback (the Panic/Fatal completion callback does not return) before the error is reported; the event is recycled whatever the writer returned (A13c). MultiLevelWriter() returns its wrapper for any number of destinations. WCOUNT (both builds) every writer type of the module reports, on each return of its effective write method (WriteLevel, else Write) that can carry a nil error, len(p) of the slice it was given or the count of a Write/WriteLevel it handed that slice to — a module destination that counts something else (bytes sent to its own output, the length of a transcoded copy) turns every healthy event into io.ErrShortWrite under MultiLevelWriter. A13d (shared with C06/C15/C16): a module destination never puts a pooled buffer back holding a rejected event's text, so the event after a failed one is complete and unaffected. FANOUT keeps-its-writer: New stores the writer it was given. COPY (C10's rule): a diode destination copies p on every path."
	r.NotDec = "Behaviour of the destinations themselves; byte identity across destinations follows from the single loop-invariant operand p (stated, not separately checked)."
	r.Assume = []string{"destinations do not retain or modify p (io.Writer contract)"}
	p := r.Use("J")
	if p == nil {
		return
	}
	for _, name := range []string{"Write", "WriteLevel"} {
		ruleFanout(r, p, name)
	}
	ruleFilteredWriter(r, p)
	ruleErrorHandler(r, p)
	ruleA13(r, p, map[string]bool{"": true}, "c")
	ruleMultiAlwaysWraps(r, p)
	ruleMultiKeepsEveryWriter(r, p, "FANOUT")
	ruleNewKeepsItsWriter(r, p, "FANOUT")
	if dw := p.Method("diode", "Writer", "Write"); dw != nil {
		ruleCopyBeforePublish(r, p, dw) // a diode among the destinations keeps its own copy: it delivers the bytes its siblings got (C10's rule)
	}
	// a destination that keeps a rejected event's text in a pooled buffer prepends it to the next,
	// healthy event ("subsequent events are complete and unaffected")
	ruleBufferPoolClean(r, p, []string{""})
	wex := map[string]string{"multiLevelWriter": "the fan-out itself (FANOUT decides its count and error)"}
	ruleWriterCount(r, p, "WCOUNT", []string{"", "journald", "diode"}, wex)
	if pb := r.Use("B"); pb != nil {
		ruleWriterCount(r, pb, "WCOUNT", []string{"", "journald", "diode"}, wex)
	}
	r.Floor("WCOUNT", 16)
	r.Floor("FANOUT", 14)
	r.Floor("FILTER", 2)
	r.Floor("ERRH", 6)
}

func ruleFanout(r *Run, p *Prog, name string) {
	f := p.Method("", "multiLevelWriter", name)
	if !r.Anchor(f != nil, "FANOUT", "multiLevelWriter."+name) {
		return
	}
	f = p.View(f, "", nil)
	fn := FnName(f)
	// the destination call
	var call *ssa.Call
	n := 0
	eachInstr(f, func(b *ssa.BasicBlock, i int, in ssa.Instruction) {
		if c, ok := in.(*ssa.Call); ok && c.Call.IsInvoke() && c.Call.Method.Name() == name {
			call = c
			n++
		}
	})
	if n != 1 {
		r.Ob("FANOUT", fn+"/dest-call", p.Pos(f.Pos()), false, true, fmt.Sprintf("%d destination calls found (exactly one expected)", n))
		return
	}
	// enclosing loop
	var hdr *ssa.BasicBlock
	for _, b := range f.Blocks {
		if isLoopHeader(b) && loopBlocks(b)[call.Block()] {
			hdr = b
		}
	}
	if hdr == nil {
		r.Ob("FANOUT", fn+"/loop", p.Pos(call.Pos()), false, true, "the destination call is not inside a loop over the destinations")
		return
	}
	body := loopBlocks(hdr)
	// (1) no exit other than the header's
	okExit := true
	for b := range body {
		if b == hdr {
			continue
		}
		for _, s := range b.Succs {
			if !body[s] {
				okExit = false
			}
		}
		switch b.Instrs[len(b.Instrs)-1].(type) {
		case *ssa.Return, *ssa.Panic:
			okExit = false
		}
	}
	r.Ob("FANOUT", fn+"/no-early-exit", p.Pos(hdr.Instrs[0].Pos()), okExit, true, tern(okExit, "the loop over the destinations can only end by exhaustion", "the loop over the destinations has an early exit (break/return): later destinations miss the event when an earlier one fails"))
	// the loop ranges over the whole receiver slice: index phi from -1/0 step 1 against len(t.writers)
	facts, _ := analyseRangeLoop(f, call, call.Call.Value, func(v ssa.Value) bool { return isFieldOfParam(v, f, 0, "writers") })
	rangeOK := facts.RangeAll && facts.Hdr == hdr
	r.Ob("FANOUT", fn+"/range-all", p.Pos(hdr.Instrs[0].Pos()), rangeOK, true, tern(rangeOK, "the loop visits t.writers[0..len)", "the loop does not range over all of t.writers from the first element"))
	// (2) exactly one call per iteration, on the element of this iteration
	paths, complete := loopIterPaths(hdr, 2000)
	if !complete || len(paths) == 0 {
		r.Fail("FANOUT", fn+"/iter-paths", p.Pos(f.Pos()), "cannot enumerate iteration paths")
		return
	}
	okOnce := true
	for _, pa := range paths {
		c := 0
		for _, b := range pa.blocks {
			for _, in := range b.Instrs {
				if in == ssa.Instruction(call) {
					c++
				}
			}
		}
		if c != 1 {
			okOnce = false
		}
	}
	r.Ob("FANOUT", fn+"/call-every-iteration", p.Pos(call.Pos()), okOnce, true, tern(okOnce, "every iteration calls the destination exactly once, unconditionally", "some iteration skips (or repeats) the destination call"))
	// (3) loop-invariant operands: the function's own parameters
	okArgs := true
	want := f.Params[1:]
	if len(call.Call.Args) != len(want) {
		okArgs = false
	} else {
		for i, a := range call.Call.Args {
			if a != ssa.Value(want[i]) {
				okArgs = false
			}
		}
	}
	r.Ob("FANOUT", fn+"/same-operands", p.Pos(call.Pos()), okArgs, true, tern(okArgs, "every destination receives the function's own parameters (identical bytes and level)", "a destination receives "+descrArgs(call)+" instead of the unmodified parameters"))
	// receiver of the call is the element of this iteration
	elemOK := facts.Element
	r.Ob("FANOUT", fn+"/element", p.Pos(call.Pos()), elemOK, true, tern(elemOK, "the call goes to t.writers[i]", "the destination call does not go to the current element of t.writers"))
	// (4) first failure wins
	var errPhi *ssa.Phi
	for _, in := range hdr.Instrs {
		if ph, ok := in.(*ssa.Phi); ok && isErrorType(ph.Type()) {
			errPhi = ph
		}
	}
	if errPhi == nil {
		r.Ob("FANOUT", fn+"/err-accumulator", p.Pos(f.Pos()), false, true, "no accumulated error variable found in the loop")
		return
	}
	isDestErr := func(v ssa.Value) bool {
		ex, ok := v.(*ssa.Extract)
		return ok && ex.Index == 1 && ex.Tuple == ssa.Value(call)
	}
	isDestN := func(v ssa.Value) bool {
		ex, ok := v.(*ssa.Extract)
		return ok && ex.Index == 0 && ex.Tuple == ssa.Value(call)
	}
	for i, pa := range paths {
		cs := cmpsOfEdges(pa.edges)
		res := resolveOnIter(pa, hdr, errPhi)
		accNil := hasCmp(cs, func(op token.Token, x, y ssa.Value) bool {
			return op == token.EQL && x == ssa.Value(errPhi) && isNilConst(y)
		})
		accSet := hasCmp(cs, func(op token.Token, x, y ssa.Value) bool {
			return op == token.NEQ && x == ssa.Value(errPhi) && isNilConst(y)
		})
		dErr := hasCmp(cs, func(op token.Token, x, y ssa.Value) bool { return op == token.NEQ && isDestErr(x) && isNilConst(y) })
		dOK := hasCmp(cs, func(op token.Token, x, y ssa.Value) bool { return op == token.EQL && isDestErr(x) && isNilConst(y) })
		isLenP := func(v ssa.Value) bool {
			c, ok := v.(*ssa.Call)
			return ok && builtinName(&c.Call) == "len" && c.Call.Args[0] == ssa.Value(f.Params[len(f.Params)-1])
		}
		short := hasCmp(cs, func(op token.Token, x, y ssa.Value) bool { return op == token.NEQ && isDestN(x) && isLenP(y) })
		full := hasCmp(cs, func(op token.Token, x, y ssa.Value) bool { return op == token.EQL && isDestN(x) && isLenP(y) })
		var ok bool
		var d string
		switch {
		case accSet:
			ok = res == ssa.Value(errPhi)
			d = "an earlier failure is kept"
		case accNil && dErr:
			ok = isDestErr(res)
			d = "first failure: the destination's error is recorded"
		case accNil && dOK && short:
			g := loadedGlobal(res)
			ok = g != nil && g.Name() == "ErrShortWrite" && g.Pkg.Pkg.Path() == "io"
			d = "short write is recorded as io.ErrShortWrite"
		case accNil && dOK && full:
			// the accumulator is nil on this path: keeping it and storing nil are the same
			ok = res == ssa.Value(errPhi) || isNilConst(res)
			d = "success leaves the accumulator nil"
		default:
			ok = false
			d = "iteration path not covered by the first-failure-wins table"
		}
		if !ok {
			d = "accumulated error after this iteration is " + descr(res) + " [" + joinMax(cmpStrings(cs), 6) + "]: not 'first failure wins' (" + d + ")"
		}
		r.Ob("FANOUT", fn+"/first-failure#"+itoa(i), p.Pos(call.Pos()), ok, true, d)
	}
	// returned error is the accumulator
	eachInstr(f, func(b *ssa.BasicBlock, i int, in ssa.Instruction) {
		if ret, ok := in.(*ssa.Return); ok && len(ret.Results) == 2 {
			ok := ret.Results[1] == ssa.Value(errPhi)
			r.Ob("FANOUT", fn+"/returns-accumulator", p.Pos(ret.Pos()), ok, true, tern(ok, "the accumulated error is returned", "the function returns "+descr(ret.Results[1])+" instead of the accumulated error"))
		}
	})
}

func cmpStrings(cs []Cmp) []string {
	var out []string
	for _, c := range cs {
		out = append(out, cmpString(c))
	}
	return out
}

func descrArgs(c *ssa.Call) string {
	s := ""
	for i, a := range c.Call.Args {
		if i > 0 {
			s += ", "
		}
		s += descr(a)
	}
	return "(" + s + ")"
}

func ruleFilteredWriter(r *Run, p *Prog) {
	f := p.Method("", "FilteredLevelWriter", "WriteLevel")
	if !r.Anchor(f != nil, "FILTER", "(*FilteredLevelWriter).WriteLevel") {
		return
	}
	f = p.View(f, "", nil)
	paths, complete := enumPaths(f, 1, 1000)
	if !complete {
		r.Fail("FILTER", FnName(f)+"/paths", p.Pos(f.Pos()), "cannot enumerate paths")
		return
	}
	isLevel := func(v ssa.Value) bool { return isParam(v, f, 1) }
	isThreshold := func(v ssa.Value) bool { return isFieldOfParam(v, f, 0, "Level") }
	for i, pa := range paths {
		ret, _ := pa.Exit.(*ssa.Return)
		if ret == nil {
			r.Ob("FILTER", FnName(f)+"/path#"+itoa(i), p.Pos(pa.Exit.Pos()), false, true, "path ends in panic")
			continue
		}
		cs := pa.Cmps()
		fwd := false
		for _, in := range pa.Instrs() {
			if c, ok := in.(*ssa.Call); ok && c.Call.IsInvoke() && c.Call.Method.Name() == "WriteLevel" {
				fwd = len(c.Call.Args) == 2 && isLevel(c.Call.Args[0]) && c.Call.Args[1] == ssa.Value(f.Params[2]) && isFieldOfParam(c.Call.Value, f, 0, "Writer")
			}
		}
		ge := hasCmp(cs, func(op token.Token, x, y ssa.Value) bool { return op == token.GEQ && isLevel(x) && isThreshold(y) })
		lt := hasCmp(cs, func(op token.Token, x, y ssa.Value) bool { return op == token.LSS && isLevel(x) && isThreshold(y) })
		var ok bool
		var d string
		if fwd {
			ok = ge
			d = tern(ok, "forwards (level, p) to the wrapped writer exactly when level >= w.Level", "forwards on a path that does not carry level >= w.Level ["+pa.String(p)+"]")
		} else {
			n := pa.Resolve(ret.Results[0])
			e := pa.Resolve(ret.Results[1])
			lenP := false
			if c, isC := n.(*ssa.Call); isC && builtinName(&c.Call) == "len" && c.Call.Args[0] == ssa.Value(f.Params[2]) {
				lenP = true
			}
			ok = lt && lenP && isNilConst(e)
			d = tern(ok, "below the threshold: reports len(p), nil without forwarding", "a non-forwarding path does not carry level < w.Level or does not report (len(p), nil) ["+pa.String(p)+"]")
		}
		r.Ob("FILTER", FnName(f)+"/path#"+itoa(i), p.Pos(ret.Pos()), ok, true, d)
	}
}

func ruleErrorHandler(r *Run, p *Prog) {
	_, fns := eventWriterCalls(p)
	var write *ssa.Function
	for f := range fns {
		write = f
	}
	if !r.Anchor(write != nil && len(fns) == 1, "ERRH", "the function invoking the event's writer") {
		return
	}
	// write returns the writer's error (or nil)
	eachInstr(write, func(b *ssa.BasicBlock, i int, in ssa.Instruction) {
		ret, ok := in.(*ssa.Return)
		if !ok || len(ret.Results) != 1 {
			return
		}
		ok = valueIsWriterErrOrNil(ret.Results[0], map[ssa.Value]bool{})
		r.Ob("ERRH", FnName(write)+"/returns-writer-error", p.Pos(ret.Pos()), ok, true, tern(ok, "write() returns the writer's error or nil", "write() returns "+descr(ret.Results[0])+", not the error the writer reported"))
	})
	cs := callersOf(p, write, "")
	var msg *ssa.Function
	for f := range cs {
		msg = f
	}
	if !r.Anchor(msg != nil && len(cs) == 1, "ERRH", "single caller of write()") {
		return
	}
	eh := p.Global("", "ErrorHandler")
	if !r.Anchor(eh != nil, "ERRH", "ErrorHandler") {
		return
	}
	nSites := 0
	for _, f := range p.ModFns {
		eachInstr(f, func(b *ssa.BasicBlock, i int, in ssa.Instruction) {
			if cc := callCommon(in); cc != nil && loadedGlobal(cc.Value) == eh {
				nSites++
				if f != msg {
					r.Ob("ERRH", FnName(f)+"/calls-ErrorHandler", p.Pos(in.Pos()), false, true, "ErrorHandler is also invoked from "+FnName(f)+": a failed write is reported more than once")
				}
			}
		})
	}
	r.Ob("ERRH", "ErrorHandler/call-sites", p.Pos(msg.Pos()), nSites == 1, true, fmt.Sprintf("%d call site(s) of ErrorHandler in the module (exactly one expected)", nSites))
	paths, complete := enumPaths(msg, 2, 20000)
	if !complete {
		r.Fail("ERRH", FnName(msg)+"/paths", p.Pos(msg.Pos()), "cannot enumerate paths")
		return
	}
	seen := map[string]bool{}
	for _, pa := range paths {
		var werr ssa.Value
		nH, nF, bad := 0, 0, ""
		var hArg ssa.Value
		for _, in := range pa.Instrs() {
			switch x := in.(type) {
			case *ssa.Call:
				if staticCallee(&x.Call) == write {
					werr = x
				}
				if loadedGlobal(x.Call.Value) == eh {
					nH++
					if len(x.Call.Args) == 1 {
						hArg = x.Call.Args[0]
					}
				}
				if isCallTo(&x.Call, "fmt.Fprintf") || isCallTo(&x.Call, "fmt.Fprintln") || isCallTo(&x.Call, "fmt.Fprint") {
					nF++
				}
				if isCallTo(&x.Call, "os.Exit") {
					bad = "os.Exit"
				}
				// a callback run between the failed write and its report: the completion callback
				// of Panic()/Fatal() does not return, so the error would reach nobody
				if werr != nil && nH+nF == 0 && !x.Call.IsInvoke() && staticCallee(&x.Call) == nil && builtinName(&x.Call) == "" && loadedGlobal(x.Call.Value) != eh {
					bad = "the callback " + descr(x.Call.Value) + " runs before the write error is reported"
				}
			case *ssa.Panic:
				if werr != nil {
					bad = "panic"
				}
			}
		}
		if werr == nil {
			continue
		}
		cmps := pa.Cmps()
		failed := hasCmp(cmps, func(op token.Token, x, y ssa.Value) bool { return op == token.NEQ && x == werr && isNilConst(y) })
		succeeded := hasCmp(cmps, func(op token.Token, x, y ssa.Value) bool { return op == token.EQL && x == werr && isNilConst(y) })
		hSet := hasCmp(cmps, func(op token.Token, x, y ssa.Value) bool {
			return op == token.NEQ && loadedGlobal(x) == eh && isNilConst(y)
		})
		var ok bool
		var key, d string
		switch {
		case failed && hSet:
			key = "failed/handler"
			ok = nH == 1 && nF == 0 && hArg == werr && bad == ""
			d = tern(ok, "write error: ErrorHandler(err) called exactly once with that error", fmt.Sprintf("write error with ErrorHandler set: %d handler calls (arg %s), %d stderr prints, %s", nH, descr(hArg), nF, bad))
		case failed:
			key = "failed/stderr"
			ok = nH == 0 && nF == 1 && bad == ""
			d = tern(ok, "write error without ErrorHandler: one stderr line", fmt.Sprintf("write error without ErrorHandler: %d handler calls, %d stderr prints, %s", nH, nF, bad))
		case succeeded:
			key = "ok"
			ok = nH == 0 && nF == 0
			d = tern(ok, "no error: neither handler nor stderr", "ErrorHandler or the stderr fallback runs although the write succeeded")
		default:
			key = "unchecked"
			ok = nH == 0 && nF == 0
			d = tern(ok, "write error ignored?", "error handling without testing the error")
			if ok {
				ok = false
				d = "a path through msg() does not test the error returned by write()"
			}
		}
		if seen[key] && ok {
			continue
		}
		seen[key] = true
		r.Ob("ERRH", FnName(msg)+"/"+key, p.Pos(msg.Pos()), ok, true, d)
	}
	for _, k := range []string{"failed/handler", "failed/stderr", "ok"} {
		if !seen[k] {
			r.Ob("ERRH", FnName(msg)+"/"+k, p.Pos(msg.Pos()), false, true, "msg() has no path for the case "+k)
		}
	}
}

func valueIsWriterErrOrNil(v ssa.Value, seen map[ssa.Value]bool) bool {
	if seen[v] {
		return true
	}
	seen[v] = true
	switch x := v.(type) {
	case *ssa.Const:
		return x.IsNil()
	case *ssa.Phi:
		for _, e := range x.Edges {
			if !valueIsWriterErrOrNil(e, seen) {
				return false
			}
		}
		return true
	case *ssa.Extract:
		if c, ok := x.Tuple.(*ssa.Call); ok && c.Call.IsInvoke() && x.Index == 1 {
			return c.Call.Method.Name() == "WriteLevel" || c.Call.Method.Name() == "Write"
		}
	case *ssa.UnOp:
		// named result spilled to an Alloc because of defer/recover
		if al, ok := x.X.(*ssa.Alloc); ok && x.Op == token.MUL {
			for _, ref := range referrersOf(al) {
				if st, ok := ref.(*ssa.Store); ok && st.Addr == ssa.Value(al) {
					if !valueIsWriterErrOrNil(st.Val, seen) {
						return false
					}
				}
			}
			return true
		}
	}
	return false
}

// ruleMultiAlwaysWraps: the short-write → io.ErrShortWrite translation and the "first failure
// wins" accumulation live in multiLevelWriter. MultiLevelWriter() therefore returns that wrapper
// for every number of destinations: handing back its only argument "to spare the loop" loses the
// translation for the one-destination case (Event.write ignores the count).
func ruleMultiAlwaysWraps(r *Run, p *Prog) {
	f := p.Func("", "MultiLevelWriter")
	mt := p.NamedType("", "multiLevelWriter")
	if !r.Anchor(f != nil && mt != nil, "FANOUT", "MultiLevelWriter / multiLevelWriter") {
		return
	}
	v := p.View(f, "", nil)
	n, okAll, why := 0, true, ""
	var isWrapper func(x ssa.Value, depth int) bool
	isWrapper = func(x ssa.Value, depth int) bool {
		if depth > 4 {
			return false
		}
		switch y := x.(type) {
		case *ssa.MakeInterface:
			return namedOf(y.X.Type()) == mt
		case *ssa.Phi:
			for _, e := range y.Edges {
				if !isWrapper(e, depth+1) {
					return false
				}
			}
			return true
		case *ssa.ChangeInterface:
			return isWrapper(y.X, depth+1)
		}
		return false
	}
	eachInstr(v, func(b *ssa.BasicBlock, i int, in ssa.Instruction) {
		ret, ok := in.(*ssa.Return)
		if !ok || len(ret.Results) != 1 {
			return
		}
		n++
		if !isWrapper(ret.Results[0], 0) {
			okAll = false
			why = descr(ret.Results[0])
		}
	})
	okc := okAll && n > 0
	r.Ob("FANOUT", FnName(f)+"/always-wraps", p.Pos(f.Pos()), okc, true, tern(okc, "every return is a multiLevelWriter (the short-write translation applies for any number of destinations)", "MultiLevelWriter can return "+why+" instead of its wrapper: for that case a short write by the destination is never turned into io.ErrShortWrite, so ErrorHandler is not called"))
}
