package main

import (
	"fmt"

	"golang.org/x/tools/go/ssa"
)

func init() {
	register("C10", checkC10)
	register("C11", checkC11)
	register("C12", checkC12)
}

func checkC10(r *Run) {
	r.Explain = "Does NOT decide the headline (no duplication, in-order delivery, behaviour under lapping: these quantify over interleavings of atomic operations). Decides the sequential preconditions every schedule relies on: A19 nothing reachable from diode.Writer.Write (VTA call graph, module functions) takes a lock, waits, sleeps, performs a channel operation or calls the wrapped writer — the producer cannot wait for the consumer or a slow writer; COPY the pointer published to the ring designates a local whose value is append(<pool buffer>, p...), never p itself, on every path that reaches Set (zerolog recycles p after Write returns); SINGLE exactly one go statement starts poll and Next/TryNext are reached only from it (deliveries happen one at a time); A13 the copy is returned to bufPool only after the wrapped Write returned and is not touched afterwards; A14 ring fields are accessed only through sync/atomic and readIndex only by the consumer; TAKE the consumer empties a slot with a single atomic SwapPointer(slot, nil) and takes every decision (empty, stale, lapped, regular) and the delivered data from the very bucket that exchange returned (no peek-then-swap window), and every attempt of Set starts from scratch: nothing read from a ring slot is carried across a retry (a remembered bucket from a lost attempt is not one this producer took out of the ring). TAKE claim-on-every-retry: every loop of Set passes through the fetch-add (no inner loop re-trying a position already held). SINGLE delivers-once: every iteration of the consumer loop hands the wrapped writer exactly the buffer it took from the ring, once. A19 producer entries: every exported method of diode.Writer other than Close is a producer entry; none reaches a lock, wait, channel operation or a read of the wrapped-writer field. A13 published-not-recycled: after Set no path of a producer entry returns a buffer to the pool."
	r.NotDec = "Ordering, no-duplication, 'byte-identical to exactly one earlier Write', behaviour when producers lap the consumer, alert counts: schedule-quantified, not decided by this family (would need a verified model of the ring algorithm)."
	r.Assume = []string{"log.Println on the collision arm may block on stderr; it does not involve the wrapped writer (observation, not a C10 violation as stated)"}
	r.Trusted = []string{"x/tools callgraph/vta"}
	p := r.Use("J")
	if p == nil {
		return
	}
	w := p.Method("diode", "Writer", "Write")
	if !r.Anchor(w != nil, "A19", "diode.Writer.Write") {
		return
	}
	ruleA19(r, p, "A19", w, "w")
	ruleProducersNeverTouchWrappedWriter(r, p, "A19", w)
	rulePublishedBufferStaysWithConsumer(r, p, "A13")
	ruleCopyBeforePublish(r, p, w)
	ruleSingleConsumer(r, p)
	ruleA13(r, p, map[string]bool{"diode": true}, "ab")
	ruleA14(r, p, "A14", map[string]bool{diodesRel: true}, []string{"ManyToOne.writeIndex", "buffer[]"})
	ruleConsumerPrivate(r, p)
	ruleTakeAtomically(r, p, "TAKE")
	ruleSetRetryStateless(r, p, "TAKE")
	ruleClaimOnEveryRetry(r, p, "TAKE")
	rulePollDeliversOnce(r, p, "SINGLE")
	r.Floor("TAKE", 2)
	r.Floor("A19", 3)
	r.Floor("COPY", 1)
	r.Floor("SINGLE", 3)
	r.Floor("A14", 3)
}

func ruleCopyBeforePublish(r *Run, p *Prog, w *ssa.Function) {
	w = p.View(w, "", nil)
	var sets []*ssa.Call
	eachInstr(w, func(b *ssa.BasicBlock, i int, in ssa.Instruction) {
		if c, ok := in.(*ssa.Call); ok && c.Call.IsInvoke() && c.Call.Method.Name() == "Set" {
			sets = append(sets, c)
		}
	})
	if len(sets) == 0 {
		r.Ob("COPY", FnName(w)+"/publish", p.Pos(w.Pos()), false, true, "Write does not publish to the ring")
		return
	}
	// every publication site is judged (a size-dependent shortcut publishes from a second site)
	for k, set := range sets {
		copyBeforePublishAt(r, p, w, set, tern(k == 0, "", "#"+itoa(k+1)))
	}
}

func copyBeforePublishAt(r *Run, p *Prog, w *ssa.Function, set *ssa.Call, suffix string) {
	arg := set.Call.Args[0]
	for {
		if cv, ok := arg.(*ssa.Convert); ok {
			arg = cv.X
			continue
		}
		if cv, ok := arg.(*ssa.ChangeType); ok {
			arg = cv.X
			continue
		}
		break
	}
	al, ok := arg.(*ssa.Alloc)
	okc := false
	why := "the published pointer is " + descr(arg)
	if ok {
		// the last store into the local before Set
		var stored ssa.Value
		for _, ref := range referrersOf(al) {
			if st, isSt := ref.(*ssa.Store); isSt && st.Addr == ssa.Value(al) {
				if found, _ := pathExists(w, st, func(x ssa.Instruction) bool { return x == ssa.Instruction(set) }, nil, nil); found {
					stored = st.Val
				}
			}
		}
		if ap, isC := stored.(*ssa.Call); isC && builtinName(&ap.Call) == "append" && len(ap.Call.Args) == 2 {
			base := originOfSlice(w, ap.Call.Args[0], 0, map[ssa.Value]bool{})
			fromParam := false
			for k := range base.kinds {
				if k == "recv:p" || k == "other:param:p" {
					fromParam = true
				}
			}
			if isParam(ap.Call.Args[0], w, 1) {
				fromParam = true
			}
			spreadIsParam := isParam(ap.Call.Args[1], w, 1)
			// the parameter is address-taken (&p is published), so it lives in a local: the spread
			// operand is a load of that local while it still holds the caller's slice
			if ld, isLd := ap.Call.Args[1].(*ssa.UnOp); isLd {
				if pal, isAl := ld.X.(*ssa.Alloc); isAl {
					if init := allocInit(pal); init != nil && isParam(init, w, 1) {
						// no other store to the local reaches this load
						other := false
						for _, ref := range referrersOf(pal) {
							if st, isSt := ref.(*ssa.Store); isSt && st.Addr == ssa.Value(pal) && st.Val != init {
								if found, _ := pathExists(w, st, func(x ssa.Instruction) bool { return x == ssa.Instruction(ld) }, nil, nil); found {
									other = true
								}
							}
						}
						spreadIsParam = !other
					}
				}
			}
			okc = !fromParam && spreadIsParam
			why = "published value = append(" + descr(ap.Call.Args[0]) + ", " + descr(ap.Call.Args[1]) + "...)"
			// the buffer appended to is empty (a pooled slice that is put back as x[:0], or a fresh
			// make with length 0): otherwise the destination receives leading bytes that are no
			// part of the Write (make([]byte, n) in front of an n-byte event: n zero bytes)
			var emptyBase func(v ssa.Value, depth int) bool
			emptyBase = func(v ssa.Value, depth int) bool {
				if depth > 4 {
					return false
				}
				switch x := v.(type) {
				case *ssa.Phi:
					for _, e := range x.Edges {
						if !emptyBase(e, depth+1) {
							return false
						}
					}
					return len(x.Edges) > 0
				case *ssa.MakeSlice:
					k, isC := constInt(x.Len)
					return isC && k == 0
				case *ssa.Slice:
					if x.High != nil {
						k, isC := constInt(x.High)
						return isC && k == 0
					}
					return false
				}
				return emptyPooledSlice(p, v)
			}
			if okc && !emptyBase(ap.Call.Args[0], 0) {
				okc = false
				why = "the copy is appended to " + descr(ap.Call.Args[0]) + ", which is not provably empty: the published buffer can start with bytes that are no part of p"
			}
			// … on EVERY path to the publication: no path reaches Set without passing the copying store
			if okc {
				var copyStore ssa.Instruction
				for _, ref := range referrersOf(al) {
					if st, isSt := ref.(*ssa.Store); isSt && st.Addr == ssa.Value(al) && st.Val == ssa.Value(ap) {
						copyStore = st
					}
				}
				skip, _ := pathExists(w, nil, func(x ssa.Instruction) bool { return x == ssa.Instruction(set) }, func(x ssa.Instruction) bool { return x == copyStore }, nil)
				if copyStore == nil || skip {
					okc = false
					why = "a path publishes the caller's own slice without copying it (the copy is conditional)"
				}
			}
		} else if stored != nil {
			why = "published value = " + descr(stored)
		}
	}
	r.Ob("COPY", FnName(w)+"/copy-before-publish"+suffix, p.Pos(set.Pos()), okc, true, tern(okc, "the ring receives a private copy of p ("+why+")", "the ring does not receive a private copy of the caller's bytes ("+why+"): zerolog reuses p as soon as Write returns, so the consumer would deliver modified bytes"))
	// returns len of the data, nil
}

func ruleSingleConsumer(r *Run, p *Prog) {
	poll := p.Method("diode", "Writer", "poll")
	if !r.Anchor(poll != nil, "SINGLE", "diode.Writer.poll") {
		return
	}
	nGo := 0
	for _, f := range p.ModFns {
		if pkgRel(f) != "diode" {
			continue
		}
		eachInstr(f, func(b *ssa.BasicBlock, i int, in ssa.Instruction) {
			g, ok := in.(*ssa.Go)
			if !ok {
				return
			}
			target := staticCallee(&g.Call)
			if target == nil {
				if mc, isMC := g.Call.Value.(*ssa.MakeClosure); isMC {
					target, _ = mc.Fn.(*ssa.Function)
				}
			}
			if target == poll || (target != nil && target.Synthetic != "" && callsFn(target, poll)) {
				nGo++
				inLoop := false
				for _, hb := range f.Blocks {
					if isLoopHeader(hb) && loopBlocks(hb)[g.Block()] {
						inLoop = true
					}
				}
				inCtor := f.Name() == "NewWriter"
				if nw := p.Func("diode", "NewWriter"); nw != nil && !inCtor {
					// `start()` called by NewWriter only is part of the constructor
					if p.exclusiveHelpers(nw)[f] {
						if skip, _ := pathExists(p.View(nw, "keep-start", func(h *ssa.Function) bool { return h == f }), nil, isReturn, func(x ssa.Instruction) bool {
							cc := callCommon(x)
							return cc != nil && staticCallee(cc) == f
						}, nil); !skip {
							inCtor = true
						}
					}
				}
				r.Ob("SINGLE", FnName(f)+"/go-poll", p.Pos(g.Pos()), !inLoop && inCtor, true, tern(!inLoop, "the consumer goroutine is started once per Writer, in its constructor", "the consumer goroutine is started in a loop"))
			}
		})
	}
	r.Ob("SINGLE", "go-poll/count", p.Pos(poll.Pos()), nGo == 1, true, fmt.Sprintf("%d go statement(s) start the consumer (exactly one expected: deliveries must happen one at a time)", nGo))
	// Next is invoked only from poll (or its private helpers); TryNext only from the two Next implementations
	pollSet := p.exclusiveHelpers(poll)
	for _, f := range p.ModFns {
		rel := pkgRel(f)
		if rel != "diode" && rel != diodesRel {
			continue
		}
		eachInstr(f, func(b *ssa.BasicBlock, i int, in ssa.Instruction) {
			c, ok := in.(*ssa.Call)
			if !ok || !c.Call.IsInvoke() {
				return
			}
			switch c.Call.Method.Name() {
			case "Next":
				okc := pollSet[f]
				r.Ob("SINGLE", FnName(f)+"/calls-Next", p.Pos(c.Pos()), okc, true, tern(okc, "Next() called by the single consumer", "Next() is called from "+FnName(f)+": a second consumer"))
			case "TryNext":
				okc := f.Name() == "Next" && rel == diodesRel
				r.Ob("SINGLE", FnName(f)+"/calls-TryNext", p.Pos(c.Pos()), okc, true, tern(okc, "TryNext() called from a Next() implementation", "TryNext() is called from "+FnName(f)))
			}
		})
	}
}

func callsFn(f, target *ssa.Function) bool {
	found := false
	eachInstr(f, func(b *ssa.BasicBlock, i int, in ssa.Instruction) {
		if cc := callCommon(in); cc != nil && staticCallee(cc) == target {
			found = true
		}
	})
	return found
}

// readIndex is consumer-private: touched only by TryNext (and never by producers)
func ruleConsumerPrivate(r *Run, p *Prog) {
	for _, f := range p.ModFns {
		if pkgRel(f) != diodesRel {
			continue
		}
		eachInstr(f, func(b *ssa.BasicBlock, i int, in ssa.Instruction) {
			fa, ok := in.(*ssa.FieldAddr)
			if !ok || fname(fieldVar(fa)) != "readIndex" {
				return
			}
			okc := f.Name() == "TryNext"
			if !okc {
				// a private step only TryNext calls (fastForward) is TryNext
				for _, tn := range []string{"ManyToOne", "OneToOne"} {
					if t := p.Method(diodesRel, tn, "TryNext"); t != nil && p.exclusiveHelpers(t)[f] {
						okc = true
					}
				}
			}
			r.Ob("A14", FnName(f)+"/readIndex", p.Pos(fa.Pos()), okc, true, tern(okc, "readIndex touched only by the consumer (TryNext)", "readIndex is accessed from "+FnName(f)+", outside the single consumer: unsynchronised shared access"))
		})
	}
}

func checkC11(r *Run) {
	r.Explain = "Does NOT decide the schedule-quantified inequality delivered + reported >= written. Decides the structural conditions it rests on: DRAIN in both Poller.Next and Waiter.Next no path leads from the edge on which isDone() was true to the end-of-stream return without a failed TryNext in between (the ring is found empty after cancellation was observed), so Close delivers what is still in the ring, including a Write that completed just before it; CLOSE Writer.Close orders cancel → wait for poll → close the wrapped writer, done is closed only by poll's deferred close, poll ends only on a nil from Next; FATAL Logger.Fatal closes a closable writer before os.Exit, the writer wrappers forward Close and multiLevelWriter.Close reaches every child; A20 unsigned subtractions in the diode are dominated by an order check on the same operands, and A21 every claimed ring position is published (no iteration retries with a new position, and every return of Set follows a successful compare-and-swap at the position claimed last) — both report ManyToOne.Set (KNOWN-FINDINGs: first-lap underflow makes the newer-bucket test vacuous; a producer that loses its slot abandons the claimed position, leaving a hole at which the consumer stalls); ALERT the drop report reaches the user: TryNext fast-forwards readIndex only together with alerter.Alert(new − old) and every delivering path advances readIndex past the delivered message, NewManyToOne keeps the caller's alerter, AlertFunc.Alert forwards unconditionally, and diode.NewWriter hands the ring the user's Alerter (or a wrapper that calls it on every path). multiLevelWriter.Close's counter covers every index; the value TryNext finally increments is the current read index, not a copy taken before the fast-forward; no value read from a ring slot is carried across a retry of Set. ALERT idle-keeps-read-head: a TryNext path that delivers nothing does not write readIndex. FATAL keeps-every-writer: every writer handed to MultiLevelWriter is in the list Close walks. ALERT fast-forward-lands-on-delivered: every store to readIndex before the final increment of a delivering path stores the delivered bucket's seq itself. FATAL close-covers: in the writer wrappers every field written through is offered to io.Closer by Close."
	r.NotDec = "delivered + reported >= written over all interleavings; that no message is dropped while fewer than the ring size are outstanding: schedule-quantified."
	r.Assume = []string{"the two known findings are genuine per the property's own confirmation on the real code; no small safe repair exists (vendored lock-free protocol)"}
	p := r.Use("J")
	if p == nil {
		return
	}
	ruleDrainBeforeExit(r, p, "DRAIN", "Poller")
	ruleDrainBeforeExit(r, p, "DRAIN", "Waiter")
	ruleCloseOrder(r, p, "CLOSE")
	ruleFatalCloses(r, p, "FATAL")
	ruleMultiKeepsEveryWriter(r, p, "FATAL") // every writer handed to MultiLevelWriter is in the list Close walks
	ruleCloseCoversWrittenFields(r, p, "FATAL")
	ruleA20(r, p, "A20")
	ruleA21(r, p, "A21")
	ruleAlertWiring(r, p, "ALERT")
	ruleReaderAdvances(r, p, "ALERT")
	r.Floor("ALERT", 9)
	r.Floor("DRAIN", 2)
	r.Floor("CLOSE", 3)
	r.Floor("FATAL", 6)
	r.Floor("A20", 2)
	r.Floor("A21", 2)
}

func checkC12(r *Run) {
	r.Explain = "Decides the lost-wake-up condition and the wait structure: A15b every Broadcast on the Waiter's condition variable must be issued with the waiter's mutex held, because the waiter tests the ring and sleeps under that mutex while producers change the ring outside it — (*Waiter).Set broadcasts without the mutex (KNOWN-FINDING: the consumer can park in Wait with a message in the ring until something else is written); the cancel goroutine broadcasts under the mutex; Waiter.Next calls Wait under the mutex inside the loop that re-tests TryNext and does not release the mutex between the failed test and Wait; (*Waiter).Set signals after the Set that publishes, never before; POLL Poller.Next's loop re-tests TryNext in every iteration and its only wait is time.Sleep(p.interval); CLOSE Writer.Close waits only for poll's done channel, which poll's deferred close always closes. ALERT advances (shared with C11): every delivering path of TryNext moves the read index past the delivered message. REENTER (*Waiter).Next holds the waiter's mutex while TryNext runs the user's alerter, so nothing reachable from diode.Writer.Write may take that mutex (an alerter that logs to the same diode would block the consumer on itself). CLOSE consumer-started-on-every-path: every return of NewWriter comes after the go statement that starts poll. TAKE (shared with C10): the slot is emptied by one atomic exchange. ALERT fast-forward-lands-on-delivered (shared with C11): the fast-forward puts the read head on the delivered bucket."
	r.NotDec = "Liveness over all schedules beyond this necessary condition."
	r.Assume = []string{"repairing Waiter.Set would make producers take the mutex the consumer holds while it runs the user's alerter: not a small safe repair (conflicts with C10's non-blocking producers)"}
	p := r.Use("J")
	if p == nil {
		return
	}
	ruleA15b(r, p, "A15b")
	rulePollerLoop(r, p)
	// a consumer whose read head does not move past what it delivered looks at an emptied slot from
	// then on: later messages sit in the ring with the consumer idle until something laps it again
	ruleReaderAdvances(r, p, "ALERT")
	ruleCloseOrder(r, p, "CLOSE")
	ruleConsumerAlwaysStarted(r, p, "CLOSE")
	// a slot emptied by load-then-store instead of one exchange wipes a message whose Write has
	// already returned: nothing delivers or reports it until another Write laps the ring
	ruleTakeAtomically(r, p, "TAKE")
	ruleNoReentrantLock(r, p, "REENTER")
	r.Floor("REENTER", 1)
	r.Floor("A15b", 3)
	r.Floor("POLL", 2)
	r.Floor("CLOSE", 3)
}

func rulePollerLoop(r *Run, p *Prog) {
	f := p.Method(diodesRel, "Poller", "Next")
	if !r.Anchor(f != nil, "POLL", "(*Poller).Next") {
		return
	}
	var hdr *ssa.BasicBlock
	for _, b := range f.Blocks {
		if isLoopHeader(b) {
			hdr = b
		}
	}
	if hdr == nil {
		r.Ob("POLL", FnName(f)+"/loop", p.Pos(f.Pos()), false, true, "no polling loop")
		return
	}
	paths, complete := loopIterPaths(hdr, 2000)
	okTry := complete && len(paths) > 0
	okWait := true
	why := ""
	for _, pa := range paths {
		try := false
		for _, b := range pa.blocks {
			for _, in := range b.Instrs {
				if c, ok := in.(*ssa.Call); ok {
					if c.Call.IsInvoke() && c.Call.Method.Name() == "TryNext" {
						try = true
					}
					if isCallTo(&c.Call, "time.Sleep") {
						if fv, _ := loadedField(c.Call.Args[0]); fv == nil || fname(fv) != "interval" {
							okWait = false
							why = "sleeps for " + descr(c.Call.Args[0])
						}
						continue
					}
				}
				if w := blockingInstr(in); w != "" {
					okWait = false
					why = w
				}
			}
		}
		if !try {
			okTry = false
		}
	}
	r.Ob("POLL", FnName(f)+"/retests-every-iteration", p.Pos(f.Pos()), okTry, true, tern(okTry, "every iteration of the polling loop calls TryNext", "an iteration of the polling loop does not re-test the ring"))
	r.Ob("POLL", FnName(f)+"/only-bounded-sleep", p.Pos(f.Pos()), okWait, true, tern(okWait, "the only wait in the loop is time.Sleep(p.interval)", "the polling loop contains an unbounded wait ("+why+"): a written message may never be picked up"))
}
