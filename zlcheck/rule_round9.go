package main

// Rules added after the tenth seeding batch ("look further out": helpers two calls away from the
// anchors, second use of pooled/shared storage, configuration-dependent arms).

import (
	"fmt"
	"go/token"
	"go/types"
	"sort"
	"strings"

	"golang.org/x/tools/go/ssa"
)

// ruleWithCarriesContext: the child logger With() builds starts from ALL the parent's context
// bytes: the context it stores is append(<fresh>, parent...) (possibly extended further) on every
// path on which the parent has a context. A bounded copy (copy() into a fixed-size buffer) drops
// what lies beyond the bound.
func ruleWithCarriesContext(r *Run, p *Prog, rule string) {
	f := p.Method("", "Logger", "With")
	if !r.Anchor(f != nil, rule, "(Logger).With") {
		return
	}
	f = p.View(f, "", nil)
	paths, complete := enumPaths(f, 1, 4000)
	if !complete || len(paths) == 0 {
		r.Fail(rule, FnName(f)+"/carries-parent-context", p.Pos(f.Pos()), "cannot enumerate the paths of With (undecided, fail closed)")
		return
	}
	isRecvCtx := func(v ssa.Value) bool {
		fv, base := loadedField(v)
		return fv != nil && isByteSlice(fv.Type()) && (isParam(base, f, 0) || isAllocOfParam(base, f, 0))
	}
	nCopy, bad, badPos := 0, "", ""
	for _, pa := range paths {
		if _, ok := pa.Exit.(*ssa.Return); !ok || pa.Infeasible() {
			continue
		}
		// the parent's context is nil on this path: nothing to carry
		parentNil := false
		for _, c := range pa.Cmps() {
			x, y := pa.Resolve(c.X), pa.Resolve(c.Y)
			if isNilConst(x) {
				x, y = y, x
			}
			if c.Op == token.EQL && isNilConst(y) && isRecvCtx(x) {
				parentNil = true
			}
		}
		if parentNil {
			continue
		}
		// last store into a []byte field of Logger on the path
		var last *ssa.Store
		for _, in := range pa.Instrs() {
			if st, ok := in.(*ssa.Store); ok {
				if fa, ok := st.Addr.(*ssa.FieldAddr); ok && isByteSlice(fieldVar(fa).Type()) && typeIs(derefType(fa.X.Type()), modPath, "Logger") {
					last = st
				}
			}
		}
		if last == nil {
			if bad == "" {
				bad, badPos = "a path of With stores no context at all (the child keeps the parent's slice)", p.Pos(pa.Exit.Pos())
			}
			continue
		}
		carried := false
		v := pa.Resolve(last.Val)
		for hops := 0; hops < 6; hops++ {
			c, ok := v.(*ssa.Call)
			if !ok {
				break
			}
			if builtinName(&c.Call) == "append" && len(c.Call.Args) == 2 {
				if isRecvCtx(pa.Resolve(c.Call.Args[1])) {
					carried = true
					break
				}
				v = pa.Resolve(c.Call.Args[0])
				continue
			}
			// an encoder step applied to the copy (AppendBeginMarker …): first argument is the buffer
			if len(c.Call.Args) >= 1 && isByteSlice(c.Type()) {
				args := c.Call.Args
				if c.Call.IsInvoke() || (c.Call.Signature().Recv() != nil && len(args) >= 2 && !isByteSlice(args[0].Type())) {
					if !c.Call.IsInvoke() {
						args = args[1:]
					}
				}
				if len(args) >= 1 && isByteSlice(args[0].Type()) {
					v = pa.Resolve(args[0])
					continue
				}
			}
			break
		}
		if carried {
			nCopy++
		} else if bad == "" {
			bad, badPos = "the context stored on a path where the parent has one is "+descr(pa.Resolve(last.Val))+", not append(<fresh buffer>, <parent context>...)", p.Pos(last.Pos())
		}
	}
	pos := p.Pos(f.Pos())
	if bad != "" {
		pos = badPos
	}
	ok := bad == "" && nCopy > 0
	r.Ob(rule, FnName(f)+"/carries-parent-context", pos, ok, true, tern(ok, fmt.Sprintf("%d path(s) with a parent context: the child's context is append(<fresh>, parent...) — every byte of the parent's context is carried", nCopy), tern(bad != "", bad+": a bounded copy drops the context beyond the bound (events of the child lose or cut fields)", "no path of With copies the parent's context")))
}

// ruleUpdateContextApplies: UpdateContext skips the update only for the shared disabled logger
// (the pointer Ctx() hands out when there is none); every other logger — whatever its level —
// gets the fields, because a later Level()/Output() derivation emits them.
func ruleUpdateContextApplies(r *Run, p *Prog, rule string) {
	f := p.Method("", "Logger", "UpdateContext")
	if !r.Anchor(f != nil, rule, "(*Logger).UpdateContext") {
		return
	}
	f = p.View(f, "", nil)
	paths, complete := enumPaths(f, 1, 4000)
	if !complete || len(paths) == 0 {
		r.Fail(rule, FnName(f)+"/applies-unless-disabled-logger", p.Pos(f.Pos()), "cannot enumerate the paths of UpdateContext (undecided, fail closed)")
		return
	}
	var upd *ssa.Parameter
	for _, pr := range f.Params {
		if _, ok := pr.Type().Underlying().(*types.Signature); ok {
			upd = pr
		}
	}
	if upd == nil {
		r.Fail(rule, FnName(f)+"/applies-unless-disabled-logger", p.Pos(f.Pos()), "UpdateContext has no function parameter")
		return
	}
	nApply, nSkip, bad, badPos := 0, 0, "", ""
	for _, pa := range paths {
		if _, ok := pa.Exit.(*ssa.Return); !ok || pa.Infeasible() {
			continue
		}
		called := false
		for _, in := range pa.Instrs() {
			if c, ok := in.(*ssa.Call); ok && c.Call.Value == ssa.Value(upd) {
				called = true
			}
		}
		if called {
			nApply++
			continue
		}
		nSkip++
		okSkip := hasCmp(pa.Cmps(), func(op token.Token, x, y ssa.Value) bool {
			g := loadedGlobal(y)
			return op == token.EQL && isParam(x, f, 0) && g != nil && typeIs(derefType(derefType(g.Type())), modPath, "Logger")
		})
		if !okSkip && bad == "" {
			bad, badPos = pa.String(p), p.Pos(pa.Exit.Pos())
			if badPos == "-" || badPos == "" {
				badPos = p.Pos(f.Pos())
			}
		}
	}
	pos := p.Pos(f.Pos())
	if bad != "" {
		pos = badPos
	}
	ok := bad == "" && nApply > 0
	r.Ob(rule, FnName(f)+"/applies-unless-disabled-logger", pos, ok, true, tern(ok, fmt.Sprintf("%d applying path(s); the %d skipping path(s) all carry `l == <the shared disabled logger>`", nApply, nSkip), "UpdateContext returns without calling the update on a path ["+bad+"] that is not the shared disabled logger's: the fields are missing from every logger derived later (Level(), Output(), With()) from this one"))
}

// ruleAppendersKeepInputs: the encoder packages' functions never write into a slice they were
// given as input (any slice parameter other than the destination buffer, which is the first
// []byte parameter): AppendObjectData(dst, o) patching o[0] in place corrupts the logger's stored
// context for every later event.
func ruleAppendersKeepInputs(r *Run, p *Prog, rule string, rels []string) {
	n, nFns := 0, 0
	for _, f := range p.ModFns {
		in := false
		for _, rel := range rels {
			if pkgRel(f) == rel {
				in = true
			}
		}
		if !in || f.Blocks == nil {
			continue
		}
		nFns++
		// destination: first []byte parameter (after a receiver)
		var dst *ssa.Parameter
		for _, pr := range f.Params {
			if isByteSlice(pr.Type()) {
				dst = pr
				break
			}
		}
		var rootOf func(v ssa.Value, depth int) ssa.Value
		rootOf = func(v ssa.Value, depth int) ssa.Value {
			if depth > 6 {
				return v
			}
			switch x := v.(type) {
			case *ssa.Slice:
				return rootOf(x.X, depth+1)
			case *ssa.ChangeType:
				return rootOf(x.X, depth+1)
			case *ssa.Convert:
				return rootOf(x.X, depth+1)
			}
			return v
		}
		eachInstr(f, func(b *ssa.BasicBlock, i int, in ssa.Instruction) {
			var target ssa.Value
			switch x := in.(type) {
			case *ssa.Store:
				if ia, ok := x.Addr.(*ssa.IndexAddr); ok {
					target = ia.X
				}
			case *ssa.Call:
				if builtinName(&x.Call) == "copy" && len(x.Call.Args) == 2 {
					target = x.Call.Args[0]
				}
			}
			if target == nil {
				return
			}
			root := rootOf(target, 0)
			pr, isP := root.(*ssa.Parameter)
			if !isP || pr == dst {
				return
			}
			if _, isSl := pr.Type().Underlying().(*types.Slice); !isSl {
				return
			}
			n++
			r.Ob(rule, FnName(f)+"/writes-input:"+pr.Name(), p.Pos(in.Pos()), false, true, FnName(f)+" writes into its input slice "+pr.Name()+": the caller's data (a logger's stored context, a user's slice) is modified by encoding it, so the second event built from it is different from the first")
		})
	}
	r.Ob(rule, "appenders/keep-inputs", "-", nFns >= 60, false, fmt.Sprintf("%d encoder functions examined, %d write into an input slice", nFns, n))
}

// ruleErrReachesField: (*Event).Err adds the error field on every path of an enabled event: the
// stack handling in front of it may add a stack field, never return.
func ruleErrReachesField(r *Run, p *Prog, rule string) {
	f := p.Method("", "Event", "Err")
	anErr := p.Method("", "Event", "AnErr")
	if !r.Anchor(f != nil && anErr != nil, rule, "(*Event).Err / AnErr") {
		return
	}
	f = p.View(f, "keep-AnErr", func(g *ssa.Function) bool { return g == anErr })
	isField := func(in ssa.Instruction) bool {
		c, ok := in.(*ssa.Call)
		return ok && staticCallee(&c.Call) == anErr && len(c.Call.Args) == 3 && isParam(c.Call.Args[2], f, 1)
	}
	// exits that avoid the field call must be the nil-receiver exit
	nilEdge := func(b *ssa.BasicBlock, si int) bool {
		ifi, ok := b.Instrs[len(b.Instrs)-1].(*ssa.If)
		if !ok {
			return false
		}
		if c, ok := cmpOf(CondEdge{ifi, si == 0}); ok {
			x, y := c.X, c.Y
			if isNilConst(x) {
				x, y = y, x
			}
			return c.Op == token.EQL && isNilConst(y) && isParam(x, f, 0)
		}
		return false
	}
	skip, path := pathExists(f, nil, isReturn, isField, func(b *ssa.BasicBlock, si int) bool { return !nilEdge(b, si) })
	r.Ob(rule, FnName(f)+"/error-field-on-every-path", p.Pos(f.Pos()), !skip, true, tern(!skip, "every return of an enabled event passes through AnErr(ErrorFieldName, err)", "an enabled event can leave Err without the error field (e.g. when the stack marshaler yields nothing): Err(err) then differs from AnErr/Fields/Context.Err for the same error"+pathHint(p, path)))
}

// rulePoolGetConfined: a pooled Event/Array is taken out of its pool only by the constructor
// that re-initialises every field (newEvent / Arr, judged by A12 reset): any other Get hands out
// the previous user's ctx, stack flag, level and buffer contents.
func rulePoolGetConfined(r *Run, p *Prog, rule string, ctor map[string]string) {
	n := 0
	for _, f := range p.ModFns {
		if pkgRel(f) != "" {
			continue
		}
		eachInstr(f, func(b *ssa.BasicBlock, i int, in ssa.Instruction) {
			ta, ok := in.(*ssa.TypeAssert)
			if !ok {
				return
			}
			c, ok := ta.X.(*ssa.Call)
			if !ok || !isPoolGet(&c.Call) {
				return
			}
			nm := namedOf(ta.AssertedType)
			if nm == nil {
				return
			}
			want, tracked := ctor[nm.Obj().Name()]
			if !tracked {
				return
			}
			n++
			okc := f.Parent() == nil && f.Signature.Recv() == nil && f.Name() == want
			if !okc {
				// a private step of the constructor (`getEvent()` called by newEvent only) is the constructor
				if cf := p.Func("", want); cf != nil && p.exclusiveHelpers(cf)[f] {
					okc = true
				}
			}
			r.Ob(rule, FnName(f)+"/get-confined:"+nm.Obj().Name(), p.Pos(c.Pos()), okc, true, tern(okc, "the pool's Get is in the constructor that resets every field", FnName(f)+" takes a pooled "+nm.Obj().Name()+" straight from the pool instead of through "+want+"(): the object still carries its previous user's fields (Go context, stack flag, level, hooks, buffer)"))
		})
	}
	if n < len(ctor) {
		r.Fail(rule, "get-confined/sites", "-", fmt.Sprintf("only %d pool Get sites for %d pooled types found", n, len(ctor)))
	}
}

// ruleDurationArithmetic: both encoders compute a duration's number the same way — the integer
// form is the integer quotient d/unit, the float form float64(d)/float64(unit). Rounding through
// the other domain (int64(float quotient), float64(integer quotient)) changes values (beyond 2^53;
// every fractional duration) in one build only.
func ruleDurationArithmetic(r *Run, p *Prog, rule string) {
	for _, rel := range []string{"internal/json", cborRel} {
		f := p.Method(rel, "Encoder", "AppendDuration")
		if !r.Anchor(f != nil, rule, rel+".Encoder.AppendDuration") {
			continue
		}
		f = p.View(f, "", nil)
		var d, unit *ssa.Parameter
		for _, pr := range f.Params {
			if typeIs(pr.Type(), "time", "Duration") {
				if d == nil {
					d = pr
				} else if unit == nil {
					unit = pr
				}
			}
		}
		if d == nil || unit == nil {
			r.Fail(rule, FnName(f)+"/operands", p.Pos(f.Pos()), "AppendDuration's duration and unit parameters not found")
			continue
		}
		isConvOf := func(v ssa.Value, prm *ssa.Parameter) bool {
			c, ok := v.(*ssa.Convert)
			if !ok {
				return false
			}
			b, ok := c.Type().Underlying().(*types.Basic)
			return ok && b.Kind() == types.Float64 && stripChange(c.X) == ssa.Value(prm)
		}
		intQuo := func(v ssa.Value) bool {
			for {
				if c, ok := v.(*ssa.Convert); ok && isIntLike(c.Type()) && isIntLike(c.X.Type()) {
					// only value-preserving widenings (int64 <-> Duration); a narrowing is not "the quotient"
					if tl, th, okT := typeRange(c.Type()); okT {
						if sl, sh, okS := typeRange(c.X.Type()); okS && tl <= sl && th >= sh {
							v = c.X
							continue
						}
					}
					break
				}
				if c, ok := v.(*ssa.ChangeType); ok {
					v = c.X
					continue
				}
				break
			}
			bo, ok := v.(*ssa.BinOp)
			return ok && bo.Op == token.QUO && stripChange(bo.X) == ssa.Value(d) && stripChange(bo.Y) == ssa.Value(unit)
		}
		fltQuo := func(v ssa.Value) bool {
			bo, ok := v.(*ssa.BinOp)
			return ok && bo.Op == token.QUO && isConvOf(bo.X, d) && isConvOf(bo.Y, unit)
		}
		nInt, nFlt := 0, 0
		bad, badPos := "", ""
		eachInstr(f, func(b *ssa.BasicBlock, i int, in ssa.Instruction) {
			c, ok := in.(*ssa.Call)
			if !ok {
				return
			}
			name := ""
			if o := calleeObj(&c.Call); o != nil {
				name = o.Name()
			}
			for _, a := range c.Call.Args {
				bt, isB := a.Type().Underlying().(*types.Basic)
				if !isB {
					continue
				}
				switch {
				case strings.Contains(name, "Int") && bt.Info()&types.IsInteger != 0 && !isConstVal(a):
					if intQuo(a) {
						nInt++
					} else if bad == "" {
						bad, badPos = "the integer form is "+descr(a)+", not the integer quotient d/unit", p.Pos(c.Pos())
					}
				case strings.Contains(name, "Float") && bt.Kind() == types.Float64:
					if fltQuo(a) {
						nFlt++
					} else if bad == "" {
						bad, badPos = "the float form is "+descr(a)+", not float64(d)/float64(unit)", p.Pos(c.Pos())
					}
				}
			}
		})
		ok := bad == "" && nInt >= 1 && nFlt >= 1
		pos := p.Pos(f.Pos())
		if bad != "" {
			pos = badPos
		}
		r.Ob(rule, FnName(f)+"/quotients", pos, ok, true, tern(ok, "integer form = d/unit (integer division), float form = float64(d)/float64(unit)", tern(bad != "", bad+": the value differs from the sibling encoder's (and from the duration) for some inputs", "the integer or the float rendering of the duration was not found")))
	}
}

func isConstVal(v ssa.Value) bool { _, ok := v.(*ssa.Const); return ok }

// ruleInterfaceThroughMarshal: AppendInterface of both encoders hands every value — nil included —
// to the configured marshal function first; a fast path in one encoder makes the two builds
// disagree under a custom InterfaceMarshalFunc.
func ruleInterfaceThroughMarshal(r *Run, p *Prog, rule string) {
	for _, rel := range []string{"internal/json", cborRel} {
		f := p.Method(rel, "Encoder", "AppendInterface")
		if !r.Anchor(f != nil, rule, rel+".Encoder.AppendInterface") {
			continue
		}
		f = p.View(f, "", nil)
		var val *ssa.Parameter
		for _, pr := range f.Params {
			if _, ok := pr.Type().Underlying().(*types.Interface); ok {
				val = pr
			}
		}
		isMarshal := func(in ssa.Instruction) bool {
			c, ok := in.(*ssa.Call)
			if !ok || val == nil || len(c.Call.Args) != 1 || c.Call.Args[0] != ssa.Value(val) {
				return false
			}
			g := loadedGlobal(c.Call.Value)
			return g != nil && strings.Contains(g.Name(), "Marshal")
		}
		skip, path := pathExists(f, nil, isReturn, isMarshal, nil)
		r.Ob(rule, FnName(f)+"/always-through-marshal-func", p.Pos(f.Pos()), !skip, true, tern(!skip, "every path calls the configured marshal function with the value before anything is appended", "a path of AppendInterface returns without consulting the configured marshal function: with a custom InterfaceMarshalFunc this encoder's output for such a value differs from the other build's"+pathHint(p, path)))
	}
}

// rulePooledBufferNotReturned: the bytes of a pooled *bytes.Buffer (buf.Bytes()) do not leave the
// function that puts the buffer back (also by defer): the next user of the pool overwrites them
// while the caller still reads the result.
func rulePooledBufferNotReturned(r *Run, p *Prog, rule string, rels []string) {
	n := 0
	// helpers that put one of their parameters back (`putDecodeBuf(b)`, also behind a size test)
	putter := map[*ssa.Function]int{}
	for _, g := range p.ModFns {
		eachInstr(g, func(b *ssa.BasicBlock, i int, in ssa.Instruction) {
			cc := callCommon(in)
			if cc == nil || !isCallTo(cc, "(*sync.Pool).Put") || len(cc.Args) != 2 {
				return
			}
			v := cc.Args[1]
			if mi, ok := v.(*ssa.MakeInterface); ok {
				v = mi.X
			}
			for k, pr := range g.Params {
				if v == ssa.Value(pr) {
					putter[g] = k
				}
			}
		})
	}
	for _, f := range p.RootViews(rels, "", nil) {
		// buffers put back in this function
		put := map[ssa.Value]ssa.Instruction{}
		eachInstr(f, func(b *ssa.BasicBlock, i int, in ssa.Instruction) {
			cc := callCommon(in)
			if cc == nil {
				return
			}
			if g := staticCallee(cc); g != nil {
				if k, ok := putter[g]; ok && k < len(cc.Args) {
					put[cc.Args[k]] = in
				}
			}
			if !isCallTo(cc, "(*sync.Pool).Put") || len(cc.Args) != 2 {
				return
			}
			v := cc.Args[1]
			if mi, ok := v.(*ssa.MakeInterface); ok {
				v = mi.X
			}
			put[v] = in
		})
		if len(put) == 0 {
			continue
		}
		eachInstr(f, func(b *ssa.BasicBlock, i int, in ssa.Instruction) {
			ret, ok := in.(*ssa.Return)
			if !ok {
				return
			}
			var cands []ssa.Value
			for _, res := range ret.Results {
				cands = append(cands, res)
				// functions with defers return through a spilled result variable
				if ld, ok := res.(*ssa.UnOp); ok && ld.Op == token.MUL {
					if al, ok := ld.X.(*ssa.Alloc); ok {
						for _, ref := range referrersOf(al) {
							if st, ok := ref.(*ssa.Store); ok && st.Addr == ssa.Value(al) {
								cands = append(cands, st.Val)
							}
						}
					}
				}
			}
			for _, res := range cands {
				v := res
				for hops := 0; hops < 4; hops++ {
					if sl, ok := v.(*ssa.Slice); ok {
						v = sl.X
						continue
					}
					break
				}
				c, ok := v.(*ssa.Call)
				if !ok || !isCallTo(&c.Call, "(*bytes.Buffer).Bytes") || len(c.Call.Args) != 1 {
					continue
				}
				for pv := range put {
					if sameValue(pv, c.Call.Args[0]) || pv == c.Call.Args[0] {
						n++
						r.Ob(rule, originFnName(f, in)+"/returns-pooled-bytes", p.Pos(ret.Pos()), false, true, "the function returns buf.Bytes() of a buffer it puts back into its pool: the next decode/format that takes the buffer overwrites the bytes the caller is still holding (the previous event's text turns into the next one's)")
					}
				}
			}
		})
	}
	r.Ob(rule, "pooled-buffers/not-returned", "-", true, false, fmt.Sprintf("%d function(s) return the bytes of a buffer they recycle", n))
}

// ruleClaimOnEveryRetry: every cycle in Set passes through the fetch-add that claims a ring
// position: an inner loop that re-reads the same slot lets a lapped producer spin until the
// consumer frees it.
func ruleClaimOnEveryRetry(r *Run, p *Prog, rule string) {
	f := p.Method(diodesRel, "ManyToOne", "Set")
	if !r.Anchor(f != nil, rule, "diodes.(*ManyToOne).Set") {
		return
	}
	f = p.View(f, "", nil)
	var claim *ssa.Call
	eachInstr(f, func(b *ssa.BasicBlock, i int, in ssa.Instruction) {
		if c, ok := in.(*ssa.Call); ok && isCallTo(&c.Call, "sync/atomic.AddUint64") {
			claim = c
		}
	})
	if claim == nil {
		return // claims-inside-retry reports the missing claim
	}
	bad := ""
	for _, b := range f.Blocks {
		if isLoopHeader(b) && !loopBlocks(b)[claim.Block()] {
			bad = p.Pos(b.Instrs[0].Pos())
			if bad == "" || bad == "-" {
				bad = p.Pos(f.Pos())
			}
		}
	}
	r.Ob(rule, FnName(f)+"/claim-on-every-retry", tern(bad != "", bad, p.Pos(claim.Pos())), bad == "", true, tern(bad == "", "every loop of Set contains the fetch-add: each retry starts from a fresh position", "Set has a loop that does not pass through the fetch-add: a producer retries the position it already holds — once a newer bucket sits there it spins until the consumer removes it (with the wrapped writer blocked, Write never returns)"))
}

// ruleConsoleCallerPath: the default console formatter shows the caller either as it is in the
// event or relative to the working directory as computed by filepath.Rel (path-element aware);
// nothing else may cut or rewrite the path — a string-prefix trim cuts inside a path element
// (/srv/app vs /srv/app-lib/x.go) and the console names a file that does not exist.
func ruleConsoleCallerPath(r *Run, p *Prog, rule string) {
	f := p.Func("", "consoleDefaultFormatCaller")
	if !r.Anchor(f != nil, rule, "consoleDefaultFormatCaller") {
		return
	}
	n := 0
	for _, g := range f.AnonFuncs {
		gv := p.View(g, "keep-colorize", func(h *ssa.Function) bool { return h.Name() == "colorize" })
		if len(gv.Params) != 1 {
			continue
		}
		in0 := gv.Params[0]
		var bad []string
		seen := map[ssa.Value]bool{}
		var walk func(v ssa.Value, depth int)
		isInput := func(v ssa.Value) bool {
			// cc, ok := i.(string)
			if ex, ok := v.(*ssa.Extract); ok && ex.Index == 0 {
				if ta, ok := ex.Tuple.(*ssa.TypeAssert); ok && ta.X == ssa.Value(in0) {
					return true
				}
			}
			if ta, ok := v.(*ssa.TypeAssert); ok && ta.X == ssa.Value(in0) {
				return true
			}
			return false
		}
		walk = func(v ssa.Value, depth int) {
			if seen[v] || depth > 12 {
				return
			}
			seen[v] = true
			if isInput(v) {
				return
			}
			switch x := v.(type) {
			case *ssa.Const:
				return
			case *ssa.Phi:
				for _, e := range x.Edges {
					walk(e, depth+1)
				}
			case *ssa.BinOp:
				if x.Op == token.ADD {
					walk(x.X, depth+1)
					walk(x.Y, depth+1)
					return
				}
				bad = append(bad, descr(v))
			case *ssa.MakeInterface:
				walk(x.X, depth+1)
			case *ssa.ChangeType:
				walk(x.X, depth+1)
			case *ssa.UnOp:
				if al, ok := x.X.(*ssa.Alloc); ok && x.Op == token.MUL {
					for _, ref := range referrersOf(al) {
						if st, ok := ref.(*ssa.Store); ok && st.Addr == ssa.Value(al) {
							walk(st.Val, depth+1)
						}
					}
					return
				}
				bad = append(bad, descr(v))
			case *ssa.Extract:
				c, ok := x.Tuple.(*ssa.Call)
				if ok && x.Index == 0 && isCallTo(&c.Call, "path/filepath.Rel") && len(c.Call.Args) == 2 {
					walk(c.Call.Args[1], depth+1) // the target path is the caller text
					return
				}
				bad = append(bad, descr(v))
			case *ssa.Call:
				if sc := staticCallee(&x.Call); sc != nil && sc.Name() == "colorize" && InModule(sc) && len(x.Call.Args) >= 1 {
					walk(x.Call.Args[0], depth+1)
					return
				}
				bad = append(bad, descr(v))
			default:
				bad = append(bad, descr(v))
			}
		}
		eachInstr(gv, func(b *ssa.BasicBlock, i int, in ssa.Instruction) {
			if ret, ok := in.(*ssa.Return); ok {
				for _, res := range ret.Results {
					walk(res, 0)
				}
			}
		})
		n++
		ok := len(bad) == 0
		r.Ob(rule, FnName(f)+"/caller-path-origin", p.Pos(g.Pos()), ok, true, tern(ok, "the caller text shown is the event's own text or filepath.Rel(cwd, text), decorated with constants", "the caller text shown by the console is derived through "+strings.Join(bad, ", ")+": anything but the event's text or filepath.Rel of it can name a file that is not the call site's (a string-prefix cut splits a path element)"))
	}
	if n == 0 {
		r.Fail(rule, FnName(f)+"/caller-path-origin", p.Pos(f.Pos()), "the formatter closure of consoleDefaultFormatCaller was not found")
	}
}

// globalInitString: the constant string a package-level variable is initialised with ("" if it is
// not initialised from a constant).
func globalInitString(g *ssa.Global) string {
	if g == nil || g.Pkg == nil {
		return ""
	}
	init := g.Pkg.Func("init")
	if init == nil {
		return ""
	}
	out := ""
	eachInstr(init, func(b *ssa.BasicBlock, i int, in ssa.Instruction) {
		if st, ok := in.(*ssa.Store); ok && st.Addr == ssa.Value(g) {
			if s, ok := constString(st.Val); ok {
				out = s
			}
		}
	})
	return out
}

// ruleDecodedTimestampLayout: the decoder renders an integer timestamp (whole seconds) and a float
// timestamp (seconds with a fraction) with two different layouts, and the layout of the float arm
// has a fractional-seconds element — otherwise the binary build's console/journald/decoded output
// drops the sub-second part the JSON build shows.
func ruleDecodedTimestampLayout(r *Run, p *Prog, rule string) {
	f := p.Func(cborRel, "decodeTimeStamp")
	if !r.Anchor(f != nil, rule, "cbor.decodeTimeStamp") {
		return
	}
	f = p.View(f, "", nil)
	paths, complete := enumPaths(f, 1, 4000)
	if !complete {
		r.Fail(rule, FnName(f)+"/layouts", p.Pos(f.Pos()), "cannot enumerate the paths of decodeTimeStamp (undecided, fail closed)")
		return
	}
	nInt, nFrac, bad, badPos := 0, 0, "", ""
	for _, pa := range paths {
		if _, ok := pa.Exit.(*ssa.Return); !ok || pa.Infeasible() {
			continue
		}
		var unix, format *ssa.Call
		for _, in := range pa.Instrs() {
			if c, ok := in.(*ssa.Call); ok {
				if isCallTo(&c.Call, "time.Unix") {
					unix = c
				}
				if isCallTo(&c.Call, "(time.Time).AppendFormat") || isCallTo(&c.Call, "(time.Time).Format") {
					format = c
				}
			}
		}
		if unix == nil || format == nil {
			if bad == "" {
				bad, badPos = "a returning path does not build the time with time.Unix and render it with (Append)Format", p.Pos(pa.Exit.Pos())
			}
			continue
		}
		layoutArg := format.Call.Args[len(format.Call.Args)-1]
		g := loadedGlobal(pa.Resolve(layoutArg))
		layout := globalInitString(g)
		if s, ok := constString(pa.Resolve(layoutArg)); ok {
			layout = s
		}
		hasFrac := strings.Contains(layout, ".0") || strings.Contains(layout, ".9") || strings.Contains(layout, ",0") || strings.Contains(layout, ",9")
		nsec, isC := constInt(pa.Resolve(unix.Call.Args[1]))
		whole := isC && nsec == 0
		switch {
		case layout == "":
			if bad == "" {
				bad, badPos = "the layout "+descr(layoutArg)+" is not a constant-initialised package variable", p.Pos(format.Pos())
			}
		case whole:
			nInt++
		case !hasFrac:
			if bad == "" {
				bad, badPos = fmt.Sprintf("a timestamp with a fractional part (time.Unix(secs, nsec)) is rendered with the layout %q, which has no fractional-seconds element", layout), p.Pos(format.Pos())
			}
		default:
			nFrac++
			// seconds and fraction come from ONE split of the decoded float: nsec = (n - float64(secs))·1e9
			// with the very secs handed to time.Unix, or both halves of one math.Modf. Taking the two
			// from different roundings (Floor for one, Modf for the other) is off by a second before 1970.
			strip := func(v ssa.Value) ssa.Value {
				for {
					switch x := v.(type) {
					case *ssa.Convert:
						v = x.X
						continue
					case *ssa.ChangeType:
						v = x.X
						continue
					}
					return v
				}
			}
			secs := strip(pa.Resolve(unix.Call.Args[0]))
			var leaf func(v ssa.Value, depth int) ssa.Value
			leaf = func(v ssa.Value, depth int) ssa.Value {
				v = strip(pa.Resolve(v))
				if depth > 8 {
					return v
				}
				switch x := v.(type) {
				case *ssa.BinOp:
					if x.Op == token.MUL {
						if _, isC := x.Y.(*ssa.Const); isC {
							return leaf(x.X, depth+1)
						}
						if _, isC := x.X.(*ssa.Const); isC {
							return leaf(x.Y, depth+1)
						}
					}
				case *ssa.Call:
					if (isCallTo(&x.Call, "math.Round") || isCallTo(&x.Call, "math.Trunc")) && len(x.Call.Args) == 1 {
						return leaf(x.Call.Args[0], depth+1)
					}
				}
				return v
			}
			fr := leaf(unix.Call.Args[1], 0)
			consistent := false
			if sub, ok := fr.(*ssa.BinOp); ok && sub.Op == token.SUB {
				if sameValue(strip(pa.Resolve(sub.Y)), secs) {
					consistent = true
				}
			}
			if ex, ok := fr.(*ssa.Extract); ok && ex.Index == 1 {
				if c, ok := ex.Tuple.(*ssa.Call); ok && isCallTo(&c.Call, "math.Modf") {
					if e0, ok := secs.(*ssa.Extract); ok && e0.Tuple == ex.Tuple && e0.Index == 0 {
						consistent = true
					}
				}
			}
			if !consistent && bad == "" {
				bad, badPos = "the nanoseconds "+descr(fr)+" are not the remainder of the decoded value over the seconds "+descr(secs)+" handed to time.Unix (two different roundings: off by one second for fractional times before 1970)", p.Pos(unix.Pos())
			}
		}
	}
	ok := bad == "" && nInt > 0 && nFrac > 0
	pos := p.Pos(f.Pos())
	if bad != "" {
		pos = badPos
	}
	r.Ob(rule, FnName(f)+"/layouts", pos, ok, true, tern(ok, fmt.Sprintf("%d whole-second path(s); %d fractional path(s) rendered with a layout that has a fractional-seconds element", nInt, nFrac), tern(bad != "", bad+": the decoded text loses the sub-second part of the event's time", "the integer or the float arm of decodeTimeStamp was not found")))
}

// rulePoolBoundsAgree: the put-back guards of the module's pools ("do not pool buffers above
// 64KiB", golang.org/issue/23199) keep exactly the same capacities: `cap > K → drop`, i.e. keep
// iff cap <= K, with one K for events, arrays and the diode's copies. An inverted guard written as
// `cap < K` silently drops the boundary capacity (which the runtime's size classes make common),
// and a producer-side shortcut that uses `>=` where the consumer uses `>` disagrees on who owns
// a buffer of exactly K bytes.
func rulePoolBoundsAgree(r *Run, p *Prog, rule string, rels []string) {
	type site struct {
		fn   string
		pos  string
		keep int64 // kept iff cap <= keep
	}
	var sites []site
	seenSite := map[string]bool{}
	defer func() { _ = seenSite }()
	for _, f := range p.RootViews(rels, "", nil) {
		eachInstr(f, func(b *ssa.BasicBlock, i int, in ssa.Instruction) {
			cc := callCommon(in)
			if cc == nil || !isCallTo(cc, "(*sync.Pool).Put") {
				return
			}
			for _, c := range necessaryCmps(f, in) {
				x, y, op := c.X, c.Y, c.Op
				if _, isC := constInt(x); isC {
					x, y, op = y, x, swapOp(op)
				}
				k, isC := constInt(y)
				cl, isCall := x.(*ssa.Call)
				if !isC || !isCall || builtinName(&cl.Call) != "cap" {
					continue
				}
				key := originFnName(f, in) + "@" + p.Pos(in.Pos())
				if seenSite[key] {
					continue // the same put wrapper inlined into another root
				}
				switch op {
				case token.LEQ:
					seenSite[key] = true
					sites = append(sites, site{originFnName(f, in), p.Pos(in.Pos()), k})
				case token.LSS:
					seenSite[key] = true
					sites = append(sites, site{originFnName(f, in), p.Pos(in.Pos()), k - 1})
				}
			}
		})
	}
	if len(sites) < 3 {
		r.Fail(rule, "pool-bounds/sites", "-", fmt.Sprintf("only %d size-guarded pool Put sites found (events, arrays and the diode's copies expected)", len(sites)))
		return
	}
	count := map[int64]int{}
	for _, s := range sites {
		count[s.keep]++
	}
	var maj int64
	best := 0
	for k, n := range count {
		if n > best || (n == best && k > maj) {
			maj, best = k, n
		}
	}
	for _, s := range sites {
		ok := s.keep == maj
		r.Ob(rule, s.fn+"/pool-bound", s.pos, ok, true, tern(ok, fmt.Sprintf("buffers are kept iff cap <= %d, like the other pools of the module", s.keep), fmt.Sprintf("this pool keeps buffers iff cap <= %d while the module's other pools keep them up to %d: an object whose buffer has exactly the boundary capacity is dropped (one allocation per event from then on) or, on the producer side of a hand-over, owned by both sides", s.keep, maj)))
	}
}

// rulePollDeliversOnce: every iteration of the consumer loop that received something hands the
// wrapped writer exactly that buffer, exactly once. A second Write (a retry of the tail after a
// short write, say) gives the destination a buffer that is not the argument of any Write.
func rulePollDeliversOnce(r *Run, p *Prog, rule string) {
	f := p.Method("diode", "Writer", "poll")
	if !r.Anchor(f != nil, rule, "diode.Writer.poll") {
		return
	}
	f = p.View(f, "", nil)
	var hdr *ssa.BasicBlock
	var next *ssa.Call
	nexts := map[ssa.Value]bool{}
	eachInstr(f, func(b *ssa.BasicBlock, i int, in ssa.Instruction) {
		if c, ok := in.(*ssa.Call); ok && c.Call.IsInvoke() && c.Call.Method.Name() == "Next" {
			nexts[c] = true
			if next == nil || !isLoopHeaderOrBody(f, c.Block()) {
				next = c
			}
		}
	})
	// `for d := Next(); d != nil; d = Next()`: the call inside the loop locates it
	for v := range nexts {
		c := v.(*ssa.Call)
		for _, b := range f.Blocks {
			if isLoopHeader(b) && loopBlocks(b)[c.Block()] {
				next = c
			}
		}
	}
	if next != nil {
		for _, b := range f.Blocks {
			if isLoopHeader(b) && loopBlocks(b)[next.Block()] {
				if hdr == nil || loopBlocks(hdr)[b] {
					hdr = b
				}
			}
		}
	}
	if hdr == nil {
		r.Ob(rule, FnName(f)+"/delivers-once", p.Pos(f.Pos()), false, true, "the consumer loop around Next() was not found")
		return
	}
	paths, complete := loopIterPaths(hdr, 4000)
	if !complete || len(paths) == 0 {
		r.Ob(rule, FnName(f)+"/delivers-once", p.Pos(f.Pos()), false, true, "cannot enumerate the iterations of the consumer loop (undecided, fail closed)")
		return
	}
	isData := func(v ssa.Value) bool {
		// *(*[]byte)(d) with d the value Next returned
		for hops := 0; hops < 6; hops++ {
			switch x := v.(type) {
			case *ssa.UnOp:
				if x.Op == token.MUL {
					v = x.X
					continue
				}
			case *ssa.Convert:
				v = x.X
				continue
			case *ssa.ChangeType:
				v = x.X
				continue
			}
			break
		}
		if ph, ok := v.(*ssa.Phi); ok {
			for _, e := range ph.Edges {
				if !nexts[e] {
					return false
				}
			}
			return len(ph.Edges) > 0
		}
		return nexts[v]
	}
	bad, badPos, n := "", "", 0
	for _, ip := range paths {
		writes, exact := 0, true
		var wpos token.Pos
		for _, b := range ip.blocks {
			for _, in := range b.Instrs {
				c, ok := in.(*ssa.Call)
				if !ok || !c.Call.IsInvoke() || (c.Call.Method.Name() != "Write" && c.Call.Method.Name() != "WriteLevel") {
					continue
				}
				writes++
				wpos = c.Pos()
				if len(c.Call.Args) == 0 || !isData(c.Call.Args[len(c.Call.Args)-1]) {
					exact = false
				}
			}
		}
		n++
		if (writes != 1 || !exact) && bad == "" {
			bad = fmt.Sprintf("an iteration of the consumer loop calls the wrapped writer %d time(s)%s", writes, tern(exact, "", " with something other than the buffer it took from the ring"))
			badPos = p.Pos(wpos)
			if wpos == token.NoPos {
				badPos = p.Pos(f.Pos())
			}
		}
	}
	pos := p.Pos(next.Pos())
	if bad != "" {
		pos = badPos
	}
	r.Ob(rule, FnName(f)+"/delivers-once", pos, bad == "", true, tern(bad == "", fmt.Sprintf("%d iteration path(s): the wrapped writer is called exactly once, with the buffer Next() returned", n), bad+": the destination receives a buffer that is not byte-identical to the argument of exactly one Write"))
}

// ruleMultiKeepsEveryWriter: the MultiLevelWriter constructor turns every writer it is given into
// exactly one destination: each iteration of its loop over the arguments appends one element to the
// destination list (no `continue` that drops an argument, no flattening that re-queues into the
// slice being ranged over).
func ruleMultiKeepsEveryWriter(r *Run, p *Prog, rule string) {
	f := p.Func("", "MultiLevelWriter")
	if !r.Anchor(f != nil, rule, "MultiLevelWriter") {
		return
	}
	f = p.View(f, "", nil)
	lwT := p.NamedType("", "LevelWriter")
	isDestAppend := func(in ssa.Instruction) bool {
		// lwriters = append(lwriters, x)   or   lwriters[i] = x
		if st, ok := in.(*ssa.Store); ok {
			if ia, ok := st.Addr.(*ssa.IndexAddr); ok {
				if sl, ok := ia.X.Type().Underlying().(*types.Slice); ok && lwT != nil && types.Identical(sl.Elem(), lwT) {
					return true
				}
			}
			return false
		}
		c, ok := in.(*ssa.Call)
		if !ok || builtinName(&c.Call) != "append" {
			return false
		}
		sl, ok := c.Type().Underlying().(*types.Slice)
		return ok && lwT != nil && types.Identical(sl.Elem(), lwT)
	}
	var hdr *ssa.BasicBlock
	eachInstr(f, func(b *ssa.BasicBlock, i int, in ssa.Instruction) {
		if !isDestAppend(in) {
			return
		}
		for _, hb := range f.Blocks {
			if isLoopHeader(hb) && loopBlocks(hb)[b] {
				if hdr == nil || loopBlocks(hb)[hdr] {
					hdr = hb
				}
			}
		}
	})
	if hdr == nil {
		r.Ob(rule, FnName(f)+"/keeps-every-writer", p.Pos(f.Pos()), false, true, "no loop that appends to the destination list was found in MultiLevelWriter (undecided, fail closed)")
		return
	}
	paths, complete := loopIterPaths(hdr, 4000)
	bad := ""
	for _, ip := range paths {
		n := 0
		for _, b := range ip.blocks {
			for _, in := range b.Instrs {
				if isDestAppend(in) {
					n++
				}
			}
		}
		if n != 1 && bad == "" {
			bad = fmt.Sprintf("an iteration over the given writers adds %d destination(s)", n)
		}
	}
	if !complete || len(paths) == 0 {
		bad = "cannot enumerate the iterations of the constructor's loop"
	}
	// the loop is the only loop (a nested loop re-queuing writers is how arguments get lost)
	nLoops := 0
	for _, b := range f.Blocks {
		if isLoopHeader(b) {
			nLoops++
		}
	}
	if bad == "" && nLoops != 1 {
		bad = fmt.Sprintf("the constructor has %d loops; one loop over the arguments is expected", nLoops)
	}
	r.Ob(rule, FnName(f)+"/keeps-every-writer", p.Pos(f.Pos()), bad == "", true, tern(bad == "", fmt.Sprintf("%d iteration path(s): each given writer becomes exactly one destination", len(paths)), bad+": a writer handed to MultiLevelWriter does not become a destination (it receives no event and is not closed), or becomes one twice"))
}

// ruleGlobalPanicFatalDelegate: the package-level log.Panic()/log.Fatal() always go through the
// Logger methods of the same name: those attach the panic/exit completion that runs even when the
// event is filtered. A level shortcut in front of them returns a nil event and nothing happens.
func ruleGlobalPanicFatalDelegate(r *Run, p *Prog, rule string) {
	for _, name := range []string{"Panic", "Fatal"} {
		f := p.Func("log", name)
		m := p.Method("", "Logger", name)
		if !r.Anchor(f != nil && m != nil, rule, "log."+name+" / (*Logger)."+name) {
			continue
		}
		fv := p.View(f, "keep-"+name, func(g *ssa.Function) bool { return g == m })
		isCall := func(in ssa.Instruction) bool {
			c, ok := in.(*ssa.Call)
			return ok && staticCallee(&c.Call) == m
		}
		skip, path := pathExists(fv, nil, isReturn, isCall, nil)
		r.Ob(rule, FnName(f)+"/always-delegates", p.Pos(f.Pos()), !skip, true, tern(!skip, "every path goes through (*Logger)."+name+", which attaches the completion that panics/exits also for a filtered event", "log."+name+"() can return without calling (*Logger)."+name+": for a filtered level nothing panics/exits, unlike log.Logger."+name+"()"+pathHint(p, path)))
	}
}

// ruleConsumerAlwaysStarted: every return of diode.NewWriter has started the consumer goroutine:
// Close waits for the channel only that goroutine closes, so a constructor shortcut (for a discard
// destination, say) that skips the go statement makes Close block for ever.
func ruleConsumerAlwaysStarted(r *Run, p *Prog, rule string) {
	f := p.Func("diode", "NewWriter")
	poll := p.Method("diode", "Writer", "poll")
	if !r.Anchor(f != nil && poll != nil, rule, "diode.NewWriter / (Writer).poll") {
		return
	}
	fv := p.View(f, "", nil)
	starts := func(in ssa.Instruction) bool {
		g, ok := in.(*ssa.Go)
		if !ok {
			return false
		}
		if sc := staticCallee(&g.Call); sc != nil {
			return sc == poll || callsFn(sc, poll)
		}
		return false
	}
	skip, path := pathExists(fv, nil, isReturn, starts, nil)
	r.Ob(rule, FnName(f)+"/consumer-started-on-every-path", p.Pos(f.Pos()), !skip, true, tern(!skip, "every return of NewWriter comes after the go statement that starts poll", "NewWriter can return a Writer whose consumer goroutine was never started: Close waits for a channel only poll closes and never returns"+pathHint(p, path)))
}

// ruleConstructorSetsConfigOnly: NewConsoleWriter stores exported (configuration) fields only;
// anything derived from the configuration is computed from it when an event is written. A cache
// filled at construction goes stale when the caller assigns the exported field afterwards (the
// documented way to configure the writer), and equal configurations stop producing equal bytes.
func ruleConstructorSetsConfigOnly(r *Run, p *Prog, rule string) {
	f := p.Func("", "NewConsoleWriter")
	named := p.NamedType("", "ConsoleWriter")
	if !r.Anchor(f != nil && named != nil, rule, "NewConsoleWriter / ConsoleWriter") {
		return
	}
	fv := p.View(f, "", nil)
	bad, badPos := "", ""
	eachInstr(fv, func(b *ssa.BasicBlock, i int, in ssa.Instruction) {
		st, ok := in.(*ssa.Store)
		if !ok {
			return
		}
		fa, ok := st.Addr.(*ssa.FieldAddr)
		if !ok || namedOf(fa.X.Type()) != named {
			return
		}
		if fld := fieldVar(fa); !fld.Exported() && bad == "" {
			if c, isC := st.Val.(*ssa.Const); isC && (c.Value == nil || c.IsNil()) {
				return // zeroing
			}
			bad, badPos = fld.Name(), p.Pos(st.Pos())
		}
	})
	r.Ob(rule, FnName(f)+"/sets-configuration-only", tern(bad != "", badPos, p.Pos(f.Pos())), bad == "", true, tern(bad == "", "the constructor stores exported configuration fields only", "NewConsoleWriter fills the private field "+bad+" from the configuration it was given: assigning the exported field afterwards (w.FieldsOrder = …) is then ignored, so two writers with equal configuration render the same event differently"))
}

// ruleCallerHookPinsItsCount: Context.CallerWithSkipFrameCount always registers a hook built from
// its own argument; falling back to the shared default hook (which re-reads the global on every
// event) un-pins the count when the global is changed later.
func ruleCallerHookPinsItsCount(r *Run, p *Prog, rule string) {
	f := p.Method("", "Context", "CallerWithSkipFrameCount")
	nh := p.Func("", "newCallerHook")
	if !r.Anchor(f != nil, rule, "Context.CallerWithSkipFrameCount") {
		return
	}
	fv := p.View(f, "keep-newCallerHook", func(g *ssa.Function) bool { return g == nh })
	var cnt *ssa.Parameter
	for _, pr := range fv.Params {
		if b, ok := pr.Type().Underlying().(*types.Basic); ok && b.Info()&types.IsInteger != 0 {
			cnt = pr
		}
	}
	pins := func(in ssa.Instruction) bool {
		// newCallerHook(n), or the hook value built in place: callerHook{<field>: n}
		if st, ok := in.(*ssa.Store); ok && cnt != nil && st.Val == ssa.Value(cnt) {
			if fa, ok := st.Addr.(*ssa.FieldAddr); ok && typeIs(derefType(fa.X.Type()), modPath, "callerHook") {
				return true
			}
		}
		c, ok := in.(*ssa.Call)
		return ok && nh != nil && staticCallee(&c.Call) == nh && cnt != nil && len(c.Call.Args) == 1 && c.Call.Args[0] == ssa.Value(cnt)
	}
	skip, path := pathExists(fv, nil, isReturn, pins, nil)
	r.Ob(rule, FnName(f)+"/pins-its-argument", p.Pos(f.Pos()), !skip, true, tern(!skip, "every path registers newCallerHook(skipFrameCount) with the method's own argument", "CallerWithSkipFrameCount can return without registering a hook built from its argument (e.g. reusing the default hook when the argument equals the global at that moment): the logger's frame count then follows later changes of the global and the caller field names a frame above or below the call site"+pathHint(p, path)))
}

// ruleFieldHandlersUnconditional: an hlog field handler adds its field whenever it has a value to
// add: the UpdateContext call is control-dependent only on "the key/value is not empty", "parsing
// succeeded" and "a lookup found something" — never on the negative outcome of a lookup (`!ok`:
// "only when the id was generated here"), which silently drops the field for requests that
// already carry the value.
func ruleFieldHandlersUnconditional(r *Run, p *Prog, rule string) {
	upd := p.Method("", "Logger", "UpdateContext")
	if !r.Anchor(upd != nil, rule, "(*Logger).UpdateContext") {
		return
	}
	n := 0
	for _, f := range p.RootViews([]string{"hlog"}, "", nil) {
		if !requestLevel(f) {
			continue
		}
		eachInstr(f, func(b *ssa.BasicBlock, i int, in ssa.Instruction) {
			c, ok := in.(*ssa.Call)
			if !ok || staticCallee(&c.Call) != upd {
				return
			}
			n++
			bad := ""
			for _, cm := range necessaryCmps(f, c) {
				x, y, op := cm.X, cm.Y, cm.Op
				if _, isC := x.(*ssa.Const); isC {
					x, y, op = y, x, swapOp(op)
				}
				okc := false
				if s, isS := constString(y); isS && s == "" && op == token.NEQ {
					okc = true
				}
				if k, isK := constInt(y); isK {
					if lc, isL := x.(*ssa.Call); isL && builtinName(&lc.Call) == "len" && ((op == token.GTR && k >= 0) || (op == token.NEQ && k == 0) || (op == token.GEQ && k >= 1)) {
						okc = true
					}
				}
				if isNilConst(y) && (op == token.EQL || op == token.NEQ) {
					okc = true // err == nil, ptr != nil
				}
				if bv, isB := constBool(y); isB {
					// positive outcome of a lookup / predicate
					if (op == token.EQL && bv) || (op == token.NEQ && !bv) {
						okc = true
					}
				}
				if !okc && bad == "" {
					bad = cmpString(cm)
				}
			}
			r.Ob(rule, originFnName(f, c)+"/field-added-whenever-present", p.Pos(c.Pos()), bad == "", true, tern(bad == "", "the field is added under 'has a key/value' conditions only", "the handler adds its field only when "+bad+" holds — a negative lookup outcome, not 'there is a value': requests that already carry the value (a pre-assigned id, a second handler of the same kind) get no field on their events"))
		})
	}
	if n < 1 {
		// handlers may share one site through a private constructor; that each handler reaches one
		// is ISOL adds-its-field
		r.Fail(rule, "field-handlers/sites", "-", "no UpdateContext site found in hlog request closures")
	}
}

func isLoopHeaderOrBody(f *ssa.Function, b *ssa.BasicBlock) bool {
	for _, h := range f.Blocks {
		if isLoopHeader(h) && loopBlocks(h)[b] {
			return true
		}
	}
	return false
}

// ruleEncodersStateless: the encoder packages keep no state between calls: outside package
// initialisation nothing in them stores into a package-level variable (directly, through
// sync/atomic, or an atomic.Value). A cache shared by all goroutines (the last rendered second, a
// scratch buffer) hands one caller's rendering to another.
func ruleEncodersStateless(r *Run, p *Prog, rule string, rels []string) {
	n, nFns := 0, 0
	for _, f := range p.ModFns {
		in := false
		for _, rel := range rels {
			if pkgRel(f) == rel {
				in = true
			}
		}
		if !in || f.Blocks == nil || (f.Parent() == nil && (f.Name() == "init" || strings.HasPrefix(f.Name(), "init#"))) {
			continue
		}
		nFns++
		globalOf := func(v ssa.Value) *ssa.Global {
			for hops := 0; hops < 4; hops++ {
				switch x := v.(type) {
				case *ssa.Global:
					return x
				case *ssa.FieldAddr:
					v = x.X
					continue
				case *ssa.IndexAddr:
					v = x.X
					continue
				}
				break
			}
			return nil
		}
		eachInstr(f, func(b *ssa.BasicBlock, i int, in ssa.Instruction) {
			var g *ssa.Global
			switch x := in.(type) {
			case *ssa.Store:
				g = globalOf(x.Addr)
			case *ssa.Call:
				if o := calleeObj(&x.Call); o != nil && o.Pkg() != nil && o.Pkg().Path() == "sync/atomic" && len(x.Call.Args) > 0 {
					nm := o.Name()
					if strings.HasPrefix(nm, "Store") || strings.HasPrefix(nm, "Swap") || strings.HasPrefix(nm, "Add") || strings.HasPrefix(nm, "CompareAndSwap") || nm == "Store" {
						g = globalOf(x.Call.Args[0])
					}
				}
			}
			if g == nil || g.Pkg == nil || g.Pkg != f.Pkg {
				return
			}
			n++
			r.Ob(rule, FnName(f)+"/writes-package-state:"+g.Name(), p.Pos(in.Pos()), false, true, FnName(f)+" writes the package-level variable "+g.Name()+" while encoding: state shared by every goroutine and every logger — one caller's rendering (a cached timestamp text, a scratch buffer) reaches another caller's event")
		})
	}
	r.Ob(rule, "encoders/stateless", "-", nFns >= 60, false, fmt.Sprintf("%d encoder functions examined, %d write package-level state", nFns, n))
}

// ruleTimestampHookUnconditional: the hook behind With().Timestamp() adds its field on every
// path (a "skip when the key is already there" test looks at bytes, not at top-level keys).
func ruleTimestampHookUnconditional(r *Run, p *Prog, rule string) {
	ts := p.Method("", "Event", "Timestamp")
	run := p.Method("", "timestampHook", "Run")
	if !r.Anchor(ts != nil && run != nil, rule, "(*Event).Timestamp / timestampHook.Run") {
		return
	}
	fv := p.View(run, "keep-Timestamp", func(g *ssa.Function) bool { return g == ts })
	adds := func(in ssa.Instruction) bool {
		c, ok := in.(*ssa.Call)
		return ok && staticCallee(&c.Call) == ts
	}
	skip, path := pathExists(fv, nil, isReturn, adds, nil)
	r.Ob(rule, FnName(run)+"/adds-its-field-on-every-path", p.Pos(run.Pos()), !skip, true, tern(!skip, "every path of the timestamp hook calls e.Timestamp()", "the timestamp hook can return without adding its field: events that merely contain the key's bytes somewhere (a nested object, a string value) lose their top-level time member"+pathHint(p, path)))
}

// ruleTypeSwitchNoShadow: in the Fields type switch a concrete type that has its own arm is not
// captured by an earlier interface arm it happens to implement (net.IP / net.HardwareAddr are
// fmt.Stringers: a Stringer arm in front of them turns their tagged binary form into plain text).
func ruleTypeSwitchNoShadow(r *Run, p *Prog, rule string) {
	f := p.Func("", "appendFieldList")
	if !r.Anchor(f != nil, rule, "appendFieldList") {
		return
	}
	type arm struct {
		t   types.Type
		pos token.Pos
	}
	byOperand := map[ssa.Value][]arm{}
	// the big value switch lives in appendFieldList today; a refactoring may move it into a helper
	// (one function per kind of value): every large type switch of the package is judged
	for _, g := range p.ModFns {
		if pkgRel(g) != "" {
			continue
		}
		eachInstr(g, func(b *ssa.BasicBlock, i int, in ssa.Instruction) {
			if ta, ok := in.(*ssa.TypeAssert); ok && ta.CommaOk {
				byOperand[ta.X] = append(byOperand[ta.X], arm{ta.AssertedType, ta.Pos()})
			}
		})
	}
	n, bad := 0, ""
	for _, arms := range byOperand {
		if len(arms) < 8 {
			continue // not a big value switch
		}
		sort.Slice(arms, func(i, j int) bool { return arms[i].pos < arms[j].pos })
		n++
		// go/ssa emits the tests of a type switch in case order
		for j, c := range arms {
			if _, isIface := c.t.Underlying().(*types.Interface); isIface {
				continue
			}
			for i := 0; i < j; i++ {
				it, isIface := arms[i].t.Underlying().(*types.Interface)
				if !isIface || it.Empty() {
					continue
				}
				if types.Implements(c.t, it) && bad == "" {
					bad = fmt.Sprintf("the arm for %s is shadowed by the earlier interface arm %s, which that type implements", types.TypeString(c.t, nil), types.TypeString(arms[i].t, nil))
				}
			}
		}
	}
	if n == 0 {
		r.Fail(rule, FnName(f)+"/arms-not-shadowed", p.Pos(f.Pos()), "the value type switch of appendFieldList was not found")
		return
	}
	r.Ob(rule, FnName(f)+"/arms-not-shadowed", p.Pos(f.Pos()), bad == "", true, tern(bad == "", "no concrete arm of the Fields type switch is captured by an earlier interface arm", bad+": through Fields() the value is encoded by the interface arm (plain text) instead of its own arm (the same encoding the typed method uses)"))
}

// ruleStringHeaderLen: a CBOR text/byte string item announces len(x) of the very x whose bytes
// follow. A length computed some other way (counted per rune, adjusted for replacements) and a
// payload produced by a different transformation disagree for some inputs, and the item swallows
// or leaks the bytes of its neighbours.
func ruleStringHeaderLen(r *Run, p *Prog, rule string) {
	prefix := p.Func(cborRel, "appendCborTypePrefix")
	n := 0
	for _, name := range []string{"AppendString", "AppendBytes"} {
		f := p.Method(cborRel, "Encoder", name)
		if !r.Anchor(f != nil, rule, "cbor.Encoder."+name) {
			continue
		}
		fv := p.View(f, "keep-prefix", func(g *ssa.Function) bool { return g == prefix })
		var val *ssa.Parameter
		for _, pr := range fv.Params[1:] {
			if isByteSlice(pr.Type()) || isStringType(pr.Type()) {
				val = pr // the last string/bytes parameter is the value
			}
		}
		if val == nil {
			continue
		}
		isLenVal := func(v ssa.Value) bool {
			for {
				if c, ok := v.(*ssa.Convert); ok {
					v = c.X
					continue
				}
				break
			}
			x, ok := lenTerm(v)
			return ok && stripChange(x) == ssa.Value(val)
		}
		bad, badPos := "", ""
		eachInstr(fv, func(b *ssa.BasicBlock, i int, in ssa.Instruction) {
			c, ok := in.(*ssa.Call)
			if !ok {
				return
			}
			if prefix != nil && staticCallee(&c.Call) == prefix && len(c.Call.Args) == 3 {
				if !isLenVal(c.Call.Args[2]) && bad == "" {
					bad, badPos = "the prefixed length is "+descr(c.Call.Args[2])+", not len("+val.Name()+")", p.Pos(c.Pos())
				}
				return
			}
			if builtinName(&c.Call) == "append" && isByteSlice(c.Type()) {
				if sp, _ := appendElems(c); sp != nil {
					if _, isConst := constString(sp); !isConst && stripChange(sp) != ssa.Value(val) && bad == "" {
						bad, badPos = "the payload appended is "+descr(sp)+", not "+val.Name()+" itself", p.Pos(c.Pos())
					}
				}
			}
		})
		// the inline (<= 23) form: major | byte(l) with l = len(val)
		eachInstr(fv, func(b *ssa.BasicBlock, i int, in ssa.Instruction) {
			bo, ok := in.(*ssa.BinOp)
			if !ok || bo.Op != token.OR {
				return
			}
			for _, side := range []ssa.Value{bo.X, bo.Y} {
				if cv, ok := side.(*ssa.Convert); ok {
					if _, isC := cv.X.(*ssa.Const); !isC && !isLenVal(cv.X) && bad == "" {
						bad, badPos = "the inline length is "+descr(cv.X)+", not len("+val.Name()+")", p.Pos(bo.Pos())
					}
				}
			}
		})
		n++
		r.Ob(rule, FnName(f)+"/length-is-len-of-payload", tern(bad != "", badPos, p.Pos(f.Pos())), bad == "", true, tern(bad == "", "the item announces len("+val.Name()+") and is followed by "+val.Name()+" itself", bad+": for some inputs the announced length differs from the bytes written and the string item swallows (or leaks) the following keys and values"))
	}
	if n < 2 {
		r.Fail(rule, "string-headers/sites", "-", "the CBOR string/bytes appenders were not found")
	}
}

// ruleRawTimeTextOnlyOnParseError: the default console timestamp formatter shows the event's own
// time text unchanged only when it could not be parsed; every parsed time is moved to the
// configured location and formatted. A "same layout, nothing to do" shortcut prints the time in the
// event's zone instead of the configured/Local one.
func ruleRawTimeTextOnlyOnParseError(r *Run, p *Prog, rule string) {
	f := p.Func("", "consoleDefaultFormatTimestamp")
	if !r.Anchor(f != nil, rule, "consoleDefaultFormatTimestamp") {
		return
	}
	n := 0
	for _, g := range f.AnonFuncs {
		gv := p.View(g, "keep-colorize", func(h *ssa.Function) bool { return h.Name() == "colorize" })
		if len(gv.Params) != 1 {
			continue
		}
		paths, complete := enumPaths(gv, 1, 6000)
		if !complete {
			r.Ob(rule, FnName(f)+"/raw-text-only-on-parse-error", p.Pos(g.Pos()), false, true, "cannot enumerate the paths of the timestamp formatter (undecided, fail closed)")
			n++
			continue
		}
		in0 := gv.Params[0]
		isInputString := func(v ssa.Value) bool {
			if ex, ok := v.(*ssa.Extract); ok && ex.Index == 0 {
				if ta, ok := ex.Tuple.(*ssa.TypeAssert); ok && ta.X == ssa.Value(in0) && isStringType(ta.AssertedType) {
					return true
				}
			}
			if ta, ok := v.(*ssa.TypeAssert); ok && ta.X == ssa.Value(in0) && isStringType(ta.AssertedType) {
				return true
			}
			return false
		}
		bad, badPos, nRaw := "", "", 0
		for _, pa := range paths {
			ret, ok := pa.Exit.(*ssa.Return)
			if !ok || len(ret.Results) != 1 || pa.Infeasible() {
				continue
			}
			// the text shown: the returned value, or the first argument of colorize
			shown := pa.Resolve(ret.Results[0])
			if c, ok := shown.(*ssa.Call); ok {
				if sc := staticCallee(&c.Call); sc != nil && sc.Name() == "colorize" && len(c.Call.Args) >= 1 {
					shown = pa.Resolve(c.Call.Args[0])
					if mi, ok := shown.(*ssa.MakeInterface); ok {
						shown = pa.Resolve(mi.X)
					}
				}
			}
			if !isInputString(shown) {
				continue
			}
			nRaw++
			failed := hasCmp(pa.Cmps(), func(op token.Token, x, y ssa.Value) bool {
				if !isNilConst(y) || op != token.NEQ {
					return false
				}
				ex, ok := x.(*ssa.Extract)
				if !ok {
					return false
				}
				c, ok := ex.Tuple.(*ssa.Call)
				return ok && (isCallTo(&c.Call, "time.ParseInLocation") || isCallTo(&c.Call, "time.Parse"))
			})
			if !failed && bad == "" {
				bad, badPos = pa.String(p), p.Pos(ret.Pos())
			}
		}
		n++
		r.Ob(rule, FnName(f)+"/raw-text-only-on-parse-error", tern(bad != "", badPos, p.Pos(g.Pos())), bad == "", true, tern(bad == "", fmt.Sprintf("%d path(s) show the event's own time text, all of them after a failed parse", nRaw), "the formatter shows the event's own time text without having failed to parse it (path ["+bad+"]): the time is printed in the zone the event carries instead of the configured TimeLocation (or Local), and sub-second digits are not normalised"))
	}
	if n == 0 {
		r.Fail(rule, FnName(f)+"/raw-text-only-on-parse-error", p.Pos(f.Pos()), "the formatter closure was not found")
	}
}
