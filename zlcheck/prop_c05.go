package main

func init() { register("C05", checkC05) }

func checkC05(r *Run) {
	r.Explain = "Decides that derivation never hands out memory another logger can still write, and that copies are complete: A11 every store into Logger.context / Logger.hooks is classified by the origin of its backing array (fresh make/clone/append-onto-fresh; the receiver's own slice unchanged; grown in place; shared with another value), flow-sensitively through local struct copies — With, Output, Hook, Reset must be fresh, Level/Sample unchanged; derivation methods have value receivers and no pointer-receiver method except the documented UpdateContext writes the logger it is called on; A12 Logger.Output carries every field of Logger from the receiver (or sets it from the constructor for the destination), and the pooled Event/Array are re-initialised field by field on every path when taken from the pool (so GetCtx can never see a context left behind by another event); ISOL (shared with C18) hlog derives the request's logger inside the request closure (With().Logger() per request, never hoisted to the handler constructor), WithContext attaches the address of its own copy and never stores through a *Logger obtained from the context. UPDCTX UpdateContext applies on every logger but the shared disabled one; A12 get-confined: a pooled Event/Array leaves its pool only through the constructor that resets every field; PURE encoders never write into their input slices (the stored context of a logger is read-only to newEvent). A12 copy also on every path: an early return of Output (for a disabled receiver) that leaves fields behind is reported. ISOL per-request-copy-on-every-path: NewHandler's closure reaches next.ServeHTTP only after attaching the fresh With().Logger() copy. A12 copy: in the field-by-field shape of Output the context stored is a fresh array."
	r.NotDec = "Goroutine interleavings as such: the claim is that with no shared writable memory and no receiver mutation there is nothing for an interleaving to act on. The in-place append of Context's value-receiver field adders is a known finding (API design)."
	r.Assume = []string{"UpdateContext is applied only to a logger just produced by With() (property's restriction)"}
	p := r.Use("J")
	if p == nil {
		return
	}
	ruleA11(r, p)
	ruleA12Copy(r, p)
	ruleA12Reset(r, p, "newEvent", "Event")
	ruleA12Reset(r, p, "Arr", "Array")
	ruleA13(r, p, map[string]bool{"": true}, "ab") // a double put makes two loggers' events one object (C06's rule)
	ruleNewEventCarriesLogger(r, p)
	ruleUpdateContextApplies(r, p, "UPDCTX")
	rulePoolGetConfined(r, p, "A12", map[string]string{"Event": "newEvent", "Array": "Arr"})
	ruleAppendersKeepInputs(r, p, "PURE", []string{"internal/json", cborRel})
	ruleHlogIsolation(r, p) // hlog/hlog.go and ctx.go are anchors of C05 too: per-request loggers are derived per request
	r.Floor("A11", 85)
	r.Floor("A12", 15)
	r.Floor("ISOL", 17)
}
