package main

// A tiny abstract evaluator over the pure integer/boolean fragment of SSA, used where a property
// clause is "this table / predicate has exactly these entries" and the defining code is a loop
// over a small constant range: the loop body is evaluated for every index value of the range
// (a finite domain), following its own branch conditions.  Nothing of zerolog is executed; any
// instruction outside the fragment makes the evaluation "undecided", which fails closed.

import (
	"go/token"
	"go/types"

	"golang.org/x/tools/go/ssa"
)

type miniEnv struct {
	vals map[ssa.Value]int64
}

func truncTo(v int64, t types.Type) int64 {
	b, ok := t.Underlying().(*types.Basic)
	if !ok {
		return v
	}
	switch b.Kind() {
	case types.Uint8:
		return int64(uint8(v))
	case types.Int8:
		return int64(int8(v))
	case types.Uint16:
		return int64(uint16(v))
	case types.Int16:
		return int64(int16(v))
	case types.Uint32:
		return int64(uint32(v))
	case types.Int32:
		return int64(int32(v))
	}
	return v
}

func b2i(b bool) int64 {
	if b {
		return 1
	}
	return 0
}

func (e *miniEnv) eval(v ssa.Value, depth int) (int64, bool) {
	if depth > 20 {
		return 0, false
	}
	if x, ok := e.vals[v]; ok {
		return x, true
	}
	switch x := v.(type) {
	case *ssa.Const:
		if n, ok := constInt(x); ok {
			return n, true
		}
		if b, ok := constBool(x); ok {
			return b2i(b), true
		}
	case *ssa.Convert:
		n, ok := e.eval(x.X, depth+1)
		if !ok {
			return 0, false
		}
		return truncTo(n, x.Type()), true
	case *ssa.ChangeType:
		return e.eval(x.X, depth+1)
	case *ssa.UnOp:
		n, ok := e.eval(x.X, depth+1)
		if !ok {
			return 0, false
		}
		switch x.Op {
		case token.NOT:
			return b2i(n == 0), true
		case token.SUB:
			return truncTo(-n, x.Type()), true
		}
	case *ssa.BinOp:
		l, ok1 := e.eval(x.X, depth+1)
		r, ok2 := e.eval(x.Y, depth+1)
		if !ok1 || !ok2 {
			return 0, false
		}
		switch x.Op {
		case token.ADD:
			return truncTo(l+r, x.Type()), true
		case token.SUB:
			return truncTo(l-r, x.Type()), true
		case token.MUL:
			return truncTo(l*r, x.Type()), true
		case token.QUO:
			if r == 0 {
				return 0, false
			}
			return l / r, true
		case token.REM:
			if r == 0 {
				return 0, false
			}
			return l % r, true
		case token.AND:
			return l & r, true
		case token.OR:
			return l | r, true
		case token.XOR:
			return truncTo(l^r, x.Type()), true
		case token.SHL:
			if r < 0 || r > 62 {
				return 0, false
			}
			return truncTo(l<<uint(r), x.Type()), true
		case token.SHR:
			if r < 0 || r > 62 {
				return 0, false
			}
			return l >> uint(r), true
		case token.EQL:
			return b2i(l == r), true
		case token.NEQ:
			return b2i(l != r), true
		case token.LSS:
			return b2i(l < r), true
		case token.LEQ:
			return b2i(l <= r), true
		case token.GTR:
			return b2i(l > r), true
		case token.GEQ:
			return b2i(l >= r), true
		}
	}
	return 0, false
}

// walkIteration evaluates one loop iteration: from `entry` (the first body block, coming from hdr)
// until control returns to hdr or leaves the loop.  onStore is called for every Store met; a
// false return from it, or any undecidable condition, makes the walk undecided (why != "").
func (e *miniEnv) walkIteration(hdr, entry *ssa.BasicBlock, onStore func(st *ssa.Store) bool) (why string) {
	prev, cur := hdr, entry
	for steps := 0; steps < 256; steps++ {
		if cur == hdr {
			return ""
		}
		// phis take the value of the edge we came through
		for _, in := range cur.Instrs {
			ph, ok := in.(*ssa.Phi)
			if !ok {
				break
			}
			for k, q := range cur.Preds {
				if q == prev {
					if n, ok := e.eval(ph.Edges[k], 0); ok {
						e.vals[ph] = n
					} else {
						delete(e.vals, ph)
					}
				}
			}
		}
		for _, in := range cur.Instrs {
			if st, ok := in.(*ssa.Store); ok {
				if !onStore(st) {
					return "a store that cannot be evaluated"
				}
			}
		}
		switch t := cur.Instrs[len(cur.Instrs)-1].(type) {
		case *ssa.Jump:
			prev, cur = cur, cur.Succs[0]
		case *ssa.If:
			c, ok := e.eval(t.Cond, 0)
			if !ok {
				return "condition " + descr(t.Cond) + " is outside the evaluable fragment"
			}
			if c != 0 {
				prev, cur = cur, cur.Succs[0]
			} else {
				prev, cur = cur, cur.Succs[1]
			}
		default:
			return "the iteration leaves the loop (" + t.String() + ")"
		}
	}
	return "iteration too long"
}

// constRangeLoop recognises `for i := c0; i <op> c1; i++` at header hdr: returns the index phi,
// the first body block and the list of index values the loop runs through.
func constRangeLoop(hdr *ssa.BasicBlock) (idx *ssa.Phi, entry *ssa.BasicBlock, values []int64, ok bool) {
	iff, isIf := hdr.Instrs[len(hdr.Instrs)-1].(*ssa.If)
	if !isIf {
		return nil, nil, nil, false
	}
	bo, isB := iff.Cond.(*ssa.BinOp)
	if !isB {
		return nil, nil, nil, false
	}
	ph, isP := bo.X.(*ssa.Phi)
	hi, isC := constInt(bo.Y)
	// go/ssa's form of `for i := range T`: the phi starts at -1 and the header tests phi+1
	rangeForm := false
	if inc, isInc := bo.X.(*ssa.BinOp); isInc && !isP && inc.Op == token.ADD {
		if one, ok := constInt(inc.Y); ok && one == 1 {
			if ph2, ok := inc.X.(*ssa.Phi); ok {
				ph, isP, rangeForm = ph2, true, true
			}
		}
	}
	if !isP || !isC || ph.Block() != hdr {
		return nil, nil, nil, false
	}
	body := loopBlocks(hdr)
	var start int64
	haveStart := false
	for k, e := range ph.Edges {
		if body[hdr.Preds[k]] {
			inc, ok := e.(*ssa.BinOp)
			if !ok || inc.Op != token.ADD || inc.X != ssa.Value(ph) {
				return nil, nil, nil, false
			}
			if one, ok := constInt(inc.Y); !ok || one != 1 {
				return nil, nil, nil, false
			}
		} else {
			c, ok := constInt(e)
			if !ok || haveStart && c != start {
				return nil, nil, nil, false
			}
			start, haveStart = c, true
		}
	}
	if !haveStart || !body[hdr.Succs[0]] || body[hdr.Succs[1]] {
		return nil, nil, nil, false
	}
	var end int64
	switch bo.Op {
	case token.LSS:
		end = hi - 1
	case token.LEQ:
		end = hi
	default:
		return nil, nil, nil, false
	}
	if rangeForm {
		end-- // the test is on phi+1
	}
	if end-start > 4096 {
		return nil, nil, nil, false
	}
	for i := start; i <= end; i++ {
		values = append(values, i)
	}
	return ph, hdr.Succs[0], values, true
}
