package main

// A9 — nil-receiver inertness.
// For a function f and a pointer parameter k, compute the region of f's CFG that is
// reachable when that parameter is nil and list everything in it that is not inert:
// dereferences, dynamic calls (callbacks, marshalers, hooks, writer), panics, stores,
// external calls, operations that can panic at run time, and (separately) allocations.

import (
	"fmt"
	"go/token"
	"go/types"

	"golang.org/x/tools/go/ssa"
)

type nilFinding struct {
	Kind  string // deref, dyncall, call, panic, store, mayPanic, alloc, go/defer
	What  string
	Pos   token.Pos
	Alloc bool // allocation-only finding (matters for C07, not for C04)
}

type nilKey struct {
	f *ssa.Function
	k int
}

type nilAnalyzer struct {
	p     *Prog
	memo  map[nilKey][]nilFinding
	busy  map[nilKey]bool
	pure  map[*ssa.Function]int // 0 unknown, 1 pure, 2 impure
	stats struct{ regions, instrs int }
}

func newNilAnalyzer(p *Prog) *nilAnalyzer {
	return &nilAnalyzer{p: p, memo: map[nilKey][]nilFinding{}, busy: map[nilKey]bool{}, pure: map[*ssa.Function]int{}}
}

// external functions that may be called on the filtered path: no user code, no panic, no allocation.
var nilExternalAllow = map[string]bool{
	"context.Background": true,
}

// externals a module helper may call and still count as a "harmless helper" (pool return wrappers).
var helperExternalAllow = map[string]bool{
	"(*sync.Pool).Put": true,
}

// harmlessHelper: module function whose transitive body has no dynamic call, no panic, no go/defer,
// and calls only module functions of the same kind or allow-listed externals.
func (a *nilAnalyzer) harmlessHelper(f *ssa.Function) bool {
	switch a.pure[f] {
	case 1:
		return true
	case 2:
		return false
	}
	a.pure[f] = 1 // optimistic for recursion
	ok := true
	if !InModule(f) || f.Blocks == nil {
		ok = false
	}
	if ok {
		eachInstr(f, func(b *ssa.BasicBlock, i int, in ssa.Instruction) {
			switch x := in.(type) {
			case *ssa.Panic, *ssa.Go, *ssa.Defer, *ssa.Send, *ssa.Select, *ssa.MapUpdate:
				ok = false
			case *ssa.Call:
				if builtinName(&x.Call) != "" {
					if n := builtinName(&x.Call); n == "append" || n == "panic" {
						ok = false
					}
					return
				}
				sc := staticCallee(&x.Call)
				if sc == nil {
					ok = false
					return
				}
				if InModule(sc) {
					if !a.harmlessHelper(sc) {
						ok = false
					}
					return
				}
				if o := calleeObj(&x.Call); o == nil || !helperExternalAllow[o.FullName()] {
					ok = false
				}
			}
		})
	}
	if ok {
		a.pure[f] = 1
	} else {
		a.pure[f] = 2
	}
	return ok
}

// analyze returns the non-inert things in f's region where parameter k is nil.
func (a *nilAnalyzer) analyze(f *ssa.Function, k int) []nilFinding {
	key := nilKey{f, k}
	if r, ok := a.memo[key]; ok {
		return r
	}
	if a.busy[key] {
		return nil
	}
	a.busy[key] = true
	defer delete(a.busy, key)
	var out []nilFinding
	add := func(kind, what string, pos token.Pos, alloc bool) {
		out = append(out, nilFinding{kind, what, pos, alloc})
	}
	if k >= len(f.Params) || f.Blocks == nil {
		add("unknown", "no body / parameter", f.Pos(), false)
		a.memo[key] = out
		return out
	}
	recv := f.Params[k]
	isNil := func(v ssa.Value) bool {
		v = stripChange(v)
		return v == ssa.Value(recv)
	}
	// does v derive from a parameter of f (function / interface typed)? used for callbacks
	paramDerived := func(v ssa.Value) bool {
		seen := map[ssa.Value]bool{}
		var rec func(v ssa.Value) bool
		rec = func(v ssa.Value) bool {
			if seen[v] {
				return false
			}
			seen[v] = true
			switch x := v.(type) {
			case *ssa.Parameter:
				return true
			case *ssa.Phi:
				for _, e := range x.Edges {
					if rec(e) {
						return true
					}
				}
			case *ssa.ChangeType:
				return rec(x.X)
			case *ssa.ChangeInterface:
				return rec(x.X)
			case *ssa.MakeInterface:
				return rec(x.X)
			case *ssa.TypeAssert:
				return rec(x.X)
			case *ssa.Extract:
				return rec(x.Tuple)
			case *ssa.UnOp:
				return rec(x.X)
			case *ssa.FieldAddr:
				return rec(x.X)
			case *ssa.Field:
				return rec(x.X)
			case *ssa.IndexAddr:
				return rec(x.X)
			case *ssa.Index:
				return rec(x.X)
			case *ssa.Slice:
				return rec(x.X)
			}
			return false
		}
		return rec(v)
	}
	// region: blocks reachable with recv == nil
	reach := map[*ssa.BasicBlock]bool{}
	work := []*ssa.BasicBlock{f.Blocks[0]}
	reach[f.Blocks[0]] = true
	for len(work) > 0 {
		b := work[len(work)-1]
		work = work[:len(work)-1]
		take := []bool{true, true}
		if ifi, ok := b.Instrs[len(b.Instrs)-1].(*ssa.If); ok {
			// a nil-safe predicate of the receiver (`if e.Enabled()`): its constant answer for a nil receiver decides the branch
			cond, pol := ifi.Cond, true
			for {
				u, isU := cond.(*ssa.UnOp)
				if !isU || u.Op != token.NOT {
					break
				}
				cond, pol = u.X, !pol
			}
			if c, isCall := cond.(*ssa.Call); isCall && !c.Call.IsInvoke() && len(c.Call.Args) > 0 && isNil(c.Call.Args[0]) {
				if sc := staticCallee(&c.Call); sc != nil && InModule(sc) {
					if v, known := a.nilConstResult(sc, 0, 0); known {
						if v == pol {
							take[1] = false
						} else {
							take[0] = false
						}
					}
				}
			}
			if bo, ok := ifi.Cond.(*ssa.BinOp); ok && (bo.Op == token.EQL || bo.Op == token.NEQ) {
				if (isNil(bo.X) && isNilConst(bo.Y)) || (isNil(bo.Y) && isNilConst(bo.X)) {
					if bo.Op == token.EQL {
						take[1] = false
					} else {
						take[0] = false
					}
				}
			}
		}
		for si, s := range b.Succs {
			if si < 2 && !take[si] {
				continue
			}
			if !reach[s] {
				reach[s] = true
				work = append(work, s)
			}
		}
	}
	a.stats.regions++
	for _, b := range f.Blocks {
		if !reach[b] {
			continue
		}
		for _, in := range b.Instrs {
			a.stats.instrs++
			switch x := in.(type) {
			case *ssa.If, *ssa.Jump, *ssa.Return, *ssa.Phi, *ssa.BinOp, *ssa.ChangeType, *ssa.Convert,
				*ssa.Extract, *ssa.DebugRef, *ssa.ChangeInterface, *ssa.RunDefers, *ssa.MultiConvert:
				if bo, ok := in.(*ssa.BinOp); ok && (bo.Op == token.QUO || bo.Op == token.REM) {
					if bt, ok := bo.X.Type().Underlying().(*types.Basic); ok && bt.Info()&types.IsInteger != 0 {
						if _, isC := bo.Y.(*ssa.Const); !isC {
							add("mayPanic", "integer division", in.Pos(), false)
						}
					}
				}
			case *ssa.UnOp:
				if x.Op == token.MUL {
					switch y := x.X.(type) {
					case *ssa.Global:
					case *ssa.Alloc:
					case *ssa.FieldAddr, *ssa.IndexAddr:
						_ = y // reported at the FieldAddr/IndexAddr itself if it is a problem
					default:
						if isNil(x.X) {
							add("deref", "load through the nil receiver", in.Pos(), false)
						} else if _, ok := x.X.(*ssa.FreeVar); !ok {
							add("mayPanic", "load through pointer "+descr(x.X), in.Pos(), false)
						}
					}
				} else if x.Op == token.ARROW {
					add("mayPanic", "channel receive", in.Pos(), false)
				}
			case *ssa.FieldAddr:
				if isNil(x.X) {
					add("deref", "field "+fname(fieldVar(x))+" of the nil receiver", in.Pos(), false)
				} else if _, ok := x.X.(*ssa.Alloc); !ok {
					if !nonNilByCondition(f, in, x.X) {
						add("mayPanic", "field access through possibly nil pointer "+descr(x.X), in.Pos(), false)
					}
				}
			case *ssa.Field:
			case *ssa.IndexAddr:
				if !constIndexGuarded(f, in, x.X, x.Index) {
					add("mayPanic", "index expression "+descr(x)+" without a dominating length check", in.Pos(), false)
				}
			case *ssa.Index, *ssa.Slice:
				add("mayPanic", "index/slice expression "+descr(in.(ssa.Value)), in.Pos(), false)
			case *ssa.Lookup:
			case *ssa.TypeAssert:
				if !x.CommaOk {
					add("mayPanic", "unchecked type assertion", in.Pos(), false)
				}
			case *ssa.Alloc:
				if x.Heap {
					add("alloc", "heap variable "+x.Comment, in.Pos(), true)
				}
			case *ssa.MakeSlice, *ssa.MakeMap, *ssa.MakeChan:
				add("alloc", "make", in.Pos(), true)
			case *ssa.MakeClosure:
				if len(x.Bindings) > 0 {
					add("alloc", "closure with captures", in.Pos(), true)
				}
			case *ssa.MakeInterface:
				if !isPointer(x.X.Type()) {
					if _, isConst := x.X.(*ssa.Const); !isConst {
						add("alloc", "boxing of "+types.TypeString(x.X.Type(), shortQual)+" into an interface", in.Pos(), true)
					}
				}
			case *ssa.Store:
				if _, ok := x.Addr.(*ssa.Alloc); !ok {
					add("store", "store to "+descr(x.Addr), in.Pos(), false)
				}
			case *ssa.MapUpdate:
				add("store", "map update", in.Pos(), false)
			case *ssa.Panic:
				add("panic", "panic", in.Pos(), false)
			case *ssa.Go:
				add("call", "go statement", in.Pos(), false)
			case *ssa.Defer:
				add("call", "defer statement", in.Pos(), false)
			case *ssa.Send, *ssa.Select:
				add("mayPanic", "channel operation", in.Pos(), false)
			case *ssa.Call:
				a.call(f, x, isNil, paramDerived, add)
			default:
				add("unknown", fmt.Sprintf("unclassified instruction %T", in), in.Pos(), false)
			}
		}
	}
	a.memo[key] = out
	return out
}

func (a *nilAnalyzer) call(f *ssa.Function, c *ssa.Call, isNil func(ssa.Value) bool, paramDerived func(ssa.Value) bool, add func(kind, what string, pos token.Pos, alloc bool)) {
	com := &c.Call
	if bn := builtinName(com); bn != "" {
		switch bn {
		case "len", "cap", "min", "max", "real", "imag":
		case "append":
			add("alloc", "append", c.Pos(), true)
		case "copy", "delete", "clear", "print", "println", "close":
			add("store", "builtin "+bn, c.Pos(), false)
		case "panic":
			add("panic", "panic", c.Pos(), false)
		default:
			add("unknown", "builtin "+bn, c.Pos(), false)
		}
		return
	}
	if com.IsInvoke() {
		add("dyncall", "interface method call "+descr(com.Value)+"."+com.Method.Name(), c.Pos(), false)
		return
	}
	sc := staticCallee(com)
	if sc == nil {
		what := "call of function value " + descr(com.Value)
		if paramDerived(com.Value) {
			what = "call of caller-supplied callback " + descr(com.Value)
		}
		add("dyncall", what, c.Pos(), false)
		return
	}
	// which args are the nil value?
	nilArg := -1
	for i, arg := range com.Args {
		if isNil(arg) {
			nilArg = i
		}
	}
	if InModule(sc) {
		if nilArg >= 0 {
			// the nil pointer is passed on: the callee must itself be inert for that parameter
			sub := a.analyze(sc, nilArg)
			for _, s := range sub {
				add(s.Kind, "via "+FnName(sc)+": "+s.What, c.Pos(), s.Alloc)
			}
			return
		}
		if a.harmlessHelper(sc) {
			return
		}
		add("call", "call of "+FnName(sc)+" (not a harmless helper: it can reach dynamic calls, panics or other effects)", c.Pos(), false)
		return
	}
	name := ""
	if o := calleeObj(com); o != nil {
		name = o.FullName()
	}
	if nilExternalAllow[name] {
		return
	}
	add("call", "call of external function "+name, c.Pos(), false)
}

// nonNilByCondition: is the access `at` guarded by `v != nil` on every path?
func nonNilByCondition(f *ssa.Function, at ssa.Instruction, v ssa.Value) bool {
	for _, c := range necessaryCmps(f, at) {
		if c.Op == token.NEQ && ((sameValue(c.X, v) && isNilConst(c.Y)) || (sameValue(c.Y, v) && isNilConst(c.X))) {
			return true
		}
	}
	// v := x.(*T) with ok checked and v != nil
	return false
}

// constIndexGuarded: x[k] with constant k is safe when every path to it carries len(x) > k.
func constIndexGuarded(f *ssa.Function, at ssa.Instruction, x, idx ssa.Value) bool {
	k, ok := constInt(idx)
	if !ok || k < 0 {
		return false
	}
	if _, isArr := derefType(x.Type()).Underlying().(*types.Array); isArr {
		return true // constant index into an array is checked by the compiler
	}
	isLen := func(v ssa.Value) bool {
		c, ok := v.(*ssa.Call)
		return ok && builtinName(&c.Call) == "len" && len(c.Call.Args) == 1 && c.Call.Args[0] == x
	}
	return hasCmp(necessaryCmps(f, at), func(op token.Token, a, b ssa.Value) bool {
		n, ok := constInt(b)
		if !ok || !isLen(a) {
			return false
		}
		switch op {
		case token.GTR:
			return n >= k
		case token.GEQ:
			return n > k
		case token.NEQ:
			return n == 0 && k == 0
		}
		return false
	})
}

// nilConstResult: the constant boolean m returns whenever its parameter k is nil (e.g.
// `func (e *Event) Enabled() bool { return e != nil && e.level != Disabled }` → false).
func (a *nilAnalyzer) nilConstResult(m *ssa.Function, k int, depth int) (val, known bool) {
	if m == nil || m.Blocks == nil || k >= len(m.Params) || depth > 2 || m.Signature.Results().Len() != 1 {
		return false, false
	}
	if b, ok := m.Signature.Results().At(0).Type().Underlying().(*types.Basic); !ok || b.Kind() != types.Bool {
		return false, false
	}
	recv := ssa.Value(m.Params[k])
	type edge struct{ from, to *ssa.BasicBlock }
	reach := map[*ssa.BasicBlock]bool{m.Blocks[0]: true}
	edges := map[edge]bool{}
	work := []*ssa.BasicBlock{m.Blocks[0]}
	for len(work) > 0 {
		b := work[len(work)-1]
		work = work[:len(work)-1]
		take := []bool{true, true}
		if ifi, ok := b.Instrs[len(b.Instrs)-1].(*ssa.If); ok {
			if bo, ok := ifi.Cond.(*ssa.BinOp); ok && (bo.Op == token.EQL || bo.Op == token.NEQ) {
				if (stripChange(bo.X) == recv && isNilConst(bo.Y)) || (stripChange(bo.Y) == recv && isNilConst(bo.X)) {
					if bo.Op == token.EQL {
						take[1] = false
					} else {
						take[0] = false
					}
				}
			}
		}
		for si, s := range b.Succs {
			if si < 2 && !take[si] {
				continue
			}
			edges[edge{b, s}] = true
			if !reach[s] {
				reach[s] = true
				work = append(work, s)
			}
		}
	}
	have := false
	okAll := true
	var eval func(v ssa.Value, d int) (bool, bool)
	eval = func(v ssa.Value, d int) (bool, bool) {
		if d > 4 {
			return false, false
		}
		if c, ok := constBool(v); ok {
			return c, true
		}
		if ph, ok := v.(*ssa.Phi); ok {
			var res bool
			got := false
			for i, e := range ph.Edges {
				if !edges[edge{ph.Block().Preds[i], ph.Block()}] {
					continue
				}
				x, ok := eval(e, d+1)
				if !ok || (got && x != res) {
					return false, false
				}
				res, got = x, true
			}
			return res, got
		}
		return false, false
	}
	for b := range reach {
		ret, ok := b.Instrs[len(b.Instrs)-1].(*ssa.Return)
		if !ok {
			continue
		}
		x, ok := eval(ret.Results[0], 0)
		if !ok || (have && x != val) {
			okAll = false
			continue
		}
		val, have = x, true
	}
	return val, okAll && have
}

// ruleNilOrder (contradiction rule): a function that tests one of its pointer parameters against
// nil believes the parameter may be nil; a dereference of that parameter which is not protected by
// the test and dominates it contradicts that belief (`cap(a.buf) > max || a == nil`): for the
// nil value the function was written to tolerate — a typed-nil argument on a filtered event — it
// panics.
func ruleNilOrder(r *Run, p *Prog, rels []string) {
	n := 0
	for _, f := range p.ModFns {
		okRel := false
		for _, rel := range rels {
			if pkgRel(f) == rel {
				okRel = true
			}
		}
		if !okRel || f.Blocks == nil {
			continue
		}
		for _, par := range f.Params {
			if !isPointer(par.Type()) {
				continue
			}
			// nil tests of par
			type check struct {
				ifi    *ssa.If
				nonNil int // successor index taken when par != nil
			}
			var checks []check
			for _, b := range f.Blocks {
				ifi, ok := b.Instrs[len(b.Instrs)-1].(*ssa.If)
				if !ok {
					continue
				}
				bo, ok := ifi.Cond.(*ssa.BinOp)
				if !ok || (bo.Op != token.EQL && bo.Op != token.NEQ) {
					continue
				}
				if !((bo.X == ssa.Value(par) && isNilConst(bo.Y)) || (bo.Y == ssa.Value(par) && isNilConst(bo.X))) {
					continue
				}
				nn := 0
				if bo.Op == token.EQL {
					nn = 1
				}
				checks = append(checks, check{ifi, nn})
			}
			if len(checks) == 0 {
				continue
			}
			n++
			// dereferences of par
			bad := ""
			var badPos token.Pos
			for _, b := range f.Blocks {
				for _, in := range b.Instrs {
					deref := false
					switch x := in.(type) {
					case *ssa.FieldAddr:
						deref = x.X == ssa.Value(par)
					case *ssa.UnOp:
						deref = x.Op == token.MUL && x.X == ssa.Value(par)
					}
					if !deref {
						continue
					}
					protected := false
					reachesCheck := false
					for _, c := range checks {
						cb := c.ifi.Block()
						nonNilSucc := cb.Succs[c.nonNil]
						// protected: the block is only reachable through the non-nil edge
						if nonNilSucc != cb.Succs[1-c.nonNil] && nonNilSucc.Dominates(b) && len(nonNilSucc.Preds) == 1 {
							protected = true
						}
						// the contradiction: every execution that reaches the test has already
						// dereferenced the pointer (the dereference dominates the test), so the test
						// can only ever see a non-nil value or come too late
						if b == cb || (b.Dominates(cb) && blockReaches(b, cb)) {
							reachesCheck = true
						}
					}
					if !protected && reachesCheck && bad == "" {
						bad = descr(in.(ssa.Value))
						badPos = in.Pos()
					}
				}
			}
			okc := bad == ""
			pos := p.Pos(f.Pos())
			if !okc {
				pos = p.Pos(badPos)
			}
			r.Ob("A9", FnName(f)+"/nil-test-before-use:"+par.Name(), pos, okc, true, tern(okc, "every dereference of "+par.Name()+" that can precede its nil test is protected by it", FnName(f)+" tests "+par.Name()+" against nil but dereferences it ("+bad+") where the test has not been passed yet: for the nil value it was written to tolerate it panics"))
		}
	}
	r.Count("a9_nil_tested_pointer_params", n)
}

// blockReaches: b can reach target through successor edges (b != target).
func blockReaches(b, target *ssa.BasicBlock) bool {
	seen := map[*ssa.BasicBlock]bool{}
	st := append([]*ssa.BasicBlock{}, b.Succs...)
	for len(st) > 0 {
		x := st[len(st)-1]
		st = st[:len(st)-1]
		if seen[x] {
			continue
		}
		seen[x] = true
		if x == target {
			return true
		}
		st = append(st, x.Succs...)
	}
	return false
}
