package main

// A14 — atomics-only variables.  A struct field or package-level pointer whose address is
// passed to a sync/atomic function anywhere in the module must be accessed through
// sync/atomic everywhere (composite-literal initialisation excepted).

import (
	"go/token"
	"go/types"
	"strings"

	"golang.org/x/tools/go/ssa"
)

func isAtomicCall(c *ssa.CallCommon) bool {
	o := calleeObj(c)
	return o != nil && o.Pkg() != nil && o.Pkg().Path() == "sync/atomic"
}

// ruleA14 checks packages selected by rels (module-relative). want lists names that must be
// found among the atomic variables (anchors); rule is the obligation label.
func ruleA14(r *Run, p *Prog, rule string, rels map[string]bool, want []string) {
	fields := map[*types.Var]bool{}
	globals := map[*ssa.Global]bool{}
	elemOf := map[*types.Var]bool{} // slice fields whose elements are accessed atomically (ring buffers)
	for _, f := range p.ModFns {
		if !rels[pkgRel(f)] {
			continue
		}
		eachInstr(f, func(b *ssa.BasicBlock, i int, in ssa.Instruction) {
			cc := callCommon(in)
			if cc == nil || !isAtomicCall(cc) || len(cc.Args) == 0 {
				return
			}
			addr := cc.Args[0]
			if cv, ok := addr.(*ssa.Convert); ok { // (*unsafe.Pointer)(unsafe.Pointer(&x))
				addr = cv.X
				if cv2, ok := addr.(*ssa.Convert); ok {
					addr = cv2.X
				}
			}
			switch x := addr.(type) {
			case *ssa.FieldAddr:
				fields[fieldVar(x)] = true
			case *ssa.UnOp:
				if g := loadedGlobal(x); g != nil {
					globals[g] = true
				}
			case *ssa.Global:
				globals[x] = true
			case *ssa.IndexAddr:
				if fv, _ := loadedField(x.X); fv != nil {
					elemOf[fv] = true
				}
			}
		})
	}
	// frozen instances "Type.field": atomics-only even if the last atomic access disappears
	for _, w := range want {
		if i := strings.IndexByte(w, '.'); i > 0 {
			for rel := range rels {
				if n := p.NamedType(rel, w[:i]); n != nil {
					if st, ok := n.Underlying().(*types.Struct); ok {
						for k := 0; k < st.NumFields(); k++ {
							if st.Field(k).Name() == w[i+1:] {
								fields[st.Field(k)] = true
							}
						}
					}
				}
			}
		}
	}
	found := map[string]bool{}
	for fv := range fields {
		if n := ownerStructName(p, rels, fv); n != "" {
			found[n+"."+fname(fv)] = true
		}
	}
	for fv := range fields {
		found[fname(fv)] = true
	}
	for g := range globals {
		found[g.Name()] = true
	}
	for fv := range elemOf {
		found[fname(fv)+"[]"] = true
	}
	for _, w := range want {
		if strings.HasPrefix(w, "@") {
			// "@F|G": the package-level word that the API functions F / G access atomically
			// (identified by its accessor, not by its name)
			ok := false
			for _, fnm := range strings.Split(w[1:], "|") {
				for rel := range rels {
					f := p.Func(rel, fnm)
					if f == nil {
						continue
					}
					eachInstr(f, func(b *ssa.BasicBlock, i int, in ssa.Instruction) {
						cc := callCommon(in)
						if cc == nil || !isAtomicCall(cc) || len(cc.Args) == 0 {
							return
						}
						switch x := cc.Args[0].(type) {
						case *ssa.UnOp:
							if g := loadedGlobal(x); g != nil && globals[g] {
								ok = true
							}
						case *ssa.Global:
							if globals[x] {
								ok = true
							}
						}
					})
				}
			}
			if !ok {
				r.Anchor(false, rule, "atomic word accessed by "+w[1:])
			}
			continue
		}
		if !found[w] {
			r.Anchor(false, rule, "atomic variable "+w)
		}
	}
	usedAtomically := func(v ssa.Value) (bad ssa.Instruction) {
		for _, ref := range referrersOf(v) {
			switch x := ref.(type) {
			case *ssa.Call, *ssa.Go, *ssa.Defer:
				cc := callCommon(ref)
				if isAtomicCall(cc) {
					continue
				}
				return ref
			case *ssa.Convert:
				if b := usedAtomicallyConv(x); b != nil {
					return b
				}
			case *ssa.DebugRef:
			default:
				return ref
			}
		}
		return nil
	}
	for _, f := range p.ModFns {
		if !rels[pkgRel(f)] {
			continue
		}
		eachInstr(f, func(b *ssa.BasicBlock, i int, in ssa.Instruction) {
			switch x := in.(type) {
			case *ssa.FieldAddr:
				fv := fieldVar(x)
				if !fields[fv] {
					return
				}
				// composite literal initialisation of a fresh object is fine
				if al, ok := x.X.(*ssa.Alloc); ok && strings.Contains(al.Comment, "complit") {
					return
				}
				// a local value whose address never leaves the function (built by value, then
				// returned or copied to its final place) is not shared yet
				if al, ok := x.X.(*ssa.Alloc); ok && !al.Heap {
					return
				}
				bad := usedAtomically(x)
				r.Ob(rule, FnName(f)+"/"+fname(fv), p.Pos(x.Pos()), bad == nil, true, tern(bad == nil, "field "+fname(fv)+" accessed through sync/atomic", "field "+fname(fv)+" is read or written without sync/atomic ("+instrString(bad)+") although other code accesses it atomically: data race / lost updates"))
			case *ssa.UnOp:
				if x.Op != token.MUL {
					return
				}
				g, ok := x.X.(*ssa.Global)
				if !ok || !globals[g] {
					return
				}
				if !isPointer(x.Type()) {
					// the global itself is the atomic word
					r.Ob(rule, FnName(f)+"/"+g.Name(), p.Pos(x.Pos()), false, true, "plain read of "+g.Name()+", which is accessed atomically elsewhere")
					return
				}
				bad := usedAtomically(x)
				r.Ob(rule, FnName(f)+"/"+g.Name(), p.Pos(x.Pos()), bad == nil, true, tern(bad == nil, g.Name()+" accessed through sync/atomic", g.Name()+" is dereferenced without sync/atomic ("+instrString(bad)+")"))
			case *ssa.Call:
				// the address of a plain atomic word used directly as an operand
				for ai, a := range x.Call.Args {
					if g, ok := a.(*ssa.Global); ok && globals[g] && !isPointer(derefType(g.Type())) {
						okc := ai == 0 && isAtomicCall(&x.Call)
						r.Ob(rule, FnName(f)+"/"+g.Name(), p.Pos(x.Pos()), okc, true, tern(okc, g.Name()+" accessed through sync/atomic", "the address of "+g.Name()+" is handed to "+descr(x)+", not to sync/atomic"))
					}
				}
			case *ssa.Store:
				if g, ok := x.Val.(*ssa.Global); ok && globals[g] && !isPointer(derefType(g.Type())) {
					r.Ob(rule, FnName(f)+"/"+g.Name()+"/escapes", p.Pos(x.Pos()), false, true, "the address of "+g.Name()+" is stored away: later accesses cannot be checked")
				}
				if g, ok := x.Addr.(*ssa.Global); ok && globals[g] && f.Name() != "init" {
					r.Ob(rule, FnName(f)+"/"+g.Name()+"/reassign", p.Pos(x.Pos()), false, true, g.Name()+" is reassigned outside the package initialiser")
				}
			case *ssa.IndexAddr:
				fv, _ := loadedField(x.X)
				if fv == nil || !elemOf[fv] {
					return
				}
				bad := usedAtomically(x)
				r.Ob(rule, FnName(f)+"/"+fname(fv)+"[]", p.Pos(x.Pos()), bad == nil, true, tern(bad == nil, "element of "+fname(fv)+" accessed through sync/atomic", "an element of "+fname(fv)+" is accessed without sync/atomic ("+instrString(bad)+")"))
			}
		})
	}
}

func usedAtomicallyConv(cv *ssa.Convert) ssa.Instruction {
	for _, ref := range referrersOf(cv) {
		switch x := ref.(type) {
		case *ssa.Call:
			if isAtomicCall(&x.Call) {
				continue
			}
			return ref
		case *ssa.Convert:
			if b := usedAtomicallyConv(x); b != nil {
				return b
			}
		case *ssa.DebugRef:
		default:
			return ref
		}
	}
	return nil
}

func instrString(in ssa.Instruction) string {
	if in == nil {
		return ""
	}
	if v, ok := in.(ssa.Value); ok {
		return descr(v)
	}
	return in.String()
}

func ownerStructName(p *Prog, rels map[string]bool, fv *types.Var) string {
	for rel := range rels {
		pk := p.Pkg(rel)
		if pk == nil {
			continue
		}
		sc := pk.Pkg.Scope()
		for _, n := range sc.Names() {
			tn, ok := sc.Lookup(n).(*types.TypeName)
			if !ok {
				continue
			}
			st, ok := tn.Type().Underlying().(*types.Struct)
			if !ok {
				continue
			}
			for k := 0; k < st.NumFields(); k++ {
				if st.Field(k) == fv {
					return n
				}
			}
		}
	}
	return ""
}
