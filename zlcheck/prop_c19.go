package main

func init() { register("C19", checkC19) }

func checkC19(r *Run) {
	r.Explain = "Decides the whole skip arithmetic as a counting argument over the call graph (A25): for every call chain inside the module from an exported entry a user statement can call down to the function that calls runtime.Caller (static calls plus the VTA-resolved hook.Run dispatch), the skip operand is evaluated symbolically along the chain as a linear expression over constants, CallerSkipFrameCount (or the per-hook replacement field), user skip parameters and Event.skipFrame (+ the CallerSkipFrame(c) constants applied inside the chain); obligation per chain and phi variant: constant part + documented base = number of module frames, and every user-controlled term has coefficient 1 ('moves the site exactly k frames'). Event.skipFrame is written only by the pool reset and by `+= k`. HOOKS (shared with C03): Logger.Hook builds a fresh slice — the caller hook is installed through it. CALLERFMT: the default console formatter shows the caller as the event's own text or as filepath.Rel(cwd, text) — no other cut of the path (a string-prefix trim splits a path element and names a file that is not the call site's). A25 pins-its-argument: Context.CallerWithSkipFrameCount registers newCallerHook(its argument) on every path. A12 reset (C05's rule): a recycled Event starts with skipFrame 0 and no hooks on every path out of newEvent."
	r.NotDec = "Effects of the user reassigning CallerSkipFrameCount or CallerMarshalFunc (documented knobs). Inlining is irrelevant: runtime.Caller reports logical frames."
	r.Assume = []string{"VTA call graph over-approximates interface dispatch inside the module", "user wrappers outside the module use CallerSkipFrame themselves"}
	r.Trusted = []string{"x/tools callgraph/vta"}
	p := r.Use("J")
	if p == nil {
		return
	}
	ruleA25(r, p)
	// the caller hook is installed through Logger.Hook: a hook slice shared between sibling loggers
	// makes one logger run the other's caller hook (wrong skip count, or none)
	if lh := p.Method("", "Logger", "Hook"); r.Anchor(lh != nil, "HOOKS", "Logger.Hook") {
		ruleHookAppend(r, p, lh)
	}
	ruleConsoleCallerPath(r, p, "CALLERFMT")
	ruleCallerHookPinsItsCount(r, p, "A25")
	ruleA12Reset(r, p, "newEvent", "Event") // a recycled event starts with skipFrame 0: the previous owner's CallerSkipFrame is not carried over (C05's rule)
	r.Floor("A25", 30)
	if r.Tier == "thorough" {
		if pb := r.Use("B"); pb != nil {
			ruleA25(r, pb)
		}
	}
}
