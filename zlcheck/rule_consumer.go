package main

// A23c — the writers that consume a decoded event (journald, syslog; "decoding … through
// ConsoleWriter/syslog/journald" in C17) must not turn a well-formed but unusual event (an empty
// key, an empty string value) into a runtime panic: every element access and every slicing of a
// string or byte slice in those functions is covered by a length test that dominates it, is the
// index of the enclosing range loop over the same object, or addresses a constant object.

import (
	"fmt"
	"go/token"
	"go/types"

	"golang.org/x/tools/go/ssa"
)

// rangeIndexOf: idx is the index variable of a `for i := range cont` / `for i, c := range cont`
// loop (go/ssa: i = phi[-1, i+1]+1 tested against len(cont); strings: the Next tuple of range cont).
func rangeIndexOf(idx, cont ssa.Value) bool {
	if ex, ok := idx.(*ssa.Extract); ok && ex.Index == 1 {
		if nx, ok := ex.Tuple.(*ssa.Next); ok && nx.IsString {
			if rg, ok := nx.Iter.(*ssa.Range); ok {
				return sameValue(rg.X, cont)
			}
		}
	}
	bo, ok := idx.(*ssa.BinOp)
	if !ok || bo.Op != token.ADD {
		return false
	}
	if k, isC := constInt(bo.Y); !isC || k != 1 {
		return false
	}
	ph, ok := bo.X.(*ssa.Phi)
	if !ok || len(ph.Edges) != 2 {
		return false
	}
	init, back := false, false
	for _, e := range ph.Edges {
		if k, isC := constInt(e); isC && k == -1 {
			init = true
		}
		if e == ssa.Value(bo) {
			back = true
		}
	}
	if !init || !back {
		return false
	}
	// the loop test: idx < len(cont)
	for _, ref := range *bo.Referrers() {
		cmp, ok := ref.(*ssa.BinOp)
		if !ok || cmp.Op != token.LSS || cmp.X != ssa.Value(bo) {
			continue
		}
		if x, ok := lenTerm(cmp.Y); ok && sameValue(x, cont) {
			return true
		}
	}
	return false
}

func ruleConsumerBounds(r *Run, p *Prog, rule string, fns []*ssa.Function) {
	n := 0
	isSeq := func(t types.Type) bool {
		switch u := derefType(t).Underlying().(type) {
		case *types.Slice:
			return true
		case *types.Basic:
			return u.Info()&types.IsString != 0
		}
		return false
	}
	lenGuard := func(f *ssa.Function, at ssa.Instruction, cont ssa.Value, need func(op token.Token, n int64) bool) bool {
		return hasCmp(necessaryCmps(f, at), func(op token.Token, a, b ssa.Value) bool {
			x, ok := lenTerm(a)
			if !ok || !sameValue(x, cont) {
				return false
			}
			k, isC := constInt(b)
			return isC && need(op, k)
		})
	}
	idxGuard := func(f *ssa.Function, at ssa.Instruction, idx, cont ssa.Value, strict bool) bool {
		if rangeIndexOf(idx, cont) {
			return true
		}
		cs := necessaryCmps(f, at)
		upper := hasCmp(cs, func(op token.Token, x, y ssa.Value) bool {
			if !sameValue(x, idx) || !(op == token.LSS || (!strict && op == token.LEQ)) {
				return false
			}
			c, ok := lenTerm(y)
			return ok && sameValue(c, cont)
		})
		lower := false
		if l, _, ok := intervalOf(idx, 0); ok && l >= 0 {
			lower = true
		}
		// `for i := 0; …; i++`: a counter that starts at a non-negative constant and only grows
		if ph, ok := idx.(*ssa.Phi); ok {
			grows := len(ph.Edges) > 0
			for _, e := range ph.Edges {
				if k, isC := constInt(e); isC && k >= 0 {
					continue
				}
				if bo, isB := e.(*ssa.BinOp); isB && bo.Op == token.ADD && bo.X == ssa.Value(ph) {
					if k, isC := constInt(bo.Y); isC && k > 0 {
						continue
					}
				}
				grows = false
			}
			if grows {
				lower = true
			}
		}
		if l, _, ok := typeRange(idx.Type()); ok && l >= 0 {
			lower = true
		}
		if hasCmp(cs, func(op token.Token, x, y ssa.Value) bool {
			k, isC := constInt(y)
			return isC && sameValue(x, idx) && ((op == token.GEQ && k >= 0) || (op == token.GTR && k >= -1))
		}) {
			lower = true
		}
		return upper && lower
	}
	for _, f := range fns {
		eachInstr(f, func(b *ssa.BasicBlock, i int, in ssa.Instruction) {
			var cont, idx ssa.Value
			kind := ""
			switch x := in.(type) {
			case *ssa.IndexAddr:
				cont, idx, kind = x.X, x.Index, "index"
			case *ssa.Index:
				cont, idx, kind = x.X, x.Index, "index"
			case *ssa.Lookup:
				if _, isMap := x.X.Type().Underlying().(*types.Map); isMap {
					return
				}
				cont, idx, kind = x.X, x.Index, "index"
			case *ssa.Slice:
				cont, kind = x.X, "slice"
			default:
				return
			}
			if !isSeq(cont.Type()) {
				return
			}
			if _, isArr := derefType(cont.Type()).Underlying().(*types.Array); isArr {
				return
			}
			n++
			cons := fmt.Sprintf("%s/%s:%s", FnName(f), kind, descr(cont))
			if kind == "index" {
				ok := false
				if k, isC := constInt(idx); isC {
					if s, isS := constString(cont); isS && k >= 0 && int(k) < len(s) {
						ok = true
					}
					ok = ok || constIndexGuarded(f, in, cont, idx) || lenGuard(f, in, cont, func(op token.Token, n int64) bool {
						return (op == token.GTR && n >= k) || (op == token.GEQ && n > k) || (op == token.EQL && n > k) || (op == token.NEQ && n == 0 && k == 0)
					})
				} else {
					ok = idxGuard(f, in, idx, cont, true)
					// cont[len(cont)-k] under len(cont) >= k
					if bo, isB := idx.(*ssa.BinOp); isB && bo.Op == token.SUB && !ok {
						if x, isLen := lenTerm(bo.X); isLen && sameValue(x, cont) {
							if k, isC := constInt(bo.Y); isC && k >= 1 {
								ok = lenGuard(f, in, cont, func(op token.Token, n int64) bool {
									return (op == token.GTR && n >= k-1) || (op == token.GEQ && n >= k) || (op == token.EQL && n >= k) || (op == token.NEQ && n == 0 && k == 1)
								})
							}
						}
					}
				}
				r.Ob(rule, cons, p.Pos(in.Pos()), ok, true, tern(ok, "element access covered by a dominating length test / range loop", "element "+descr(idx)+" of "+descr(cont)+" is read without a dominating test of its length: an event with an empty key or value makes the writer panic with an index-out-of-range runtime error instead of returning (n, err)"))
				return
			}
			sl := in.(*ssa.Slice)
			ok := true
			for bi, bnd := range []ssa.Value{sl.Low, sl.High} {
				if bnd == nil {
					continue
				}
				if k, isC := constInt(bnd); isC {
					if k == 0 {
						continue
					}
					if s, isS := constString(cont); isS && int(k) <= len(s) {
						continue
					}
					if !lenGuard(f, in, cont, func(op token.Token, n int64) bool {
						return (op == token.GTR && n >= k-1) || (op == token.GEQ && n >= k) || (op == token.EQL && n >= k)
					}) {
						ok = false
					}
					continue
				}
				if x, isLen := lenTerm(bnd); isLen && sameValue(x, cont) {
					continue
				}
				// len(cont)-k under len(cont) >= k
				if bo, isB := bnd.(*ssa.BinOp); isB && bo.Op == token.SUB {
					if x, isLen := lenTerm(bo.X); isLen && sameValue(x, cont) {
						if k, isC := constInt(bo.Y); isC && k >= 0 && lenGuard(f, in, cont, func(op token.Token, n int64) bool {
							return (op == token.GTR && n >= k-1) || (op == token.GEQ && n >= k) || (op == token.EQL && n >= k) || (op == token.NEQ && n == 0 && k == 1)
						}) {
							continue
						}
					}
				}
				_ = bi
				if !idxGuard(f, in, bnd, cont, false) {
					ok = false
				}
			}
			r.Ob(rule, cons, p.Pos(in.Pos()), ok, true, tern(ok, "slice bounds covered by dominating length tests", "a bound of the slicing of "+descr(cont)+" is not covered by a dominating test of its length: a short or empty value is a slice-bounds runtime panic in the writer"))
		})
	}
	r.Count("a23c_sites", n)
	r.Ob(rule, "functions-judged", "-", len(fns) >= 3, false, fmt.Sprintf("%d functions of the event-consuming writers judged, %d element/slice operations", len(fns), n))
}
