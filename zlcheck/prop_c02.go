package main

func init() { register("C02", checkC02) }

func checkC02(r *Run) {
	r.Explain = "Decides the second sentence of C02 structurally — the same (type, value) encodes identically through every entry point: A5 extracts, for every value type, the (encoder primitive, settings operands) tuple each front-end (Event, Context, Array methods and every arm of the Fields type switch, pointer arms matched to their value arms) passes the user's value to, and requires the tuples to agree; A6 the integer appenders of the JSON and CBOR encoders widen the logged value without loss (necessary for 'integers exactly over their full 8-64 bit ranges'), also under 386 sizes in the thorough tier; JSONARR the slice appenders of internal/json emit '[', one element primitive per element separated by exactly one ',', and ']' with the same element primitive and settings as the scalar appender; ELEM the expression rendering one element of every json slice appender is, per TimeFieldFormat case, the expression the scalar sibling renders the value with (thin wrappers inlined, helper parameters bound to the constants at the delegation site); ELEM also: a float reaches the output only through strconv.AppendFloat/FormatFloat of that value (no integer fast path), and RawCBOR is rendered with base64.StdEncoding; A4 the JSON string escaper (also judged in C01): every raw copy follows a certified scan, and every escape sequence it emits denotes the character it replaces — the short escape named after the byte, \\u00XX with the byte's own two hex digits (or, where the rune is pinned, the four digits of that rune), U+FFFD only for an invalid sequence; A1 no appender result is dropped. A12 With() carries every byte of the parent's context; ERRFIELD (*Event).Err adds the error field on every path of an enabled event (the stack handling in front of it never returns); DUR both encoders render a duration as the integer quotient d/unit or as float64(d)/float64(unit), never rounded through the other domain. A2 (the typestate of C01) is run here too: a separator doubled or lost in one entry point (Array.Err vs Errs vs Fields) is a different encoding of the same value. STATELESS: outside init no function of the encoder packages writes a package-level variable (a cache shared by all goroutines hands one caller's rendering to another). A5 arms-not-shadowed: no concrete arm of the Fields type switch is preceded by an interface arm its type implements. TLW-PATH/TLW-FRAME (C15's rules): a held event is released as the bytes that were written, also when a flush is retried."
	r.NotDec = "Round-trip equality itself: float shortest-digit formatting and the 1e-6/1e21 switch, U+FFFD substitution, time/duration arithmetic, Hex/IP/MAC text forms — value-level, not decided statically."
	r.Assume = []string{"strconv / time formatting is correct"}
	p := r.Use("J")
	if p == nil {
		return
	}
	ruleA1(r, p)
	ruleA5(r, p)
	ruleErrorMarshalOnce(r, p)
	ruleA6(r, p, []string{"internal/json", cborRel})
	ruleFrontEndConversions(r, p, "A6")
	ruleJSONSliceAppenders(r, p)
	ruleElemAgreement(r, p)
	ruleFloatRendering(r, p)
	ruleRawCBORAlphabet(r, p)
	ruleNetText(r, p)
	ruleA2(r, p)                        // an element separator doubled or lost in one entry point (Array.Err vs Errs vs Fields) is a different encoding of the same value
	ruleWithCarriesContext(r, p, "A12") // a child logger starts from all of its parent's context bytes
	ruleErrReachesField(r, p, "ERRFIELD")
	ruleEncodersStateless(r, p, "STATELESS", []string{"internal/json", cborRel})
	ruleTypeSwitchNoShadow(r, p, "A5")
	ruleDurationArithmetic(r, p, "DUR")
	ruleA12Copy(r, p) // two loggers appending into one context array corrupt each other's fields (C05's rule)
	ruleTLWPaths(r, p) // an event held by TriggerLevelWriter is released as the bytes that were written (C15's framing rules)
	ruleTLWFrame(r, p)
	ruleA4Confine(r, p)
	ruleA4JSON(r, p) // strings decode back only if every escape denotes the character it replaces
	if r.Tier == "thorough" {
		if p32 := r.Use("J32"); p32 != nil {
			ruleA6(r, p32, []string{"internal/json", cborRel})
		}
		if pb := r.Use("B"); pb != nil {
			ruleA5(r, pb)
		}
	}
	r.Floor("A5", 150)
	r.Floor("A6", 25)
	r.Floor("JSONARR", 30)
	r.Floor("ELEM", 17)
}
