package main

func init() { register("C07", checkC07) }

func checkC07(r *Run) {
	r.Explain = "Decides 'no allocation site is reachable' on the documented fast paths: A16 computes the module functions reachable through static calls from the property's method set (func-typed globals followed to their initialiser = default configuration; interface/callback calls are user code), requires every external callee to be on a list of allocation-free standard-library leaves, and requires that no heap site reported by the gc compiler's escape analysis (-gcflags=-m, diagnostics only) lies on a hot line of a reachable function, in both encodings. Cold blocks are defined structurally: error paths (err != nil), arms of marshal-hook type switches other than nil/error/string, the numeric fall-through of Level.String. A9alloc: the nil-receiver region of every exported *Event method contains no allocating instruction (filtered path). A13c: every pooled object whose buffer is spliced is returned to its pool, and a parameter that is put on one path is put on every path (no leak on the filtered path). The package-level enc has the concrete encoder type of the build, so every call through it is static (no escape of slice arguments through dynamic dispatch). The module's writer wrappers (adapter, sync, multi, filtered, trigger) are roots too: their pass-through paths have no heap site. POOLBOUND: events and arrays are kept up to the same capacity (an inverted guard written with < drops the boundary capacity and allocates per event). A16 fixed-scratch: no fast-path function appends into a slice of a fixed-size local array (long output would move to the heap)."
	r.NotDec = "append growth beyond the pooled capacity (excluded by the property), allocations inside the Go runtime (sync.Pool warm-up, stack growth), user code behind interfaces. The allow-list of standard-library leaves is part of the trusted base."
	r.Assume = []string{"gc -m diagnostics are complete for heap sites in the compiled packages", "allow-listed standard-library functions do not allocate"}
	r.Trusted = []string{"cmd/compile escape analysis (-gcflags=-m)", "allow-list of standard-library leaves"}
	for _, cfg := range []string{"J", "B"} {
		p := r.Use(cfg)
		if p == nil {
			return
		}
		ruleA16(r, p)
		ruleEncStatic(r, p)
		ruleA9Event(r, p, true)
		ruleA13(r, p, map[string]bool{"": true}, "c")
		rulePoolBoundsAgree(r, p, "POOLBOUND", []string{"", "diode"})
	}
	r.Floor("A16", 150)
	r.Floor("A9alloc", 120)
	r.Floor("A13c", 16)
}
