package main

func init() { register("C06", checkC06) }

func checkC06(r *Run) {
	r.Explain = "Decides the ownership discipline that makes the concurrent claim true: A3 exactly one invocation site on the event's writer field, executed at most once per write(), reached exactly once by every finaliser (one Write per event), and the single terminator site; A13 pool typestate over every sync.Pool user of the module (root package, diode): no access to an object after the put-effect that returns it to its pool (so the buffer handed to the writer is not touched until Write has returned and is not shared with the next Get), no second put on any path, and consumers of pooled objects return them; A14 shared counters and switches (global level, sampling switch, sampler counters, window end) are accessed only through sync/atomic; A15a syncWriter and TriggerLevelWriter touch their guarded fields and call the wrapped writer only with their mutex held (a writer wrapped in SyncWriter never sees two overlapping calls). A13b also recognises a deferred put of an object that the put variable was assigned from; A13d: a pooled *bytes.Buffer is emptied on every path before it returns to its pool (or right after every Get). COPY judges every publication site of Write; POOLBOUND the size guards of the module's pools keep exactly the same capacities (cap <= 64KiB), so producer and consumer of a hand-over agree on who owns a boundary-sized buffer; A13 follows a loop-carried scratch object across iterations. STATELESS encoders (no package-level state written while encoding); TLW-PATH/TLW-FRAME (shared with C04/C15): a held event reaches the destination as the one intact Write it was. ISOL/HOOKS (C18's and C03's rules): a logger attached to a context is never overwritten in place; sibling loggers never share a hook slot."
	r.NotDec = "General data-race freedom of arbitrary user programs and of user writers/hooks; schedules are covered only through these ownership and locking disciplines, which are necessary conditions."
	r.Assume = []string{"sync.Pool, sync.Mutex and sync/atomic behave as documented", "user writers do not retain the slice after Write returns"}
	p := r.Use("J")
	if p == nil {
		return
	}
	ruleA3(r, p)
	ruleA13(r, p, map[string]bool{"": true, "diode": true}, "abc")
	ruleA14(r, p, "A14", map[string]bool{"": true}, []string{"BasicSampler.counter", "BurstSampler.counter", "BurstSampler.resetAt", "@SetGlobalLevel|GlobalLevel", "@DisableSampling|samplingDisabled"})
	ruleA15a(r, p, "A15a", "", "syncWriter")
	ruleA15a(r, p, "A15a", "", "TriggerLevelWriter")
	rulePoolCount(r, p)
	ruleBufferPoolClean(r, p, []string{""})
	if dw := p.Method("diode", "Writer", "Write"); dw != nil {
		rulePoolBoundsAgree(r, p, "POOLBOUND", []string{"", "diode"})
		ruleEncodersStateless(r, p, "STATELESS", []string{"internal/json", cborRel})
		ruleTLWPaths(r, p) // a held event reaches the destination as the one intact Write it was (C15's framing rules)
		ruleTLWFrame(r, p)
		ruleCopyBeforePublish(r, p, dw) // a writer in front of a diode recycles its buffer after Write returns (C10's rule)
		ruleHlogIsolation(r, p) // loggers attached to contexts / requests are never written through in place (C18's rule)
		if lh := p.Method("", "Logger", "Hook"); lh != nil {
			ruleHookAppend(r, p, lh) // sibling loggers never share a hook slot (C03's rule)
		}
	}
	r.Floor("A3", 8)
	r.Floor("A13a", 20)
	r.Floor("A13b", 20)
	r.Floor("A14", 8)
	r.Floor("A15a", 20)
}

// rulePoolCount: the pools the rule set was validated against are all still found
func rulePoolCount(r *Run, p *Prog) {
	n := 0
	for _, rel := range []string{"", "diode"} {
		pk := p.Pkg(rel)
		if pk == nil {
			continue
		}
		for _, m := range pk.Members {
			if g, ok := m.(*ssaGlobal); ok && typeIs(derefType(g.Type()), "sync", "Pool") {
				n++
			}
		}
	}
	r.Ob("A13a", "pools", "-", n >= 5, false, itoa(n)+" sync.Pool variables in the module (eventPool, arrayPool, consoleBufPool, triggerWriterPool, diode.bufPool)")
}
