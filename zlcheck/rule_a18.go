package main

// A18 — CBOR header rules in internal/cbor's encoder.

import (
	"fmt"
	"go/token"
	"go/types"
	"sort"

	"golang.org/x/tools/go/ssa"
)

func cborConst(p *Prog, name string) (int64, bool) {
	pk := p.Pkg(cborRel)
	if pk == nil {
		return 0, false
	}
	c, ok := pk.Pkg.Scope().Lookup(name).(*types.Const)
	if !ok {
		return 0, false
	}
	v, _ := constInt(ssa.NewConst(c.Val(), c.Type()))
	return v, true
}

// singleAppend: append(dst, b) with exactly one element; returns the element.
func singleAppend(c *ssa.Call) (ssa.Value, bool) {
	spread, elems := appendElems(c)
	if spread != nil || len(elems) != 1 || elems[0] == nil {
		return nil, false
	}
	return elems[0], true
}

func ruleA18(r *Run, p *Prog) {
	prefix := p.Func(cborRel, "appendCborTypePrefix")
	if !r.Anchor(prefix != nil, "A18", "cbor.appendCborTypePrefix") {
		return
	}
	// encoder functions, judged with their private helpers inlined (a header helper such as
	// "inline if small, else prefix" is part of every appender that calls it); the prefix
	// function itself stays a call: it is the anchor of the definite-length rules
	keepPrefix := func(g *ssa.Function) bool { return g == prefix }
	var encFns []*ssa.Function
	for _, f := range p.RootViews([]string{cborRel}, "keep-prefix", keepPrefix) {
		if f.Parent() == nil && (isAppenderSig(f.Signature) || (f.Signature.Recv() != nil && isAppenderSigRecv(f.Signature))) {
			encFns = append(encFns, f)
		}
	}
	// R1: inline headers  major|byte(v)  need v <= C with C <= 23
	nInline := 0
	for _, f := range encFns {
		if viewRoot(f) == prefix {
			continue
		}
		eachInstr(f, func(b *ssa.BasicBlock, i int, in ssa.Instruction) {
			c, ok := in.(*ssa.Call)
			if !ok || builtinName(&c.Call) != "append" {
				return
			}
			el, ok := singleAppend(c)
			if !ok {
				return
			}
			or, ok := el.(*ssa.BinOp)
			if !ok || or.Op != token.OR {
				return
			}
			if _, isC := foldInt(or, 0); isC {
				return
			}
			minor := or.Y
			if _, isC := foldInt(minor, 0); isC {
				minor = or.X
			}
			nInline++
			// minor = byte(v) (or a phi of constants for bool)
			v := minor
			if cv, ok := v.(*ssa.Convert); ok {
				v = cv.X
			}
			if ph, ok := v.(*ssa.Phi); ok && allSmallConsts(ph) {
				r.Ob("A18", FnName(f)+"/inline-header", p.Pos(c.Pos()), true, true, "minor is one of a few constants below 24/valid simple values")
				return
			}
			cs := necessaryCmps(f, c)
			okc := hasCmp(cs, func(op token.Token, x, y ssa.Value) bool {
				n, isN := constInt(y)
				return isN && sameValue(x, v) && ((op == token.LEQ && n <= 23) || (op == token.LSS && n <= 24))
			})
			r.Ob("A18", FnName(f)+"/inline-header", p.Pos(c.Pos()), okc, true, tern(okc, "inline argument guarded by value <= 23", "a length/value "+descr(v)+" is packed into the 5-bit additional information without a dominating `<= 23` test: values 24..31 produce reserved or wrong headers and lengths that do not match the content"))
		})
	}
	if nInline < 18 {
		r.Fail("A18", "inline-floor", "-", fmt.Sprintf("only %d inline-header sites found (≥ 21 on the pinned tree)", nInline))
	}
	// R1b: a length or value written as a single argument byte (`byte(l)` after a head with an
	// explicit one-byte minor, or anywhere else in an encoder function) needs a dominating bound
	// <= 255: `case l <= 256: append(dst, major|24, byte(l))` writes 0 for 256
	nNarrow := 0
	for _, f := range encFns {
		if viewRoot(f) == prefix {
			continue
		}
		eachInstr(f, func(b *ssa.BasicBlock, i int, in ssa.Instruction) {
			cv, ok := in.(*ssa.Convert)
			if !ok {
				return
			}
			bt, isB := cv.Type().Underlying().(*types.Basic)
			if !isB || bt.Kind() != types.Uint8 || !isIntLike(cv.X.Type()) {
				return
			}
			if st, isS := cv.X.Type().Underlying().(*types.Basic); isS && (st.Kind() == types.Uint8 || st.Kind() == types.Int8) {
				return
			}
			// byte extraction (shifts and masks) truncates on purpose
			if bo, isBo := cv.X.(*ssa.BinOp); isBo && (bo.Op == token.SHR || bo.Op == token.AND) {
				return
			}
			// the low byte of a spelled-out big-endian sequence: byte(v>>8) of the same value is
			// emitted in the same block (`append(dst, byte(n>>24), byte(n>>16), byte(n>>8), byte(n))`)
			lowOfSeq := false
			for _, x := range b.Instrs {
				c2, ok := x.(*ssa.Convert)
				if !ok || c2 == cv {
					continue
				}
				if t2, ok := c2.Type().Underlying().(*types.Basic); !ok || t2.Kind() != types.Uint8 {
					continue
				}
				if sh, ok := c2.X.(*ssa.BinOp); ok && sh.Op == token.SHR && sameValue(sh.X, cv.X) {
					if k, isC := constInt(stripConvert(sh.Y)); isC && k == 8 {
						lowOfSeq = true
					}
				}
			}
			if lowOfSeq {
				return
			}
			// only conversions that end up appended to the output
			appended := false
			for _, ref := range referrersOf(cv) {
				switch x := ref.(type) {
				case *ssa.BinOp:
					if x.Op == token.OR {
						appended = true // major|byte(v): judged by the inline-header rule
						return
					}
				case *ssa.Store:
					appended = true
				case *ssa.Call:
					if builtinName(&x.Call) == "append" {
						appended = true
					}
				}
			}
			if !appended {
				return
			}
			nNarrow++
			okc := hasCmp(necessaryCmps(f, cv), func(op token.Token, x, y ssa.Value) bool {
				n, isN := constInt(y)
				return isN && sameValue(x, cv.X) && ((op == token.LEQ && n <= 255) || (op == token.LSS && n <= 256))
			})
			if !okc {
				if _, hi, ok := intervalOf(cv.X, 0); ok && hi <= 255 {
					okc = true
				}
			}
			r.Ob("A18", FnName(f)+"/one-byte-argument", p.Pos(cv.Pos()), okc, true, tern(okc, "value written as one argument byte is bounded by 255", "the value "+descr(cv.X)+" is written as a single byte without a dominating bound <= 255: at the boundary (256) the byte wraps to 0 and the item announces the wrong length or value"))
		})
	}
	_ = nNarrow
	ruleA18Prefix(r, p, prefix)
	ruleA18Payload(r, p, encFns, prefix)
	ruleA18Tags(r, p, encFns)
	// indefinite containers opened inside an encoder function are closed on every path
	for _, f := range encFns {
		isCallNamed := func(in ssa.Instruction, name string) bool {
			c, ok := in.(*ssa.Call)
			if !ok {
				return false
			}
			o := calleeObj(&c.Call)
			return o != nil && o.Name() == name
		}
		eachInstr(f, func(b *ssa.BasicBlock, i int, in ssa.Instruction) {
			if !isCallNamed(in, "AppendArrayStart") || f.Name() == "AppendArrayStart" {
				return
			}
			open, _ := pathExists(f, in, isReturn, func(x ssa.Instruction) bool { return isCallNamed(x, "AppendArrayEnd") }, nil)
			// `return e.AppendArrayEnd(e.AppendArrayStart(dst))`: the End call consumes the Start result directly
			r.Ob("A18", FnName(f)+"/array-closed", p.Pos(in.Pos()), !open, true, tern(!open, "the indefinite array opened here receives its break on every path", "an indefinite-length array is opened and a path returns without appending the break: dangling container"))
		})
	}
	// keys are text strings
	if ak := p.Method(cborRel, "Encoder", "AppendKey"); r.Anchor(ak != nil, "A18", "cbor.Encoder.AppendKey") {
		as := p.Method(cborRel, "Encoder", "AppendString")
		okc := false
		eachInstr(ak, func(b *ssa.BasicBlock, i int, in ssa.Instruction) {
			if ret, ok := in.(*ssa.Return); ok && len(ret.Results) == 1 {
				if c, ok := ret.Results[0].(*ssa.Call); ok && staticCallee(&c.Call) == as && as != nil && len(c.Call.Args) == 3 && isParam(c.Call.Args[2], ak, 2) {
					okc = true
				}
			}
		})
		r.Ob("A18", FnName(ak)+"/text-key", p.Pos(ak.Pos()), okc, true, tern(okc, "map keys are emitted by AppendString (major type 3)", "AppendKey does not emit the key through AppendString: keys are no longer CBOR text strings"))
	}
}

func allSmallConsts(ph *ssa.Phi) bool {
	for _, e := range ph.Edges {
		n, ok := constInt(e)
		if !ok || n < 0 || n > 27 {
			return false
		}
	}
	return true
}

// ruleA18Prefix: (range of the argument, byte count, minor) table of appendCborTypePrefix and
// big-endian emission, read off the function path by path: every feasible path to a return is
// walked with the finite-domain evaluator (loop counters and shift amounts are concrete on a path),
// the bytes it appends are collected in order — a head byte major|minor, then byte(number >> s) —
// and the conditions on `number` along the path give the range the row applies to. The source may
// be a loop over a per-width count or one multi-byte append per width: the table is the same.
func ruleA18Prefix(r *Run, p *Prog, f *ssa.Function) {
	f = p.View(f, "", nil)
	if len(f.Params) < 3 {
		r.Ob("A18", FnName(f)+"/header", p.Pos(f.Pos()), false, true, "unexpected signature of the argument writer")
		return
	}
	major, number := f.Params[1], f.Params[2]
	paths, complete := enumPaths(f, 10, 50000)
	if !complete {
		r.Fail("A18", FnName(f)+"/paths", p.Pos(f.Pos()), "cannot enumerate the paths of the argument writer")
		return
	}
	type row struct{ lo, hi, cnt, minor int64 }
	rows := map[row]bool{}
	hdrOK, beOK := true, true
	whyHdr, whyBE := "", ""
	nRet := 0
	var hdrPos token.Pos
	for _, pa := range paths {
		if _, isRet := pa.Exit.(*ssa.Return); !isRet {
			continue
		}
		type emitted struct {
			isHead bool
			minor  int64
			shift  int64
			bad    string
		}
		var out []emitted
		feasible := pa.WalkEval(func(bi int, in ssa.Instruction, e *miniEnv) {
			c, ok := in.(*ssa.Call)
			if !ok || builtinName(&c.Call) != "append" {
				return
			}
			spread, elems := appendElems(c)
			if spread != nil {
				out = append(out, emitted{bad: "appends " + descr(spread) + "..."})
				return
			}
			for _, el := range elems {
				if el == nil {
					out = append(out, emitted{bad: "an element that is not set"})
					continue
				}
				el = pa.ResolveAt(el, bi)
				if or, ok := el.(*ssa.BinOp); ok && or.Op == token.OR {
					x, y := pa.ResolveAt(or.X, bi), pa.ResolveAt(or.Y, bi)
					if y == ssa.Value(major) {
						x, y = y, x
					}
					if x == ssa.Value(major) {
						if m, ok := e.eval(y, 0); ok {
							if hdrPos == token.NoPos {
								hdrPos = c.Pos()
							}
							out = append(out, emitted{isHead: true, minor: m})
							continue
						}
					}
					out = append(out, emitted{bad: "head byte " + descr(el)})
					continue
				}
				cv, ok := el.(*ssa.Convert)
				if !ok {
					out = append(out, emitted{bad: descr(el)})
					continue
				}
				src := pa.ResolveAt(cv.X, bi)
				if src == ssa.Value(number) {
					out = append(out, emitted{shift: 0})
					continue
				}
				if sh, ok := src.(*ssa.BinOp); ok && sh.Op == token.SHR && pa.ResolveAt(sh.X, bi) == ssa.Value(number) {
					if k, ok := e.eval(sh.Y, 0); ok {
						out = append(out, emitted{shift: k})
						continue
					}
				}
				out = append(out, emitted{bad: descr(el)})
			}
		})
		if !feasible {
			continue
		}
		nRet++
		// range of `number` on this path
		rw := row{0, -1, 0, -1}
		for _, c := range pa.Cmps() {
			if pa.Resolve(c.X) != ssa.Value(number) {
				continue
			}
			n, ok := constInt(c.Y)
			if !ok {
				if cc, isC := c.Y.(*ssa.Const); isC && cc.Value != nil {
					if u, exact := constantUint64(cc); exact {
						n, ok = int64(u), true
					}
				}
			}
			if !ok {
				continue
			}
			switch c.Op {
			case token.LSS:
				if rw.hi < 0 || n < rw.hi {
					rw.hi = n
				}
			case token.LEQ:
				if rw.hi < 0 || n+1 < rw.hi {
					rw.hi = n + 1
				}
			case token.GEQ:
				if n > rw.lo {
					rw.lo = n
				}
			case token.GTR:
				if n+1 > rw.lo {
					rw.lo = n + 1
				}
			}
		}
		if len(out) == 0 || !out[0].isHead {
			hdrOK = false
			whyHdr = "a path returns without first appending the head byte major|minor"
			continue
		}
		rw.minor = out[0].minor
		rw.cnt = int64(len(out) - 1)
		for k, em := range out[1:] {
			want := 8 * (rw.cnt - 1 - int64(k))
			if em.bad != "" || em.isHead || em.shift != want {
				beOK = false
				if em.bad != "" {
					whyBE = "after the head byte the path appends " + em.bad
				} else {
					whyBE = fmt.Sprintf("byte %d of %d is number>>%d, expected number>>%d", k+1, rw.cnt, em.shift, want)
				}
			}
		}
		rows[rw] = true
	}
	if nRet == 0 {
		hdrOK, whyHdr = false, "no feasible path to a return"
	}
	pos := p.Pos(f.Pos())
	if hdrPos != token.NoPos {
		pos = p.Pos(hdrPos)
	}
	r.Ob("A18", FnName(f)+"/header", pos, hdrOK, true, tern(hdrOK, "every path starts with the head byte major|minor, minor a constant per width", "header byte major|minor with a per-width minor not found: "+whyHdr))
	if !hdrOK {
		return
	}
	want := []row{{0, 256, 1, 24}, {256, 65536, 2, 25}, {65536, 4294967296, 4, 26}, {4294967296, -1, 8, 27}}
	var got []row
	for rw := range rows {
		got = append(got, rw)
	}
	sort.Slice(got, func(i, j int) bool {
		if got[i].minor != got[j].minor {
			return got[i].minor < got[j].minor
		}
		if got[i].lo != got[j].lo {
			return got[i].lo < got[j].lo
		}
		return got[i].cnt < got[j].cnt
	})
	okc := len(got) == len(want)
	for i := range want {
		if i >= len(got) || got[i] != want[i] {
			okc = false
		}
	}
	r.Ob("A18", FnName(f)+"/width-table", pos, okc, true, tern(okc, "argument widths: <2^8→1 byte/minor 24, <2^16→2/25, <2^32→4/26, else 8/27 (RFC 8949 §3)", fmt.Sprintf("the (range, byte count, minor) table of appendCborTypePrefix is %v, expected %v: some lengths/values get a header whose width does not match", got, want)))
	r.Ob("A18", FnName(f)+"/big-endian", p.Pos(f.Pos()), beOK, true, tern(beOK, "argument bytes emitted most significant first: byte(number >> 8k) for k = count-1 … 0", "the argument bytes are not emitted as count bytes, most significant first: "+whyBE))
}

func constantUint64(c *ssa.Const) (uint64, bool) {
	if c.Value == nil {
		return 0, false
	}
	return c.Uint64(), true
}

// ruleA18Payload: the value whose len() feeds a definite-length header is the value that is
// copied / ranged over as payload, one item per element.
func ruleA18Payload(r *Run, p *Prog, encFns []*ssa.Function, prefix *ssa.Function) {
	n := 0
	for _, f := range encFns {
		if viewRoot(f) == prefix {
			continue
		}
		var headers []*ssa.Call
		eachInstr(f, func(b *ssa.BasicBlock, i int, in ssa.Instruction) {
			if c, ok := in.(*ssa.Call); ok && staticCallee(&c.Call) == prefix {
				headers = append(headers, c)
			}
		})
		for _, h := range headers {
			arg := h.Call.Args[2]
			if cv, ok := arg.(*ssa.Convert); ok {
				arg = cv.X
			}
			lc, ok := arg.(*ssa.Call)
			if !ok || builtinName(&lc.Call) != "len" {
				continue // a value header (integers, timestamps), not a length
			}
			subject := lc.Call.Args[0]
			n++
			// payload after the header: a spread append of subject, or a range loop over subject with one appender call per element
			okc := false
			what := ""
			var alts []*ssa.Call
			var altFacts rangeLoopFacts
			eachInstr(f, func(b *ssa.BasicBlock, i int, in ssa.Instruction) {
				c, isC := in.(*ssa.Call)
				if !isC {
					return
				}
				if builtinName(&c.Call) == "append" {
					if sp, _ := appendElems(c); sp != nil && sp == subject {
						if found, _ := pathExists(f, h, func(x ssa.Instruction) bool { return x == ssa.Instruction(c) }, nil, nil); found {
							okc = true
							what = "payload is the same value, copied once"
						}
					}
					return
				}
				// element appender inside a loop over subject
				sc := staticCallee(&c.Call)
				if sc == nil || sc.Signature.Recv() == nil || !isAppenderSigRecv(sc.Signature) || len(c.Call.Args) < 3 {
					return
				}
				// the element of this iteration, possibly scaled/converted before it is appended
				// (int64(d/unit), float64(d)/float64(unit))
				elem := c.Call.Args[2]
				for depth := 0; depth < 6; depth++ {
					switch x := elem.(type) {
					case *ssa.Convert:
						elem = x.X
						continue
					case *ssa.ChangeType:
						elem = x.X
						continue
					case *ssa.BinOp:
						if x.Op == token.QUO || x.Op == token.MUL {
							elem = x.X
							continue
						}
					}
					break
				}
				ld, isLd := elem.(*ssa.UnOp)
				if !isLd {
					return
				}
				ia, isIA := ld.X.(*ssa.IndexAddr)
				if !isIA || ia.X != subject {
					return
				}
				facts, ok := analyseRangeLoop(f, c, elem, func(v ssa.Value) bool { return v == subject })
				if ok && facts.NoEarlyExit && facts.RangeAll && facts.EveryIter && facts.Element {
					okc = true
					what = "one item per element of the same slice"
				}
				if ok && facts.NoEarlyExit && facts.RangeAll && facts.Element {
					alts = append(alts, c)
					altFacts = facts
				}
			})
			// alternatives: `if useInt { AppendInt64(…vals[i]…) } else { AppendFloat64(…vals[i]…) }` —
			// every iteration runs exactly one of the element appenders
			if !okc && len(alts) > 1 && altFacts.Complete && len(altFacts.Paths) > 0 {
				each := true
				for _, pa := range altFacts.Paths {
					cnt := 0
					for _, b := range pa.blocks {
						for _, in := range b.Instrs {
							for _, a := range alts {
								if in == ssa.Instruction(a) {
									cnt++
								}
							}
						}
					}
					if cnt != 1 {
						each = false
					}
				}
				sameLoop := true
				for _, a := range alts {
					if !loopBlocks(altFacts.Hdr)[a.Block()] {
						sameLoop = false
					}
				}
				if each && sameLoop {
					okc = true
					what = "one item per element of the same slice (one of several alternative appenders per iteration)"
				}
			}
			r.Ob("A18", FnName(f)+"/length-matches-payload", p.Pos(h.Pos()), okc, true, tern(okc, "definite length = len(x); "+what, "the definite-length header counts len("+descr(subject)+") but the payload that follows is not exactly that value's elements (one item each): the declared length does not match the content"))
		}
	}
	if n < 17 {
		r.Fail("A18", "payload-floor", "-", fmt.Sprintf("only %d definite-length headers found (≥ 20 on the pinned tree)", n))
	}
}

// ruleA18Tags: runs of constant header bytes that start a tag must spell a declared tag number.
func ruleA18Tags(r *Run, p *Prog, encFns []*ssa.Function) {
	declared := map[int64]string{}
	pk := p.Pkg(cborRel)
	for _, name := range pk.Pkg.Scope().Names() {
		if c, ok := pk.Pkg.Scope().Lookup(name).(*types.Const); ok {
			switch name {
			case "additionalTypeTimestamp", "additionalTypeEmbeddedCBOR", "additionalTypeTagNetworkAddr", "additionalTypeTagNetworkPrefix", "additionalTypeEmbeddedJSON", "additionalTypeTagHexString":
				v, _ := constInt(ssa.NewConst(c.Val(), c.Type()))
				declared[v] = name
			}
		}
	}
	if len(declared) < 6 {
		r.Anchor(false, "A18", "declared tag constants")
		return
	}
	nTags := 0
	for _, f := range encFns {
		// constant single-byte appends in block order
		for _, b := range f.Blocks {
			var run []int64
			var pos token.Pos
			flush := func() {
				if len(run) == 0 {
					return
				}
				first := run[0]
				if first>>5 == 6 { // major type 6: tag
					nTags++
					ai := first & 31
					var tag int64 = -1
					switch {
					case ai < 24:
						tag = ai
					case ai == 24 && len(run) >= 2:
						tag = run[1]
					case ai == 25 && len(run) >= 3:
						tag = run[1]<<8 | run[2]
					}
					name, ok := declared[tag]
					r.Ob("A18", FnName(f)+"/tag", p.Pos(pos), ok, true, tern(ok, fmt.Sprintf("tag header spells %d (%s)", tag, name), fmt.Sprintf("constant tag header bytes %v spell tag %d, which is not one of the declared tags: the item is mis-tagged or malformed", run, tag)))
				}
				run = nil
			}
			for _, in := range b.Instrs {
				c, ok := in.(*ssa.Call)
				if !ok || builtinName(&c.Call) != "append" {
					continue
				}
				el, ok := singleAppend(c)
				if !ok {
					flush()
					continue
				}
				v, isC := foldInt(el, 0)
				if !isC {
					flush()
					continue
				}
				if len(run) == 0 {
					pos = c.Pos()
				}
				run = append(run, v&0xff)
			}
			flush()
		}
		// constant strings that start with a float header must have the matching length
		eachInstr(f, func(b *ssa.BasicBlock, i int, in ssa.Instruction) {
			c, ok := in.(*ssa.Call)
			if !ok || builtinName(&c.Call) != "append" {
				return
			}
			sp, _ := appendElems(c)
			s, ok := constString(sp)
			if !ok || len(s) == 0 || s[0]>>5 != 7 {
				return
			}
			want := map[byte]int{0xf9: 3, 0xfa: 5, 0xfb: 9}[s[0]]
			okc := want != 0 && len(s) == want
			r.Ob("A18", FnName(f)+"/float-literal", p.Pos(c.Pos()), okc, true, tern(okc, "literal float item has the length its header announces", fmt.Sprintf("literal simple/float item % x has %d bytes, its header announces %d", s, len(s), want)))
			// bit-exactness: a literal stands for a whole class of values, so it may only be chosen by a
			// test that fixes the class the literal encodes (math.IsNaN / math.IsInf), never by a float
			// comparison — `v == 0` is true for -0.0 as well, `v < c` for a range
			classOK, cmpBad := false, ""
			for _, cm := range necessaryCmps(f, c) {
				for _, side := range []ssa.Value{cm.X, cm.Y} {
					if call, isCall := side.(*ssa.Call); isCall && (isCallTo(&call.Call, "math.IsNaN") || isCallTo(&call.Call, "math.IsInf")) {
						other := cm.Y
						if side == cm.Y {
							other = cm.X
						}
						if bv, isB := constBool(other); isB && ((cm.Op == token.EQL && bv) || (cm.Op == token.NEQ && !bv)) {
							classOK = true
						}
					}
				}
				if isFloatType(cm.X.Type()) || isFloatType(cm.Y.Type()) {
					cmpBad = cmpString(cm)
				}
			}
			okb := classOK && cmpBad == ""
			r.Ob("A18", FnName(f)+"/float-literal-class", p.Pos(c.Pos()), okb, true, tern(okb, "the literal is chosen by math.IsNaN/IsInf, which fixes the class it encodes", "a literal float item is emitted under "+tern(cmpBad != "", "the float comparison "+cmpBad, "no IsNaN/IsInf test")+": values with another bit pattern (e.g. -0.0 when testing == 0) are written as this literal, so floats are no longer bit-exact"))
		})
	}
	if nTags < 6 {
		r.Fail("A18", "tag-floor", "-", fmt.Sprintf("only %d constant tag headers found (≥ 7 on the pinned tree)", nTags))
	}
}

// foldInt folds integer constants through | & >> << + - of constants (go/ssa does not fold
// operations on constant-valued locals).
func foldInt(v ssa.Value, depth int) (int64, bool) {
	if depth > 6 {
		return 0, false
	}
	if n, ok := constInt(v); ok {
		return n, true
	}
	switch x := v.(type) {
	case *ssa.Convert:
		n, ok := foldInt(x.X, depth+1)
		if !ok {
			return 0, false
		}
		if b, isB := x.Type().Underlying().(*types.Basic); isB && b.Kind() == types.Uint8 {
			return n & 0xff, true
		}
		return n, true
	case *ssa.BinOp:
		a, ok1 := foldInt(x.X, depth+1)
		b, ok2 := foldInt(x.Y, depth+1)
		if !ok1 || !ok2 {
			return 0, false
		}
		switch x.Op {
		case token.OR:
			return a | b, true
		case token.AND:
			return a & b, true
		case token.SHR:
			return a >> uint(b), true
		case token.SHL:
			return a << uint(b), true
		case token.ADD:
			return a + b, true
		case token.SUB:
			return a - b, true
		}
	}
	return 0, false
}

func isFloatType(t types.Type) bool {
	b, ok := t.Underlying().(*types.Basic)
	return ok && b.Info()&types.IsFloat != 0
}

// bigEndianCountingUp: k = cnt*1 + w*(-1) + c with w a loop counter stepping +1 from s while
// `w <= cnt` (s = 1, c = 0) or `w < cnt` (s = 0, c = -1): k runs cnt-1 … 0.
func bigEndianCountingUp(k ssa.Value, cnt ssa.Value) bool {
	var w *ssa.Phi
	// linear form over (cnt, w)
	var lin func(v ssa.Value, depth int) (a, b, c int64, ok bool)
	lin = func(v ssa.Value, depth int) (int64, int64, int64, bool) {
		if depth > 6 {
			return 0, 0, 0, false
		}
		if v == cnt {
			return 1, 0, 0, true
		}
		if n, ok := constInt(v); ok {
			return 0, 0, n, true
		}
		switch x := v.(type) {
		case *ssa.Convert:
			return lin(x.X, depth+1)
		case *ssa.Phi:
			if isLoopHeader(x.Block()) && (w == nil || w == x) {
				w = x
				return 0, 1, 0, true
			}
		case *ssa.BinOp:
			if x.Op == token.ADD || x.Op == token.SUB {
				a1, b1, c1, ok1 := lin(x.X, depth+1)
				a2, b2, c2, ok2 := lin(x.Y, depth+1)
				if !ok1 || !ok2 {
					return 0, 0, 0, false
				}
				if x.Op == token.SUB {
					return a1 - a2, b1 - b2, c1 - c2, true
				}
				return a1 + a2, b1 + b2, c1 + c2, true
			}
		}
		return 0, 0, 0, false
	}
	a, b, c, ok := lin(k, 0)
	if !ok || w == nil || a != 1 || b != -1 {
		return false
	}
	// the counter: start s, step +1
	var start int64
	haveStart, step := false, false
	for idx, e := range w.Edges {
		if w.Block().Dominates(w.Block().Preds[idx]) {
			if bo, ok := e.(*ssa.BinOp); ok && bo.Op == token.ADD && bo.X == ssa.Value(w) {
				if one, ok := constInt(bo.Y); ok && one == 1 {
					step = true
				}
			}
		} else if n, ok := constInt(e); ok {
			start, haveStart = n, true
		}
	}
	if !haveStart || !step {
		return false
	}
	ifi, ok := w.Block().Instrs[len(w.Block().Instrs)-1].(*ssa.If)
	if !ok {
		return false
	}
	cb, ok := ifi.Cond.(*ssa.BinOp)
	if !ok || cb.X != ssa.Value(w) || cb.Y != cnt {
		return false
	}
	switch {
	case start == 1 && c == 0 && cb.Op == token.LEQ:
		return true
	case start == 0 && c == -1 && cb.Op == token.LSS:
		return true
	}
	return false
}

// stripConvert looks through integer conversions (shift counts are converted to uint).
func stripConvert(v ssa.Value) ssa.Value {
	for {
		c, ok := v.(*ssa.Convert)
		if !ok {
			return stripChange(v)
		}
		v = c.X
	}
}
