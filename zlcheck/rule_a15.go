package main

// A15 — lock regions.
//  (a) for a struct with a sync.Mutex field: every access to a field that some method writes,
//      and every call on an interface-typed field (the wrapped writer), happens while the
//      mutex of the same receiver is held; unexported helpers may rely on their callers.
//  (b) condition variables: see rule_a15b.go

import (
	"go/token"
	"go/types"

	"golang.org/x/tools/go/ssa"
)

func isMutexType(t types.Type) bool {
	return typeIs(t, "sync", "Mutex") || typeIs(t, "sync", "RWMutex")
}

// mutexCall: is the instruction recv.<mu>.Lock/Unlock() on the mutex field `mu` of base? returns the method name.
func mutexCall(in ssa.Instruction, mu *types.Var) (string, ssa.Value, bool) {
	cc := callCommon(in)
	if cc == nil || cc.IsInvoke() {
		return "", nil, false
	}
	o := calleeObj(cc)
	if o == nil || o.Pkg() == nil || o.Pkg().Path() != "sync" || len(cc.Args) == 0 {
		return "", nil, false
	}
	fa, ok := cc.Args[0].(*ssa.FieldAddr)
	if !ok || fieldVar(fa) != mu {
		return "", nil, false
	}
	return o.Name(), fa.X, true
}

type lockInfo struct {
	p       *Prog
	mu      *types.Var
	expects map[*ssa.Function]int // 1 = all callers hold the lock, 2 = no
	named   *types.Named
	ignore  ssa.Instruction // a lock-wrapper call whose own effect is not counted (state before it)
}

// heldAt: is the mutex of f's receiver held at instruction `at`?
func (li *lockInfo) heldAt(f *ssa.Function, at ssa.Instruction) bool { return li.heldAtX(f, at, true) }

// heldAtX: exclusive=true accepts only Lock (a shared RLock does not serialise writers or calls).
func (li *lockInfo) heldAtX(f *ssa.Function, at ssa.Instruction, exclusive bool) bool {
	if len(f.Params) == 0 {
		return false
	}
	recv := f.Params[0]
	isLock := func(in ssa.Instruction) bool {
		if _, isDefer := in.(*ssa.Defer); isDefer {
			return false
		}
		// a private wrapper that returns with the mutex held on every path (`defer s.lock().Unlock()`)
		if c, isCall := in.(*ssa.Call); isCall && in != li.ignore && !c.Call.IsInvoke() && len(c.Call.Args) > 0 && stripChange(c.Call.Args[0]) == ssa.Value(recv) {
			if g := staticCallee(&c.Call); g != nil && g != f && li.lockWrapper(g) {
				return true
			}
		}
		n, base, ok := mutexCall(in, li.mu)
		return ok && (n == "Lock" || (n == "RLock" && !exclusive)) && stripChange(base) == ssa.Value(recv)
	}
	isUnlock := func(in ssa.Instruction) bool {
		if _, isDefer := in.(*ssa.Defer); isDefer {
			return false
		}
		n, base, ok := mutexCall(in, li.mu)
		return ok && (n == "Unlock" || n == "RUnlock") && stripChange(base) == ssa.Value(recv)
	}
	target := func(in ssa.Instruction) bool { return in == at }
	// a path from the entry to `at` that avoids every Lock?
	if unlocked, _ := pathExists(f, nil, target, isLock, nil); unlocked {
		return li.callersHold(f)
	}
	// a path Lock … Unlock … at without re-Lock?
	bad := false
	eachInstr(f, func(b *ssa.BasicBlock, i int, in ssa.Instruction) {
		if !isUnlock(in) {
			return
		}
		if found, _ := pathExists(f, in, target, isLock, nil); found {
			bad = true
		}
	})
	return !bad
}

// lockWrapper: g is a method on the same type that acquires the receiver's mutex on every path to
// its returns and never releases it.
func (li *lockInfo) lockWrapper(g *ssa.Function) bool {
	if g == nil || g.Blocks == nil || len(g.Params) == 0 || g.Signature.Recv() == nil || namedOf(g.Signature.Recv().Type()) != li.named {
		return false
	}
	recv := g.Params[0]
	unlocks := false
	isLock := func(in ssa.Instruction) bool {
		n, base, ok := mutexCall(in, li.mu)
		if ok && (n == "Unlock" || n == "RUnlock") {
			unlocks = true
		}
		if _, isDefer := in.(*ssa.Defer); isDefer {
			return false
		}
		return ok && n == "Lock" && stripChange(base) == ssa.Value(recv)
	}
	eachInstr(g, func(_ *ssa.BasicBlock, _ int, in ssa.Instruction) { isLock(in) })
	if unlocks {
		return false
	}
	free, _ := pathExists(g, nil, isReturn, isLock, nil)
	return !free
}

// heldBefore: heldAt for the state just before `at` (a lock-wrapper call does not count itself).
func (li *lockInfo) heldBefore(f *ssa.Function, at ssa.Instruction) bool {
	li.ignore = at
	defer func() { li.ignore = nil }()
	return li.heldAt(f, at)
}

// callersHold: f is unexported and every static call site of f holds the lock.
func (li *lockInfo) callersHold(f *ssa.Function) bool {
	switch li.expects[f] {
	case 1:
		return true
	case 2, 3:
		return false
	}
	li.expects[f] = 3
	ok := false
	if f.Object() != nil && !f.Object().Exported() {
		cs := callersOf(li.p, f, "*")
		ok = len(cs) > 0
		for cf, sites := range cs {
			for _, s := range sites {
				if s == nil || !li.heldAt(cf, s) {
					ok = false
				}
			}
		}
	}
	if ok {
		li.expects[f] = 1
	} else {
		li.expects[f] = 2
	}
	return ok
}

// ruleA15a checks type rel.tname.
func ruleA15a(r *Run, p *Prog, rule, rel, tname string) {
	named := p.NamedType(rel, tname)
	if !r.Anchor(named != nil, rule, "type "+tname) {
		return
	}
	st, ok := named.Underlying().(*types.Struct)
	if !ok {
		return
	}
	var mu *types.Var
	for i := 0; i < st.NumFields(); i++ {
		if isMutexType(st.Field(i).Type()) {
			mu = st.Field(i)
		}
	}
	if !r.Anchor(mu != nil, rule, tname+" mutex field") {
		return
	}
	li := &lockInfo{p: p, mu: mu, expects: map[*ssa.Function]int{}, named: named}
	methods := p.Methods(rel, tname, false)
	// fields written by some method
	written := map[*types.Var]bool{}
	for _, m := range methods {
		eachInstr(m, func(b *ssa.BasicBlock, i int, in ssa.Instruction) {
			if s, ok := in.(*ssa.Store); ok {
				if fa, ok := s.Addr.(*ssa.FieldAddr); ok && namedOf(fa.X.Type()) == named {
					written[fieldVar(fa)] = true
				}
			}
		})
	}
	n := 0
	for _, m := range methods {
		if len(m.Params) == 0 || !isPointer(m.Params[0].Type()) {
			continue
		}
		recv := m.Params[0]
		eachInstr(m, func(b *ssa.BasicBlock, i int, in ssa.Instruction) {
			fa, ok := in.(*ssa.FieldAddr)
			if !ok || stripChange(fa.X) != ssa.Value(recv) {
				return
			}
			fv := fieldVar(fa)
			if fv == mu {
				return
			}
			guarded := written[fv]
			if !guarded {
				// interface-typed field whose methods are invoked: the wrapped writer
				if _, isIface := fv.Type().Underlying().(*types.Interface); isIface {
					for _, ref := range referrersOf(fa) {
						if ld, ok := ref.(*ssa.UnOp); ok && ld.Op == token.MUL {
							for _, r2 := range referrersOf(ld) {
								if cc := callCommon(r2); cc != nil && cc.IsInvoke() && cc.Value == ssa.Value(ld) {
									guarded = true
								}
								if _, isTA := r2.(*ssa.TypeAssert); isTA {
									guarded = true
								}
							}
						}
					}
				}
			}
			if !guarded {
				return
			}
			// calls on the loaded interface value must happen under the lock too
			if _, isIface := fv.Type().Underlying().(*types.Interface); isIface {
				for _, ref := range referrersOf(fa) {
					if ld, ok := ref.(*ssa.UnOp); ok && ld.Op == token.MUL {
						for _, r2 := range referrersOf(ld) {
							var use ssa.Instruction
							if cc := callCommon(r2); cc != nil && cc.IsInvoke() && cc.Value == ssa.Value(ld) {
								use = r2
							}
							if ta, isTA := r2.(*ssa.TypeAssert); isTA {
								// calls on the asserted value
								for _, r3 := range referrersOf(ta) {
									if ex, ok := r3.(*ssa.Extract); ok && ex.Index == 0 {
										for _, r4 := range referrersOf(ex) {
											if cc := callCommon(r4); cc != nil && cc.IsInvoke() && cc.Value == ssa.Value(ex) {
												heldC := li.heldAt(m, r4)
												n++
												r.Ob(rule, FnName(m)+"/"+fname(fv)+"."+cc.Method.Name(), p.Pos(r4.Pos()), heldC, true, tern(heldC, "call on the wrapped "+fname(fv)+" made with "+mu.Name()+" held", "the wrapped "+fname(fv)+" is called after "+mu.Name()+" was released: two goroutines can be inside it at once"))
											}
										}
									}
								}
							}
							if use != nil {
								heldC := li.heldAt(m, use)
								n++
								r.Ob(rule, FnName(m)+"/"+fname(fv)+"."+callCommon(use).Method.Name(), p.Pos(use.Pos()), heldC, true, tern(heldC, "call on the wrapped "+fname(fv)+" made with "+mu.Name()+" held", "the wrapped "+fname(fv)+" is called after "+mu.Name()+" was released: two goroutines can be inside it at once"))
							}
						}
					}
				}
			}
			n++
			held := li.heldAt(m, fa)
			r.Ob(rule, FnName(m)+"/"+fname(fv), p.Pos(fa.Pos()), held, true, tern(held, "field "+fname(fv)+" accessed with "+mu.Name()+" held", "field "+fname(fv)+" of "+tname+" is accessed without holding "+mu.Name()+" (concurrent calls interleave on it)"))
		})
	}
	if n == 0 {
		r.Fail(rule, tname+"/guarded-accesses", "-", "no guarded field access found in "+tname)
	}
	// the mutex is not re-entrant: a method that runs with it held does not call, on the same
	// receiver, a method that acquires it (a new Write that routes through WriteLevel, called from
	// the flush that runs under the lock, blocks forever)
	acquires := map[*ssa.Function]bool{}
	for changed := true; changed; {
		changed = false
		for _, m := range methods {
			if acquires[m] || len(m.Params) == 0 {
				continue
			}
			recv := m.Params[0]
			eachInstr(m, func(b *ssa.BasicBlock, i int, in ssa.Instruction) {
				if nm, base, ok := mutexCall(in, mu); ok && (nm == "Lock" || nm == "RLock") && stripChange(base) == ssa.Value(recv) {
					if !acquires[m] {
						acquires[m] = true
						changed = true
					}
				}
				if cc := callCommon(in); cc != nil && !cc.IsInvoke() {
					if sc := staticCallee(cc); sc != nil && acquires[sc] && len(cc.Args) > 0 && stripChange(cc.Args[0]) == ssa.Value(recv) && !li.heldBefore(m, in) {
						if !acquires[m] {
							acquires[m] = true
							changed = true
						}
					}
				}
			})
		}
	}
	for _, m := range methods {
		if len(m.Params) == 0 {
			continue
		}
		recv := m.Params[0]
		eachInstr(m, func(b *ssa.BasicBlock, i int, in ssa.Instruction) {
			cc := callCommon(in)
			if cc == nil || cc.IsInvoke() || len(cc.Args) == 0 {
				return
			}
			sc := staticCallee(cc)
			if sc == nil || !acquires[sc] || stripChange(cc.Args[0]) != ssa.Value(recv) {
				return
			}
			if _, isGo := in.(*ssa.Go); isGo {
				return
			}
			li.ignore = in
			held := li.heldAt(m, in)
			li.ignore = nil
			r.Ob(rule, FnName(m)+"/no-relock:"+sc.Name(), p.Pos(in.Pos()), !held, true, tern(!held, "calls "+sc.Name()+" (which takes "+mu.Name()+") without holding it", FnName(m)+" calls "+FnName(sc)+" on the same receiver while holding "+mu.Name()+", and that method acquires "+mu.Name()+" again: sync.Mutex is not re-entrant, the call never returns (held lines, the trigger line and every later line are lost)"))
		})
	}
}
