package main

// A6 — value-preserving conversions in the numeric appenders: an integer conversion applied
// directly to the appender's value parameter (or to an element of its slice parameter) must
// not lose values under the configuration's type sizes.

import (
	"go/token"
	"go/types"
	"strings"

	"golang.org/x/tools/go/ssa"
)

func intRangeBits(t types.Type, sizes types.Sizes) (signed bool, bits int64, ok bool) {
	b, isB := t.Underlying().(*types.Basic)
	if !isB || b.Info()&types.IsInteger == 0 {
		return false, 0, false
	}
	return b.Info()&types.IsUnsigned == 0, sizes.Sizeof(t) * 8, true
}

// valuePreserving: range(from) ⊆ range(to)
func valuePreserving(from, to types.Type, sizes types.Sizes) bool {
	fs, fb, ok1 := intRangeBits(from, sizes)
	ts, tb, ok2 := intRangeBits(to, sizes)
	if !ok1 || !ok2 {
		return true // not an integer-to-integer conversion: outside this rule
	}
	switch {
	case fs == ts:
		return tb >= fb
	case !fs && ts: // unsigned -> signed needs one more bit
		return tb > fb
	default: // signed -> unsigned loses negatives
		return false
	}
}

func ruleA6(r *Run, p *Prog, rels []string) {
	n := 0
	for _, f := range p.ModFns {
		okRel := false
		for _, rel := range rels {
			if pkgRel(f) == rel {
				okRel = true
			}
		}
		if !okRel || f.Signature.Recv() == nil || !isAppenderSigRecv(f.Signature) || !strings.HasPrefix(f.Name(), "Append") {
			continue
		}
		if len(f.Params) < 3 {
			continue
		}
		val := f.Params[2]
		var elemT types.Type
		isIntParam := isIntLike(val.Type())
		if sl, ok := val.Type().Underlying().(*types.Slice); ok && isIntLike(sl.Elem()) {
			elemT = sl.Elem()
		}
		if !isIntParam && elemT == nil {
			continue
		}
		eachInstr(f, func(b *ssa.BasicBlock, i int, in ssa.Instruction) {
			cv, ok := in.(*ssa.Convert)
			if !ok || !isIntLike(cv.Type()) || !isIntLike(cv.X.Type()) {
				return
			}
			direct := cv.X == ssa.Value(val)
			if !direct && elemT != nil {
				// element of the slice parameter: load of &val[i] or of a reslice of it
				if ld, ok := cv.X.(*ssa.UnOp); ok && ld.Op == token.MUL {
					if ia, ok := ld.X.(*ssa.IndexAddr); ok {
						base := ia.X
						for {
							if s, ok := base.(*ssa.Slice); ok {
								base = s.X
								continue
							}
							break
						}
						direct = base == ssa.Value(val)
					}
				}
			}
			if !direct {
				return
			}
			n++
			okc := valuePreserving(cv.X.Type(), cv.Type(), p.sizes)
			if !okc {
				// narrowing under a dominating bound that fits the target (e.g. byte(v) under v <= 23)
				_, tb, _ := intRangeBits(cv.Type(), p.sizes)
				fs, _, _ := intRangeBits(cv.X.Type(), p.sizes)
				ts, _, _ := intRangeBits(cv.Type(), p.sizes)
				_, fb, _ := intRangeBits(cv.X.Type(), p.sizes)
				cs := necessaryCmps(f, cv)
				upper := hasCmp(cs, func(op token.Token, x, y ssa.Value) bool {
					n, isN := constInt(y)
					return isN && sameValue(x, cv.X) && (op == token.LEQ || op == token.LSS) && n >= 0 && n < (int64(1)<<uint(tb-1))
				})
				// a signed value under a dominating `>= 0` (the negative case was split off before)
				nonNeg := !fs || hasCmp(cs, func(op token.Token, x, y ssa.Value) bool {
					n, isN := constInt(y)
					return isN && sameValue(x, cv.X) && ((op == token.GEQ && n >= 0) || (op == token.GTR && n >= -1))
				})
				switch {
				case upper && nonNeg:
					okc = true
				case fs && nonNeg && !ts && tb >= fb-1:
					okc = true // non-negative signed value into an unsigned type at least as wide
				case fs && nonNeg && ts && tb >= fb:
					okc = true
				}
			}
			r.Ob("A6", FnName(f)+"/conv:"+types.TypeString(cv.X.Type(), shortQual)+"→"+types.TypeString(cv.Type(), shortQual), p.Pos(cv.Pos()), okc, true,
				tern(okc, "value-preserving widening of the logged integer", "the logged "+types.TypeString(cv.X.Type(), shortQual)+" is converted to "+types.TypeString(cv.Type(), shortQual)+", which cannot represent all of its values: some integers are encoded as different numbers"))
		})
	}
	r.Count("a6_conversions_"+p.Spec.Name, n)
	if n < 10 {
		r.Fail("A6", "floor", "-", "only "+itoa(n)+" direct integer conversions found in the numeric appenders")
	}
}
