package main

// Path enumeration over the SSA CFG of one function, with the comparisons that
// hold along each path.  Used for small decision functions (level gate,
// samplers, writers) where the property is a table "conditions -> outcome".

import (
	"go/token"
	"go/types"
	"strings"

	"golang.org/x/tools/go/ssa"
)

type Path struct {
	Blocks []*ssa.BasicBlock
	Edges  []CondEdge
	Exit   ssa.Instruction // *ssa.Return or *ssa.Panic (nil if truncated)
}

// enumPaths enumerates entry→exit paths; every block may occur at most `revisit`
// times on one path (1 = acyclic). complete=false if the cap was hit.
func enumPaths(f *ssa.Function, revisit, maxPaths int) (paths []Path, complete bool) {
	complete = true
	if len(f.Blocks) == 0 {
		return nil, true
	}
	count := map[*ssa.BasicBlock]int{}
	var blocks []*ssa.BasicBlock
	var edges []CondEdge
	var rec func(b *ssa.BasicBlock)
	rec = func(b *ssa.BasicBlock) {
		if len(paths) >= maxPaths {
			complete = false
			return
		}
		if count[b] >= revisit {
			return
		}
		count[b]++
		blocks = append(blocks, b)
		defer func() {
			count[b]--
			blocks = blocks[:len(blocks)-1]
		}()
		last := b.Instrs[len(b.Instrs)-1]
		switch x := last.(type) {
		case *ssa.Return, *ssa.Panic:
			paths = append(paths, Path{append([]*ssa.BasicBlock{}, blocks...), append([]CondEdge{}, edges...), last})
		case *ssa.If:
			for si := 0; si < 2; si++ {
				edges = append(edges, CondEdge{x, si == 0})
				rec(b.Succs[si])
				edges = edges[:len(edges)-1]
			}
		default:
			for _, s := range b.Succs {
				rec(s)
			}
		}
	}
	rec(f.Blocks[0])
	return
}

// Cmps returns the comparisons true along the path.
func (p Path) Cmps() []Cmp {
	var out []Cmp
	for _, e := range p.Edges {
		if c, ok := cmpOf(e); ok {
			out = append(out, c)
		}
	}
	return out
}

// ExpandedCmps is Cmps for acyclic paths with boolean phis looked through: a branch on
// `pass := a && b && f() <= n` (a phi of a comparison and constants) contributes the comparison
// that the path's own edge carried into the phi; feasible is false when the branch taken
// contradicts a constant carried into the phi.
func (p Path) ExpandedCmps() (out []Cmp, feasible bool) {
	for _, e := range p.Edges {
		cond, pol := e.If.Cond, e.Pol
		for depth := 0; depth < 6; depth++ {
			if u, ok := cond.(*ssa.UnOp); ok && u.Op == token.NOT {
				cond, pol = u.X, !pol
				continue
			}
			if ph, ok := cond.(*ssa.Phi); ok {
				r := p.Resolve(ph)
				if r == ssa.Value(ph) {
					break
				}
				cond = r
				continue
			}
			break
		}
		if b, ok := constBool(cond); ok {
			if b != pol {
				return nil, false
			}
			continue
		}
		if ifc, ok := cmpOf(CondEdge{&ssa.If{Cond: cond}, pol}); ok {
			out = append(out, ifc)
		}
	}
	return out, true
}

// Instrs lists the instructions executed along the path, in order.
func (p Path) Instrs() []ssa.Instruction {
	var out []ssa.Instruction
	for _, b := range p.Blocks {
		out = append(out, b.Instrs...)
	}
	return out
}

// Resolve follows phis according to the path: returns the value v has at the
// end of the path (last occurrence of the phi's block).
func (p Path) Resolve(v ssa.Value) ssa.Value {
	for depth := 0; depth < 8; depth++ {
		// named results spilled to an Alloc (functions with defer): the last store on the path
		if ld, ok := v.(*ssa.UnOp); ok && ld.Op == token.MUL {
			if al, ok := ld.X.(*ssa.Alloc); ok {
				var last ssa.Value
				for _, in := range p.Instrs() {
					if in == ssa.Instruction(ld) {
						break
					}
					if st, ok := in.(*ssa.Store); ok && st.Addr == ssa.Value(al) {
						last = st.Val
					}
				}
				if last == nil {
					return v
				}
				v = last
				continue
			}
		}
		phi, ok := v.(*ssa.Phi)
		if !ok {
			return v
		}
		found := false
		for i := len(p.Blocks) - 1; i >= 1; i-- {
			if p.Blocks[i] == phi.Block() {
				pred := p.Blocks[i-1]
				for k, pb := range phi.Block().Preds {
					if pb == pred {
						v = phi.Edges[k]
						found = true
						break
					}
				}
				break
			}
		}
		if !found {
			return v
		}
	}
	return v
}

// Has reports whether the path contains the block of `in` (i.e. executes it,
// for instructions before the block terminator).
func (p Path) Has(in ssa.Instruction) bool {
	for _, b := range p.Blocks {
		if b == in.Block() {
			return true
		}
	}
	return false
}

// indexOf returns the position of the instruction in the path's instruction sequence (-1 if absent).
func (p Path) indexOf(in ssa.Instruction) int {
	n := 0
	for _, b := range p.Blocks {
		if b == in.Block() {
			for i, x := range b.Instrs {
				if x == in {
					return n + i
				}
			}
		}
		n += len(b.Instrs)
	}
	return -1
}

func (p Path) String(pr *Prog) string {
	var parts []string
	for _, c := range p.Cmps() {
		parts = append(parts, cmpString(c))
	}
	return strings.Join(parts, " && ")
}

func cmpString(c Cmp) string {
	return descr(c.X) + " " + c.Op.String() + " " + descr(c.Y)
}

// hasCmp: does the path carry a comparison matching pred (in either orientation)?
func hasCmp(cs []Cmp, pred func(op token.Token, x, y ssa.Value) bool) bool {
	for _, c := range cs {
		if pred(c.Op, c.X, c.Y) {
			return true
		}
		if pred(swapOp(c.Op), c.Y, c.X) {
			return true
		}
	}
	return false
}

// Infeasible reports that the path takes an edge whose condition, with phis resolved along the
// path, compares two constants and is false (e.g. `x != nil` where x is nil on this path).
func (p Path) Infeasible() bool {
	for _, c := range p.Cmps() {
		x, y := p.Resolve(c.X), p.Resolve(c.Y)
		if v, known := evalConstCmp(c.Op, x, y); known && !v {
			return true
		}
	}
	return false
}

// knownNonNil: values that are never nil (a freshly built error, an interface made from a
// concrete value, the address of a local, a function or closure).
func knownNonNil(v ssa.Value) bool {
	switch x := v.(type) {
	case *ssa.Call:
		return isCallTo(&x.Call, "fmt.Errorf") || isCallTo(&x.Call, "errors.New")
	case *ssa.MakeInterface, *ssa.Alloc, *ssa.MakeClosure, *ssa.Function, *ssa.MakeSlice, *ssa.MakeMap, *ssa.MakeChan:
		return true
	}
	return false
}

func evalConstCmp(op token.Token, x, y ssa.Value) (val, known bool) {
	if (isNilConst(y) && knownNonNil(x)) || (isNilConst(x) && knownNonNil(y)) {
		switch op {
		case token.EQL:
			return false, true
		case token.NEQ:
			return true, true
		}
	}
	cx, okx := x.(*ssa.Const)
	cy, oky := y.(*ssa.Const)
	if !okx || !oky {
		return false, false
	}
	if cx.Value == nil || cy.Value == nil {
		// nil constants
		if cx.Value == nil && cy.Value == nil {
			switch op {
			case token.EQL:
				return true, true
			case token.NEQ:
				return false, true
			}
		}
		return false, false
	}
	if a, ok := constInt(cx); ok {
		if b, ok := constInt(cy); ok {
			switch op {
			case token.EQL:
				return a == b, true
			case token.NEQ:
				return a != b, true
			case token.LSS:
				return a < b, true
			case token.LEQ:
				return a <= b, true
			case token.GTR:
				return a > b, true
			case token.GEQ:
				return a >= b, true
			}
		}
	}
	if a, ok := constBool(cx); ok {
		if b, ok := constBool(cy); ok {
			switch op {
			case token.EQL:
				return a == b, true
			case token.NEQ:
				return a != b, true
			}
		}
	}
	return false, false
}

// InfeasibleByEval replays the path with the finite evaluator (rule_eval.go): loop counters that
// start from constants take concrete values along the path (first iteration i = 0, second i = 1 …),
// so a branch like `if i > 0` is decided per iteration.  The path is infeasible if it takes an
// edge whose condition evaluates to the opposite.
func (p Path) InfeasibleByEval() bool {
	return !p.WalkEval(nil)
}

// WalkEval walks the path with the finite-domain evaluator: phis take the value of the edge the
// path came through, branches whose condition evaluates must agree with the branch taken, interval
// facts about len(x) and opaque booleans are remembered from the branches taken. visit (optional)
// is called for every instruction with the environment of that moment. It returns false when the
// path is infeasible.
func (p Path) WalkEval(visit func(bi int, in ssa.Instruction, e *miniEnv)) bool {
	return p.WalkEvalSeeded(nil, visit)
}

// WalkEvalSeeded is WalkEval with some values (parameters) fixed beforehand: the path is replayed
// for one concrete argument.
func (p Path) WalkEvalSeeded(seed map[ssa.Value]int64, visit func(bi int, in ssa.Instruction, e *miniEnv)) bool {
	e := &miniEnv{vals: map[ssa.Value]int64{}}
	for k, v := range seed {
		e.vals[k] = v
	}
	lens := lenFacts{}
	for i, b := range p.Blocks {
		// values (re)defined by this execution of b: branch facts recorded for an earlier
		// execution no longer apply
		for _, in := range b.Instrs {
			if v, ok := in.(ssa.Value); ok {
				if _, isPhi := v.(*ssa.Phi); !isPhi {
					delete(e.vals, v)
				}
			}
		}
		if i > 0 {
			prev := p.Blocks[i-1]
			type upd struct {
				ph *ssa.Phi
				v  int64
				ok bool
			}
			var us []upd
			for _, in := range b.Instrs {
				ph, ok := in.(*ssa.Phi)
				if !ok {
					break
				}
				for k, q := range b.Preds {
					if q == prev {
						v, ok := e.eval(ph.Edges[k], 0)
						us = append(us, upd{ph, v, ok})
						break
					}
				}
			}
			for _, u := range us {
				if u.ok {
					e.vals[u.ph] = u.v
				} else {
					delete(e.vals, u.ph)
				}
			}
		}
		if visit != nil {
			for _, in := range b.Instrs {
				visit(i, in, e)
			}
		}
		if i+1 < len(p.Blocks) {
			if iff, ok := b.Instrs[len(b.Instrs)-1].(*ssa.If); ok && b.Succs[0] != b.Succs[1] {
				took := p.Blocks[i+1] == b.Succs[0]
				if c, ok := e.eval(iff.Cond, 0); ok {
					if took != (c != 0) {
						return false
					}
				} else if !lens.assume(e, iff.Cond, took) {
					return false
				} else if opaqueBool(iff.Cond) {
					// the branch taken fixes the value of an opaque boolean (a call result)
					// until its defining block runs again
					e.vals[iff.Cond] = b2i(took)
				}
			}
		}
	}
	return true
}

// opaqueBool: a boolean the evaluator cannot compute (call result, extract, load, parameter).
func opaqueBool(v ssa.Value) bool {
	if b, ok := v.Type().Underlying().(*types.Basic); !ok || b.Kind() != types.Bool {
		return false
	}
	switch v.(type) {
	case *ssa.Call, *ssa.Extract, *ssa.Parameter, *ssa.Lookup, *ssa.TypeAssert:
		return true
	case *ssa.Phi:
		// a phi keeps its value until its block is entered again (WalkEval resets it there)
		return true
	}
	return false
}

// ResolveAt: the value v has when block index bi of the path executes (phis take the edge the
// path came through at their most recent visit at or before bi).
func (p Path) ResolveAt(v ssa.Value, bi int) ssa.Value {
	for depth := 0; depth < 8; depth++ {
		phi, ok := v.(*ssa.Phi)
		if !ok {
			return v
		}
		found := false
		for i := bi; i >= 1; i-- {
			if p.Blocks[i] == phi.Block() {
				pred := p.Blocks[i-1]
				for k, pb := range phi.Block().Preds {
					if pb == pred {
						v = phi.Edges[k]
						found = true
						break
					}
				}
				bi = i - 1
				break
			}
		}
		if !found {
			return v
		}
	}
	return v
}

// lenFacts: interval knowledge about len(x) gathered from the branches a path takes (len(x) is
// keyed by x: go/ssa re-computes len at every use).  `len(vals) == 0` false followed by
// `0 < len(vals)` false is a contradiction: the path is infeasible.
type lenFacts map[ssa.Value]*[2]int64

func lenTerm(v ssa.Value) (ssa.Value, bool) {
	if c, ok := v.(*ssa.Call); ok && builtinName(&c.Call) == "len" && len(c.Call.Args) == 1 {
		return c.Call.Args[0], true
	}
	return nil, false
}

// assume records cond == took; false if the facts become contradictory.
func (lf lenFacts) assume(e *miniEnv, cond ssa.Value, took bool) bool {
	for {
		if u, ok := cond.(*ssa.UnOp); ok && u.Op == token.NOT {
			cond, took = u.X, !took
			continue
		}
		break
	}
	bo, ok := cond.(*ssa.BinOp)
	if !ok {
		return true
	}
	op := bo.Op
	var key ssa.Value
	var c int64
	if k, isLen := lenTerm(bo.X); isLen {
		n, ok := e.eval(bo.Y, 0)
		if !ok {
			return true
		}
		key, c = k, n
	} else if k, isLen := lenTerm(bo.Y); isLen {
		n, ok := e.eval(bo.X, 0)
		if !ok {
			return true
		}
		key, c, op = k, n, swapOp(op)
	} else {
		return true
	}
	if !took {
		op = negateOp(op)
	}
	iv := lf[key]
	if iv == nil {
		iv = &[2]int64{0, 1 << 60}
		lf[key] = iv
	}
	switch op {
	case token.EQL:
		if c < iv[0] || c > iv[1] {
			return false
		}
		iv[0], iv[1] = c, c
	case token.NEQ:
		if iv[0] == c && iv[1] == c {
			return false
		}
		if iv[0] == c {
			iv[0]++
		}
		if iv[1] == c {
			iv[1]--
		}
	case token.LSS:
		if c-1 < iv[1] {
			iv[1] = c - 1
		}
	case token.LEQ:
		if c < iv[1] {
			iv[1] = c
		}
	case token.GTR:
		if c+1 > iv[0] {
			iv[0] = c + 1
		}
	case token.GEQ:
		if c > iv[0] {
			iv[0] = c
		}
	}
	return iv[0] <= iv[1]
}
