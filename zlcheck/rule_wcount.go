package main

// WCOUNT — the module's own writers honour the count contract the fan-out relies on.
//
// multiLevelWriter treats "count != len(p) with a nil error" as a short write and reports
// io.ErrShortWrite to ErrorHandler. A destination implemented in this module that reports some
// other number on success (the bytes it wrote to its own output, the length of a transcoded copy)
// makes every event a failure although no destination failed, and masks the error of a later
// destination ("first failure wins"). Rule: for every writer type of the module, on every return of
// its effective write method (WriteLevel when it has one, otherwise Write, which is what
// LevelWriterAdapter calls) that can carry a nil error, the count is len(p) of the slice the method
// was given (possibly saved before p is re-bound), or the count returned by a Write/WriteLevel call
// that was handed that same slice (delegation).

import (
	"fmt"
	"go/token"
	"go/types"
	"os"
	"sort"

	"golang.org/x/tools/go/ssa"
)

// passThroughBytes: the function returns its []byte parameter unchanged on every path.
func passThroughBytes(g *ssa.Function) bool {
	if g == nil || g.Blocks == nil || len(g.Params) != 1 || !isByteSlice(g.Params[0].Type()) || g.Signature.Results().Len() != 1 {
		return false
	}
	ok, n := true, 0
	eachInstr(g, func(b *ssa.BasicBlock, i int, in ssa.Instruction) {
		switch x := in.(type) {
		case *ssa.Return:
			n++
			if len(x.Results) != 1 || stripChange(x.Results[0]) != ssa.Value(g.Params[0]) {
				ok = false
			}
		case *ssa.Jump, *ssa.If, *ssa.DebugRef:
		default:
			ok = false
		}
	})
	return ok && n > 0
}

func ruleWriterCount(r *Run, p *Prog, rule string, rels []string, exempt map[string]string) {
	type tgt struct {
		f    *ssa.Function
		name string
	}
	var tgts []tgt
	for _, rel := range rels {
		pk := p.Pkg(rel)
		if pk == nil {
			continue
		}
		sc := pk.Pkg.Scope()
		for _, tn := range sc.Names() {
			tobj, ok := sc.Lookup(tn).(*types.TypeName)
			if !ok {
				continue
			}
			named, ok := tobj.Type().(*types.Named)
			if !ok {
				continue
			}
			pick := func(mname string, nparams int) *ssa.Function {
				for i := 0; i < named.NumMethods(); i++ {
					m := named.Method(i)
					if m.Name() != mname {
						continue
					}
					sig := m.Type().(*types.Signature)
					if sig.Params().Len() != nparams || sig.Results().Len() != 2 || !isByteSlice(sig.Params().At(nparams-1).Type()) {
						continue
					}
					if fn := p.SSA.FuncValue(m); fn != nil && fn.Blocks != nil {
						return fn
					}
				}
				return nil
			}
			f := pick("WriteLevel", 2)
			if f == nil {
				f = pick("Write", 1)
			}
			if f == nil {
				continue
			}
			if why, ok := exempt[tn]; ok {
				r.Ob(rule, FnName(f)+"/count", p.Pos(f.Pos()), true, false, "not judged: "+why)
				continue
			}
			tgts = append(tgts, tgt{f, FnName(f)})
		}
	}
	sort.Slice(tgts, func(i, j int) bool { return tgts[i].name < tgts[j].name })
	for _, t := range tgts {
		// private helpers are kept as calls (the path table of a formatter with everything inlined is
		// out of reach) unless they can carry the count: a pass-through of the slice, an int result or a byte-slice result
		f := p.View(t.f, "keep-unless-count-carrier", func(g *ssa.Function) bool {
			if passThroughBytes(g) {
				return false
			}
			res := g.Signature.Results()
			for i := 0; i < res.Len(); i++ {
				t := res.At(i).Type()
				if b, ok := t.Underlying().(*types.Basic); ok && b.Info()&types.IsInteger != 0 {
					return false
				}
				if isByteSlice(t) || (isPointer(t) && isByteSlice(derefType(t))) {
					return false // a private copy of the slice (the diode's pooled copy) carries its length
				}
			}
			return true
		})
		var pb *ssa.Parameter
		for _, pr := range f.Params {
			if isByteSlice(pr.Type()) {
				pb = pr
			}
		}
		if pb == nil {
			r.Fail(rule, t.name+"/count", p.Pos(f.Pos()), "no []byte parameter found")
			continue
		}
		paths, complete := enumPaths(f, 1, 60000)
		if !complete || len(paths) == 0 {
			r.Fail(rule, t.name+"/count", p.Pos(f.Pos()), "cannot enumerate the paths of the write method (undecided, fail closed)")
			continue
		}
		var cur Path
		isP := func(x ssa.Value) bool { return stripChange(cur.Resolve(stripChange(x))) == ssa.Value(pb) }
		isLenP := func(v ssa.Value) bool {
			x, ok := lenTerm(v)
			if !ok {
				return false
			}
			if isP(x) {
				return true
			}
			// the private copy append(<empty pooled slice>, p...) has p's length
			if ap, ok := stripChange(cur.Resolve(stripChange(x))).(*ssa.Call); ok && builtinName(&ap.Call) == "append" && len(ap.Call.Args) == 2 && isP(ap.Call.Args[1]) {
				return emptyPooledSlice(p, cur.Resolve(ap.Call.Args[0]))
			}
			return false
		}
		delegated := func(v ssa.Value) bool {
			ex, ok := v.(*ssa.Extract)
			if !ok || ex.Index != 0 {
				return false
			}
			c, ok := ex.Tuple.(*ssa.Call)
			if !ok {
				return false
			}
			name := ""
			if c.Call.IsInvoke() {
				name = c.Call.Method.Name()
			} else if sc := staticCallee(&c.Call); sc != nil {
				name = sc.Name()
			}
			if name != "Write" && name != "WriteLevel" {
				return false
			}
			for _, a := range c.Call.Args {
				if isP(a) {
					return true
				}
			}
			return false
		}
		nSucc, bad, badPos := 0, "", ""
		for _, pa := range paths {
			ret, ok := pa.Exit.(*ssa.Return)
			if !ok || len(ret.Results) != 2 {
				continue // panic exit
			}
			if pa.Infeasible() {
				continue
			}
			cur = pa
			errv := pa.Resolve(ret.Results[1])
			nv := pa.Resolve(ret.Results[0])
			// a result variable that was never assigned on this path is the zero value
			unassigned := func(v ssa.Value) bool {
				ld, ok := v.(*ssa.UnOp)
				if !ok || ld.Op != token.MUL {
					return false
				}
				_, isAlloc := ld.X.(*ssa.Alloc)
				return isAlloc
			}
			errKnownNonNil := false
			if c, ok := errv.(*ssa.Call); ok {
				if isCallTo(&c.Call, "fmt.Errorf") || isCallTo(&c.Call, "errors.New") {
					errKnownNonNil = true
				}
			}
			if _, ok := errv.(*ssa.MakeInterface); ok {
				errKnownNonNil = true
			}
			if g := loadedGlobal(errv); g != nil {
				errKnownNonNil = true // a package-level error value (io.ErrShortWrite …)
			}
			if !isNilConst(errv) && !unassigned(errv) {
				for _, c := range pa.Cmps() {
					x, y := c.X, c.Y
					if isNilConst(x) {
						x, y = y, x
					}
					if c.Op == token.NEQ && isNilConst(y) && pa.Resolve(x) == errv {
						errKnownNonNil = true
					}
				}
			}
			if errKnownNonNil {
				continue
			}
			nSucc++
			if isLenP(nv) || delegated(nv) {
				continue
			}
			if bad == "" {
				d := descr(nv)
				if unassigned(nv) {
					d = "the zero value (result never assigned)"
				}
				bad, badPos = d+" on path ["+pa.String(p)+"]", p.Pos(ret.Pos())
			}
		}
		if nSucc == 0 && bad == "" {
			r.Ob(rule, t.name+"/count", p.Pos(f.Pos()), false, true, "no return that can carry a nil error was found in the write method")
			continue
		}
		pos := p.Pos(f.Pos())
		if bad != "" {
			pos = badPos
		}
		r.Ob(rule, t.name+"/count", pos, bad == "", true, tern(bad == "", fmt.Sprintf("%d return path(s) that can carry a nil error: each reports len(%s) of the slice it was given, or the count of a Write/WriteLevel it handed that slice to", nSucc, pb.Name()), "a return that can carry a nil error reports "+bad+" instead of len("+pb.Name()+") of the slice the method was given: as a MultiLevelWriter destination this writer makes a healthy event a short write (ErrorHandler gets io.ErrShortWrite although no destination failed, and a later destination's real error is masked)"))
	}
	r.Count("wcount_writers", len(tgts))
}

// emptyPooledSlice: v is <pool>.Get().([]byte) for a module pool into which only zero-length
// slices (x[:0]) are ever put and whose New returns a zero-length slice.
func emptyPooledSlice(p *Prog, v ssa.Value) bool {
	ta, ok := stripChange(v).(*ssa.TypeAssert)
	if !ok {
		if os.Getenv("ZL_DEBUG") != "" {
			fmt.Fprintf(os.Stderr, "emptyPooledSlice: not a typeassert: %T %v\n", v, v)
		}
		return false
	}
	get, ok := ta.X.(*ssa.Call)
	if !ok || !isCallTo(&get.Call, "(*sync.Pool).Get") || len(get.Call.Args) != 1 {
		return false
	}
	pool := poolGlobalOf(get.Call.Args[0])
	if pool == nil {
		return false
	}
	zeroLen := func(x ssa.Value) bool {
		if mi, ok := x.(*ssa.MakeInterface); ok {
			x = mi.X
		}
		switch y := stripChange(x).(type) {
		case *ssa.Slice:
			if y.High != nil {
				k, isC := constInt(y.High)
				return isC && k == 0
			}
		case *ssa.MakeSlice:
			k, isC := constInt(y.Len)
			return isC && k == 0
		}
		return false
	}
	puts, ok2 := 0, true
	for _, f := range p.ModFns {
		eachInstr(f, func(b *ssa.BasicBlock, i int, in ssa.Instruction) {
			cc := callCommon(in)
			if cc == nil || !isCallTo(cc, "(*sync.Pool).Put") || len(cc.Args) != 2 || poolGlobalOf(cc.Args[0]) != pool {
				return
			}
			puts++
			if !zeroLen(cc.Args[1]) {
				ok2 = false
			}
		})
	}
	// New: every return of the pool's New function is zero-length
	newOK := false
	var inits []*ssa.Function
	if pool.Pkg != nil {
		if f := pool.Pkg.Func("init"); f != nil && f.Blocks != nil {
			inits = append(inits, f)
		}
	}
	for _, f := range inits {
		eachInstr(f, func(b *ssa.BasicBlock, i int, in ssa.Instruction) {
			st, ok := in.(*ssa.Store)
			if !ok {
				return
			}
			fa, ok := st.Addr.(*ssa.FieldAddr)
			if !ok || fieldVar(fa).Name() != "New" {
				return
			}
			base := poolGlobalOf(fa.X)
			if al, isAl := fa.X.(*ssa.Alloc); isAl && base == nil {
				// pool = &sync.Pool{New: …}: the literal is built in a fresh object, then stored in the global
				for _, ref := range *al.Referrers() {
					if s2, ok := ref.(*ssa.Store); ok && s2.Val == ssa.Value(al) {
						if g, ok := s2.Addr.(*ssa.Global); ok {
							base = g
						}
					}
				}
			}
			if base != pool {
				return
			}
			var nf *ssa.Function
			switch x := st.Val.(type) {
			case *ssa.Function:
				nf = x
			case *ssa.MakeClosure:
				nf, _ = x.Fn.(*ssa.Function)
			}
			if nf == nil || nf.Blocks == nil {
				return
			}
			all, n := true, 0
			eachInstr(nf, func(_ *ssa.BasicBlock, _ int, x ssa.Instruction) {
				if rt, ok := x.(*ssa.Return); ok {
					n++
					if len(rt.Results) != 1 || !zeroLen(rt.Results[0]) {
						all = false
					}
				}
			})
			newOK = all && n > 0
		})
	}
	if os.Getenv("ZL_DEBUG") != "" {
		fmt.Fprintf(os.Stderr, "emptyPooledSlice pool=%v puts=%d ok2=%v newOK=%v\n", pool, puts, ok2, newOK)
	}
	return puts > 0 && ok2 && newOK
}

// poolGlobalOf: the package-level sync.Pool designated by v (&pool, or the value of a *sync.Pool global).
func poolGlobalOf(v ssa.Value) *ssa.Global {
	v = stripChange(v)
	if g, ok := v.(*ssa.Global); ok {
		return g
	}
	return loadedGlobal(v)
}
