package main

// Inlined views.  Path- and loop-shaped rules are anchored on one function (Write, Next, msg …);
// extracting part of that function into an unexported helper, or wrapping a loop body in a
// closure, leaves behaviour unchanged but moves the instructions the rule reasons about into
// another function.  View(fn, keep) returns a private SSA copy of fn in which every static call
// to a module function with a body (and every call of a closure created in the copy) is replaced
// by the callee's blocks — parameters bound to the arguments, free variables to the closure
// bindings, returns turned into jumps to the continuation with a phi for the result — up to a
// stated depth, except callees selected by `keep`, recursive calls, and callees that use
// defer/recover.  The copy is a real *ssa.Function (instructions are shallow clones of go/ssa's
// own types with operands rewritten), so every existing rule runs on it unchanged.
//
// go/ssa exports no constructor for this: the unexported block/parent/type fields are set
// through reflect offsets, and the dominator tree / register numbering / sanity check of go/ssa
// are reached with go:linkname (linkname.go).  Every view is validated by go/ssa's own
// sanityCheck; a view that fails it is a fatal error of the checker (fail closed).

import (
	"bytes"
	"fmt"
	"go/constant"
	"go/token"
	"go/types"
	"os"
	"reflect"
	"sort"
	"strings"
	"sync"
	"unsafe"

	"golang.org/x/tools/go/ssa"
)

const (
	viewMaxDepth  = 4
	viewMaxBlocks = 120
)

var (
	offMu    sync.Mutex
	offCache = map[reflect.Type]map[string]uintptr{}
)

func fieldOffset(t reflect.Type, name string) (uintptr, bool) {
	offMu.Lock()
	defer offMu.Unlock()
	m := offCache[t]
	if m == nil {
		m = map[string]uintptr{}
		offCache[t] = m
	}
	if o, ok := m[name]; ok {
		return o, o != ^uintptr(0)
	}
	var find func(t reflect.Type, base uintptr) (uintptr, bool)
	find = func(t reflect.Type, base uintptr) (uintptr, bool) {
		for i := 0; i < t.NumField(); i++ {
			f := t.Field(i)
			if f.Name == name {
				return base + f.Offset, true
			}
		}
		for i := 0; i < t.NumField(); i++ {
			f := t.Field(i)
			if f.Anonymous && f.Type.Kind() == reflect.Struct {
				if o, ok := find(f.Type, base+f.Offset); ok {
					return o, true
				}
			}
		}
		return 0, false
	}
	o, ok := find(t, 0)
	if !ok {
		m[name] = ^uintptr(0)
		return 0, false
	}
	m[name] = o
	return o, true
}

// fieldPtr returns the address of the (possibly unexported, possibly promoted) field of *obj.
func fieldPtr(obj interface{}, name string) unsafe.Pointer {
	rv := reflect.ValueOf(obj)
	o, ok := fieldOffset(rv.Type().Elem(), name)
	if !ok {
		panic(fmt.Sprintf("inline: %T has no field %s", obj, name))
	}
	return unsafe.Add(rv.UnsafePointer(), o)
}

func setInstrBlock(in ssa.Instruction, b *ssa.BasicBlock) {
	*(**ssa.BasicBlock)(fieldPtr(in, "block")) = b
}

func setBlockParent(b *ssa.BasicBlock, f *ssa.Function) {
	*(**ssa.Function)(fieldPtr(b, "parent")) = f
}

func setRegType(v ssa.Value, t types.Type) {
	*(*types.Type)(fieldPtr(v, "typ")) = t
}

// cloneInstr makes a shallow copy of the instruction with private operand slices.
func cloneInstr(in ssa.Instruction) ssa.Instruction {
	rv := reflect.ValueOf(in)
	nv := reflect.New(rv.Elem().Type())
	nv.Elem().Set(rv.Elem())
	ni := nv.Interface().(ssa.Instruction)
	switch x := ni.(type) {
	case *ssa.Phi:
		x.Edges = append([]ssa.Value(nil), x.Edges...)
	case *ssa.Call:
		x.Call.Args = append([]ssa.Value(nil), x.Call.Args...)
	case *ssa.Go:
		x.Call.Args = append([]ssa.Value(nil), x.Call.Args...)
	case *ssa.Defer:
		x.Call.Args = append([]ssa.Value(nil), x.Call.Args...)
	case *ssa.MakeClosure:
		x.Bindings = append([]ssa.Value(nil), x.Bindings...)
	case *ssa.Return:
		x.Results = append([]ssa.Value(nil), x.Results...)
	case *ssa.Select:
		st := make([]*ssa.SelectState, len(x.States))
		for i, s := range x.States {
			c := *s
			st[i] = &c
		}
		x.States = st
	}
	if v, ok := ni.(ssa.Value); ok {
		if r := v.Referrers(); r != nil {
			*r = nil
		}
	}
	return ni
}

type viewBuilder struct {
	p     *Prog
	root  *ssa.Function
	nf    *ssa.Function
	keep  func(*ssa.Function) bool
	depth map[ssa.Instruction]int
	stack map[ssa.Instruction][]*ssa.Function
	// Origin of every cloned instruction (the instruction of the real program it was copied from)
	origin  map[ssa.Instruction]ssa.Instruction
	nInl    int
	inlined map[*ssa.Function]bool
	// closures whose call was inlined, and the captured variables they were bound to
	closureInlined    map[*ssa.MakeClosure]bool
	spilledForClosure map[*ssa.Alloc]bool
}

// cloneBody copies src's blocks into the view. vmap is extended with old→new values.
func (vb *viewBuilder) cloneBody(src *ssa.Function, vmap map[ssa.Value]ssa.Value, depth int, stack []*ssa.Function) []*ssa.BasicBlock {
	bmap := map[*ssa.BasicBlock]*ssa.BasicBlock{}
	var out []*ssa.BasicBlock
	for _, b := range src.Blocks {
		nb := &ssa.BasicBlock{Comment: b.Comment}
		setBlockParent(nb, vb.nf)
		bmap[b] = nb
		out = append(out, nb)
	}
	for _, b := range src.Blocks {
		nb := bmap[b]
		for _, in := range b.Instrs {
			ni := cloneInstr(in)
			setInstrBlock(ni, nb)
			nb.Instrs = append(nb.Instrs, ni)
			if v, ok := in.(ssa.Value); ok {
				vmap[v] = ni.(ssa.Value)
			}
			if o, ok := vb.origin[in]; ok {
				vb.origin[ni] = o
			} else {
				vb.origin[ni] = in
			}
			vb.depth[ni] = depth
			vb.stack[ni] = stack
			if al, ok := ni.(*ssa.Alloc); ok && !al.Heap {
				vb.nf.Locals = append(vb.nf.Locals, al)
			}
		}
		for _, s := range b.Succs {
			nb.Succs = append(nb.Succs, bmap[s])
		}
		for _, q := range b.Preds {
			nb.Preds = append(nb.Preds, bmap[q])
		}
	}
	var rands []*ssa.Value
	for _, nb := range out {
		for _, ni := range nb.Instrs {
			rands = ni.Operands(rands[:0])
			for _, r := range rands {
				if *r == nil {
					continue
				}
				if nv, ok := vmap[*r]; ok {
					*r = nv
				}
			}
		}
	}
	return out
}

func usesDeferOrRecover(f *ssa.Function) bool {
	if f.Recover != nil {
		return true
	}
	for _, b := range f.Blocks {
		for _, in := range b.Instrs {
			switch x := in.(type) {
			case *ssa.Defer, *ssa.RunDefers, *ssa.Select:
				return true
			case *ssa.Call:
				if bi, ok := x.Call.Value.(*ssa.Builtin); ok && bi.Name() == "recover" {
					return true
				}
			}
		}
	}
	return false
}

// calleeOfView resolves the callee of a call in the view: a static callee or a closure made in the view.
func calleeOfView(c *ssa.CallCommon) (*ssa.Function, *ssa.MakeClosure) {
	if c.IsInvoke() {
		return nil, nil
	}
	switch v := c.Value.(type) {
	case *ssa.Function:
		return v, nil
	case *ssa.MakeClosure:
		if fn, ok := v.Fn.(*ssa.Function); ok {
			return fn, v
		}
	}
	return nil, nil
}

func (vb *viewBuilder) inlinable(c *ssa.Call) (*ssa.Function, *ssa.MakeClosure) {
	g, mc := calleeOfView(&c.Call)
	if g == nil || g.Blocks == nil || !InModule(g) || g.Synthetic != "" {
		return nil, nil
	}
	if g.TypeParams().Len() > 0 || len(g.TypeArgs()) > 0 {
		return nil, nil
	}
	if vb.depth[c] >= viewMaxDepth || len(g.Blocks) > viewMaxBlocks {
		return nil, nil
	}
	if g == vb.root {
		return nil, nil
	}
	// only helpers of the root's own package are inlined: calls that leave the package are API
	// calls the rules recognise by their callee
	if g.Pkg != vb.root.Pkg {
		return nil, nil
	}
	// exported functions and methods are the package's API: rules recognise calls to them by
	// callee, and a refactoring extracts unexported helpers (or closures), not API
	if mc == nil && g.Object() != nil && g.Object().Exported() {
		return nil, nil
	}
	for _, s := range vb.stack[c] {
		if s == g {
			return nil, nil
		}
	}
	if mc == nil && vb.keep != nil && vb.keep(g) {
		return nil, nil
	}
	if usesDeferOrRecover(g) {
		return nil, nil
	}
	if len(g.Params) != len(c.Call.Args) {
		return nil, nil
	}
	return g, mc
}

// substitute rewrites every operand in the view according to sub.
func (vb *viewBuilder) substitute(sub map[ssa.Value]ssa.Value) {
	if len(sub) == 0 {
		return
	}
	resolve := func(v ssa.Value) ssa.Value {
		for i := 0; i < 16; i++ {
			n, ok := sub[v]
			if !ok {
				return v
			}
			v = n
		}
		return v
	}
	var rands []*ssa.Value
	for _, b := range vb.nf.Blocks {
		for _, in := range b.Instrs {
			rands = in.Operands(rands[:0])
			for _, r := range rands {
				if *r != nil {
					if _, ok := sub[*r]; ok {
						*r = resolve(*r)
					}
				}
			}
		}
	}
}

func (vb *viewBuilder) inlineOne(b *ssa.BasicBlock, idx int, c *ssa.Call, g *ssa.Function, mc *ssa.MakeClosure) {
	vb.nInl++
	vb.inlined[g] = true
	vmap := map[ssa.Value]ssa.Value{}
	for i, par := range g.Params {
		vmap[par] = c.Call.Args[i]
	}
	if mc != nil {
		vb.closureInlined[mc] = true
		for i, fv := range g.FreeVars {
			if i < len(mc.Bindings) {
				vmap[fv] = mc.Bindings[i]
				if al, ok := mc.Bindings[i].(*ssa.Alloc); ok {
					vb.spilledForClosure[al] = true
				}
			}
		}
	}
	stack := append(append([]*ssa.Function(nil), vb.stack[c]...), g)
	body := vb.cloneBody(g, vmap, vb.depth[c]+1, stack)
	// continuation
	cont := &ssa.BasicBlock{Comment: "inl.cont:" + g.Name()}
	setBlockParent(cont, vb.nf)
	cont.Instrs = append(cont.Instrs, b.Instrs[idx+1:]...)
	for _, in := range cont.Instrs {
		setInstrBlock(in, cont)
	}
	cont.Succs = b.Succs
	for _, s := range cont.Succs {
		for k, q := range s.Preds {
			if q == b {
				s.Preds[k] = cont
			}
		}
	}
	if vb.nf.Recover == b {
		// never: Recover blocks start a function's recovery path
	}
	jmp := &ssa.Jump{}
	setInstrBlock(jmp, b)
	b.Instrs = append(b.Instrs[:idx:idx], jmp)
	b.Succs = []*ssa.BasicBlock{body[0]}
	body[0].Preds = append(body[0].Preds, b)
	// returns
	nres := g.Signature.Results().Len()
	type retSite struct {
		blk  *ssa.BasicBlock
		vals []ssa.Value
	}
	var rets []retSite
	for _, nb := range body {
		if len(nb.Instrs) == 0 {
			continue
		}
		if r, ok := nb.Instrs[len(nb.Instrs)-1].(*ssa.Return); ok {
			rets = append(rets, retSite{nb, r.Results})
			j := &ssa.Jump{}
			setInstrBlock(j, nb)
			nb.Instrs[len(nb.Instrs)-1] = j
			nb.Succs = []*ssa.BasicBlock{cont}
			cont.Preds = append(cont.Preds, nb)
		}
	}
	sub := map[ssa.Value]ssa.Value{}
	mk := func(k int, t types.Type) ssa.Value {
		if len(rets) == 1 {
			return rets[0].vals[k]
		}
		phi := &ssa.Phi{Comment: "inl.result:" + g.Name()}
		setRegType(phi, t)
		setInstrBlock(phi, cont)
		for _, rs := range rets {
			phi.Edges = append(phi.Edges, rs.vals[k])
		}
		vb.depth[phi] = vb.depth[c]
		vb.stack[phi] = vb.stack[c]
		vb.origin[phi] = vb.origin[c]
		cont.Instrs = append([]ssa.Instruction{phi}, cont.Instrs...)
		return phi
	}
	if len(rets) > 0 {
		switch {
		case nres == 1:
			sub[c] = mk(0, c.Type())
		case nres > 1:
			// the call's value is only used by Extracts
			var keepInstrs []ssa.Instruction
			exts := map[int][]*ssa.Extract{}
			for _, blk := range vb.nf.Blocks {
				for _, in := range blk.Instrs {
					if ex, ok := in.(*ssa.Extract); ok && ex.Tuple == ssa.Value(c) {
						exts[ex.Index] = append(exts[ex.Index], ex)
					}
				}
			}
			for _, in := range cont.Instrs {
				if ex, ok := in.(*ssa.Extract); ok && ex.Tuple == ssa.Value(c) {
					exts[ex.Index] = append(exts[ex.Index], ex)
				}
			}
			tup := c.Type().(*types.Tuple)
			for k := 0; k < nres; k++ {
				if len(exts[k]) == 0 {
					continue
				}
				v := mk(k, tup.At(k).Type())
				for _, ex := range exts[k] {
					sub[ex] = v
				}
			}
			_ = keepInstrs
		}
	}
	// splice blocks: b, body…, cont
	var nbs []*ssa.BasicBlock
	for _, x := range vb.nf.Blocks {
		nbs = append(nbs, x)
		if x == b {
			nbs = append(nbs, body...)
			nbs = append(nbs, cont)
		}
	}
	vb.nf.Blocks = nbs
	// drop the substituted Extracts
	if nres > 1 {
		for _, blk := range vb.nf.Blocks {
			out := blk.Instrs[:0]
			for _, in := range blk.Instrs {
				if ex, ok := in.(*ssa.Extract); ok {
					if _, gone := sub[ex]; gone {
						continue
					}
				}
				out = append(out, in)
			}
			blk.Instrs = out
		}
	}
	vb.substitute(sub)
}

// removeUnreachable drops blocks not reachable from the entry (and the phi edges they fed).
func (vb *viewBuilder) removeUnreachable() {
	f := vb.nf
	reach := map[*ssa.BasicBlock]bool{}
	var walk func(b *ssa.BasicBlock)
	walk = func(b *ssa.BasicBlock) {
		if reach[b] {
			return
		}
		reach[b] = true
		for _, s := range b.Succs {
			walk(s)
		}
	}
	walk(f.Blocks[0])
	if f.Recover != nil {
		walk(f.Recover)
	}
	var nbs []*ssa.BasicBlock
	for _, b := range f.Blocks {
		if !reach[b] {
			continue
		}
		// remove dead preds together with their phi edges
		var keepIdx []int
		for k, q := range b.Preds {
			if reach[q] {
				keepIdx = append(keepIdx, k)
			}
		}
		if len(keepIdx) != len(b.Preds) {
			for _, in := range b.Instrs {
				phi, ok := in.(*ssa.Phi)
				if !ok {
					break
				}
				var ne []ssa.Value
				for _, k := range keepIdx {
					ne = append(ne, phi.Edges[k])
				}
				phi.Edges = ne
			}
			var np []*ssa.BasicBlock
			for _, k := range keepIdx {
				np = append(np, b.Preds[k])
			}
			b.Preds = np
		}
		nbs = append(nbs, b)
	}
	f.Blocks = nbs
	// locals that disappeared
	var locs []*ssa.Alloc
	for _, al := range f.Locals {
		if al.Block() != nil && reach[al.Block()] {
			locs = append(locs, al)
		}
	}
	f.Locals = locs
}

// simplifyPhis replaces phis whose edges are all the same value (or the phi itself).
func (vb *viewBuilder) simplifyPhis() {
	for changed := true; changed; {
		changed = false
		sub := map[ssa.Value]ssa.Value{}
		for _, b := range vb.nf.Blocks {
			out := b.Instrs[:0]
			for _, in := range b.Instrs {
				if phi, ok := in.(*ssa.Phi); ok {
					var only ssa.Value
					same := true
					for _, e := range phi.Edges {
						if e == ssa.Value(phi) {
							continue
						}
						if only == nil {
							only = e
						} else if only != e {
							same = false
						}
					}
					if same && only != nil && len(b.Preds) == len(phi.Edges) && len(phi.Edges) == 1 {
						sub[phi] = only
						changed = true
						continue
					}
				}
				out = append(out, in)
			}
			b.Instrs = out
		}
		vb.substitute(sub)
	}
}

// fuseJumps merges a block into its single predecessor when that predecessor has it as single
// successor (the seams left by inlining), so that "same block" reasoning of the rules is preserved.
func (vb *viewBuilder) fuseJumps() {
	f := vb.nf
	for changed := true; changed; {
		changed = false
		for _, b := range f.Blocks {
			if len(b.Succs) != 1 {
				continue
			}
			s := b.Succs[0]
			if s == b || len(s.Preds) != 1 || s == f.Blocks[0] || s == f.Recover {
				continue
			}
			if _, ok := b.Instrs[len(b.Instrs)-1].(*ssa.Jump); !ok {
				continue
			}
			if len(s.Instrs) > 0 {
				if _, isPhi := s.Instrs[0].(*ssa.Phi); isPhi {
					continue
				}
			}
			b.Instrs = append(b.Instrs[:len(b.Instrs)-1:len(b.Instrs)-1], s.Instrs...)
			for _, in := range s.Instrs {
				setInstrBlock(in, b)
			}
			b.Succs = s.Succs
			for _, t := range b.Succs {
				for k, q := range t.Preds {
					if q == s {
						t.Preds[k] = b
					}
				}
			}
			var nbs []*ssa.BasicBlock
			for _, x := range f.Blocks {
				if x != s {
					nbs = append(nbs, x)
				}
			}
			f.Blocks = nbs
			changed = true
			break
		}
	}
}

// promoteSpills removes closures whose call was inlined and forwards the single initialising
// store of a variable that was spilled to memory only because the (now inlined) closure captured
// it: an Alloc whose referrers are one Store in its own block and otherwise only loads.
func (vb *viewBuilder) promoteSpills() {
	f := vb.nf
	for round := 0; round < 8; round++ {
		refs := map[ssa.Value][]ssa.Instruction{}
		var rands []*ssa.Value
		for _, b := range f.Blocks {
			for _, in := range b.Instrs {
				rands = in.Operands(rands[:0])
				for _, r := range rands {
					if *r != nil {
						refs[*r] = append(refs[*r], in)
					}
				}
			}
		}
		changed := false
		sub := map[ssa.Value]ssa.Value{}
		dead := map[ssa.Instruction]bool{}
		for _, b := range f.Blocks {
			for _, in := range b.Instrs {
				switch x := in.(type) {
				case *ssa.MakeClosure:
					if len(refs[x]) == 0 && vb.depth[x] >= 0 && vb.closureInlined[x] {
						dead[x] = true
					}
				case *ssa.Alloc:
					var store *ssa.Store
					ok := true
					for _, ref := range refs[x] {
						switch y := ref.(type) {
						case *ssa.Store:
							if y.Addr != ssa.Value(x) || y.Val == ssa.Value(x) || store != nil {
								ok = false
							}
							store = y
						case *ssa.UnOp:
							if y.Op != token.MUL {
								ok = false
							}
						case *ssa.DebugRef:
						default:
							ok = false
						}
					}
					if !ok || store == nil || store.Block() != x.Block() {
						continue
					}
					// only for variables spilled because of an inlined closure
					if !vb.spilledForClosure[x] {
						continue
					}
					// loads in the alloc's block must follow the store
					pos := map[ssa.Instruction]int{}
					for i, y := range x.Block().Instrs {
						pos[y] = i
					}
					for _, ref := range refs[x] {
						if ld, isLd := ref.(*ssa.UnOp); isLd && ld.Block() == x.Block() && pos[ld] < pos[store] {
							ok = false
						}
					}
					if !ok {
						continue
					}
					for _, ref := range refs[x] {
						if ld, isLd := ref.(*ssa.UnOp); isLd {
							sub[ld] = store.Val
							dead[ld] = true
						}
					}
					dead[store] = true
					dead[x] = true
				}
			}
		}
		if len(dead) > 0 {
			changed = true
			for _, b := range f.Blocks {
				out := b.Instrs[:0]
				for _, in := range b.Instrs {
					if !dead[in] {
						out = append(out, in)
					}
				}
				b.Instrs = out
			}
			var locs []*ssa.Alloc
			for _, al := range f.Locals {
				if !dead[al] {
					locs = append(locs, al)
				}
			}
			f.Locals = locs
			vb.substitute(sub)
		}
		if !changed {
			break
		}
	}
}

// lowerBound: a constant c such that v >= c always holds, for constants and for induction
// variables (a phi whose entry edges are constants and whose other edges add a positive constant
// to the phi itself).
func lowerBound(v ssa.Value) (int64, bool) {
	if c, ok := constInt(v); ok {
		return c, true
	}
	if bo, ok := v.(*ssa.BinOp); ok && bo.Op == token.ADD {
		// x + k
		if k, isK := constInt(bo.Y); isK {
			if _, isPhi := bo.X.(*ssa.Phi); isPhi {
				if l, ok := lowerBound(bo.X); ok {
					return l + k, true
				}
			}
		}
		return 0, false
	}
	ph, ok := v.(*ssa.Phi)
	if !ok {
		return 0, false
	}
	lb, have := int64(0), false
	for _, e := range ph.Edges {
		if c, ok := constInt(e); ok {
			if !have || c < lb {
				lb, have = c, true
			}
			continue
		}
		bo, ok := e.(*ssa.BinOp)
		if !ok || bo.Op != token.ADD || bo.X != ssa.Value(ph) {
			return 0, false
		}
		if k, ok := constInt(bo.Y); !ok || k <= 0 {
			return 0, false
		}
	}
	return lb, have
}

// decideCmp evaluates `v op c` when v is a constant or has a known lower bound that decides it.
func decideCmpConst(op token.Token, v ssa.Value, c *ssa.Const) (val, known bool) {
	if n, ok := constInt(c); ok {
		return decideCmp(op, v, n)
	}
	vc, ok := v.(*ssa.Const)
	if !ok || vc.Value == nil || c.Value == nil || vc.Value.Kind() != c.Value.Kind() {
		return false, false
	}
	switch op {
	case token.EQL, token.NEQ, token.LSS, token.LEQ, token.GTR, token.GEQ:
		return constant.Compare(vc.Value, op, c.Value), true
	}
	return false, false
}

func decideCmp(op token.Token, v ssa.Value, c int64) (val, known bool) {
	if n, ok := constInt(v); ok {
		switch op {
		case token.EQL:
			return n == c, true
		case token.NEQ:
			return n != c, true
		case token.LSS:
			return n < c, true
		case token.LEQ:
			return n <= c, true
		case token.GTR:
			return n > c, true
		case token.GEQ:
			return n >= c, true
		}
		return false, false
	}
	if lb, ok := lowerBound(v); ok {
		switch op {
		case token.GEQ:
			if lb >= c {
				return true, true
			}
		case token.GTR:
			if lb > c {
				return true, true
			}
		case token.LSS:
			if lb >= c {
				return false, true
			}
		case token.LEQ:
			if lb > c {
				return false, true
			}
		case token.EQL:
			if lb > c {
				return false, true
			}
		case token.NEQ:
			if lb > c {
				return true, true
			}
		}
	}
	return false, false
}

// threadIntPhis does for `r := find(…); if r >= 0` what threadBoolPhis does for booleans: a block
// that holds only an integer phi, its comparison with a constant and the If on it is bypassed —
// predecessors whose value decides the comparison (a constant such as -1, or a loop index known
// to be >= 0) jump straight to the decided successor, the others branch on their own comparison.
func (vb *viewBuilder) threadIntPhis() {
	f := vb.nf
	for changed := true; changed; {
		changed = false
		for _, x := range f.Blocks {
			if len(x.Instrs) != 3 || x == f.Blocks[0] || x == f.Recover || x.Succs == nil || len(x.Succs) != 2 || x.Succs[0] == x.Succs[1] {
				continue
			}
			phi, ok := x.Instrs[0].(*ssa.Phi)
			if !ok {
				continue
			}
			cmp, ok := x.Instrs[1].(*ssa.BinOp)
			if !ok {
				continue
			}
			iff, ok := x.Instrs[2].(*ssa.If)
			if !ok || iff.Cond != ssa.Value(cmp) {
				continue
			}
			op := cmp.Op
			var c *ssa.Const
			if cmp.X == ssa.Value(phi) {
				n, ok := cmp.Y.(*ssa.Const)
				if !ok || n.Value == nil {
					continue
				}
				c = n
			} else if cmp.Y == ssa.Value(phi) {
				n, ok := cmp.X.(*ssa.Const)
				if !ok || n.Value == nil {
					continue
				}
				c, op = n, swapOp(op)
			} else {
				continue
			}
			switch op {
			case token.EQL, token.NEQ, token.LSS, token.LEQ, token.GTR, token.GEQ:
			default:
				continue
			}
			// other uses of the phi are fine (the index is used afterwards), but they must be
			// dominated… keep it simple: the phi may be used elsewhere only if every predecessor
			// edge is decided (then the users sit behind one decided successor); the comparison
			// must feed only the If
			cmpUses, phiUses := 0, 0
			var rands []*ssa.Value
			for _, b := range f.Blocks {
				for _, in := range b.Instrs {
					rands = in.Operands(rands[:0])
					for _, r := range rands {
						if *r == ssa.Value(cmp) {
							cmpUses++
						}
						if *r == ssa.Value(phi) {
							phiUses++
						}
					}
				}
			}
			if cmpUses != 1 || len(x.Preds) != len(phi.Edges) {
				continue
			}
			// other uses of the phi (the index is used in the taken arm) are re-fed through a phi
			// placed in the successor that dominates them; that successor must be entered only from x
			useSucc := map[*ssa.BasicBlock][]*ssa.Value{}
			okUses := true
			if phiUses > 1 {
				domBy := func(t, b *ssa.BasicBlock) bool {
					// every path from the entry to b passes t  <=>  b unreachable once t is removed
					if b == t {
						return true
					}
					seen := map[*ssa.BasicBlock]bool{t: true}
					st := []*ssa.BasicBlock{f.Blocks[0]}
					for len(st) > 0 {
						y := st[len(st)-1]
						st = st[:len(st)-1]
						if seen[y] {
							continue
						}
						seen[y] = true
						if y == b {
							return false
						}
						st = append(st, y.Succs...)
					}
					return true
				}
				for _, b := range f.Blocks {
					for _, in := range b.Instrs {
						if in == ssa.Instruction(cmp) {
							continue
						}
						rs := in.Operands(nil)
						for _, r := range rs {
							if *r != ssa.Value(phi) {
								continue
							}
							if _, isPhi := in.(*ssa.Phi); isPhi {
								okUses = false
								continue
							}
							placed := false
							for _, t := range x.Succs {
								if len(t.Preds) == 1 && domBy(t, b) {
									useSucc[t] = append(useSucc[t], r)
									placed = true
									break
								}
							}
							if !placed {
								okUses = false
							}
						}
					}
				}
			}
			if !okUses {
				continue
			}
			self := false
			for _, q := range x.Preds {
				if q == x {
					self = true
				}
			}
			if self || x.Succs[0] == x || x.Succs[1] == x {
				continue
			}
			// at least one edge must be decided, otherwise nothing is gained
			decided := 0
			for _, e := range phi.Edges {
				if _, known := decideCmpConst(op, e, c); known {
					decided++
				}
			}
			if decided == 0 {
				continue
			}
			addPred := func(t, np *ssa.BasicBlock) {
				xi := -1
				for k, q := range t.Preds {
					if q == x {
						xi = k
					}
				}
				t.Preds = append(t.Preds, np)
				for _, in := range t.Instrs {
					ph, ok := in.(*ssa.Phi)
					if !ok {
						break
					}
					ph.Edges = append(ph.Edges, ph.Edges[xi])
				}
			}
			edgeVal := map[*ssa.BasicBlock]ssa.Value{}
			for k, q := range x.Preds {
				e := phi.Edges[k]
				if val, known := decideCmpConst(op, e, c); known {
					t := x.Succs[1]
					if val {
						t = x.Succs[0]
					}
					for si, s := range q.Succs {
						if s == x {
							q.Succs[si] = t
						}
					}
					addPred(t, q)
					edgeVal[q] = e
					continue
				}
				nb := &ssa.BasicBlock{Comment: "thread." + x.Comment}
				setBlockParent(nb, f)
				nc := &ssa.BinOp{Op: op, X: e, Y: ssa.NewConst(c.Value, e.Type())}
				setRegType(nc, cmp.Type())
				setInstrBlock(nc, nb)
				ni := &ssa.If{Cond: nc}
				setInstrBlock(ni, nb)
				vb.origin[nc] = vb.origin[cmp]
				vb.origin[ni] = vb.origin[iff]
				nb.Instrs = []ssa.Instruction{nc, ni}
				nb.Preds = []*ssa.BasicBlock{q}
				nb.Succs = []*ssa.BasicBlock{x.Succs[0], x.Succs[1]}
				for si, s := range q.Succs {
					if s == x {
						q.Succs[si] = nb
					}
				}
				addPred(x.Succs[0], nb)
				addPred(x.Succs[1], nb)
				edgeVal[nb] = e
				var nbs []*ssa.BasicBlock
				for _, y := range f.Blocks {
					nbs = append(nbs, y)
					if y == x {
						nbs = append(nbs, nb)
					}
				}
				f.Blocks = nbs
			}
			// re-feed the value to its remaining users
			for t, uses := range useSucc {
				np := &ssa.Phi{Comment: phi.Comment}
				setRegType(np, phi.Type())
				setInstrBlock(np, t)
				vb.origin[np] = vb.origin[phi]
				for _, q := range t.Preds {
					switch {
					case q == x:
						np.Edges = append(np.Edges, phi)
					default:
						np.Edges = append(np.Edges, edgeVal[q])
					}
				}
				t.Instrs = append([]ssa.Instruction{np}, t.Instrs...)
				for _, r := range uses {
					*r = np
				}
			}
			x.Preds = nil
			vb.removeUnreachable()
			changed = true
			break
		}
	}
	vb.dedupIfTargets()
}

// threadBoolPhis turns `x := a && b; if x` (go/ssa keeps the short-circuit as a value when the
// condition is a switch case or an assigned expression) into plain control flow: a block that
// holds only a boolean phi and the If on it is bypassed — predecessors that supply a constant jump
// straight to the decided successor, the others branch on the value they supply.
func (vb *viewBuilder) threadBoolPhis() {
	f := vb.nf
	for changed := true; changed; {
		changed = false
		for _, x := range f.Blocks {
			if (len(x.Instrs) != 2 && len(x.Instrs) != 3) || x == f.Blocks[0] || x == f.Recover {
				continue
			}
			phi, ok := x.Instrs[0].(*ssa.Phi)
			if !ok {
				continue
			}
			iff, ok := x.Instrs[len(x.Instrs)-1].(*ssa.If)
			if !ok || x.Succs[0] == x.Succs[1] {
				continue
			}
			// `if phi` or `t = !phi; if t`
			negated := false
			var notInstr *ssa.UnOp
			if len(x.Instrs) == 2 {
				if iff.Cond != ssa.Value(phi) {
					continue
				}
			} else {
				u, isU := x.Instrs[1].(*ssa.UnOp)
				if !isU || u.Op != token.NOT || u.X != ssa.Value(phi) || iff.Cond != ssa.Value(u) {
					continue
				}
				negated, notInstr = true, u
			}
			succT, succF := x.Succs[0], x.Succs[1]
			if negated {
				succT, succF = succF, succT
			}
			// the phi must have no other use
			uses := 0
			var rands []*ssa.Value
			for _, b := range f.Blocks {
				for _, in := range b.Instrs {
					rands = in.Operands(rands[:0])
					for _, r := range rands {
						if *r == ssa.Value(phi) {
							uses++
						}
					}
				}
			}
			if notInstr != nil {
				// the negation must feed only the If
				nu := 0
				for _, b := range f.Blocks {
					for _, in := range b.Instrs {
						rands = in.Operands(rands[:0])
						for _, r := range rands {
							if *r == ssa.Value(notInstr) {
								nu++
							}
						}
					}
				}
				if nu != 1 {
					continue
				}
			}
			if uses != 1 || len(x.Preds) != len(phi.Edges) {
				continue
			}
			selfLoop := false
			for _, q := range x.Preds {
				if q == x {
					selfLoop = true
				}
			}
			if selfLoop || x.Succs[0] == x || x.Succs[1] == x {
				continue
			}
			// successor phis must not depend on which way we arrive other than through x
			addPred := func(t, np *ssa.BasicBlock) {
				// value for the new edge = value of the edge from x
				xi := -1
				for k, q := range t.Preds {
					if q == x {
						xi = k
					}
				}
				t.Preds = append(t.Preds, np)
				for _, in := range t.Instrs {
					ph, ok := in.(*ssa.Phi)
					if !ok {
						break
					}
					ph.Edges = append(ph.Edges, ph.Edges[xi])
				}
			}
			for k, q := range x.Preds {
				e := phi.Edges[k]
				if c, ok := e.(*ssa.Const); ok {
					bv, isB := constBool(c)
					if !isB {
						continue
					}
					t := succF
					if bv {
						t = succT
					}
					for si, s := range q.Succs {
						if s == x {
							q.Succs[si] = t
						}
					}
					addPred(t, q)
					continue
				}
				nb := &ssa.BasicBlock{Comment: "thread." + x.Comment}
				setBlockParent(nb, f)
				ni := &ssa.If{Cond: e}
				setInstrBlock(ni, nb)
				vb.origin[ni] = vb.origin[iff]
				nb.Instrs = []ssa.Instruction{ni}
				nb.Preds = []*ssa.BasicBlock{q}
				nb.Succs = []*ssa.BasicBlock{succT, succF}
				for si, s := range q.Succs {
					if s == x {
						q.Succs[si] = nb
					}
				}
				addPred(succT, nb)
				addPred(succF, nb)
				// keep block order: right after x
				var nbs []*ssa.BasicBlock
				for _, y := range f.Blocks {
					nbs = append(nbs, y)
					if y == x {
						nbs = append(nbs, nb)
					}
				}
				f.Blocks = nbs
			}
			x.Preds = nil
			// x is now unreachable: drop it and its edges
			vb.removeUnreachable()
			changed = true
			break
		}
	}
	vb.dedupIfTargets()
}

// dedupIfTargets: an If whose two targets became identical is a Jump.
func (vb *viewBuilder) dedupIfTargets() {
	f := vb.nf
	for _, b := range f.Blocks {
		if iff, ok := b.Instrs[len(b.Instrs)-1].(*ssa.If); ok && b.Succs[0] == b.Succs[1] {
			_ = iff
			t := b.Succs[0]
			j := &ssa.Jump{}
			setInstrBlock(j, b)
			b.Instrs[len(b.Instrs)-1] = j
			b.Succs = []*ssa.BasicBlock{t}
			// remove one of the duplicate pred entries (and its phi edge)
			seen := false
			var keepIdx []int
			for k, q := range t.Preds {
				if q == b {
					if seen {
						continue
					}
					seen = true
				}
				keepIdx = append(keepIdx, k)
			}
			for _, in := range t.Instrs {
				ph, ok := in.(*ssa.Phi)
				if !ok {
					break
				}
				var ne []ssa.Value
				for _, k := range keepIdx {
					ne = append(ne, ph.Edges[k])
				}
				ph.Edges = ne
			}
			var np []*ssa.BasicBlock
			for _, k := range keepIdx {
				np = append(np, t.Preds[k])
			}
			t.Preds = np
		}
	}
}

func (vb *viewBuilder) finish() error {
	f := vb.nf
	vb.removeUnreachable()
	vb.promoteSpills()
	for round := 0; round < 4; round++ {
		before := len(f.Blocks)
		vb.simplifyPhis()
		vb.threadBoolPhis()
		vb.simplifyPhis()
		vb.threadIntPhis()
		vb.simplifyPhis()
		vb.fuseJumps()
		if len(f.Blocks) == before {
			break
		}
	}
	for i, b := range f.Blocks {
		b.Index = i
	}
	// referrers
	for _, par := range f.Params {
		*par.Referrers() = nil
	}
	for _, fv := range f.FreeVars {
		*fv.Referrers() = nil
	}
	for _, b := range f.Blocks {
		for _, in := range b.Instrs {
			if v, ok := in.(ssa.Value); ok {
				if r := v.Referrers(); r != nil {
					*r = nil
				}
			}
		}
	}
	var rands []*ssa.Value
	for _, b := range f.Blocks {
		for _, in := range b.Instrs {
			rands = in.Operands(rands[:0])
			for _, r := range rands {
				if *r == nil {
					continue
				}
				if rr := (*r).Referrers(); rr != nil {
					*rr = append(*rr, in)
				}
			}
		}
	}
	ssaBuildDomTree(f)
	ssaNumberRegisters(f)
	var buf bytes.Buffer
	anons := f.AnonFuncs
	f.AnonFuncs = nil // they keep the original function as parent
	sane := ssaSanityCheck(f, &buf)
	f.AnonFuncs = anons
	if !sane {
		return fmt.Errorf("inlined view of %s fails go/ssa's sanity check:\n%s", FnName(vb.root), buf.String())
	}
	return nil
}

type viewKey struct {
	fn  *ssa.Function
	key string
}

var (
	viewMu    sync.Mutex
	viewCache = map[viewKey]*ssa.Function{}
	viewInfo  = map[*ssa.Function]*viewMeta{}
)

type viewMeta struct {
	root    *ssa.Function
	inlined []string
	origin  map[ssa.Instruction]ssa.Instruction
}

// View returns the inlined copy of fn. keepKey names the keep predicate (cache key).
// A failure to build a sane view is fatal for the run (panic → the property fails closed).
func (p *Prog) View(fn *ssa.Function, keepKey string, keep func(*ssa.Function) bool) *ssa.Function {
	if fn == nil || fn.Blocks == nil {
		return fn
	}
	k := viewKey{fn, p.Spec.Name + "/" + keepKey}
	viewMu.Lock()
	if v, ok := viewCache[k]; ok {
		viewMu.Unlock()
		return v
	}
	viewMu.Unlock()
	// built outside the lock: keep predicates may themselves ask for views
	nf := new(ssa.Function)
	*nf = *fn
	vb := &viewBuilder{p: p, root: fn, nf: nf, keep: keep, depth: map[ssa.Instruction]int{}, stack: map[ssa.Instruction][]*ssa.Function{},
		origin: map[ssa.Instruction]ssa.Instruction{}, inlined: map[*ssa.Function]bool{},
		closureInlined: map[*ssa.MakeClosure]bool{}, spilledForClosure: map[*ssa.Alloc]bool{}}
	vmap := map[ssa.Value]ssa.Value{}
	nf.Params = nil
	for _, par := range fn.Params {
		np := new(ssa.Parameter)
		*np = *par
		*(**ssa.Function)(fieldPtr(np, "parent")) = nf
		*np.Referrers() = nil
		nf.Params = append(nf.Params, np)
		vmap[par] = np
	}
	nf.FreeVars = nil
	for _, fv := range fn.FreeVars {
		nv := new(ssa.FreeVar)
		*nv = *fv
		*(**ssa.Function)(fieldPtr(nv, "parent")) = nf
		*nv.Referrers() = nil
		nf.FreeVars = append(nf.FreeVars, nv)
		vmap[fv] = nv
	}
	nf.Locals = nil
	// map blocks (Recover needs the block map: clone by position)
	recIdx := -1
	if fn.Recover != nil {
		recIdx = fn.Recover.Index
	}
	nf.Blocks = nil
	body := vb.cloneBody(fn, vmap, 0, nil)
	nf.Blocks = body
	if recIdx >= 0 {
		nf.Recover = body[recIdx]
	}
	for again := true; again; {
		again = false
	scan:
		for _, b := range nf.Blocks {
			for i, in := range b.Instrs {
				c, ok := in.(*ssa.Call)
				if !ok {
					continue
				}
				if g, mc := vb.inlinable(c); g != nil {
					vb.inlineOne(b, i, c, g, mc)
					again = true
					break scan
				}
			}
		}
		if vb.nInl > 400 {
			panic("inline: runaway inlining in " + FnName(fn))
		}
	}
	if err := vb.finish(); err != nil {
		panic(err.Error())
	}
	var names []string
	for g := range vb.inlined {
		names = append(names, FnName(g))
	}
	sort.Strings(names)
	viewMu.Lock()
	viewCache[k] = nf
	viewInfo[nf] = &viewMeta{root: fn, inlined: names, origin: vb.origin}
	viewMu.Unlock()
	return nf
}

// viewNote describes what was inlined into a view (for evidence/report text).
func viewNote(f *ssa.Function) string {
	if m := viewInfo[f]; m != nil && len(m.inlined) > 0 {
		return " [inlined: " + strings.Join(m.inlined, ", ") + "]"
	}
	return ""
}

// keepNames builds a keep predicate from canonical (role) function names.
func keepNames(names ...string) func(*ssa.Function) bool {
	set := map[string]bool{}
	for _, n := range names {
		set[n] = true
	}
	return func(f *ssa.Function) bool { return set[canonFn(f)] || set[f.Name()] }
}

func debugView(spec string) int {
	cfg := "J"
	if i := strings.Index(spec, "@"); i >= 0 {
		cfg, spec = spec[i+1:], spec[:i]
	}
	p, err := Load(cfg)
	if err != nil {
		fmt.Println(err)
		return 2
	}
	if spec == "ALL" {
		n, inl := 0, 0
		for _, f := range p.ModFns {
			v := p.View(f, "", nil)
			n++
			inl += len(viewInfo[v].inlined)
		}
		fmt.Printf("views built and sanity-checked for %d functions (%d inlined callees in total)\n", n, inl)
		return 0
	}
	rel, name := "", spec
	if i := strings.Index(spec, ":"); i >= 0 {
		rel, name = spec[:i], spec[i+1:]
	}
	var f *ssa.Function
	if i := strings.Index(name, "."); i >= 0 {
		f = p.Method(rel, name[:i], name[i+1:])
	} else {
		f = p.Func(rel, name)
	}
	if f == nil {
		fmt.Println("not found")
		return 2
	}
	var keep func(*ssa.Function) bool
	if k := os.Getenv("ZL_KEEP"); k != "" {
		keep = keepNames(strings.Split(k, ",")...)
	}
	v := p.View(f, "dbg:"+os.Getenv("ZL_KEEP"), keep)
	v.WriteTo(os.Stdout)
	fmt.Println(viewNote(v))
	return 0
}

// exclusiveHelpers returns root together with the unexported module functions that are reachable
// only through root: every reference to them is a static call from a function already in the set
// (the helpers a refactoring extracts out of root).  A frame rule "only root does X" reads
// "only root or its private helpers do X".
func (p *Prog) exclusiveHelpers(root *ssa.Function, more ...*ssa.Function) map[*ssa.Function]bool {
	set := map[*ssa.Function]bool{root: true}
	for _, m := range more {
		set[m] = true
	}
	// all references to module functions
	type ref struct {
		in     *ssa.Function
		isCall bool
	}
	refs := map[*ssa.Function][]ref{}
	var rands []*ssa.Value
	for _, f := range p.ModFns {
		eachInstr(f, func(b *ssa.BasicBlock, i int, in ssa.Instruction) {
			var callee *ssa.Function
			if cc := callCommon(in); cc != nil {
				callee = staticCallee(cc) // a deferred or go'd static call is a call too
			}
			rands = in.Operands(rands[:0])
			for _, r := range rands {
				if g, ok := (*r).(*ssa.Function); ok && InModule(g) {
					refs[g] = append(refs[g], ref{f, g == callee})
				}
			}
		})
	}
	for changed := true; changed; {
		changed = false
		for g, rs := range refs {
			if set[g] || g.Blocks == nil {
				continue
			}
			if o := g.Object(); o == nil || o.Exported() {
				if g.Parent() == nil {
					continue
				}
			}
			ok := len(rs) > 0
			for _, r := range rs {
				if !set[r.in] || (!r.isCall && g.Parent() == nil) {
					ok = false
				}
			}
			if ok {
				set[g] = true
				changed = true
			}
		}
	}
	return set
}

// RootViews returns, for the packages rels, the inlined views of every function that is judged on
// its own: all functions except unexported, non-recursive helpers that are only ever called
// statically from module code and were actually inlined into every one of their callers' views —
// those are judged as part of their callers (a rule "the slice is sorted before use" holds or fails
// in the function that uses it, not in the helper that returns it).  Sorted by name.
func (p *Prog) RootViews(rels []string, keepKey string, keep func(*ssa.Function) bool) []*ssa.Function {
	inRel := func(f *ssa.Function) bool {
		for _, rel := range rels {
			if pkgRel(f) == rel {
				return true
			}
		}
		return false
	}
	// references
	type ref struct {
		in     *ssa.Function
		isCall bool
	}
	refs := map[*ssa.Function][]ref{}
	var rands []*ssa.Value
	for _, f := range p.ModFns {
		eachInstr(f, func(b *ssa.BasicBlock, i int, in ssa.Instruction) {
			var callee *ssa.Function
			if c, ok := in.(*ssa.Call); ok {
				callee = staticCallee(&c.Call)
			}
			rands = in.Operands(rands[:0])
			for _, r := range rands {
				if g, ok := (*r).(*ssa.Function); ok && InModule(g) {
					refs[g] = append(refs[g], ref{f, g == callee})
				}
			}
		})
	}
	helper := map[*ssa.Function]bool{}
	for _, f := range p.ModFns {
		if f.Parent() != nil || f.Object() == nil || f.Object().Exported() || f.Name() == "init" || usesDeferOrRecover(f) || len(f.Blocks) > viewMaxBlocks {
			continue
		}
		rs := refs[f]
		ok := len(rs) > 0
		for _, r := range rs {
			if !r.isCall || r.in == f {
				ok = false
			}
		}
		if ok {
			helper[f] = true
		}
	}
	var out []*ssa.Function
	inlinedSomewhere := map[string]bool{}
	done := map[*ssa.Function]bool{}
	addRoot := func(f *ssa.Function) {
		v := p.View(f, keepKey, keep)
		out = append(out, v)
		for _, n := range viewInfo[v].inlined {
			inlinedSomewhere[n] = true
		}
		done[f] = true
	}
	for _, f := range p.ModFns {
		if inRel(f) && !helper[f] {
			addRoot(f)
		} else if !inRel(f) {
			done[f] = true
		}
	}
	// helpers, callers first: a helper whose callers are all settled is either inlined somewhere
	// (judged there) or was kept as a call everywhere (judged on its own, with its own helpers inlined)
	for progress := true; progress; {
		progress = false
		for _, f := range p.ModFns {
			if done[f] || !inRel(f) {
				continue
			}
			settled := true
			for _, r := range refs[f] {
				if !done[r.in] {
					settled = false
				}
			}
			if !settled {
				continue
			}
			if inlinedSomewhere[FnName(f)] {
				done[f] = true
			} else {
				addRoot(f)
			}
			progress = true
		}
	}
	for _, f := range p.ModFns {
		if inRel(f) && !done[f] {
			addRoot(f) // call cycles among helpers
		}
	}
	sort.Slice(out, func(i, j int) bool {
		if out[i].String() != out[j].String() {
			return out[i].String() < out[j].String()
		}
		return out[i].Pos() < out[j].Pos()
	})
	return out
}

// originFnName: the name of the real function the instruction of a view was copied from.
func originFnName(view *ssa.Function, in ssa.Instruction) string {
	if m := viewInfo[view]; m != nil {
		if o, ok := m.origin[in]; ok && o.Parent() != nil {
			return FnName(o.Parent())
		}
		return FnName(m.root)
	}
	return FnName(view)
}

// viewRoot: the real function a view was built from (f itself if it is not a view).
func viewRoot(f *ssa.Function) *ssa.Function {
	if m := viewInfo[f]; m != nil {
		return m.root
	}
	return f
}
