package main

import (
	"fmt"
	"go/token"
	"sort"
	"strings"

	"golang.org/x/tools/go/ssa"
)

func init() { register("C03", checkC03) }

func checkC03(r *Run) {
	r.Explain = "Decides the ordering / exactly-once content of the event layout as a per-step induction over logger derivation: NEWEV in (*Logger).newEvent every event path writes the level field (only under level != NoLevel && LevelFieldName != \"\", with LevelFieldMarshalFunc(level)) before splicing the logger context, stores e.ch = l.hooks, and nothing else touches the buffer; MSG in (*Event).msg one loop over all of e.ch runs Hook.Run(e, e.level, msg) exactly once per hook with the unmodified message and no early exit, the message field is appended after the loop only under msg != \"\", then write() is called once; HOOKS Hook.Run is invoked only from msg and the adaptor types, Event.ch is stored only by the two newEvent functions, Logger.Hook returns the receiver's hooks followed by the new ones in a fresh slice, Context.Timestamp/Caller register through Hook; LevelHook pairs each level constant with its own field and forwards (e, level, message); WRITE the writer call is control-dependent on e.level != Disabled (discarded events are not written). The buffer typestate A2 (as in C01) is run here too: members are whole and separated exactly once, an empty embedded object adds nothing. ISOL (shared with C05/C18) per-request loggers; UPDCTX UpdateContext skips the update only for the shared disabled logger, whatever the level; PURE no encoder function writes into an input slice (AppendObjectData splices the logger's context without touching it). A12 copy (shared with C05): Output gives the new logger its own context array. HOOKS adds-its-field-on-every-path: timestampHook.Run calls e.Timestamp() on every path. HOOKS registers-on-every-path: Context methods that register a hook reach Logger.Hook on every path."
	r.NotDec = "Nothing value-level is involved. User hooks are assumed to act through the Event API (contract summary of A2, checked in C01). Context field order inside one logger is the append order of the buffer (C01/C05)."
	r.Assume = []string{"user hooks act on the event only through its exported methods"}
	p := r.Use("J")
	if p == nil {
		return
	}
	ruleNewEventLayout(r, p)
	ruleMsgLayout(r, p)
	ruleHookPlumbing(r, p)
	ruleLevelSlots(r, p, "HOOKS", "LevelHook", "Run", "Hook", 2)
	// "each once" is counted in members of the event object: the buffer typestate (also judged in
	// C01) decides that the context splice, the fields and the hook fields are whole members
	// separated exactly once (an empty embedded object adds nothing, not even a separator)
	ruleA2(r, p)
	ruleA12Copy(r, p)                             // Output() gives the new logger its own context bytes (UpdateContext on both would cut fields)
	ruleTimestampHookUnconditional(r, p, "HOOKS") // the timestamp hook adds its field on every path
	ruleContextHookBuildersUnconditional(r, p, "HOOKS") // With().Timestamp()/Caller() register their hook on every path
	ruleHlogIsolation(r, p)                       // per-request loggers: one request's fields never show up in another's events
	ruleUpdateContextApplies(r, p, "UPDCTX")      // fields added through UpdateContext are part of the chain whatever the logger's level
	ruleAppendersKeepInputs(r, p, "PURE", []string{"internal/json", cborRel})
	ruleGate(r, p, true) // hooks run for every enabled event: the gate (C04) rejects for no reason other than levels and the sampler
	r.Floor("NEWEV", 5)
	r.Floor("MSG", 7)
	r.Floor("HOOKS", 14)
}

// events of interest along a path through newEvent
func ruleNewEventLayout(r *Run, p *Prog) {
	ne := p.Method("", "Logger", "newEvent")
	pne := p.Func("", "newEvent")
	if !r.Anchor(ne != nil && pne != nil, "NEWEV", "(*Logger).newEvent and newEvent") {
		return
	}
	lfn := p.Global("", "LevelFieldName")
	lfm := p.Global("", "LevelFieldMarshalFunc")
	lc := levelConsts(p)
	shouldFn := p.Method("", "Logger", "should")
	ne = p.View(ne, "keep-should-newEvent", func(g *ssa.Function) bool { return g == shouldFn || g == pne })
	paths, complete := enumPaths(ne, 1, 4000)
	if !complete {
		r.Fail("NEWEV", FnName(ne)+"/paths", p.Pos(ne.Pos()), "cannot enumerate paths")
		return
	}
	nEv := 0
	for i, pa := range paths {
		ret, _ := pa.Exit.(*ssa.Return)
		if ret == nil || isNilConst(pa.Resolve(ret.Results[0])) {
			continue
		}
		nEv++
		cons := fmt.Sprintf("%s/path#%d", FnName(ne), i)
		// sequence of buffer-writing events
		var seq []string
		var ev ssa.Value
		okLevelArgs := true
		chStored, chFromHooks := false, false
		for _, in := range pa.Instrs() {
			switch x := in.(type) {
			case *ssa.Call:
				sc := staticCallee(&x.Call)
				switch {
				case sc == pne:
					ev = x
					seq = append(seq, "create")
				case sc != nil && sc.Signature.Recv() != nil && typeIs(sc.Signature.Recv().Type(), modPath, "Event") && len(x.Call.Args) > 0 && ev != nil && sameObj(x.Call.Args[0], ev):
					if sc.Name() == "Str" && len(x.Call.Args) == 3 && loadedGlobal(x.Call.Args[1]) == lfn && lfn != nil {
						seq = append(seq, "level")
						mc, ok := x.Call.Args[2].(*ssa.Call)
						if !ok || loadedGlobal(mc.Call.Value) != lfm || len(mc.Call.Args) != 1 || !isParam(mc.Call.Args[0], ne, 1) {
							okLevelArgs = false
						}
					} else if sc.Name() == "Stack" {
						seq = append(seq, "stackflag")
					} else {
						seq = append(seq, "field:"+sc.Name())
					}
				default:
					if o := calleeObj(&x.Call); o != nil && o.Name() == "AppendObjectData" {
						seq = append(seq, "context")
						if len(x.Call.Args) == 3 && !isFieldOfParam(x.Call.Args[2], ne, 0, "context") {
							seq = append(seq, "context-of-other")
						}
					}
				}
			case *ssa.Store:
				if fa, ok := x.Addr.(*ssa.FieldAddr); ok && ev != nil && sameObj(fa.X, ev) {
					fv := fieldVar(fa)
					if fname(fv) == "ch" {
						chStored = true
						chFromHooks = isFieldOfParam(x.Val, ne, 0, "hooks")
					}
					if isByteSlice(fv.Type()) {
						if c, ok := x.Val.(*ssa.Call); ok {
							if o := calleeObj(&c.Call); o != nil && o.Name() == "AppendObjectData" {
								continue
							}
						}
						seq = append(seq, "rawbufstore")
					}
				}
			}
		}
		cs := pa.Cmps()
		lvlNotNo := hasCmp(cs, func(op token.Token, x, y ssa.Value) bool {
			n, ok := constInt(y)
			return ok && op == token.NEQ && isParam(x, ne, 1) && n == lc["NoLevel"]
		})
		nameSet := hasCmp(cs, func(op token.Token, x, y ssa.Value) bool {
			s, ok := constString(y)
			return ok && s == "" && op == token.NEQ && loadedGlobal(x) == lfn
		})
		lvlIsNo := hasCmp(cs, func(op token.Token, x, y ssa.Value) bool {
			n, ok := constInt(y)
			return ok && op == token.EQL && isParam(x, ne, 1) && n == lc["NoLevel"]
		})
		nameEmpty := hasCmp(cs, func(op token.Token, x, y ssa.Value) bool {
			s, ok := constString(y)
			return ok && s == "" && op == token.EQL && loadedGlobal(x) == lfn
		})
		ctxNonEmpty := hasCmp(cs, func(op token.Token, x, y ssa.Value) bool {
			n, ok := constInt(y)
			c, isC := x.(*ssa.Call)
			return ok && isC && builtinName(&c.Call) == "len" && isFieldOfParam(c.Call.Args[0], ne, 0, "context") && ((op == token.GTR && n == 1) || (op == token.GEQ && n == 2))
		})
		// expected order: create [level] [context] [stackflag]
		var want []string
		want = append(want, "create")
		hasLevel := contains(seq, "level")
		if lvlNotNo && nameSet {
			want = append(want, "level")
		}
		if ctxNonEmpty {
			want = append(want, "context")
		}
		got := filterOut(seq, "stackflag")
		ok := strings.Join(got, ",") == strings.Join(want, ",") && okLevelArgs
		if hasLevel && !(lvlNotNo && nameSet) {
			ok = false
		}
		if !hasLevel && !(lvlIsNo || nameEmpty) {
			ok = false
		}
		r.Ob("NEWEV", cons+"/order", p.Pos(ret.Pos()), ok, true,
			tern(ok, "buffer events "+strings.Join(seq, "→")+" under ["+shortConds(cs)+"]", "event assembled as "+strings.Join(seq, "→")+" but the layout requires "+strings.Join(want, "→")+" (level field first, only for level != NoLevel && LevelFieldName != \"\", named LevelFieldName with LevelFieldMarshalFunc(level); then the logger's own context)"))
		r.Ob("NEWEV", cons+"/hooks", p.Pos(ret.Pos()), chStored && chFromHooks, true, tern(chStored && chFromHooks, "e.ch = l.hooks", "the event does not receive the logger's hook list (e.ch = l.hooks)"))
	}
	if nEv < 2 {
		r.Fail("NEWEV", FnName(ne)+"/event-paths", p.Pos(ne.Pos()), "fewer than two event-producing paths found")
	}
}

func contains(ss []string, s string) bool {
	for _, x := range ss {
		if x == s {
			return true
		}
	}
	return false
}

func filterOut(ss []string, s string) []string {
	var out []string
	for _, x := range ss {
		if x != s {
			out = append(out, x)
		}
	}
	return out
}

func shortConds(cs []Cmp) string { return joinMax(cmpStrings(cs), 8) }

func ruleMsgLayout(r *Run, p *Prog) {
	write, msg := writeAndMsg(p)
	if !r.Anchor(write != nil, "MSG", "function invoking the event's writer") {
		return
	}
	if !r.Anchor(msg != nil, "MSG", "single caller of write()") {
		return
	}
	// judged with msg's private helpers inlined; write stays a call (it is an anchor)
	writeOrig := write
	msg = p.View(msg, "keep-write", func(g *ssa.Function) bool { return g == writeOrig })
	fn := FnName(msg)
	// hook calls in msg
	var hookCalls []*ssa.Call
	eachInstr(msg, func(b *ssa.BasicBlock, i int, in ssa.Instruction) {
		if c, ok := in.(*ssa.Call); ok && c.Call.IsInvoke() && c.Call.Method.Name() == "Run" && typeIs(c.Call.Value.Type(), modPath, "Hook") {
			hookCalls = append(hookCalls, c)
		}
	})
	if len(hookCalls) != 1 {
		r.Ob("MSG", fn+"/hook-call", p.Pos(msg.Pos()), false, true, fmt.Sprintf("%d Hook.Run call sites in msg (exactly one, inside the loop over e.ch, expected)", len(hookCalls)))
		return
	}
	hc := hookCalls[0]
	isCh := func(v ssa.Value) bool { return isFieldOfParam(v, msg, 0, "ch") }
	facts, ok := analyseRangeLoop(msg, hc, hc.Call.Value, isCh)
	if !ok {
		r.Ob("MSG", fn+"/hook-loop", p.Pos(hc.Pos()), false, true, "Hook.Run is not called from a loop over e.ch")
		return
	}
	r.Ob("MSG", fn+"/hooks-no-early-exit", p.Pos(hc.Pos()), facts.NoEarlyExit, true, tern(facts.NoEarlyExit, "the hook loop ends only by exhaustion", "the hook loop can exit early: later hooks do not run"))
	r.Ob("MSG", fn+"/hooks-range-all", p.Pos(hc.Pos()), facts.RangeAll, true, tern(facts.RangeAll, "the loop visits e.ch[0..len) in order", "the hook loop does not visit all of e.ch from the first element in order"))
	r.Ob("MSG", fn+"/hooks-once-each", p.Pos(hc.Pos()), facts.EveryIter && facts.Element, true, tern(facts.EveryIter && facts.Element, "each hook runs exactly once", "a hook is skipped, repeated, or the call does not go to the current element"))
	// operands: (e, e.level, msg)
	okArgs := len(hc.Call.Args) == 3 && isParam(hc.Call.Args[0], msg, 0) && isFieldOfParam(hc.Call.Args[1], msg, 0, "level") && isParam(hc.Call.Args[2], msg, 1)
	r.Ob("MSG", fn+"/hook-operands", p.Pos(hc.Pos()), okArgs, true, tern(okArgs, "hooks receive (e, e.level, msg)", "hooks receive "+descrArgs(hc)+" instead of the event, its level and the final message"))
	// message append: a Key/Value pair with MessageFieldName and the msg parameter, after the loop, under msg != ""
	mfn := p.Global("", "MessageFieldName")
	var msgAppend *ssa.Call
	nBufWrites := 0
	eachInstr(msg, func(b *ssa.BasicBlock, i int, in ssa.Instruction) {
		if st, ok := in.(*ssa.Store); ok {
			if fa, ok := st.Addr.(*ssa.FieldAddr); ok && isByteSlice(fieldVar(fa).Type()) && isParam(fa.X, msg, 0) {
				nBufWrites++
				if c, ok := st.Val.(*ssa.Call); ok {
					if o := calleeObj(&c.Call); o != nil && o.Name() == "AppendString" && len(c.Call.Args) == 3 && isParam(c.Call.Args[2], msg, 1) {
						if kc, ok := c.Call.Args[1].(*ssa.Call); ok {
							if ko := calleeObj(&kc.Call); ko != nil && ko.Name() == "AppendKey" && loadedGlobal(kc.Call.Args[2]) == mfn {
								msgAppend = c
							}
						}
					}
				}
			}
		}
	})
	if msgAppend == nil || nBufWrites != 1 {
		r.Ob("MSG", fn+"/message-field", p.Pos(msg.Pos()), false, true, fmt.Sprintf("msg() does not append exactly one MessageFieldName/msg pair to the buffer (%d buffer stores)", nBufWrites))
		return
	}
	ncs := necessaryCmps(msg, msgAppend)
	nonEmpty := hasCmp(ncs, func(op token.Token, x, y ssa.Value) bool {
		s, ok := constString(y)
		return ok && s == "" && op == token.NEQ && isParam(x, msg, 1)
	})
	r.Ob("MSG", fn+"/message-nonempty", p.Pos(msgAppend.Pos()), nonEmpty, true, tern(nonEmpty, "message field appended only when msg != \"\"", "the message field is appended without the msg != \"\" test"))
	// order: no hook call reachable after the message append; write after both
	after, _ := pathExists(msg, msgAppend, func(in ssa.Instruction) bool { return in == ssa.Instruction(hc) }, nil, nil)
	r.Ob("MSG", fn+"/message-after-hooks", p.Pos(msgAppend.Pos()), !after, true, tern(!after, "hooks cannot run after the message field was appended", "a hook can run after the message field was appended (hook fields would follow the message)"))
	var wcall *ssa.Call
	eachInstr(msg, func(b *ssa.BasicBlock, i int, in ssa.Instruction) {
		if c, ok := in.(*ssa.Call); ok && staticCallee(&c.Call) == writeOrig {
			wcall = c
		}
	})
	if wcall != nil {
		bad1, _ := pathExists(msg, wcall, func(in ssa.Instruction) bool { return in == ssa.Instruction(hc) || in == ssa.Instruction(msgAppend) }, nil, nil)
		// every path to write passes the loop header (hooks considered) — the loop header dominates the write call
		dom := facts.Hdr.Dominates(wcall.Block())
		r.Ob("MSG", fn+"/write-last", p.Pos(wcall.Pos()), !bad1 && dom, true, tern(!bad1 && dom, "write() comes after the hook loop and the message field", "write() is not the last step: hooks or the message field can follow it, or it can be reached without running the hooks"))
	}
	// write(): the writer call is control-dependent on e.level != Disabled
	write = p.View(write, "", nil)
	var sites []*ssa.Call
	eachInstr(write, func(b *ssa.BasicBlock, i int, in ssa.Instruction) {
		if c, ok := in.(*ssa.Call); ok && c.Call.IsInvoke() {
			if fv, base := loadedField(c.Call.Value); fv != nil && typeIs(base.Type(), modPath, "Event") {
				sites = append(sites, c)
			}
		}
	})
	if len(sites) == 0 {
		r.Ob("MSG", FnName(write)+"/discard-gate", p.Pos(write.Pos()), false, true, "writer invocation not found in write()")
		return
	}
	lc := levelConsts(p)
	wcs := necessaryCmps(write, sites[0])
	gated := hasCmp(wcs, func(op token.Token, x, y ssa.Value) bool {
		n, ok := constInt(y)
		return ok && op == token.NEQ && n == lc["Disabled"] && isFieldOfParam(x, write, 0, "level")
	})
	r.Ob("MSG", FnName(write)+"/discard-gate", p.Pos(sites[0].Pos()), gated, true, tern(gated, "the writer is called only when e.level != Disabled", "an event a hook discarded (level Disabled) is still written"))
}

func ruleHookPlumbing(r *Run, p *Prog) {
	hookT := p.NamedType("", "Hook")
	if !r.Anchor(hookT != nil, "HOOKS", "type Hook") {
		return
	}
	write, msg := writeAndMsg(p)
	msgSet := map[*ssa.Function]bool{}
	if msg != nil {
		msgSet = p.exclusiveHelpers(msg)
		// write() and its helpers are msg's callees too, but they are the "hand over to the writer"
		// step: hooks must not run there (MSG counts the hook loop in msg with write kept as a call)
		if write != nil {
			for g := range p.exclusiveHelpers(write) {
				delete(msgSet, g)
			}
		}
	}
	// who invokes Hook.Run
	for _, f := range p.ModFns {
		eachInstr(f, func(b *ssa.BasicBlock, i int, in ssa.Instruction) {
			c, ok := in.(*ssa.Call)
			if !ok || !c.Call.IsInvoke() || c.Call.Method.Name() != "Run" || namedOf(c.Call.Value.Type()) != hookT {
				return
			}
			okc := msgSet[f]
			why := "the finaliser's hook loop"
			if !okc && f.Signature.Recv() != nil && f.Name() == "Run" {
				// adaptor types implementing Hook themselves (LevelHook)
				okc = true
				why = "adaptor " + FnName(f)
			}
			r.Ob("HOOKS", FnName(f)+"/invokes-Run", p.Pos(c.Pos()), okc, true, tern(okc, "Hook.Run invoked from "+why, "Hook.Run is invoked from "+FnName(f)+": hooks would run more than once per event or outside finalisation"))
		})
	}
	// who stores Event.ch
	ne := p.Method("", "Logger", "newEvent")
	pne := p.Func("", "newEvent")
	// stores are judged where the value is known: in the views of the functions judged on their own
	for _, f := range p.RootViews([]string{""}, "keep-newEvent", func(g *ssa.Function) bool { return g == ne || g == pne }) {
		root := viewRoot(f)
		eachInstr(f, func(b *ssa.BasicBlock, i int, in ssa.Instruction) {
			st, ok := in.(*ssa.Store)
			if !ok {
				return
			}
			fa, ok := st.Addr.(*ssa.FieldAddr)
			if !ok || !typeIs(fa.X.Type(), modPath, "Event") || fname(fieldVar(fa)) != "ch" {
				return
			}
			okc := (root == ne && isFieldOfParam(st.Val, f, 0, "hooks")) || (root == pne && isNilConst(st.Val))
			r.Ob("HOOKS", FnName(f)+"/stores-ch", p.Pos(st.Pos()), okc, true, tern(okc, "Event.ch set from the logger's hooks / reset to nil", "Event.ch is stored with "+descr(st.Val)+" in "+FnName(f)))
		})
	}
	// Logger.Hook: fresh slice, receiver's hooks first, then the arguments
	lh := p.Method("", "Logger", "Hook")
	if r.Anchor(lh != nil, "HOOKS", "Logger.Hook") {
		ruleHookAppend(r, p, lh)
	}
	// Context.Timestamp / Caller / CallerWithSkipFrameCount register through Logger.Hook and add nothing to the buffer
	for _, n := range []string{"Timestamp", "Caller", "CallerWithSkipFrameCount"} {
		m := p.Method("", "Context", n)
		if !r.Anchor(m != nil, "HOOKS", "Context."+n) {
			continue
		}
		viaHook, bufWrite := false, false
		// a shared private "context with this hook added" helper is part of each of the three
		m = p.View(m, "keep-Logger.Hook", func(g *ssa.Function) bool { return g == lh })
		eachInstr(m, func(b *ssa.BasicBlock, i int, in ssa.Instruction) {
			if c, ok := in.(*ssa.Call); ok {
				if staticCallee(&c.Call) == lh {
					viaHook = true
				}
				if o := calleeObj(&c.Call); o != nil && isAppenderSig(sigOf(&c.Call)) && o.Name() != "" {
					bufWrite = true
				}
			}
		})
		okc := viaHook && !bufWrite
		r.Ob("HOOKS", FnName(m), p.Pos(m.Pos()), okc, true, tern(okc, "registers a hook through Logger.Hook (ordered as a hook)", "does not register through Logger.Hook or writes the context buffer directly"))
	}
}

func sigOf(c *ssa.CallCommon) *types_Signature {
	return signatureOf(c)
}

// ruleHookAppend: l.hooks' = (fresh) receiver's hooks ++ new hooks, decided on a small sequence
// domain over make/copy/append/clone, not on one syntactic shape.
func ruleHookAppend(r *Run, p *Prog, lh *ssa.Function) {
	lh = p.View(lh, "", nil)
	fn := FnName(lh)
	var st *ssa.Store
	n := 0
	eachInstr(lh, func(b *ssa.BasicBlock, i int, in ssa.Instruction) {
		if s, ok := in.(*ssa.Store); ok {
			if fa, ok := s.Addr.(*ssa.FieldAddr); ok && fname(fieldVar(fa)) == "hooks" {
				st = s
				n++
			}
		}
	})
	if n != 1 {
		r.Ob("HOOKS", fn+"/store", p.Pos(lh.Pos()), false, true, fmt.Sprintf("%d stores to l.hooks (one expected)", n))
		return
	}
	isRecv := func(v ssa.Value) bool { return isFieldOfParam(v, lh, 0, "hooks") }
	isArg := func(v ssa.Value) bool { return isParam(v, lh, 1) }
	seq, fresh := sliceSeq(lh, st.Val, isRecv, isArg, 0)
	okc := strings.Join(seq, "+") == "recv+arg" && fresh
	r.Ob("HOOKS", fn+"/order", p.Pos(st.Pos()), okc, true, tern(okc, "hooks' = receiver's hooks followed by the new hooks, in a fresh backing array", "Logger.Hook stores "+strings.Join(seq, "+")+" (fresh="+boolStr(fresh)+"): expected the parent's hooks first, then the new ones, in a slice that shares no backing array with the parent"))
}

// sliceSeq evaluates a slice expression to a sequence of named segments and whether its backing
// array is fresh (cannot be shared with the receiver or the argument).
func sliceSeq(f *ssa.Function, v ssa.Value, isRecv, isArg func(ssa.Value) bool, depth int) ([]string, bool) {
	if depth > 8 {
		return []string{"?"}, false
	}
	switch {
	case isRecv(v):
		return []string{"recv"}, false
	case isArg(v):
		return []string{"arg"}, false
	case isNilConst(v):
		return nil, true
	}
	switch x := v.(type) {
	case *ssa.ChangeType:
		return sliceSeq(f, x.X, isRecv, isArg, depth+1)
	case *ssa.Convert:
		return sliceSeq(f, x.X, isRecv, isArg, depth+1)
	case *ssa.MakeSlice:
		if n, ok := constInt(x.Len); ok && n == 0 {
			return nil, true
		}
		// make([]T, len(a)+len(b)) filled by copy(x, a) and copy(x[len(a):], b)
		if sum, ok := x.Len.(*ssa.BinOp); ok && sum.Op == token.ADD {
			lenOf := func(v ssa.Value) ssa.Value {
				if lc, ok := v.(*ssa.Call); ok && builtinName(&lc.Call) == "len" {
					return lc.Call.Args[0]
				}
				return nil
			}
			// the offset of the second copy: len(first source), or the count the first copy returned
			offOf := func(v ssa.Value) ssa.Value {
				if o := lenOf(v); o != nil {
					return o
				}
				if cc, ok := v.(*ssa.Call); ok && builtinName(&cc.Call) == "copy" && cc.Call.Args[0] == ssa.Value(x) {
					return cc.Call.Args[1]
				}
				return nil
			}
			a, b := lenOf(sum.X), lenOf(sum.Y)
			if a != nil && b != nil {
				var first, second ssa.Value
				for _, ref := range referrersOf(x) {
					switch c := ref.(type) {
					case *ssa.Call:
						if builtinName(&c.Call) == "copy" && c.Call.Args[0] == ssa.Value(x) {
							first = c.Call.Args[1]
						}
					case *ssa.Slice:
						if c.X == ssa.Value(x) && c.Low == nil {
							// copy(x[:n], a)
							for _, r2 := range referrersOf(c) {
								if cc, ok := r2.(*ssa.Call); ok && builtinName(&cc.Call) == "copy" && cc.Call.Args[0] == ssa.Value(c) {
									first = cc.Call.Args[1]
								}
							}
						}
						if c.X == ssa.Value(x) && c.Low != nil && c.High == nil {
							for _, r2 := range referrersOf(c) {
								if cc, ok := r2.(*ssa.Call); ok && builtinName(&cc.Call) == "copy" && cc.Call.Args[0] == ssa.Value(c) {
									// offset must be len(first source)
									if off := offOf(c.Low); off != nil {
										second = cc.Call.Args[1]
										_ = off
									}
								}
							}
						}
					}
				}
				if first != nil && second != nil {
					var offOK bool
					for _, ref := range referrersOf(x) {
						if sl, ok := ref.(*ssa.Slice); ok && sl.Low != nil {
							if off := offOf(sl.Low); off != nil && sameValue(off, first) {
								offOK = true
							}
						}
					}
					okLens := (sameValue(a, first) && sameValue(b, second)) || (sameValue(b, first) && sameValue(a, second))
					if offOK && okLens {
						s1, _ := sliceSeq(f, first, isRecv, isArg, depth+1)
						s2, _ := sliceSeq(f, second, isRecv, isArg, depth+1)
						return append(append([]string{}, s1...), s2...), true
					}
				}
			}
		}
		// contents come from copy(x, src) with len(x) == len(src)
		var seq []string
		found := false
		for _, ref := range referrersOf(x) {
			c, ok := ref.(*ssa.Call)
			if !ok || builtinName(&c.Call) != "copy" || c.Call.Args[0] != ssa.Value(x) {
				continue
			}
			src := c.Call.Args[1]
			if lc, ok := x.Len.(*ssa.Call); ok && builtinName(&lc.Call) == "len" && sameValue(lc.Call.Args[0], src) {
				s, _ := sliceSeq(f, src, isRecv, isArg, depth+1)
				seq = s
				found = true
			}
		}
		if !found {
			return []string{"zeros"}, true
		}
		return seq, true
	case *ssa.Slice:
		s, fresh := sliceSeq(f, x.X, isRecv, isArg, depth+1)
		if x.Low == nil && x.High == nil && x.Max == nil {
			return s, fresh
		}
		if x.Low == nil && x.Max != nil && x.High != nil && sameValue(x.Max, x.High) {
			if lc, ok := x.High.(*ssa.Call); ok && builtinName(&lc.Call) == "len" && sameValue(lc.Call.Args[0], x.X) {
				return s, true // x[:len(x):len(x)]: any append reallocates
			}
		}
		return []string{"?"}, false
	case *ssa.Call:
		if builtinName(&x.Call) == "append" {
			a, fresh := sliceSeq(f, x.Call.Args[0], isRecv, isArg, depth+1)
			if len(x.Call.Args) == 1 {
				return a, fresh
			}
			b, _ := sliceSeq(f, x.Call.Args[1], isRecv, isArg, depth+1)
			return append(append([]string{}, a...), b...), fresh
		}
		if isCallTo(&x.Call, "slices.Clone") && len(x.Call.Args) == 1 {
			s, _ := sliceSeq(f, x.Call.Args[0], isRecv, isArg, depth+1)
			return s, true
		}
	case *ssa.Phi:
		var first []string
		allFresh := true
		for i, e := range x.Edges {
			s, fr := sliceSeq(f, e, isRecv, isArg, depth+1)
			if i == 0 {
				first = s
			} else if strings.Join(s, "+") != strings.Join(first, "+") {
				return []string{"?"}, false
			}
			allFresh = allFresh && fr
		}
		return first, allFresh
	}
	return []string{"?"}, false
}

// ruleLevelSlots: a struct of per-level slots (LevelHook, LevelSampler): in method `meth`, every arm
// `case C:` nil-checks and invokes the slot named after C, forwarding the parameters.
func ruleLevelSlots(r *Run, p *Prog, rule, tname, meth, suffix string, levelParam int, opts ...string) {
	wantResult := len(opts) > 0 && opts[0] == "result"
	f := p.Method("", tname, meth)
	if !r.Anchor(f != nil, rule, tname+"."+meth) {
		return
	}
	f = p.View(f, "", nil)
	lc := levelConsts(p)
	byVal := map[int64]string{}
	for n, v := range lc {
		byVal[v] = n
	}
	paths, complete := enumPaths(f, 1, 4000)
	if !complete {
		r.Fail(rule, FnName(f)+"/paths", p.Pos(f.Pos()), "cannot enumerate paths")
		return
	}
	if levelSlotsByTable(r, p, rule, f, paths, lc, byVal, suffix, levelParam, wantResult) {
		return
	}
	arms := map[string]bool{}
	for i, pa := range paths {
		if pa.Infeasible() {
			continue
		}
		var eq *int64
		var nonNil, isNilF []string
		for _, c := range pa.Cmps() {
			if c.Op == token.EQL && isParam(c.X, f, levelParam) {
				if v, ok := constInt(c.Y); ok {
					eq = &v
				}
			}
			if fv, base := loadedField(pa.Resolve(c.X)); fv != nil && isNilConst(c.Y) && (isParam(base, f, 0) || isAllocOfParam(base, f, 0)) {
				if c.Op == token.NEQ {
					nonNil = append(nonNil, fname(fv))
				} else if c.Op == token.EQL {
					isNilF = append(isNilF, fname(fv))
				}
			}
		}
		var called []string
		okFwd := true
		for _, in := range pa.Instrs() {
			if c, ok := in.(*ssa.Call); ok && c.Call.IsInvoke() {
				if fv, base := loadedField(pa.Resolve(c.Call.Value)); fv != nil && (isParam(base, f, 0) || isAllocOfParam(base, f, 0)) {
					called = append(called, fname(fv))
					// forwards the method's own parameters in order
					for k, a := range c.Call.Args {
						if k+1 >= len(f.Params) || a != ssa.Value(f.Params[k+1]) {
							okFwd = false
						}
					}
				}
			}
		}
		cons := fmt.Sprintf("%s/path#%d", FnName(f), i)
		if wantResult {
			// a consulted slot's answer is the answer; without a slot the level is admitted
			okRes := false
			if ret, isRet := pa.Exit.(*ssa.Return); isRet && len(ret.Results) == 1 {
				res := pa.Resolve(ret.Results[0])
				if len(called) == 1 {
					if c, isC := res.(*ssa.Call); isC && c.Call.IsInvoke() {
						if fv, _ := loadedField(pa.Resolve(c.Call.Value)); fv != nil && fname(fv) == called[0] {
							okRes = true
						}
					}
				} else if b, isB := constBool(res); isB && b && len(called) == 0 {
					okRes = true
				}
			}
			r.Ob(rule, cons+"/result", p.Pos(pa.Exit.Pos()), okRes, true, tern(okRes, "returns the consulted slot's answer, or true when no slot applies", "the result is not the consulted sampler's answer / a level without a sampler is not admitted"))
		}
		if eq == nil {
			// level without an arm: nothing may be called
			ok := len(called) == 0
			r.Ob(rule, cons, p.Pos(pa.Exit.Pos()), ok, true, tern(ok, "levels without an arm consult no slot", "a level without an arm consults slot "+strings.Join(called, ",")))
			continue
		}
		cname := byVal[*eq]
		want1 := strings.TrimSuffix(cname, "Level") + suffix
		want2 := cname + suffix
		match := func(n string) bool { return n == want1 || n == want2 }
		var ok bool
		var d string
		switch {
		case len(called) == 1:
			ok = match(called[0]) && len(nonNil) == 1 && nonNil[0] == called[0] && okFwd
			d = fmt.Sprintf("case %s: checks %v, calls %s", cname, nonNil, called[0])
			arms[cname] = true
		case len(called) == 0:
			ok = len(isNilF) == 1 && match(isNilF[0])
			d = fmt.Sprintf("case %s: slot %v is nil, nothing called", cname, isNilF)
		default:
			d = fmt.Sprintf("case %s calls %v", cname, called)
		}
		if !ok {
			d = "level slot mismatch: " + d + " (expected the slot named after the level, nil-checked and invoked with the unmodified parameters)"
		}
		r.Ob(rule, cons, p.Pos(pa.Exit.Pos()), ok, true, d)
	}
	if len(arms) < 5 {
		r.Fail(rule, FnName(f)+"/arms", p.Pos(f.Pos()), fmt.Sprintf("only %d level arms recognised", len(arms)))
	}
}

func isAllocOfParam(base ssa.Value, f *ssa.Function, pidx int) bool {
	al, ok := base.(*ssa.Alloc)
	if !ok {
		return false
	}
	for _, ref := range referrersOf(al) {
		if st, ok := ref.(*ssa.Store); ok && st.Addr == ssa.Value(al) && isParam(st.Val, f, pidx) {
			return true
		}
	}
	return false
}

// levelSlotsByTable: the table form of a per-level dispatch — a local array filled with the
// receiver's slot fields and indexed by an expression of the level (`perLevel[int(lvl)-int(TraceLevel)]`).
// Every path is replayed once per declared level (and one value below and above them) with the
// level parameter fixed; the slot consulted is the one the index evaluates to. Returns false when
// the function has no such table (the switch form is judged by the caller).
func levelSlotsByTable(r *Run, p *Prog, rule string, f *ssa.Function, paths []Path, lc map[string]int64, byVal map[int64]string, suffix string, levelParam int, wantResult bool) bool {
	if levelParam >= len(f.Params) {
		return false
	}
	lvl := f.Params[levelParam]
	slots := map[*ssa.Alloc]map[int64]string{}
	eachInstr(f, func(b *ssa.BasicBlock, i int, in ssa.Instruction) {
		st, ok := in.(*ssa.Store)
		if !ok {
			return
		}
		ia, ok := st.Addr.(*ssa.IndexAddr)
		if !ok {
			return
		}
		al, ok := ia.X.(*ssa.Alloc)
		if !ok {
			return
		}
		k, isC := constInt(ia.Index)
		fv, base := loadedField(st.Val)
		if !isC || fv == nil || !(isParam(base, f, 0) || isAllocOfParam(base, f, 0)) {
			return
		}
		if slots[al] == nil {
			slots[al] = map[int64]string{}
		}
		slots[al][k] = fname(fv)
	})
	if len(slots) != 1 {
		return false
	}
	var table *ssa.Alloc
	for al := range slots {
		table = al
	}
	if len(slots[table]) < 3 {
		return false
	}
	// the table is only written by those constant-index stores
	for _, ref := range referrersOf(table) {
		if ia, ok := ref.(*ssa.IndexAddr); ok {
			for _, r2 := range referrersOf(ia) {
				if st, ok := r2.(*ssa.Store); ok && st.Addr == ssa.Value(ia) {
					if _, isC := constInt(ia.Index); !isC {
						r.Ob(rule, FnName(f)+"/table", p.Pos(st.Pos()), false, true, "the per-level table is written at a computed index")
						return true
					}
				}
			}
		}
	}
	slotOf := func(v ssa.Value, e *miniEnv) (string, bool) {
		ld, ok := v.(*ssa.UnOp)
		if !ok || ld.Op != token.MUL {
			return "", false
		}
		ia, ok := ld.X.(*ssa.IndexAddr)
		if !ok || ia.X != ssa.Value(table) {
			return "", false
		}
		k, ok := e.eval(ia.Index, 0)
		if !ok {
			return "", false
		}
		n, ok := slots[table][k]
		return n, ok
	}
	var vals []int64
	lo, hi := int64(127), int64(-128)
	for _, v := range lc {
		vals = append(vals, v)
		if v < lo {
			lo = v
		}
		if v > hi {
			hi = v
		}
	}
	vals = append(vals, lo-1, hi+1)
	sort.Slice(vals, func(i, j int) bool { return vals[i] < vals[j] })
	arms := map[string]bool{}
	for _, v := range vals {
		cname := byVal[v]
		if cname == "" {
			cname = fmt.Sprintf("level(%d)", v)
		}
		want1 := strings.TrimSuffix(cname, "Level") + suffix
		want2 := cname + suffix
		match := func(n string) bool { return n == want1 || n == want2 }
		hasSlot := false
		for _, n := range slots[table] {
			if match(n) {
				hasSlot = true
			}
		}
		nFeasible, bad := 0, ""
		for _, pa := range paths {
			var env *miniEnv
			var called []string
			okFwd, undecided := true, false
			var callVals []ssa.Value
			feasible := pa.WalkEvalSeeded(map[ssa.Value]int64{lvl: v}, func(bi int, in ssa.Instruction, e *miniEnv) {
				env = e
				c, ok := in.(*ssa.Call)
				if !ok || !c.Call.IsInvoke() {
					return
				}
				n, ok := slotOf(c.Call.Value, e)
				if !ok {
					undecided = true
					return
				}
				called = append(called, n)
				callVals = append(callVals, c.Call.Value)
				for k, a := range c.Call.Args {
					if k+1 >= len(f.Params) || a != ssa.Value(f.Params[k+1]) {
						okFwd = false
					}
				}
			})
			if !feasible || pa.Infeasible() {
				continue
			}
			nFeasible++
			ret, isRet := pa.Exit.(*ssa.Return)
			if !isRet {
				bad = "a path for this level ends in a panic"
				continue
			}
			if undecided {
				bad = "a call on this path is not made on an entry of the per-level table"
				continue
			}
			// nil tests of table entries on this path
			var nonNil, isNil []string
			for _, c := range pa.Cmps() {
				x, y := pa.Resolve(c.X), pa.Resolve(c.Y)
				if isNilConst(x) {
					x, y = y, x
				}
				if !isNilConst(y) || env == nil {
					continue
				}
				if n, ok := slotOf(x, env); ok {
					if c.Op == token.NEQ {
						nonNil = append(nonNil, n)
					} else if c.Op == token.EQL {
						isNil = append(isNil, n)
					}
				}
			}
			switch {
			case len(called) == 0:
				okP := !hasSlot || (len(isNil) == 1 && match(isNil[0]))
				if wantResult && len(ret.Results) == 1 {
					if b, isB := constBool(pa.Resolve(ret.Results[0])); !isB || !b {
						okP = false
					}
				}
				if !okP {
					bad = fmt.Sprintf("a path for this level consults no slot but does not follow from `slot == nil` (nil tests: %v) or does not admit", isNil)
				}
			case len(called) == 1:
				okP := hasSlot && match(called[0]) && okFwd && len(nonNil) == 1 && nonNil[0] == called[0]
				if wantResult && len(ret.Results) == 1 {
					res := pa.Resolve(ret.Results[0])
					c, isC := res.(*ssa.Call)
					if !isC || c.Call.Value != callVals[0] {
						okP = false
					}
				}
				if okP {
					arms[cname] = true
				} else {
					bad = fmt.Sprintf("this level consults slot %s (nil-checked: %v)", called[0], nonNil)
				}
			default:
				bad = fmt.Sprintf("this level consults %v", called)
			}
		}
		ok := bad == "" && nFeasible > 0
		d := fmt.Sprintf("%s (%d): %d feasible path(s); ", cname, v, nFeasible)
		if ok && hasSlot {
			d += "consults exactly the slot named after the level, nil-checked, with the unmodified parameters, and returns its answer; a nil slot admits"
		} else if ok {
			d += "no slot for this level: nothing consulted, admitted"
		} else if nFeasible == 0 {
			d += "no feasible path found (undecided, fail closed)"
		} else {
			d += "level slot mismatch: " + bad
		}
		r.Ob(rule, fmt.Sprintf("%s/level=%s", FnName(f), cname), p.Pos(f.Pos()), ok, true, d)
	}
	nSlots := len(slots[table])
	r.Ob(rule, FnName(f)+"/arms", p.Pos(f.Pos()), len(arms) == nSlots && nSlots >= 5, true, fmt.Sprintf("table form: %d slots in the per-level table, %d of them reached by the level they are named after", nSlots, len(arms)))
	return true
}
