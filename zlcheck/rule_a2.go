package main

// A2 — buffer typestate (token grammar) of the front-end.
//
// Disjunctive forward dataflow over SSA: a configuration maps every buffer cell
// (Event.buf, Array.buf, Logger.context, Context.l.context, []byte SSA values) to ONE
// grammar state; a block holds a set of configurations.  Calls into module functions use
// summaries keyed by the states of all carrier parameters.  See DESIGN.md §3/A2.
//
// Grammar state: a stack string over
//   o object just opened     v object after a complete member     k key written, value owed
//   a array opened, empty     b array after an element            d array after a separator
//   1 exactly one complete value on an empty buffer               T terminated line
//   "" fresh empty buffer   E emptied buffer (x[:0])   N nil/absent buffer   ? unknown

import (
	"fmt"
	"go/token"
	"go/types"
	"os"
	"sort"
	"strings"

	"golang.org/x/tools/go/ssa"
)

const (
	tkKey = iota
	tkValue
	tkBegin
	tkEnd
	tkArrBegin
	tkArrEnd
	tkDelim
	tkEOL
	tkSplice
)

var encKindByName = map[string]int{
	"AppendKey": tkKey, "AppendBeginMarker": tkBegin, "AppendEndMarker": tkEnd,
	"AppendArrayStart": tkArrBegin, "AppendArrayEnd": tkArrEnd, "AppendArrayDelim": tkDelim,
	"AppendLineBreak": tkEOL, "AppendObjectData": tkSplice,
}

func topOf(s string) byte {
	if len(s) == 0 {
		return 0
	}
	return s[len(s)-1]
}

func isEmptyBuf(s string) bool { return s == "" || s == "E" || s == "N" }

type a2 struct {
	r          *Run
	p          *Prog
	sep        bool // JSON: separator and empty-splice sub-rules apply
	encNamed   *types.Named
	bufField   map[*types.Named]string // carrier struct -> name of its []byte field
	event      *types.Named
	array      *types.Named
	logger     *types.Named
	context    *types.Named
	ctxL       string // name of Context's Logger field
	memo       map[string]map[string]a2exit
	inprog     map[string]bool
	alias      map[*ssa.Function]int
	aliasBusy  map[*ssa.Function]bool
	reported   map[string]bool
	spliceSafe int // 0 unknown 1 safe 2 unsafe
	nSumm      int
	nCfg       int
	nTrans     int
	rawSites   int
	recursion  bool
	ruleName   string
}

type a2exit struct {
	cells  []string // state of each pointer-carrier parameter's cell at exit ("" if not a pointer carrier)
	result string   // state of the result ([]byte, value carrier, or pointer carrier's cell); "-" if none
	// flag: for helpers returning (buffer, bool) — "recognised the type", "done" — the constant the
	// second result has on this exit ("T"/"F"), "" when there is none or it is not a constant here:
	// callers branch on it, and the buffer state differs between the two outcomes
	flag string
}

func (e a2exit) key() string { return strings.Join(e.cells, "|") + "=>" + e.result + e.flag }

func newA2(r *Run, p *Prog) *a2 {
	a := &a2{r: r, p: p, sep: p.Spec.Tags != "binary_log", bufField: map[*types.Named]string{},
		memo: map[string]map[string]a2exit{}, inprog: map[string]bool{}, alias: map[*ssa.Function]int{},
		aliasBusy: map[*ssa.Function]bool{}, reported: map[string]bool{}, ruleName: "A2"}
	a.event = p.NamedType("", "Event")
	a.array = p.NamedType("", "Array")
	a.logger = p.NamedType("", "Logger")
	a.context = p.NamedType("", "Context")
	for _, n := range []*types.Named{a.event, a.array, a.logger} {
		if n == nil {
			continue
		}
		st, ok := n.Underlying().(*types.Struct)
		if !ok {
			continue
		}
		cnt := 0
		for i := 0; i < st.NumFields(); i++ {
			if isByteSlice(st.Field(i).Type()) {
				a.bufField[n] = st.Field(i).Name()
				cnt++
			}
		}
		if cnt != 1 {
			delete(a.bufField, n)
		}
	}
	if a.context != nil {
		if st, ok := a.context.Underlying().(*types.Struct); ok {
			for i := 0; i < st.NumFields(); i++ {
				if namedOf(st.Field(i).Type()) == a.logger && !isPointer(st.Field(i).Type()) {
					a.ctxL = st.Field(i).Name()
				}
			}
		}
	}
	if g := p.Global("", "enc"); g != nil {
		a.encNamed = namedOf(derefType(g.Type()))
	}
	return a
}

func (a *a2) ok() bool {
	return a.event != nil && a.array != nil && a.logger != nil && a.context != nil && a.encNamed != nil &&
		a.bufField[a.event] != "" && a.bufField[a.array] != "" && a.bufField[a.logger] != "" && a.ctxL != ""
}

// carrier classification of a type
const (
	cNone = iota
	cBytes
	cPtr // *Event, *Array, *Logger
	cVal // Context, Logger by value
)

func (a *a2) carrier(t types.Type) (kind int, suffix string) {
	if isByteSlice(t) {
		return cBytes, ""
	}
	n := namedOf(t)
	if n == nil {
		return cNone, ""
	}
	ptr := isPointer(t)
	switch n {
	case a.event, a.array:
		if ptr {
			return cPtr, "." + a.bufField[n]
		}
		return cNone, ""
	case a.logger:
		if ptr {
			return cPtr, "." + a.bufField[n]
		}
		return cVal, "." + a.bufField[n]
	case a.context:
		if ptr {
			return cPtr, "." + a.ctxL + "." + a.bufField[a.logger]
		}
		return cVal, "." + a.ctxL + "." + a.bufField[a.logger]
	}
	return cNone, ""
}

func (a *a2) defaults(t types.Type) []string {
	switch namedOf(t) {
	case a.event:
		return []string{"o", "v"}
	case a.array:
		return []string{"a", "b"}
	case a.logger, a.context:
		if namedOf(t) == a.context {
			return []string{"o", "v"}
		}
		return []string{"N", "o", "v"}
	}
	return []string{"?"}
}

// ---------- configurations ----------

type a2cfg struct {
	cells map[string]string
	vals  map[ssa.Value]string
	flags map[*ssa.If]bool
}

func newCfg() *a2cfg {
	return &a2cfg{cells: map[string]string{}, vals: map[ssa.Value]string{}, flags: map[*ssa.If]bool{}}
}

func (c *a2cfg) clone() *a2cfg {
	n := newCfg()
	for k, v := range c.cells {
		n.cells[k] = v
	}
	for k, v := range c.vals {
		n.vals[k] = v
	}
	for k, v := range c.flags {
		n.flags[k] = v
	}
	return n
}

func (c *a2cfg) key() string {
	var parts []string
	for k, v := range c.cells {
		parts = append(parts, k+"="+v)
	}
	for k, v := range c.vals {
		parts = append(parts, "$"+k.Name()+"="+v)
	}
	for k, v := range c.flags {
		parts = append(parts, fmt.Sprintf("!%d=%v", k.Block().Index, v))
	}
	sort.Strings(parts)
	return strings.Join(parts, ";")
}

// ---------- grammar ----------

func (a *a2) valueDone(p string) (string, string) {
	if isEmptyBuf(p) {
		return "1", ""
	}
	switch topOf(p) {
	case 'k':
		return p[:len(p)-1] + "v", ""
	case 'a', 'd':
		return p[:len(p)-1] + "b", ""
	case 'b':
		if !a.sep {
			return p, ""
		}
		return p, "value appended after an array element without a separator"
	case 'o', 'v':
		return p, "value appended in object position without a key"
	case '1':
		return p, "second value appended to a buffer that already holds one complete value"
	case '?':
		return "?", ""
	}
	return p, "value appended in state " + p
}

func (a *a2) valueStartOK(s string) string {
	if isEmptyBuf(s) {
		return ""
	}
	switch topOf(s) {
	case 'k', 'a', 'd', '?':
		return ""
	case 'b':
		if !a.sep {
			return ""
		}
		return "container opened after an array element without a separator"
	case 'o', 'v':
		return "container opened in object position without a key"
	}
	return "container opened in state " + s
}

func (a *a2) apply(kind int, s string) (string, string) {
	if s == "?" {
		return "?", ""
	}
	switch kind {
	case tkKey:
		if t := topOf(s); t == 'o' || t == 'v' {
			return s[:len(s)-1] + "k", ""
		}
		if topOf(s) == 'k' {
			return s, "key appended while the previous key still waits for its value"
		}
		return s, "key appended outside an object (state " + s + ")"
	case tkValue:
		return a.valueDone(s)
	case tkBegin:
		if isEmptyBuf(s) {
			return "o", ""
		}
		if m := a.valueStartOK(s); m != "" {
			return s, m
		}
		if len(s) > 6 {
			return "?", ""
		}
		return s + "o", ""
	case tkArrBegin:
		if isEmptyBuf(s) {
			return "1a", "" // detached in-place array; not used by the repo
		}
		if m := a.valueStartOK(s); m != "" {
			return s, m
		}
		if len(s) > 6 {
			return "?", ""
		}
		return s + "a", ""
	case tkEnd:
		if t := topOf(s); t == 'o' || t == 'v' {
			return a.valueDone(s[:len(s)-1])
		}
		if topOf(s) == 'k' {
			return s, "object closed while a key waits for its value"
		}
		return s, "object end without a matching begin (state " + s + ")"
	case tkArrEnd:
		switch topOf(s) {
		case 'a', 'b':
			if len(s) == 1 {
				return s, "array end on a detached element list"
			}
			return a.valueDone(s[:len(s)-1])
		case 'd':
			if !a.sep {
				return a.valueDone(s[:len(s)-1])
			}
			return s, "array closed right after a separator (trailing comma)"
		}
		return s, "array end without a matching begin (state " + s + ")"
	case tkDelim:
		switch topOf(s) {
		case 'a':
			if len(s) == 1 || !a.sep {
				return s, "" // empty detached element list: AppendArrayDelim adds nothing
			}
			return s, "separator right after the opening bracket of an in-place array"
		case 'b':
			return s[:len(s)-1] + "d", ""
		case 'd':
			if !a.sep {
				return s, ""
			}
			return s, "two separators in a row"
		}
		if isEmptyBuf(s) {
			return "a", "" // first element of a detached list built on an empty buffer
		}
		return s, "array separator outside an array (state " + s + ")"
	case tkEOL:
		if s == "1" {
			return "T", ""
		}
		return s, "line terminator appended to a buffer that is not exactly one closed object (state " + s + ")"
	}
	return s, ""
}

// lenClass: 0 empty, 1 exactly the opening marker, 2 more, -1 unknown
func lenClass(s string) int {
	if isEmptyBuf(s) {
		return 0
	}
	if s == "a" {
		return 0
	}
	if s == "o" {
		return 1
	}
	if s == "?" {
		return -1
	}
	if len(s) > 1 && topOf(s) == 'a' {
		return 2
	}
	return 2
}

// ---------- reporting ----------

func (a *a2) report(f *ssa.Function, pos token.Pos, what, msg string) {
	k := FnName(f) + "|" + what + "|" + msg
	if a.reported[k] {
		return
	}
	a.reported[k] = true
	a.r.Ob(a.ruleName, FnName(f)+"/"+what, a.p.Pos(pos), false, true, msg)
}

// ---------- roots and cells ----------

// aliasParam: index of the parameter the function's pointer result always is (or nil), else -1.
func (a *a2) aliasParam(f *ssa.Function) int {
	if v, ok := a.alias[f]; ok {
		return v
	}
	if a.aliasBusy[f] || f.Blocks == nil {
		return -1
	}
	a.aliasBusy[f] = true
	defer delete(a.aliasBusy, f)
	res := -2
	set := func(k int) {
		if res == -2 {
			res = k
		} else if res != k {
			res = -1
		}
	}
	var resolve func(v ssa.Value, seen map[ssa.Value]bool)
	resolve = func(v ssa.Value, seen map[ssa.Value]bool) {
		if seen[v] {
			return
		}
		seen[v] = true
		switch x := v.(type) {
		case *ssa.Parameter:
			for i, p := range f.Params {
				if p == x {
					set(i)
					return
				}
			}
			set(-1)
		case *ssa.Const:
			if !x.IsNil() {
				set(-1)
			}
		case *ssa.Phi:
			for _, e := range x.Edges {
				resolve(e, seen)
			}
		case *ssa.Call:
			sc := staticCallee(&x.Call)
			if sc != nil && InModule(sc) && len(x.Call.Args) > 0 {
				if k := a.aliasParam(sc); k >= 0 && k < len(x.Call.Args) {
					resolve(x.Call.Args[k], seen)
					return
				}
			}
			set(-1)
		default:
			set(-1)
		}
	}
	sig := f.Signature
	if sig.Results().Len() < 1 {
		res = -1
	} else if k, _ := a.carrier(sig.Results().At(0).Type()); k != cPtr {
		res = -1
	} else {
		eachInstr(f, func(b *ssa.BasicBlock, i int, in ssa.Instruction) {
			if ret, ok := in.(*ssa.Return); ok && len(ret.Results) > 0 {
				resolve(ret.Results[0], map[ssa.Value]bool{})
			}
		})
	}
	if res == -2 {
		res = -1
	}
	a.alias[f] = res
	return res
}

// rootKey names the object a pointer value designates.
func (a *a2) rootKey(v ssa.Value) string {
	for depth := 0; depth < 10; depth++ {
		switch x := v.(type) {
		case *ssa.Parameter:
			return "p:" + x.Name()
		case *ssa.Alloc:
			return "alloc:" + x.Name()
		case *ssa.FreeVar:
			return "fv:" + x.Name()
		case *ssa.Global:
			return "g:" + x.Name()
		case *ssa.ChangeType:
			v = x.X
			continue
		case *ssa.Call:
			if sc := staticCallee(&x.Call); sc != nil && InModule(sc) {
				if k := a.aliasParam(sc); k >= 0 && k < len(x.Call.Args) {
					v = x.Call.Args[k]
					continue
				}
			}
			return "call:" + x.Name()
		case *ssa.FieldAddr:
			fv := fieldVar(x)
			if fv == nil {
				return "?:" + x.Name()
			}
			return a.rootKey(x.X) + "." + fv.Name()
		default:
			return "v:" + v.Name()
		}
	}
	return "v:" + v.Name()
}

// ---------- the per-function analysis ----------

type a2run struct {
	a       *a2
	f       *ssa.Function
	tracked []int    // carrier kind per parameter
	suffix  []string // per parameter
	exits   map[string]a2exit
	public  bool
	dynVals map[string]ssa.Value // "dyn:v:<name>" → the interface value the fact is about
}

// dynKey: configuration cell holding what is known about the dynamic type of the interface
// value v (a '|'-separated set of type strings): a type switch in a caller followed by a second
// switch on the same value in a helper must not be treated as if the helper's switch could fall
// through all its cases.
func (r *a2run) dynKey(v ssa.Value) string {
	v = stripChange(v)
	if p, ok := v.(*ssa.Parameter); ok {
		return "dyn:p:" + p.Name()
	}
	k := "dyn:v:" + v.Name()
	if r.dynVals == nil {
		r.dynVals = map[string]ssa.Value{}
	}
	r.dynVals[k] = v
	return k
}

func (a *a2) trackedParams(f *ssa.Function) ([]int, []string) {
	ks := make([]int, len(f.Params))
	ss := make([]string, len(f.Params))
	for i, p := range f.Params {
		ks[i], ss[i] = a.carrier(p.Type())
	}
	return ks, ss
}

// summary analyses f under the given entry states (one per parameter, "" for untracked).
func (a *a2) summary(f *ssa.Function, entry []string) map[string]a2exit {
	key := f.String() + "|" + strings.Join(entry, ",")
	if s, ok := a.memo[key]; ok {
		return s
	}
	if a.inprog[key] {
		a.recursion = true
		return map[string]a2exit{}
	}
	a.inprog[key] = true
	run := &a2run{a: a, f: f, exits: map[string]a2exit{}}
	run.tracked, run.suffix = a.trackedParams(f)
	run.exec(entry)
	delete(a.inprog, key)
	a.memo[key] = run.exits
	a.nSumm++
	return run.exits
}

type a2item struct {
	b   *ssa.BasicBlock
	cfg *a2cfg
}

func (r *a2run) exec(entry []string) {
	f := r.f
	if len(f.Blocks) == 0 {
		return
	}
	c0 := newCfg()
	for i, p := range f.Params {
		switch r.tracked[i] {
		case cBytes, cVal:
			c0.vals[p] = entry[i]
		case cPtr:
			c0.cells["p:"+p.Name()+r.suffix[i]] = entry[i]
		default:
			if i < len(entry) && strings.HasPrefix(entry[i], "dyn=") {
				c0.cells[r.dynKey(p)] = strings.TrimPrefix(entry[i], "dyn=")
			}
		}
	}
	seen := map[*ssa.BasicBlock]map[string]bool{}
	work := []a2item{{f.Blocks[0], c0}}
	seen[f.Blocks[0]] = map[string]bool{c0.key(): true}
	steps := 0
	for len(work) > 0 {
		it := work[len(work)-1]
		work = work[:len(work)-1]
		steps++
		if steps > 200000 {
			r.a.report(f, f.Pos(), "budget", "typestate analysis did not converge within its budget (undecided, fail closed)")
			return
		}
		cfgs := []*a2cfg{it.cfg}
		for _, in := range it.b.Instrs {
			var next []*a2cfg
			for _, c := range cfgs {
				next = append(next, r.transfer(c, in)...)
			}
			cfgs = next
			r.a.nTrans++
			if len(cfgs) == 0 {
				break
			}
		}
		for _, c := range cfgs {
			for si, s := range it.b.Succs {
				nc := r.edge(c, it.b, si, s)
				if nc == nil {
					continue
				}
				k := nc.key()
				if seen[s] == nil {
					seen[s] = map[string]bool{}
				}
				if seen[s][k] {
					continue
				}
				if len(seen[s]) > 400 {
					r.a.report(f, f.Pos(), "budget", "more than 400 configurations at one block (undecided, fail closed)")
					return
				}
				seen[s][k] = true
				r.a.nCfg++
				work = append(work, a2item{s, nc})
			}
		}
	}
}

// stateOf: abstract state of a []byte / value-carrier SSA value in configuration c ("" + false if unknown)
func (r *a2run) stateOf(c *a2cfg, v ssa.Value) (string, bool) {
	if s, ok := c.vals[v]; ok {
		return s, true
	}
	switch x := v.(type) {
	case *ssa.Const:
		if x.IsNil() && isByteSlice(x.Type()) {
			return "N", true
		}
	case *ssa.ChangeType:
		return r.stateOf(c, x.X)
	}
	return "", false
}

// loadCell returns forks of c with the cell's state determined.
func (r *a2run) loadCell(c *a2cfg, key string, t types.Type, baseRoot ssa.Value) []struct {
	c *a2cfg
	s string
} {
	type res = struct {
		c *a2cfg
		s string
	}
	if s, ok := c.cells[key]; ok {
		return []res{{c, s}}
	}
	defs := r.a.defaults(t)
	var out []res
	for _, d := range defs {
		n := c.clone()
		n.cells[key] = d
		out = append(out, res{n, d})
	}
	return out
}

// cellOfPointer: the key (with suffix) of the buffer cell behind a pointer-carrier value.
func (r *a2run) cellOfPointer(v ssa.Value) (string, bool) {
	k, suf := r.a.carrier(v.Type())
	if k != cPtr {
		return "", false
	}
	return r.a.rootKey(v) + suf, true
}

func (r *a2run) transfer(c *a2cfg, in ssa.Instruction) []*a2cfg {
	a := r.a
	one := []*a2cfg{c}
	switch x := in.(type) {
	case *ssa.UnOp:
		if x.Op != token.MUL {
			return one
		}
		k, suf := a.carrier(x.Type())
		if k == cBytes {
			if _, ok := x.X.(*ssa.FieldAddr); !ok {
				if _, ok := x.X.(*ssa.Alloc); !ok {
					return one
				}
			}
			key := a.rootKey(x.X)
			var out []*a2cfg
			for _, fk := range r.loadCell(c, key, r.ownerType(x.X), nil) {
				fk.c.vals[x] = fk.s
				out = append(out, fk.c)
			}
			return out
		}
		if k == cVal {
			key := a.rootKey(x.X) + suf
			var out []*a2cfg
			for _, fk := range r.loadCell(c, key, x.Type(), nil) {
				fk.c.vals[x] = fk.s
				out = append(out, fk.c)
			}
			return out
		}
	case *ssa.Store:
		k, suf := a.carrier(x.Val.Type())
		if k == cBytes {
			key := a.rootKey(x.Addr)
			if s, ok := r.stateOf(c, x.Val); ok {
				if ot := r.ownerType(x.Addr); ot != nil && namedOf(ot) == a.array && isEmptyBuf(s) {
					s = "a" // an emptied Array buffer is an empty element list
				}
				c.cells[key] = s
			} else {
				c.cells[key] = "?"
			}
		} else if k == cVal {
			key := a.rootKey(x.Addr) + suf
			if s, ok := r.stateOf(c, x.Val); ok {
				c.cells[key] = s
			} else {
				c.cells[key] = "?"
			}
		}
	case *ssa.Field:
		if k, _ := a.carrier(x.Type()); k == cBytes || k == cVal {
			if s, ok := r.stateOf(c, x.X); ok {
				c.vals[x] = s
			}
		}
	case *ssa.Slice:
		if isByteSlice(x.Type()) {
			if hi, ok := constInt(x.High); ok && x.High != nil && hi == 0 && x.Low == nil {
				c.vals[x] = "E"
			} else if s, ok := r.stateOf(c, x.X); ok {
				if x.Low == nil && x.High == nil {
					c.vals[x] = s
				} else {
					c.vals[x] = "?"
				}
			}
		}
	case *ssa.MakeSlice:
		if isByteSlice(x.Type()) {
			c.vals[x] = ""
		}
	case *ssa.ChangeType:
		if s, ok := r.stateOf(c, x.X); ok {
			c.vals[x] = s
		}
	case *ssa.Return:
		r.doReturn(c, x)
	case *ssa.Call:
		return r.doCall(c, x)
	}
	return one
}

// ownerType: the carrier struct type owning the []byte field at addr (for defaults).
func (r *a2run) ownerType(addr ssa.Value) types.Type {
	if fa, ok := addr.(*ssa.FieldAddr); ok {
		return derefType(fa.X.Type())
	}
	return nil
}

func (r *a2run) doReturn(c *a2cfg, ret *ssa.Return) {
	a := r.a
	ex := a2exit{cells: make([]string, len(r.f.Params)), result: "-"}
	for i, p := range r.f.Params {
		if r.tracked[i] == cPtr {
			if s, ok := c.cells["p:"+p.Name()+r.suffix[i]]; ok {
				ex.cells[i] = s
			}
		}
	}
	if len(ret.Results) == 2 && isBoolType(ret.Results[1].Type()) {
		if b, ok := constBool(ret.Results[1]); ok {
			ex.flag = tern(b, "T", "F")
		} else if st, ok := c.vals[ret.Results[1]]; ok && strings.HasPrefix(st, "b:") {
			ex.flag = st[2:]
		}
	}
	if len(ret.Results) > 0 {
		v := ret.Results[0]
		k, suf := a.carrier(v.Type())
		switch k {
		case cBytes, cVal:
			if s, ok := r.stateOf(c, v); ok {
				ex.result = s
			} else {
				ex.result = "?"
			}
		case cPtr:
			if isNilConst(v) {
				ex.result = "nil"
			} else if s, ok := c.cells[a.rootKey(v)+suf]; ok {
				ex.result = s
			} else {
				ex.result = "*" // unknown object: callers use defaults
			}
		}
	}
	r.exits[ex.key()] = ex
}

// edge applies branch refinement, the last-iteration flags, phi transfer and dead-value pruning.
func (r *a2run) edge(c *a2cfg, b *ssa.BasicBlock, si int, s *ssa.BasicBlock) *a2cfg {
	a := r.a
	nc := c
	if ifi, ok := b.Instrs[len(b.Instrs)-1].(*ssa.If); ok {
		pol := si == 0
		// flags from the last-iteration idiom
		if want, has := c.flags[ifi]; has {
			if want != pol {
				return nil
			}
			nc = c.clone()
			delete(nc.flags, ifi)
		}
		if hdr := lastIterGuard(ifi); hdr != nil {
			if nc == c {
				nc = c.clone()
			}
			nc.flags[hdr] = pol // guard true => next header test true (continue)
		}
		if keep, upd := r.refine(nc, ifi, pol); !keep {
			return nil
		} else if upd != nil {
			nc = upd
		}
	}
	out := newCfg()
	for k, v := range nc.cells {
		if strings.HasPrefix(k, "dyn:v:") {
			if dv, ok := r.dynVals[k]; ok {
				if in, isIn := dv.(ssa.Instruction); isIn && in.Block() != nil && (in.Block() == s || !in.Block().Dominates(s)) {
					continue
				}
			}
		}
		out.cells[k] = v
	}
	for k, v := range nc.flags {
		out.flags[k] = v
	}
	for v, st := range nc.vals {
		if in, ok := v.(ssa.Instruction); ok && in.Block() != nil {
			// a value defined in s itself is recomputed on entry; one defined in a block that
			// does not dominate s is dead there
			if in.Block() == s || !in.Block().Dominates(s) {
				continue
			}
		}
		out.vals[v] = st
	}
	// phis of s
	pi := -1
	for i, p := range s.Preds {
		if p == b {
			pi = i
		}
	}
	for _, in := range s.Instrs {
		phi, ok := in.(*ssa.Phi)
		if !ok {
			break
		}
		if pi < 0 {
			continue
		}
		e := phi.Edges[pi]
		if isBoolType(phi.Type()) {
			if b, ok := constBool(e); ok {
				out.vals[phi] = "b:" + tern(b, "T", "F")
			} else if st, ok := nc.vals[e]; ok && strings.HasPrefix(st, "b:") {
				out.vals[phi] = st
			} else {
				delete(out.vals, phi)
			}
			continue
		}
		k, suf := a.carrier(phi.Type())
		switch k {
		case cBytes, cVal:
			if st, ok := r.stateOf(nc, e); ok {
				out.vals[phi] = st
			} else {
				delete(out.vals, phi)
			}
		case cPtr:
			dst := "v:" + phi.Name() + suf
			if isNilConst(e) {
				delete(out.cells, dst)
				continue
			}
			if st, ok := nc.cells[a.rootKey(e)+suf]; ok {
				out.cells[dst] = st
			} else {
				delete(out.cells, dst)
			}
		}
	}
	return out
}

// lastIterGuard recognises `if i < len(x)-1` inside `for i := range x` (go/ssa's rangeindex
// loop) and returns the loop header's If whose outcome in the next iteration it determines.
func lastIterGuard(g *ssa.If) *ssa.If {
	bo, ok := g.Cond.(*ssa.BinOp)
	if !ok || bo.Op != token.LSS {
		return nil
	}
	sub, ok := bo.Y.(*ssa.BinOp)
	if !ok || sub.Op != token.SUB {
		return nil
	}
	if n, ok := constInt(sub.Y); !ok || n != 1 {
		return nil
	}
	lenOf := func(v ssa.Value) ssa.Value {
		c, ok := v.(*ssa.Call)
		if !ok || builtinName(&c.Call) != "len" {
			return nil
		}
		return c.Call.Args[0]
	}
	x := lenOf(sub.X)
	if x == nil {
		return nil
	}
	if _, isSlice := x.Type().Underlying().(*types.Slice); !isSlice {
		return nil
	}
	idx, ok := bo.X.(*ssa.BinOp)
	if !ok || idx.Op != token.ADD {
		return nil
	}
	if n, ok := constInt(idx.Y); !ok || n != 1 {
		return nil
	}
	phi, ok := idx.X.(*ssa.Phi)
	if !ok || phi.Block() != idx.Block() {
		return nil
	}
	hb := phi.Block()
	for i, e := range phi.Edges {
		if hb.Dominates(hb.Preds[i]) { // back edge
			if e != ssa.Value(idx) {
				return nil
			}
		}
	}
	hif, ok := hb.Instrs[len(hb.Instrs)-1].(*ssa.If)
	if !ok {
		return nil
	}
	hc, ok := hif.Cond.(*ssa.BinOp)
	if !ok || hc.Op != token.LSS || hc.X != ssa.Value(idx) || lenOf(hc.Y) != x {
		return nil
	}
	// the guard must be inside the loop
	if !hb.Dominates(g.Block()) {
		return nil
	}
	return hif
}

// refine evaluates length / nil tests on tracked values; returns keep=false to drop the edge.
func (r *a2run) refine(c *a2cfg, ifi *ssa.If, pol bool) (bool, *a2cfg) {
	cond := ifi.Cond
	for {
		if u, ok := cond.(*ssa.UnOp); ok && u.Op == token.NOT {
			cond = u.X
			pol = !pol
			continue
		}
		break
	}
	if st, ok := c.vals[cond]; ok && strings.HasPrefix(st, "b:") {
		// the boolean a (buffer, bool) helper returned on this configuration's exit
		return (st == "b:T") == pol, nil
	}
	if ex, isEx := cond.(*ssa.Extract); isEx && ex.Index == 1 {
		if ta, isTA := ex.Tuple.(*ssa.TypeAssert); isTA && ta.CommaOk {
			if _, isIface := ta.X.Type().Underlying().(*types.Interface); isIface {
				key := r.dynKey(ta.X)
				t := types.TypeString(ta.AssertedType, nil)
				have := c.cells[key]
				var set []string
				if have != "" {
					set = strings.Split(have, "|")
				}
				in := false
				for _, x := range set {
					if x == t {
						in = true
					}
				}
				_, assertsIface := ta.AssertedType.Underlying().(*types.Interface)
				if pol {
					if have != "" && !in && !assertsIface {
						return false, nil // the value is known to have another concrete type
					}
					if assertsIface || have == "" {
						// facts are only refined, never started here: they originate at call sites
						// (knownDynTypes), which keeps the number of configurations small
						return true, nil
					}
					nc := c.clone()
					nc.cells[key] = t
					return true, nc
				}
				if have != "" && in {
					var rest []string
					for _, x := range set {
						if x != t {
							rest = append(rest, x)
						}
					}
					if len(rest) == 0 {
						return false, nil // it has exactly this type: the assertion cannot fail
					}
					nc := c.clone()
					nc.cells[key] = strings.Join(rest, "|")
					return true, nc
				}
				return true, nil
			}
		}
	}
	bo, ok := cond.(*ssa.BinOp)
	if !ok {
		return true, nil
	}
	op := bo.Op
	if !pol {
		op = negateOp(op)
	}
	x, y := bo.X, bo.Y
	if _, isC := x.(*ssa.Const); isC {
		x, y = y, x
		op = swapOp(op)
	}
	// pointer carrier nil tests: only the first tracked parameter is pruned
	if isNilConst(y) {
		if p, ok := stripChange(x).(*ssa.Parameter); ok {
			first := -1
			for i := range r.f.Params {
				if r.tracked[i] != cNone {
					first = i
					break
				}
			}
			if first >= 0 && r.f.Params[first] == p && r.tracked[first] == cPtr && op == token.EQL {
				return false, nil
			}
		}
		if s, ok := r.stateOf(c, x); ok && isByteSlice(x.Type()) {
			isNil := s == "N"
			maybeNil := s == "N" || s == "?"
			if op == token.EQL && !maybeNil {
				return false, nil
			}
			if op == token.NEQ && isNil {
				return false, nil
			}
		}
		return true, nil
	}
	n, isNum := constInt(y)
	call, isCall := x.(*ssa.Call)
	if !isNum || !isCall || builtinName(&call.Call) != "len" {
		return true, nil
	}
	arg := call.Call.Args[0]
	s, ok := r.stateOf(c, arg)
	if !ok {
		return true, nil
	}
	lc := lenClass(s)
	if lc < 0 {
		return true, nil
	}
	// evaluate `len op n` for class lc (2 means ">= 2")
	eval := func(l int, exact bool) (res bool, known bool) {
		switch op {
		case token.GTR:
			if exact {
				return int64(l) > n, true
			}
			if n < 2 {
				return true, true
			}
		case token.GEQ:
			if exact {
				return int64(l) >= n, true
			}
			if n <= 2 {
				return true, true
			}
		case token.LSS:
			if exact {
				return int64(l) < n, true
			}
			if n <= 2 {
				return false, true
			}
		case token.LEQ:
			if exact {
				return int64(l) <= n, true
			}
			if n < 2 {
				return false, true
			}
		case token.EQL:
			if exact {
				return int64(l) == n, true
			}
			if n < 2 {
				return false, true
			}
		case token.NEQ:
			if exact {
				return int64(l) != n, true
			}
			if n < 2 {
				return true, true
			}
		}
		return false, false
	}
	res, known := eval(lc, lc < 2)
	if known && !res {
		return false, nil
	}
	return true, nil
}

func (r *a2run) encKind(sc *ssa.Function) (int, bool) {
	if sc == nil || sc.Signature.Recv() == nil {
		return 0, false
	}
	if namedOf(sc.Signature.Recv().Type()) != r.a.encNamed {
		return 0, false
	}
	if !isAppenderSigRecv(sc.Signature) {
		return 0, false
	}
	if k, ok := encKindByName[sc.Name()]; ok {
		return k, true
	}
	return tkValue, true
}

// isAppenderSigRecv: method (recv) func(dst []byte, ...) []byte
func isAppenderSigRecv(sig *types.Signature) bool {
	return sig.Params().Len() >= 1 && isByteSlice(sig.Params().At(0).Type()) &&
		sig.Results().Len() == 1 && isByteSlice(sig.Results().At(0).Type())
}

func (r *a2run) doCall(c *a2cfg, call *ssa.Call) []*a2cfg {
	a := r.a
	com := &call.Call
	one := []*a2cfg{c}
	if bn := builtinName(com); bn != "" {
		switch bn {
		case "append":
			if !isByteSlice(call.Type()) {
				return one
			}
			return r.doAppend(c, call)
		case "copy":
			// copy(dst, src): a fresh buffer made with len(src) becomes a copy of src
			if len(com.Args) == 2 && isByteSlice(com.Args[0].Type()) {
				if ds, ok := r.stateOf(c, com.Args[0]); ok && ds == "" {
					if ss, ok := r.stateOf(c, com.Args[1]); ok {
						c.vals[com.Args[0]] = ss
						if ld, ok := com.Args[0].(*ssa.UnOp); ok && ld.Op == token.MUL {
							c.cells[a.rootKey(ld.X)] = ss
						}
					}
				}
			}
		}
		return one
	}
	sc := staticCallee(com)
	// encoder primitives
	if k, ok := r.encKind(sc); ok {
		args := com.Args
		if len(args) < 2 {
			return one
		}
		dst, ok := r.stateOf(c, args[1])
		if !ok {
			c.vals[call] = "?"
			return one
		}
		if k == tkSplice {
			return r.doSplice(c, call, dst, args)
		}
		ns, msg := a.apply(k, dst)
		if msg != "" {
			a.report(r.f, call.Pos(), sc.Name(), sc.Name()+": "+msg)
			return nil
		}
		c.vals[call] = ns
		return one
	}
	if com.IsInvoke() || sc == nil {
		return r.doDynamic(c, call)
	}
	if !InModule(sc) {
		// external appender on a tracked buffer counts as one value (e.g. strconv.AppendInt)
		if len(com.Args) > 0 && isByteSlice(call.Type()) {
			if dst, ok := r.stateOf(c, com.Args[0]); ok && isAppenderSig(sc.Signature) {
				ns, msg := a.apply(tkValue, dst)
				if msg != "" {
					a.report(r.f, call.Pos(), "ext:"+sc.Name(), sc.Name()+": "+msg)
					return nil
				}
				c.vals[call] = ns
			}
		}
		return one
	}
	if sc.Blocks == nil {
		return one
	}
	// pre-encoded channels: value primitives (their interior belongs to A4)
	if (sc.Name() == "appendJSON" || sc.Name() == "appendCBOR") && sc.Signature.Recv() == nil && isAppenderSig(sc.Signature) {
		if dst, ok := r.stateOf(c, com.Args[0]); ok {
			ns, msg := a.apply(tkValue, dst)
			if msg != "" {
				a.report(r.f, call.Pos(), sc.Name(), sc.Name()+": "+msg)
				return nil
			}
			c.vals[call] = ns
		}
		return one
	}
	return r.doSummaryCall(c, call, sc)
}

func (r *a2run) doAppend(c *a2cfg, call *ssa.Call) []*a2cfg {
	a := r.a
	com := &call.Call
	dst, ok := r.stateOf(c, com.Args[0])
	if !ok {
		return []*a2cfg{c}
	}
	if len(com.Args) < 2 {
		c.vals[call] = dst
		return []*a2cfg{c}
	}
	xs, known := r.stateOf(c, com.Args[1])
	if !known {
		// raw bytes that are not a tracked buffer: one value by contract; A4 decides whether
		// such a site is allowed at all in the front-end
		a.rawSites++
		a.r.Ob("A4raw", FnName(r.f)+"/raw-append", a.p.Pos(call.Pos()), false, true,
			"raw append of "+descr(com.Args[1])+" onto a log buffer outside the escaping appenders: caller-supplied bytes can reach the output unescaped")
		ns, msg := a.apply(tkValue, dst)
		if msg != "" {
			a.report(r.f, call.Pos(), "append", "raw append: "+msg)
			return nil
		}
		c.vals[call] = ns
		return []*a2cfg{c}
	}
	var ns, msg string
	switch {
	case xs == "?" || dst == "?":
		ns = "?"
	case xs == "1":
		ns, msg = a.apply(tkValue, dst)
	case xs == "a" || isEmptyBuf(xs):
		ns = dst
	case xs == "b" && topOf(dst) == 'a' && len(dst) > 1:
		ns = dst[:len(dst)-1] + "b"
	case (xs == "o" || xs == "v") && isEmptyBuf(dst):
		ns = xs
	default:
		msg = fmt.Sprintf("a buffer in state %q is appended onto a buffer in state %q", xs, dst)
	}
	if msg != "" {
		a.report(r.f, call.Pos(), "append", "append: "+msg)
		return nil
	}
	c.vals[call] = ns
	return []*a2cfg{c}
}

func (r *a2run) doSplice(c *a2cfg, call *ssa.Call, dst string, args []ssa.Value) []*a2cfg {
	a := r.a
	if len(args) < 3 {
		return []*a2cfg{c}
	}
	o, ok := r.stateOf(c, args[2])
	if !ok {
		o = "?"
	}
	if dst == "?" || o == "?" {
		c.vals[call] = "?"
		return []*a2cfg{c}
	}
	if t := topOf(dst); (t != 'o' && t != 'v') || len(dst) != 1 {
		a.report(r.f, call.Pos(), "AppendObjectData", "object data spliced into a buffer that is not a top-level object prefix (state "+dst+")")
		return nil
	}
	switch o {
	case "v":
		c.vals[call] = "v"
	case "o":
		if dst == "v" && a.sep && !a.spliceEmptySafe() {
			a.report(r.f, call.Pos(), "AppendObjectData", "an object that may be empty is spliced after existing members: AppendObjectData appends a separator and nothing after it (dangling ',')")
			return nil
		}
		c.vals[call] = dst
	default:
		a.report(r.f, call.Pos(), "AppendObjectData", "the spliced buffer is not an object prefix (state "+o+")")
		return nil
	}
	return []*a2cfg{c}
}

// spliceEmptySafe: in the JSON encoder's AppendObjectData every append of ',' is guarded so that an
// object consisting of the opening brace alone contributes nothing, and no ',' follows a bare '{'.
func (a *a2) spliceEmptySafe() bool {
	if a.spliceSafe != 0 {
		return a.spliceSafe == 1
	}
	a.spliceSafe = 2
	var fn *ssa.Function
	ms := a.p.SSA.MethodSets.MethodSet(a.encNamed)
	for i := 0; i < ms.Len(); i++ {
		if ms.At(i).Obj().Name() == "AppendObjectData" {
			fn = a.p.SSA.MethodValue(ms.At(i))
		}
	}
	if fn == nil || fn.Blocks == nil || len(fn.Params) < 3 {
		return false
	}
	fn = a.p.View(fn, "", nil)
	dstP, oP := fn.Params[1], fn.Params[2]
	commas := 0
	ok := true
	// the operand of len() is read along the path: `fields := withoutOpeningBrace(o)` is a phi of o
	// and o[1:]
	var curPath Path
	isLenOf := func(v ssa.Value, p ssa.Value) bool {
		cc, ok := v.(*ssa.Call)
		return ok && builtinName(&cc.Call) == "len" && curPath.Resolve(cc.Call.Args[0]) == p
	}
	// len(o[1:]): what is left of the spliced object after its opening brace
	isLenOfRest := func(v ssa.Value) bool {
		cc, ok := v.(*ssa.Call)
		if !ok || builtinName(&cc.Call) != "len" {
			return false
		}
		sl, ok := curPath.Resolve(cc.Call.Args[0]).(*ssa.Slice)
		if !ok || sl.X != ssa.Value(oP) || sl.High != nil {
			return false
		}
		lo, isLo := constInt(sl.Low)
		return isLo && lo == 1
	}
	paths, complete := enumPaths(fn, 1, 2000)
	if !complete {
		ok = false
	}
	for _, pa := range paths {
		curPath = pa
		if pa.Infeasible() {
			continue
		}
		for _, in := range pa.Instrs() {
			c, isCall := in.(*ssa.Call)
			if !isCall || builtinName(&c.Call) != "append" || len(c.Call.Args) < 2 || !appendsConstByte(c, ',') {
				continue
			}
			commas++
			cs := pa.Cmps()
			oNonEmpty := hasCmp(cs, func(op token.Token, x, y ssa.Value) bool {
				n, isN := constInt(y)
				if isN && isLenOf(x, oP) {
					return (op == token.NEQ && n == 1) || (op == token.GTR && n >= 1) || (op == token.GEQ && n >= 2)
				}
				if isN && isLenOfRest(x) {
					return (op == token.NEQ && n == 0) || (op == token.GTR && n >= 0) || (op == token.GEQ && n >= 1)
				}
				// o[0] != '{'
				if isN && n == '{' && op == token.NEQ {
					if u, ok := x.(*ssa.UnOp); ok && u.Op == token.MUL {
						if ia, ok := u.X.(*ssa.IndexAddr); ok && ia.X == ssa.Value(oP) {
							if k, ok := constInt(ia.Index); ok && k == 0 {
								return true
							}
						}
					}
				}
				return false
			})
			dstNonBare := hasCmp(cs, func(op token.Token, x, y ssa.Value) bool {
				n, isN := constInt(y)
				return isN && isLenOf(x, dstP) && ((op == token.GTR && n >= 1) || (op == token.GEQ && n >= 2))
			})
			if !oNonEmpty || !dstNonBare {
				ok = false
			}
		}
	}
	if ok {
		a.spliceSafe = 1
	}
	a.r.Ob(a.ruleName, "json.AppendObjectData/empty-splice", a.p.Pos(fn.Pos()), true, true,
		fmt.Sprintf("%d separator append(s) examined; empty-object-safe=%v", commas, ok))
	return ok
}

// appendsConstByte: append(x, c) / append(x, "c"...) with the single constant byte c
func appendsConstByte(c *ssa.Call, b byte) bool {
	args := c.Call.Args
	if len(args) != 2 {
		return false
	}
	if s, ok := constString(args[1]); ok {
		return s == string([]byte{b})
	}
	// variadic: slice of a new array with stores of constants
	sl, ok := args[1].(*ssa.Slice)
	if !ok {
		return false
	}
	al, ok := sl.X.(*ssa.Alloc)
	if !ok {
		return false
	}
	n := 0
	match := false
	for _, ref := range referrersOf(al) {
		if ia, ok := ref.(*ssa.IndexAddr); ok {
			for _, r2 := range referrersOf(ia) {
				if st, ok := r2.(*ssa.Store); ok {
					n++
					if v, ok := constInt(st.Val); ok && v == int64(b) {
						match = true
					}
				}
			}
		}
	}
	return n == 1 && match
}

// doDynamic: calls into user code (marshalers, hooks, callbacks) and the writer.
func (r *a2run) doDynamic(c *a2cfg, call *ssa.Call) []*a2cfg {
	a := r.a
	com := &call.Call
	name := "func value"
	if com.IsInvoke() {
		name = com.Method.Name()
	}
	// the writer: the buffer handed over must be a terminated line
	if com.IsInvoke() && (name == "WriteLevel" || name == "Write") {
		for _, arg := range com.Args {
			if isByteSlice(arg.Type()) {
				if s, ok := r.stateOf(c, arg); ok && s != "?" {
					if ld, isLoad := arg.(*ssa.UnOp); isLoad {
						if fa, ok := ld.X.(*ssa.FieldAddr); ok && namedOf(fa.X.Type()) == a.event {
							good := s == "T"
							a.r.Ob(a.ruleName, FnName(r.f)+"/writer-sees-"+s, a.p.Pos(call.Pos()), good, true,
								tern(good, "the writer receives a buffer in state T (one closed object, one terminator)", "the writer receives an event buffer in state "+s+" (not exactly one closed object followed by one line terminator)"))
						}
					}
				}
			}
		}
		return []*a2cfg{c}
	}
	out := []*a2cfg{c}
	for _, arg := range com.Args {
		k, suf := a.carrier(arg.Type())
		switch k {
		case cPtr:
			key := a.rootKey(arg) + suf
			var next []*a2cfg
			for _, cc := range out {
				for _, fk := range r.loadCell(cc, key, arg.Type(), nil) {
					for _, ns := range r.contract(fk.s, call, name) {
						n := fk.c.clone()
						n.cells[key] = ns
						next = append(next, n)
					}
				}
			}
			out = next
		case cVal:
			// e.g. update(Context{*l}) returns the Context it was given, possibly with more fields
			if kr, _ := a.carrier(call.Type()); kr == cVal {
				var next []*a2cfg
				for _, cc := range out {
					s, ok := r.stateOf(cc, arg)
					if !ok {
						s = "?"
					}
					for _, ns := range r.contract(s, call, name) {
						n := cc.clone()
						n.vals[call] = ns
						next = append(next, n)
					}
				}
				out = next
			}
		}
	}
	return out
}

// contract: what user code may do to a carrier through the exported API: nothing, or add members/elements.
func (r *a2run) contract(s string, call *ssa.Call, name string) []string {
	switch topOf(s) {
	case 'o':
		return []string{s, s[:len(s)-1] + "v"}
	case 'v', 'b', '?':
		return []string{s}
	case 'a':
		return []string{s, s[:len(s)-1] + "b"}
	case 'd':
		if !r.a.sep {
			return []string{s}
		}
	}
	r.a.report(r.f, call.Pos(), "usercode:"+name, "user code ("+name+") receives a carrier whose buffer is in state "+s+": anything it adds lands in the wrong grammatical position")
	return nil
}

func (r *a2run) doSummaryCall(c *a2cfg, call *ssa.Call, sc *ssa.Function) []*a2cfg {
	a := r.a
	com := &call.Call
	tk, ts := a.trackedParams(sc)
	any := false
	for _, k := range tk {
		if k != cNone {
			any = true
		}
	}
	kr, sufr := a.carrier(call.Type())
	// (buffer, bool) results: the buffer state travels with the tuple (Extract #0 reads it), the
	// boolean with Extract #1
	var tupleExt [2][]*ssa.Extract
	if tup, ok := call.Type().(*types.Tuple); ok && tup.Len() == 2 && isBoolType(tup.At(1).Type()) {
		kr, sufr = a.carrier(tup.At(0).Type())
		for _, ref := range referrersOf(call) {
			if ex, ok := ref.(*ssa.Extract); ok && ex.Index < 2 {
				tupleExt[ex.Index] = append(tupleExt[ex.Index], ex)
			}
		}
	}
	if !any && kr == cNone {
		return []*a2cfg{c}
	}
	// build entry tuples (forking on unknown cells)
	type partial struct {
		c     *a2cfg
		entry []string
	}
	parts := []partial{{c, make([]string, len(tk))}}
	for i, k := range tk {
		if i >= len(com.Args) {
			break
		}
		arg := com.Args[i]
		var next []partial
		for _, pt := range parts {
			switch k {
			case cBytes, cVal:
				s, ok := r.stateOf(pt.c, arg)
				if !ok {
					s = "?"
				}
				e := append([]string{}, pt.entry...)
				e[i] = s
				next = append(next, partial{pt.c, e})
			case cPtr:
				if isNilConst(arg) {
					e := append([]string{}, pt.entry...)
					e[i] = "nil"
					next = append(next, partial{pt.c, e})
					continue
				}
				key := a.rootKey(arg) + ts[i]
				for _, fk := range r.loadCell(pt.c, key, arg.Type(), nil) {
					e := append([]string{}, pt.entry...)
					e[i] = fk.s
					next = append(next, partial{fk.c, e})
				}
			default:
				// what the caller knows about the dynamic type of an interface argument
				if _, isIface := arg.Type().Underlying().(*types.Interface); isIface {
					set := pt.c.cells[r.dynKey(arg)]
					if set == "" {
						set = knownDynTypes(r.f, call, arg)
					}
					if set != "" {
						e := append([]string{}, pt.entry...)
						e[i] = "dyn=" + set
						next = append(next, partial{pt.c, e})
						continue
					}
				}
				next = append(next, pt)
			}
		}
		parts = next
	}
	var out []*a2cfg
	for _, pt := range parts {
		exits := a.summary(sc, pt.entry)
		for _, ex := range exits {
			n := pt.c.clone()
			for i, k := range tk {
				if k == cPtr && i < len(com.Args) && ex.cells[i] != "" && !isNilConst(com.Args[i]) {
					n.cells[a.rootKey(com.Args[i])+ts[i]] = ex.cells[i]
				}
			}
			switch kr {
			case cBytes, cVal:
				if ex.result != "-" {
					n.vals[call] = ex.result
					for _, e0 := range tupleExt[0] {
						n.vals[e0] = ex.result
					}
				}
				if ex.flag != "" {
					for _, e1 := range tupleExt[1] {
						n.vals[e1] = "b:" + ex.flag
					}
				}
			case cPtr:
				if al := a.aliasParam(sc); al < 0 && ex.result != "-" && ex.result != "*" && ex.result != "nil" {
					n.cells["call:"+call.Name()+sufr] = ex.result
				}
			}
			out = append(out, n)
		}
	}
	return out
}

// knownDynTypes: the call executes only after one of the comma-ok assertions `arg.(T_i)` of its
// function succeeded (deleting all their success edges disconnects the call): the dynamic type of
// arg is then one of the T_i whose success edge can reach the call.  "" if nothing is known.
func knownDynTypes(f *ssa.Function, call *ssa.Call, arg ssa.Value) string {
	arg = stripChange(arg)
	type as struct {
		t    string
		blk  *ssa.BasicBlock
		succ int
	}
	var asserts []as
	for _, b := range f.Blocks {
		iff, ok := b.Instrs[len(b.Instrs)-1].(*ssa.If)
		if !ok {
			continue
		}
		cond, pol := iff.Cond, true
		if u, isU := cond.(*ssa.UnOp); isU && u.Op == token.NOT {
			cond, pol = u.X, false
		}
		ex, ok := cond.(*ssa.Extract)
		if !ok || ex.Index != 1 {
			continue
		}
		ta, ok := ex.Tuple.(*ssa.TypeAssert)
		if !ok || !ta.CommaOk || stripChange(ta.X) != arg {
			continue
		}
		if _, isI := ta.AssertedType.Underlying().(*types.Interface); isI {
			continue
		}
		si := 0
		if !pol {
			si = 1
		}
		asserts = append(asserts, as{types.TypeString(ta.AssertedType, nil), b, si})
	}
	if len(asserts) == 0 {
		return ""
	}
	target := func(in ssa.Instruction) bool { return in == ssa.Instruction(call) }
	blocked := func(b *ssa.BasicBlock, si int) bool {
		for _, a := range asserts {
			if a.blk == b && a.succ == si {
				return false
			}
		}
		return true
	}
	if reach, _ := pathExists(f, nil, target, nil, blocked); reach {
		return "" // reachable without any of the assertions having succeeded
	}
	var set []string
	for _, a := range asserts {
		t := a.blk.Succs[a.succ]
		if len(t.Instrs) == 0 {
			continue
		}
		// can the call be reached from this success edge?
		if t == call.Block() {
			set = append(set, a.t)
			continue
		}
		// … without re-evaluating arg on the way (the next loop iteration is another value)
		redef := func(in ssa.Instruction) bool {
			v, isV := in.(ssa.Value)
			return isV && v == arg
		}
		if ok, _ := pathExists(f, t.Instrs[0], target, redef, nil); ok || target(t.Instrs[0]) {
			set = append(set, a.t)
		}
	}
	sort.Strings(set)
	if os.Getenv("ZL_DEBUG_DYN") != "" {
		fmt.Fprintf(os.Stderr, "knownDynTypes %s call %s arg %s: %d asserts -> %v\n", f.Name(), call, arg.Name(), len(asserts), set)
	}
	return strings.Join(set, "|")
}

func isBoolType(t types.Type) bool {
	b, ok := t.Underlying().(*types.Basic)
	return ok && b.Kind() == types.Bool
}
