package main

// A3 — single terminator, single writer call, every finaliser reaches it exactly once.

import (
	"fmt"

	"golang.org/x/tools/go/ssa"
)

// eventWriterCalls finds the invocations on the Event's writer field in package zerolog.
func eventWriterCalls(p *Prog) (sites []*ssa.Call, fns map[*ssa.Function]bool) {
	fns = map[*ssa.Function]bool{}
	for _, f := range p.ModFns {
		if pkgRel(f) != "" {
			continue
		}
		eachInstr(f, func(b *ssa.BasicBlock, i int, in ssa.Instruction) {
			c, ok := in.(*ssa.Call)
			if !ok || !c.Call.IsInvoke() {
				return
			}
			fv, base := loadedField(c.Call.Value)
			if fv == nil || !typeIs(base.Type(), modPath, "Event") {
				return
			}
			sites = append(sites, c)
			fns[f] = true
		})
	}
	return
}

func callersOf(p *Prog, target *ssa.Function, rel string) map[*ssa.Function][]*ssa.Call {
	out := map[*ssa.Function][]*ssa.Call{}
	for _, f := range p.ModFns {
		if rel != "*" && pkgRel(f) != rel {
			continue
		}
		eachInstr(f, func(b *ssa.BasicBlock, i int, in ssa.Instruction) {
			if cc := callCommon(in); cc != nil && staticCallee(cc) == target {
				if c, ok := in.(*ssa.Call); ok {
					out[f] = append(out[f], c)
				} else {
					out[f] = append(out[f], nil)
				}
			}
		})
	}
	return out
}

// callsOnEveryPath: min and max number of calls to target along the entry→return paths of f
// (paths on which the receiver is nil are skipped).
func callsOnPaths(f *ssa.Function, target *ssa.Function) (min, max int, ok bool) {
	paths, complete := enumPaths(f, 1, 5000)
	if !complete {
		return 0, 0, false
	}
	min, max = 1<<30, -1
	for _, pa := range paths {
		nilPath := false
		for _, c := range pa.Cmps() {
			if c.Op.String() == "==" && len(f.Params) > 0 && c.X == ssa.Value(f.Params[0]) && isNilConst(c.Y) {
				nilPath = true
			}
		}
		if nilPath {
			continue
		}
		if _, isPanic := pa.Exit.(*ssa.Panic); isPanic {
			continue
		}
		n := 0
		for _, in := range pa.Instrs() {
			if cc := callCommon(in); cc != nil && staticCallee(cc) == target {
				if _, isCall := in.(*ssa.Call); isCall {
					n++
				} else {
					n += 100 // go/defer of the finaliser: not a plain single call
				}
			}
		}
		if n < min {
			min = n
		}
		if n > max {
			max = n
		}
	}
	if max < 0 {
		return 0, 0, true
	}
	return min, max, true
}

func ruleA3(r *Run, p *Prog) (write, msg *ssa.Function) {
	sites, fns := eventWriterCalls(p)
	ok := len(sites) == 1
	pos := "-"
	if len(sites) > 0 {
		pos = p.Pos(sites[0].Pos())
	}
	r.Ob("A3", "Event.w/invocations", pos, ok, true, fmt.Sprintf("%d invocation site(s) on the event's writer field (exactly one expected: one Write per event)", len(sites)))
	if len(sites) == 0 {
		return nil, nil
	}
	for f := range fns {
		write = f
	}
	inner := write
	var chainBad string
	write, chainBad = climbWriterChain(p, inner)
	if chainBad != "" {
		r.Ob("A3", FnName(write)+"/writer-helper-once", p.Pos(write.Pos()), false, true, chainBad)
	}
	writeSet := p.exclusiveHelpers(write)
	// terminator sites
	nEOL := 0
	for _, f := range p.ModFns {
		if pkgRel(f) != "" {
			continue
		}
		eachInstr(f, func(b *ssa.BasicBlock, i int, in ssa.Instruction) {
			if c, ok := in.(*ssa.Call); ok {
				if o := calleeObj(&c.Call); o != nil && o.Name() == "AppendLineBreak" {
					nEOL++
					r.Ob("A3", FnName(f)+"/AppendLineBreak", p.Pos(c.Pos()), writeSet[f], true, tern(writeSet[f], "line terminator appended in the function that calls the writer", "a line terminator is appended outside the function that hands the event to the writer"))
				}
			}
		})
	}
	r.Ob("A3", "AppendLineBreak/sites", "-", nEOL == 1, true, fmt.Sprintf("%d terminator site(s)", nEOL))
	// the writer call executes at most once per call of write
	if mn, mx, ok := callsOnPathsInvoke(inner, sites[0]); ok {
		r.Ob("A3", FnName(write)+"/writer-once", p.Pos(write.Pos()), mx <= 1, true, fmt.Sprintf("writer invoked between %d and %d times per path", mn, mx))
	}
	// callers of write
	cs := callersOf(p, write, "")
	if len(cs) != 1 {
		r.Ob("A3", FnName(write)+"/callers", p.Pos(write.Pos()), false, true, fmt.Sprintf("%d functions call %s (exactly one expected)", len(cs), FnName(write)))
		return write, nil
	}
	for f := range cs {
		msg = f
	}
	mn, mx, okp := callsOnPaths(msg, write)
	r.Ob("A3", FnName(msg)+"/write-once", p.Pos(msg.Pos()), okp && mn == 1 && mx == 1, true, fmt.Sprintf("%s calls %s between %d and %d times per non-nil path (exactly once expected)", FnName(msg), FnName(write), mn, mx))
	// finalisers: exported Event methods without result that reach msg
	fin := 0
	for _, m := range p.Methods("", "Event", true) {
		calls := false
		eachInstr(m, func(b *ssa.BasicBlock, i int, in ssa.Instruction) {
			if cc := callCommon(in); cc != nil && staticCallee(cc) == msg {
				calls = true
			}
		})
		if !calls {
			continue
		}
		fin++
		mn, mx, okp := callsOnPaths(m, msg)
		good := okp && mn == 1 && mx == 1
		r.Ob("A3", FnName(m)+"/msg-once", p.Pos(m.Pos()), good, true, fmt.Sprintf("finaliser reaches %s between %d and %d times per non-nil path (exactly once expected)", FnName(msg), mn, mx))
	}
	// nobody else calls msg
	for f := range callersOf(p, msg, "*") {
		if f.Signature.Recv() == nil || !typeIs(f.Signature.Recv().Type(), modPath, "Event") {
			r.Ob("A3", FnName(f)+"/calls-msg", p.Pos(f.Pos()), false, true, FnName(f)+" finalises an event directly")
		}
	}
	if fin < 4 {
		r.Fail("A3", "finalisers", "-", fmt.Sprintf("only %d finalisers found (Msg, Msgf, MsgFunc, Send expected)", fin))
	}
	return write, msg
}

func callsOnPathsInvoke(f *ssa.Function, site *ssa.Call) (min, max int, ok bool) {
	paths, complete := enumPaths(f, 2, 5000)
	if !complete {
		return 0, 0, false
	}
	min, max = 1<<30, 0
	for _, pa := range paths {
		n := 0
		for _, in := range pa.Instrs() {
			if in == ssa.Instruction(site) {
				n++
			}
		}
		if n < min {
			min = n
		}
		if n > max {
			max = n
		}
	}
	return min, max, true
}

// climbWriterChain: the writer invocation may sit in a private helper of the function that
// finishes the line; climb through unexported functions that have exactly one caller whose own
// caller is again unique (the function below the one several finalisers call is "write").
func climbWriterChain(p *Prog, inner *ssa.Function) (write *ssa.Function, bad string) {
	write = inner
	for hops := 0; hops < 3; hops++ {
		cs := callersOf(p, write, "")
		if len(cs) != 1 || write.Object() == nil || write.Object().Exported() {
			break
		}
		var up *ssa.Function
		for f := range cs {
			up = f
		}
		ups := callersOf(p, up, "")
		if len(ups) != 1 || up.Object() == nil || up.Object().Exported() {
			break
		}
		if _, mx, ok := callsOnPaths(up, write); !ok || mx > 1 {
			bad = FnName(up) + " can call " + FnName(write) + " more than once per path"
		}
		write = up
	}
	return write, bad
}

// writeAndMsg: the function that hands the event to the writer (with its private helpers) and its
// single caller, the finaliser core.
func writeAndMsg(p *Prog) (write, msg *ssa.Function) {
	_, fns := eventWriterCalls(p)
	if len(fns) != 1 {
		return nil, nil
	}
	for f := range fns {
		write = f
	}
	write, _ = climbWriterChain(p, write)
	cs := callersOf(p, write, "")
	if len(cs) != 1 {
		return write, nil
	}
	for f := range cs {
		msg = f
	}
	return write, msg
}
