package main

// Loader: type-checks /repo's working tree with go/packages under a given
// configuration (build tags, GOARCH) and lowers it to SSA.  Nothing here runs
// zerolog code.

import (
	"fmt"
	"go/token"
	"go/types"
	"os"
	"path/filepath"
	"sort"
	"strings"
	"sync"

	"golang.org/x/tools/go/callgraph"
	"golang.org/x/tools/go/callgraph/cha"
	"golang.org/x/tools/go/callgraph/vta"
	"golang.org/x/tools/go/packages"
	"golang.org/x/tools/go/ssa"
	"golang.org/x/tools/go/ssa/ssautil"
)

const modPath = "github.com/rs/zerolog"

// CfgSpec names one build configuration.
type CfgSpec struct {
	Name   string
	Tags   string
	GOARCH string
	GOOS   string
}

var cfgSpecs = map[string]CfgSpec{
	"J":   {Name: "J", Tags: "", GOARCH: "amd64", GOOS: "linux"},
	"B":   {Name: "B", Tags: "binary_log", GOARCH: "amd64", GOOS: "linux"},
	"J32": {Name: "J32", Tags: "", GOARCH: "386", GOOS: "linux"},
	"B32": {Name: "B32", Tags: "binary_log", GOARCH: "386", GOOS: "linux"},
}

// Prog is one loaded configuration.
type Prog struct {
	Spec    CfgSpec
	Pkgs    []*packages.Package
	Fset    *token.FileSet
	SSA     *ssa.Program
	ByPath  map[string]*ssa.Package
	TPkg    map[string]*packages.Package
	ModFns  []*ssa.Function // every source function of the module (incl. anonymous), sorted
	cgOnce  sync.Once
	cg      *callgraph.Graph
	sizes   types.Sizes
	errs    []string
	repoDir string
}

var (
	progMu    sync.Mutex
	progCache = map[string]*Prog{}
)

func repoDir() string {
	if d := os.Getenv("ZL_REPO"); d != "" {
		return d
	}
	return "/repo"
}

func goEnv(spec CfgSpec) []string {
	env := []string{}
	for _, kv := range os.Environ() {
		k := kv
		if i := strings.IndexByte(kv, '='); i >= 0 {
			k = kv[:i]
		}
		switch k {
		case "GOFLAGS", "GOPROXY", "GOSUMDB", "GOTOOLCHAIN", "GOWORK", "GOARCH", "GOOS", "CGO_ENABLED":
			continue
		}
		env = append(env, kv)
	}
	env = append(env, "GOFLAGS=-mod=mod", "GOPROXY=off", "GOSUMDB=off", "GOTOOLCHAIN=local", "GOWORK=off",
		"GOARCH="+spec.GOARCH, "GOOS="+spec.GOOS, "CGO_ENABLED=0")
	return env
}

// Load loads (or returns the cached) configuration by name. Any failure is fatal
// for the run: a tree that does not type-check cannot be judged.
func Load(name string) (*Prog, error) {
	progMu.Lock()
	defer progMu.Unlock()
	if p, ok := progCache[name]; ok {
		return p, nil
	}
	spec, ok := cfgSpecs[name]
	if !ok {
		return nil, fmt.Errorf("unknown cfg %q", name)
	}
	dir := repoDir()
	cfg := &packages.Config{
		Mode:  packages.LoadAllSyntax,
		Dir:   dir,
		Env:   goEnv(spec),
		Tests: false,
	}
	if spec.Tags != "" {
		cfg.BuildFlags = []string{"-tags=" + spec.Tags}
	}
	pkgs, err := packages.Load(cfg, "./...")
	if err != nil {
		return nil, fmt.Errorf("cfg %s: go/packages: %v", name, err)
	}
	p := &Prog{Spec: spec, Pkgs: pkgs, ByPath: map[string]*ssa.Package{}, TPkg: map[string]*packages.Package{}, repoDir: dir}
	packages.Visit(pkgs, nil, func(pk *packages.Package) {
		for _, e := range pk.Errors {
			p.errs = append(p.errs, e.Error())
		}
	})
	if len(p.errs) > 0 {
		sort.Strings(p.errs)
		return nil, fmt.Errorf("cfg %s: %d load/type errors, first: %s", name, len(p.errs), p.errs[0])
	}
	if len(pkgs) == 0 {
		return nil, fmt.Errorf("cfg %s: no packages loaded", name)
	}
	p.Fset = pkgs[0].Fset
	p.sizes = pkgs[0].TypesSizes
	prog, spkgs := ssautil.AllPackages(pkgs, ssa.InstantiateGenerics)
	prog.Build()
	p.SSA = prog
	for i, sp := range spkgs {
		if sp == nil {
			return nil, fmt.Errorf("cfg %s: no SSA for %s", name, pkgs[i].PkgPath)
		}
		p.ByPath[sp.Pkg.Path()] = sp
		p.TPkg[sp.Pkg.Path()] = pkgs[i]
	}
	need := []string{modPath, modPath + "/diode", modPath + "/diode/internal/diodes", modPath + "/hlog",
		modPath + "/hlog/internal/mutil", modPath + "/log"}
	if spec.Tags == "binary_log" {
		need = append(need, modPath+"/internal/cbor")
	} else {
		need = append(need, modPath+"/internal/json", modPath+"/internal/cbor")
	}
	for _, n := range need {
		if p.ByPath[n] == nil {
			return nil, fmt.Errorf("cfg %s: package %s missing from the load", name, n)
		}
	}
	if len(pkgs) < 10 {
		return nil, fmt.Errorf("cfg %s: only %d packages loaded", name, len(pkgs))
	}
	// collect module source functions
	seen := map[*ssa.Function]bool{}
	var add func(f *ssa.Function)
	add = func(f *ssa.Function) {
		if f == nil || seen[f] || f.Blocks == nil {
			return
		}
		seen[f] = true
		p.ModFns = append(p.ModFns, f)
		for _, an := range f.AnonFuncs {
			add(an)
		}
	}
	for f := range ssautil.AllFunctions(prog) {
		if f.Pkg != nil && strings.HasPrefix(f.Pkg.Pkg.Path(), modPath) && f.Synthetic == "" {
			add(f)
		}
	}
	sort.Slice(p.ModFns, func(i, j int) bool {
		a, b := p.ModFns[i], p.ModFns[j]
		if a.String() != b.String() {
			return a.String() < b.String()
		}
		return a.Pos() < b.Pos()
	})
	p.resolveFieldRoles()
	progCache[name] = p
	return p, nil
}

// CG returns the VTA call graph (built lazily; ~0.5 s).
func (p *Prog) CG() *callgraph.Graph {
	p.cgOnce.Do(func() {
		all := ssautil.AllFunctions(p.SSA)
		p.cg = vta.CallGraph(all, cha.CallGraph(p.SSA))
	})
	return p.cg
}

// Pkg returns the SSA package of the module-relative path ("" = root).
func (p *Prog) Pkg(rel string) *ssa.Package {
	path := modPath
	if rel != "" {
		path += "/" + rel
	}
	return p.ByPath[path]
}

// Func looks up a package-level function; nil if absent.
func (p *Prog) Func(rel, name string) *ssa.Function {
	pk := p.Pkg(rel)
	if pk == nil {
		return nil
	}
	if f := pk.Func(name); f != nil {
		return f
	}
	return p.resolveFuncRole(rel, "", name)
}

// Method looks up method name on type tname (pointer receiver method set); nil if absent.
func (p *Prog) Method(rel, tname, name string) *ssa.Function {
	pk := p.Pkg(rel)
	if pk == nil {
		return nil
	}
	obj := pk.Pkg.Scope().Lookup(tname)
	if obj == nil {
		return nil
	}
	tn, ok := obj.(*types.TypeName)
	if !ok {
		return nil
	}
	ms := p.SSA.MethodSets.MethodSet(types.NewPointer(tn.Type()))
	for i := 0; i < ms.Len(); i++ {
		if ms.At(i).Obj().Name() == name {
			fn := p.SSA.MethodValue(ms.At(i))
			// unwrap the synthetic pointer-receiver wrapper of a value method
			if fn != nil && fn.Synthetic != "" {
				if of, ok := ms.At(i).Obj().(*types.Func); ok {
					if real := p.SSA.FuncValue(of); real != nil {
						return real
					}
				}
			}
			return fn
		}
	}
	return p.resolveFuncRole(rel, tname, name)
}

// Methods lists the declared (source) methods of the named type, both receivers, sorted by name.
func (p *Prog) Methods(rel, tname string, exportedOnly bool) []*ssa.Function {
	pk := p.Pkg(rel)
	if pk == nil {
		return nil
	}
	obj := pk.Pkg.Scope().Lookup(tname)
	if obj == nil {
		return nil
	}
	named, ok := obj.Type().(*types.Named)
	if !ok {
		return nil
	}
	var out []*ssa.Function
	for i := 0; i < named.NumMethods(); i++ {
		m := named.Method(i)
		if exportedOnly && !m.Exported() {
			continue
		}
		if fn := p.SSA.FuncValue(m); fn != nil && fn.Blocks != nil {
			out = append(out, fn)
		}
	}
	sort.Slice(out, func(i, j int) bool { return out[i].Name() < out[j].Name() })
	return out
}

// NamedType returns the *types.Named for rel.tname or nil.
func (p *Prog) NamedType(rel, tname string) *types.Named {
	pk := p.Pkg(rel)
	if pk == nil {
		return nil
	}
	obj := pk.Pkg.Scope().Lookup(tname)
	if obj == nil {
		return nil
	}
	n, _ := obj.Type().(*types.Named)
	return n
}

// Global returns the package-level variable object.
func (p *Prog) Global(rel, name string) *ssa.Global {
	pk := p.Pkg(rel)
	if pk == nil {
		return nil
	}
	g, _ := pk.Members[name].(*ssa.Global)
	if g == nil {
		return p.resolveGlobalRole(rel, name)
	}
	return g
}

// Pos renders a position relative to the repository root.
func (p *Prog) Pos(pos token.Pos) string {
	if !pos.IsValid() {
		return "-"
	}
	q := p.Fset.Position(pos)
	f := q.Filename
	if r, err := filepath.Rel(p.repoDir, f); err == nil && !strings.HasPrefix(r, "..") {
		f = r
	}
	return fmt.Sprintf("%s:%d", f, q.Line)
}

// FnName is a stable, readable name for a function: pkg-relative with receiver.
func FnName(f *ssa.Function) string {
	if f == nil {
		return "<nil>"
	}
	s := f.String()
	s = strings.ReplaceAll(s, modPath+"/", "")
	s = strings.ReplaceAll(s, modPath+".", "zerolog.")
	s = strings.ReplaceAll(s, modPath+")", "zerolog)")
	s = strings.ReplaceAll(s, "("+modPath, "(zerolog")
	return s
}

// InModule reports whether f is source code of the zerolog module.
func InModule(f *ssa.Function) bool {
	return f != nil && f.Pkg != nil && strings.HasPrefix(f.Pkg.Pkg.Path(), modPath)
}

func pkgRel(f *ssa.Function) string {
	if f == nil || f.Pkg == nil {
		return ""
	}
	return strings.TrimPrefix(strings.TrimPrefix(f.Pkg.Pkg.Path(), modPath), "/")
}

// FilesOf lists the Go files compiled into rel under this configuration (base names).
func (p *Prog) FilesOf(rel string) []string {
	path := modPath
	if rel != "" {
		path += "/" + rel
	}
	tp := p.TPkg[path]
	if tp == nil {
		return nil
	}
	var out []string
	for _, f := range tp.CompiledGoFiles {
		out = append(out, filepath.Base(f))
	}
	sort.Strings(out)
	return out
}
