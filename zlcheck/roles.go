package main

// Role resolution: rules refer to a handful of unexported functions and fields by the name
// they have on the pinned tree.  A behaviour-preserving rename must not turn into an alarm, so
// when a name is gone the construct is re-identified structurally — by its signature among the
// unexported functions/methods of the same package or type, or for a field by its type (or the
// accessor that returns it) — provided that identification is unambiguous.  If it is not, the
// anchor stays unresolved and the rule fails closed as before.

import (
	"go/token"
	"go/types"
	"strings"
	"sync"

	"golang.org/x/tools/go/ssa"
)

func sigKey(sig *types.Signature) string {
	q := func(p *types.Package) string { return p.Name() }
	var ps, rs []string
	for i := 0; i < sig.Params().Len(); i++ {
		ps = append(ps, types.TypeString(sig.Params().At(i).Type(), q))
	}
	for i := 0; i < sig.Results().Len(); i++ {
		rs = append(rs, types.TypeString(sig.Results().At(i).Type(), q))
	}
	return "(" + strings.Join(ps, ",") + ")(" + strings.Join(rs, ",") + ")"
}

// signatures of the unexported anchors on the pinned tree: "rel|Type|name" → params/results
var roleSigs = map[string]string{
	"||newEvent":                               "(zerolog.LevelWriter,zerolog.Level)(*zerolog.Event)",
	"||appendFieldList":                        "([]byte,[]interface{},bool)([]byte)",
	"||appendFields":                           "([]byte,interface{},bool)([]byte)",
	"||samplingDisabled":                       "()(bool)",
	"|Logger|should":                           "(zerolog.Level)(bool)",
	"|Logger|newEvent":                         "(zerolog.Level,func(string))(*zerolog.Event)",
	"|TriggerLevelWriter|trigger":              "()(error)",
	"|BurstSampler|inc":                        "()(uint32)",
	"|ConsoleWriter|writeFields":               "(map[string]interface{},*bytes.Buffer)()",
	"|ConsoleWriter|orderFields":               "([]string)()",
	"diode|Writer|poll":                        "()()",
	mutilRel + "|basicWriter|maybeWriteHeader": "()()",
	diodesRel + "|Poller|isDone":               "()(bool)",
	diodesRel + "|Waiter|isDone":               "()(bool)",
	cborRel + "||readNBytes":                   "(*bufio.Reader,int)([]byte)",
	cborRel + "||readByte":                     "(*bufio.Reader)(byte)",
	cborRel + "||decodeStringComplex":          "([]byte,string,uint)([]byte)",
	cborRel + "||decodeString":                 "(*bufio.Reader,bool)([]byte)",
	cborRel + "||appendCborTypePrefix":         "([]byte,byte,uint64)([]byte)",
	cborRel + "||cbor2JsonOneObject":           "(*bufio.Reader,io.Writer)()",
	cborRel + "||decodeTagData":                "(*bufio.Reader)([]byte)",
	cborRel + "||decodeSimpleFloat":            "(*bufio.Reader)([]byte)",
	"internal/json||appendStringComplex":       "([]byte,string,int)([]byte)",
	"internal/json||appendBytesComplex":        "([]byte,[]byte,int)([]byte)",
}

var (
	roleMu      sync.Mutex
	fieldCanon  = map[*types.Var]string{} // actual field object → canonical (pinned-tree) name
	funcCanon   = map[*ssa.Function]string{}
	resolvedLog = map[string]string{}
)

// canonFn: the pinned-tree name of a function (its own name unless it was re-identified).
func canonFn(f *ssa.Function) string {
	if f == nil {
		return ""
	}
	roleMu.Lock()
	defer roleMu.Unlock()
	if n, ok := funcCanon[f]; ok {
		return n
	}
	return f.Name()
}

// fname: the pinned-tree name of a field.
func fname(fv *types.Var) string {
	if fv == nil {
		return ""
	}
	roleMu.Lock()
	defer roleMu.Unlock()
	if n, ok := fieldCanon[fv]; ok {
		return n
	}
	return fv.Name()
}

// resolveFuncRole finds the unexported function/method of (rel, tname) whose signature equals the
// role's signature, if exactly one exists.
func (p *Prog) resolveFuncRole(rel, tname, name string) *ssa.Function {
	want, ok := roleSigs[rel+"|"+tname+"|"+name]
	if !ok {
		return nil
	}
	pk := p.Pkg(rel)
	if pk == nil {
		return nil
	}
	var cands []*ssa.Function
	if tname == "" {
		for _, m := range pk.Members {
			if f, ok := m.(*ssa.Function); ok && f.Blocks != nil && f.Object() != nil && !f.Object().Exported() && f.Name() != "init" && sigKey(f.Signature) == want {
				cands = append(cands, f)
			}
		}
	} else {
		for _, f := range p.Methods(rel, tname, false) {
			if f.Object() != nil && !f.Object().Exported() && sigKey(f.Signature) == want {
				cands = append(cands, f)
			}
		}
	}
	if len(cands) != 1 {
		// several functions share the signature: identify the role by where it is called from
		if finder, ok := roleFinders[rel+"|"+tname+"|"+name]; ok {
			roleMu.Lock()
			busy := roleBusy[rel+"|"+tname+"|"+name]
			roleBusy[rel+"|"+tname+"|"+name] = true
			roleMu.Unlock()
			if busy {
				return nil
			}
			f := finder(p, cands)
			roleMu.Lock()
			roleBusy[rel+"|"+tname+"|"+name] = false
			if f != nil {
				funcCanon[f] = name
				resolvedLog[rel+"."+tname+"."+name] = f.Name()
			}
			roleMu.Unlock()
			return f
		}
		return nil
	}
	roleMu.Lock()
	funcCanon[cands[0]] = name
	resolvedLog[rel+"."+tname+"."+name] = cands[0].Name()
	roleMu.Unlock()
	return cands[0]
}

// field roles: struct → canonical name → type string (with package-name qualifier); resolved
// when exactly one field of the struct has that type and no field has the canonical name.
var fieldRoles = map[string]map[string]string{
	"|Event":                  {"buf": "[]byte", "w": "zerolog.LevelWriter", "level": "zerolog.Level", "done": "func(msg string)", "stack": "bool", "ch": "[]zerolog.Hook", "skipFrame": "int", "ctx": "context.Context"},
	"|Logger":                 {"w": "zerolog.LevelWriter", "level": "zerolog.Level", "sampler": "zerolog.Sampler", "context": "[]byte", "hooks": "[]zerolog.Hook", "stack": "bool", "ctx": "context.Context"},
	"|Context":                {"l": "zerolog.Logger"},
	"|Array":                  {"buf": "[]byte"},
	"|syncWriter":             {"mu": "sync.Mutex", "lw": "zerolog.LevelWriter"},
	"|multiLevelWriter":       {"writers": "[]zerolog.LevelWriter"},
	"|TriggerLevelWriter":     {"buf": "*bytes.Buffer", "triggered": "bool", "mu": "sync.Mutex"},
	"|BurstSampler":           {"resetAt": "int64"},
	"|callerHook":             {"callerSkipFrameCount": "int"},
	"diode|Writer":            {"w": "io.Writer", "d": "diode.diodeFetcher", "c": "context.CancelFunc", "done": "chan struct{}"},
	diodesRel + "|Waiter":     {"mu": "sync.Mutex", "c": "*sync.Cond", "ctx": "context.Context"},
	diodesRel + "|Poller":     {"interval": "time.Duration", "ctx": "context.Context"},
	diodesRel + "|ManyToOne":  {"buffer": "[]unsafe.Pointer", "alerter": "diodes.Alerter"},
	diodesRel + "|bucket":     {"seq": "uint64", "data": "diodes.GenericDataType"},
	mutilRel + "|basicWriter": {"wroteHeader": "bool", "tee": "io.Writer"},
}

// unexported counters: the single unexported field of an integer type next to exported ones
var fieldRolesUnexportedKind = map[string]map[string]types.BasicKind{
	"|BasicSampler": {"counter": types.Uint32},
	"|BurstSampler": {"counter": types.Uint32},
}

func (p *Prog) resolveFieldRoles() {
	// touch the helper roles that rules compare by canonical name
	p.Func(cborRel, "readNBytes")
	p.Func(cborRel, "readByte")
	p.Func(cborRel, "moreBytesToRead")
	p.Method(diodesRel, "Poller", "isDone")
	p.Method(diodesRel, "Waiter", "isDone")

	q := func(pk *types.Package) string { return pk.Name() }
	structOf := func(key string) *types.Struct {
		parts := strings.SplitN(key, "|", 2)
		n := p.NamedType(parts[0], parts[1])
		if n == nil {
			return nil
		}
		st, _ := n.Underlying().(*types.Struct)
		return st
	}
	has := func(st *types.Struct, name string) bool {
		for i := 0; i < st.NumFields(); i++ {
			if st.Field(i).Name() == name {
				return true
			}
		}
		return false
	}
	set := func(fv *types.Var, canon, key string) {
		roleMu.Lock()
		fieldCanon[fv] = canon
		resolvedLog[key+"."+canon] = fv.Name()
		roleMu.Unlock()
	}
	for key, roles := range fieldRoles {
		st := structOf(key)
		if st == nil {
			continue
		}
		for canon, tstr := range roles {
			if has(st, canon) {
				continue
			}
			var match []*types.Var
			for i := 0; i < st.NumFields(); i++ {
				ts := types.TypeString(st.Field(i).Type(), q)
				if ts == tstr || strings.ReplaceAll(ts, "msg ", "") == strings.ReplaceAll(tstr, "msg ", "") {
					match = append(match, st.Field(i))
				}
			}
			// fields whose canonical name is still present are taken
			var free []*types.Var
			for _, m := range match {
				taken := false
				for c2 := range roles {
					if c2 != canon && m.Name() == c2 {
						taken = true
					}
				}
				if !taken {
					free = append(free, m)
				}
			}
			if len(free) == 1 {
				set(free[0], canon, key)
			}
		}
	}
	for key, roles := range fieldRolesUnexportedKind {
		st := structOf(key)
		if st == nil {
			continue
		}
		for canon, kind := range roles {
			if has(st, canon) {
				continue
			}
			var match []*types.Var
			for i := 0; i < st.NumFields(); i++ {
				if b, ok := st.Field(i).Type().Underlying().(*types.Basic); ok && b.Kind() == kind && !st.Field(i).Exported() {
					match = append(match, st.Field(i))
				}
			}
			if len(match) == 1 {
				set(match[0], canon, key)
			}
		}
	}
	// accessor-defined fields: the field an exported getter returns
	for _, acc := range []struct{ rel, tname, method, canon string }{
		{mutilRel, "basicWriter", "Status", "code"},
		{mutilRel, "basicWriter", "BytesWritten", "bytes"},
	} {
		n := p.NamedType(acc.rel, acc.tname)
		if n == nil {
			continue
		}
		st, _ := n.Underlying().(*types.Struct)
		if st == nil || has(st, acc.canon) {
			continue
		}
		m := p.Method(acc.rel, acc.tname, acc.method)
		if m == nil {
			continue
		}
		var fvs []*types.Var
		eachInstr(m, func(b *ssa.BasicBlock, i int, in ssa.Instruction) {
			if ret, ok := in.(*ssa.Return); ok && len(ret.Results) == 1 {
				if fv, _ := loadedField(ret.Results[0]); fv != nil {
					fvs = append(fvs, fv)
				}
			}
		})
		if len(fvs) == 1 {
			set(fvs[0], acc.canon, acc.rel+"|"+acc.tname)
		}
	}
	// ring indexes: writeIndex is the uint64 field fetch-added, readIndex the other uint64
	if n := p.NamedType(diodesRel, "ManyToOne"); n != nil {
		if st, ok := n.Underlying().(*types.Struct); ok && !(has(st, "writeIndex") && has(st, "readIndex")) {
			var added *types.Var
			for _, f := range p.Methods(diodesRel, "ManyToOne", false) {
				eachInstr(f, func(b *ssa.BasicBlock, i int, in ssa.Instruction) {
					if c, ok := in.(*ssa.Call); ok && isCallTo(&c.Call, "sync/atomic.AddUint64") {
						if fa, ok := c.Call.Args[0].(*ssa.FieldAddr); ok {
							added = fieldVar(fa)
						}
					}
				})
			}
			if added != nil {
				set(added, "writeIndex", diodesRel+"|ManyToOne")
				for i := 0; i < st.NumFields(); i++ {
					fv := st.Field(i)
					if b, ok := fv.Type().Underlying().(*types.Basic); ok && b.Kind() == types.Uint64 && fv != added {
						set(fv, "readIndex", diodesRel+"|ManyToOne")
					}
				}
			}
		}
	}
}

// globalRoles: package-level variables re-identified by their type when renamed.
var globalRoles = map[string]func(t types.Type) bool{
	// the "needs no escaping" table of the JSON encoder: the only [N]bool array of the package
	"internal/json|noEscapeTable": func(t types.Type) bool {
		a, ok := t.Underlying().(*types.Array)
		if !ok {
			return false
		}
		b, ok := a.Elem().Underlying().(*types.Basic)
		return ok && b.Kind() == types.Bool
	},
}

func (p *Prog) resolveGlobalRole(rel, name string) *ssa.Global {
	pred, ok := globalRoles[rel+"|"+name]
	if !ok {
		return nil
	}
	pk := p.Pkg(rel)
	if pk == nil {
		return nil
	}
	var cands []*ssa.Global
	for _, m := range pk.Members {
		if g, ok := m.(*ssa.Global); ok && pred(derefType(g.Type())) {
			cands = append(cands, g)
		}
	}
	if len(cands) != 1 {
		return nil
	}
	roleMu.Lock()
	resolvedLog[rel+".."+name] = cands[0].Name()
	roleMu.Unlock()
	return cands[0]
}

var roleBusy = map[string]bool{}

// calleeUnder: among cands, the one that f calls at a site that executes only when some value
// equals the constant k (the arm of a dispatch on a CBOR major type).
func calleeUnder(f *ssa.Function, cands []*ssa.Function, k int64) *ssa.Function {
	in := func(g *ssa.Function) bool {
		for _, c := range cands {
			if c == g {
				return true
			}
		}
		return false
	}
	var found []*ssa.Function
	eachInstr(f, func(b *ssa.BasicBlock, i int, x ssa.Instruction) {
		c, ok := x.(*ssa.Call)
		if !ok {
			return
		}
		g := staticCallee(&c.Call)
		if g == nil || !in(g) {
			return
		}
		if hasCmp(necessaryCmps(f, c), func(op token.Token, a, bb ssa.Value) bool {
			n, isN := constInt(bb)
			return op == token.EQL && isN && n == k
		}) {
			found = append(found, g)
		}
	})
	if len(found) == 1 {
		return found[0]
	}
	return nil
}

// roleFinders: structural identification when the signature is shared by several functions.
var roleFinders map[string]func(p *Prog, cands []*ssa.Function) *ssa.Function

func init() {
	roleFinders = map[string]func(p *Prog, cands []*ssa.Function) *ssa.Function{
		// the item decoder: the (reader, writer) function the exported stream decoder calls per object
		cborRel + "||cbor2JsonOneObject": func(p *Prog, cands []*ssa.Function) *ssa.Function {
			pk := p.Pkg(cborRel)
			if pk == nil {
				return nil
			}
			many := pk.Func("Cbor2JsonManyObjects")
			if many == nil {
				return nil
			}
			var found []*ssa.Function
			seen := map[*ssa.Function]bool{}
			eachInstr(many, func(b *ssa.BasicBlock, i int, x ssa.Instruction) {
				if c, ok := x.(*ssa.Call); ok {
					if g := staticCallee(&c.Call); g != nil && !seen[g] {
						for _, cd := range cands {
							if cd == g {
								seen[g] = true
								found = append(found, g)
							}
						}
					}
				}
			})
			if len(found) == 1 {
				return found[0]
			}
			return nil
		},
		// the tag decoder / the simple-and-float decoder: called by the item decoder in the arm of
		// major type 6 (0xc0) / 7 (0xe0)
		cborRel + "||decodeTagData": func(p *Prog, cands []*ssa.Function) *ssa.Function {
			one := p.Func(cborRel, "cbor2JsonOneObject")
			if one == nil {
				return nil
			}
			return calleeUnder(one, cands, 6<<5)
		},
		cborRel + "||decodeSimpleFloat": func(p *Prog, cands []*ssa.Function) *ssa.Function {
			one := p.Func(cborRel, "cbor2JsonOneObject")
			if one == nil {
				return nil
			}
			return calleeUnder(one, cands, 7<<5)
		},
	}
}
