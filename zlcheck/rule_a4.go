package main

// A4 — escaping confinement.
//  (a) confinement: inside the JSON encoder, bytes derived from a string/[]byte/Stringer
//      parameter are appended raw only in the audited escapers and the documented
//      pre-encoded channels;
//  (b) escaper structure: in the fast path the raw copy of the whole input is reachable only
//      after every byte passed the no-escape test; in the byte-by-byte path every loop
//      iteration either emits an escape (a sequence starting with a backslash), or carries the
//      "safe byte" certificate, or skips a valid multi-byte rune; the pending-run start only
//      ever catches up with the scan index.

import (
	"fmt"
	"go/token"
	"go/types"
	"strconv"
	"strings"

	"golang.org/x/tools/go/ssa"
)

// derivedFromParams computes the values of f that carry caller-supplied text.
func derivedFromParams(f *ssa.Function) map[ssa.Value]bool {
	d := map[ssa.Value]bool{}
	isText := func(t types.Type) bool {
		if isByteSlice(t) {
			return true
		}
		if b, ok := t.Underlying().(*types.Basic); ok && b.Info()&types.IsString != 0 {
			return true
		}
		return false
	}
	for i, p := range f.Params {
		if i == 0 && f.Signature.Recv() == nil && isByteSlice(p.Type()) {
			continue // dst of a plain appender
		}
		if i == 1 && f.Signature.Recv() != nil && isByteSlice(p.Type()) {
			continue // dst of a method appender
		}
		if i == 0 && f.Signature.Recv() != nil {
			continue
		}
		switch p.Type().Underlying().(type) {
		case *types.Basic, *types.Slice, *types.Interface, *types.Struct, *types.Array, *types.Pointer:
			d[p] = true
		}
	}
	changed := true
	for changed {
		changed = false
		eachInstr(f, func(b *ssa.BasicBlock, i int, in ssa.Instruction) {
			v, ok := in.(ssa.Value)
			if !ok || d[v] {
				return
			}
			der := false
			switch x := in.(type) {
			case *ssa.Slice:
				der = d[x.X]
			case *ssa.Convert:
				der = d[x.X]
			case *ssa.ChangeType:
				der = d[x.X]
			case *ssa.MakeInterface:
				der = d[x.X]
			case *ssa.Phi:
				for _, e := range x.Edges {
					if d[e] {
						der = true
					}
				}
			case *ssa.Lookup:
				der = d[x.X]
			case *ssa.IndexAddr:
				der = d[x.X]
			case *ssa.Index:
				der = d[x.X]
			case *ssa.FieldAddr:
				der = d[x.X]
			case *ssa.Field:
				der = d[x.X]
			case *ssa.UnOp:
				if x.Op == token.MUL {
					der = d[x.X]
				}
			case *ssa.Extract:
				der = d[x.Tuple]
			case *ssa.TypeAssert:
				der = d[x.X]
			case *ssa.Call:
				if builtinName(&x.Call) != "" {
					return
				}
				// results of calls on/with derived values that yield text (String(), Error(), marshal functions)
				rt := x.Type()
				textual := isText(rt)
				if tup, ok := rt.(*types.Tuple); ok && tup.Len() > 0 && isText(tup.At(0).Type()) {
					textual = true
				}
				if !textual {
					return
				}
				if sc := staticCallee(&x.Call); sc != nil && InModule(sc) && isAppenderSig(sc.Signature) {
					return // module appenders return the buffer, not the text
				}
				if sc := staticCallee(&x.Call); sc != nil && sc.Signature.Recv() != nil && InModule(sc) && isAppenderSigRecv(sc.Signature) {
					return
				}
				if x.Call.IsInvoke() && d[x.Call.Value] {
					der = true
				}
				for _, a := range x.Call.Args {
					if d[a] {
						der = true
					}
				}
			}
			if der {
				d[v] = true
				changed = true
			}
		})
	}
	return d
}

// rawAppendOperands: for append(dst, xs...) returns the spread operand; for append(dst, b1, b2)
// the individual element values.
func appendElems(c *ssa.Call) (spread ssa.Value, elems []ssa.Value) {
	if builtinName(&c.Call) != "append" || len(c.Call.Args) != 2 {
		return nil, nil
	}
	arg := c.Call.Args[1]
	if sl, ok := arg.(*ssa.Slice); ok {
		if al, ok := sl.X.(*ssa.Alloc); ok {
			// variadic elements stored into a fresh array
			byIdx := map[int64]ssa.Value{}
			max := int64(-1)
			for _, ref := range referrersOf(al) {
				if ia, ok := ref.(*ssa.IndexAddr); ok {
					k, _ := constInt(ia.Index)
					for _, r2 := range referrersOf(ia) {
						if st, ok := r2.(*ssa.Store); ok {
							byIdx[k] = st.Val
							if k > max {
								max = k
							}
						}
					}
				}
			}
			for k := int64(0); k <= max; k++ {
				elems = append(elems, byIdx[k])
			}
			return nil, elems
		}
	}
	return arg, nil
}

var a4Allowed = map[string]string{
	"AppendString":        "audited escaper (fast path)",
	"appendStringComplex": "audited escaper",
	"AppendBytes":         "audited escaper (fast path)",
	"appendBytesComplex":  "audited escaper",
	"AppendObjectData":    "splices an already encoded context buffer",
	"AppendInterface":     "documented pre-encoded channel (InterfaceMarshalFunc output)",
}

func ruleA4Confine(r *Run, p *Prog) {
	n, inAllowed := 0, 0
	// helpers private to their callers (e.g. a "flush the pending run" function) are judged inside
	// the functions that call them: the allow-list names the audited entry points
	cxs := map[*ssa.Function]bool{}
	for _, n := range []string{"appendStringComplex", "appendBytesComplex"} {
		if f := p.Func("internal/json", n); f != nil {
			cxs[f] = true
		}
	}
	// a function that delegates to a complex escaper is a fast path: ruleA4JSON holds it to the
	// certified-scan discipline, so its raw whole-text copy is audited there
	delegates := func(g *ssa.Function) bool {
		found := false
		eachInstr(g, func(b *ssa.BasicBlock, i int, in ssa.Instruction) {
			if c, ok := in.(*ssa.Call); ok && cxs[staticCallee(&c.Call)] {
				found = true
			}
		})
		return found
	}
	audited := func(g *ssa.Function) bool {
		if _, ok := a4Allowed[canonFn(g)]; ok {
			return true
		}
		return g.Blocks != nil && delegates(g)
	}
	for _, f := range p.RootViews([]string{"internal/json"}, "keep-audited", audited) {
		var d map[ssa.Value]bool
		eachInstr(f, func(b *ssa.BasicBlock, i int, in ssa.Instruction) {
			c, ok := in.(*ssa.Call)
			if !ok || builtinName(&c.Call) != "append" || !isByteSlice(c.Type()) {
				return
			}
			if d == nil {
				d = derivedFromParams(f)
			}
			spread, elems := appendElems(c)
			raw := spread != nil && d[spread]
			for _, e := range elems {
				if e != nil && d[e] {
					raw = true
				}
			}
			if !raw {
				return
			}
			n++
			if why, ok := a4Allowed[canonFn(viewRoot(f))]; ok || delegates(viewRoot(f)) {
				if !ok {
					why = "fast path of a complex escaper (certified scan checked by the fast-path rule)"
				}
				inAllowed++
				r.Ob("A4", FnName(f)+"/raw-append-allowed", p.Pos(c.Pos()), true, false, "raw append of caller text inside "+f.Name()+": "+why)
				return
			}
			r.Ob("A4", FnName(f)+"/raw-append", p.Pos(c.Pos()), false, true, "caller-supplied text ("+descr(c.Call.Args[1])+") is appended raw in "+FnName(f)+", outside the audited escapers: quotes, backslashes, control bytes and invalid UTF-8 reach the output")
		})
	}
	r.Count("a4_raw_append_sites", n)
	if inAllowed < 6 {
		r.Fail("A4", "confine-floor", "-", "fewer raw-append sites found inside the audited escapers than on the pinned tree ("+itoa(inAllowed)+" < 6): the taint rule lost its grip")
	}
}

// ---- escaper structure ----

type iterPath struct {
	blocks []*ssa.BasicBlock
	edges  []CondEdge
}

// loopIterPaths enumerates the acyclic paths from the loop header back to itself (one iteration).
func loopIterPaths(h *ssa.BasicBlock, max int) ([]iterPath, bool) {
	body := loopBlocks(h)
	var out []iterPath
	complete := true
	var blocks []*ssa.BasicBlock
	var edges []CondEdge
	on := map[*ssa.BasicBlock]bool{}
	var rec func(b *ssa.BasicBlock)
	rec = func(b *ssa.BasicBlock) {
		if len(out) >= max {
			complete = false
			return
		}
		blocks = append(blocks, b)
		on[b] = true
		defer func() { blocks = blocks[:len(blocks)-1]; on[b] = false }()
		ifi, _ := b.Instrs[len(b.Instrs)-1].(*ssa.If)
		for si, s := range b.Succs {
			if !body[s] {
				continue
			}
			if ifi != nil {
				edges = append(edges, CondEdge{ifi, si == 0})
			}
			if s == h {
				out = append(out, iterPath{append([]*ssa.BasicBlock{}, blocks...), append([]CondEdge{}, edges...)})
			} else if !on[s] {
				rec(s)
			}
			if ifi != nil {
				edges = edges[:len(edges)-1]
			}
		}
	}
	rec(h)
	return out, complete
}

// iterLeavesLoop decides whether, after the iteration pa, the loop header's own test ends the
// loop (`for done := false; !done; {…}`): the header condition is evaluated with the header's phis
// taking the values that flow round the back edge of pa, using the branch decisions pa took.
// known is false when the condition is not decided by pa (then the iteration must be assumed to
// repeat).
func iterLeavesLoop(h *ssa.BasicBlock, pa iterPath) (leaves, known bool) {
	ifi, ok := h.Instrs[len(h.Instrs)-1].(*ssa.If)
	if !ok || len(pa.blocks) == 0 {
		return false, true // unconditional header: `for {`
	}
	body := loopBlocks(h)
	in0, in1 := body[h.Succs[0]], body[h.Succs[1]]
	if in0 && in1 {
		return false, true
	}
	predIdx := func(b, from *ssa.BasicBlock) int {
		for i, q := range b.Preds {
			if q == from {
				return i
			}
		}
		return -1
	}
	pos := map[*ssa.BasicBlock]int{}
	for i, b := range pa.blocks {
		pos[b] = i
	}
	// resolve follows phis of the path's blocks backwards; a phi of the header reached this way
	// denotes the value the header variable had during this iteration.
	var resolve func(v ssa.Value, depth int) ssa.Value
	resolve = func(v ssa.Value, depth int) ssa.Value {
		ph, ok := v.(*ssa.Phi)
		if !ok || depth > 16 {
			return v
		}
		i, on := pos[ph.Block()]
		if !on || i == 0 {
			return v
		}
		k := predIdx(ph.Block(), pa.blocks[i-1])
		if k < 0 {
			return v
		}
		return resolve(ph.Edges[k], depth+1)
	}
	// truth of a value computed during this iteration, from the branches the iteration took
	var truth func(v ssa.Value, depth int) (bool, bool)
	truth = func(v ssa.Value, depth int) (bool, bool) {
		if depth > 16 {
			return false, false
		}
		v = resolve(v, 0)
		if b, ok := constBool(v); ok {
			return b, true
		}
		if u, ok := v.(*ssa.UnOp); ok && u.Op == token.NOT {
			t, k := truth(u.X, depth+1)
			return !t, k
		}
		for _, e := range pa.edges {
			c, pol := e.If.Cond, e.Pol
			for {
				if u, ok := c.(*ssa.UnOp); ok && u.Op == token.NOT {
					c, pol = u.X, !pol
					continue
				}
				break
			}
			if c == v {
				return pol, true
			}
		}
		return false, false
	}
	// the header condition at the next arrival: header phis take their back-edge values
	last := pa.blocks[len(pa.blocks)-1]
	k := predIdx(h, last)
	if k < 0 {
		return false, false
	}
	var next func(v ssa.Value, depth int) (bool, bool)
	next = func(v ssa.Value, depth int) (bool, bool) {
		if depth > 16 {
			return false, false
		}
		if b, ok := constBool(v); ok {
			return b, true
		}
		switch x := v.(type) {
		case *ssa.Phi:
			if x.Block() == h {
				return truth(x.Edges[k], 0)
			}
		case *ssa.UnOp:
			if x.Op == token.NOT && x.Block() == h {
				t, kn := next(x.X, depth+1)
				return !t, kn
			}
		}
		return false, false
	}
	t, kn := next(ifi.Cond, 0)
	if !kn {
		return false, false
	}
	if t {
		return !in0, true
	}
	return !in1, true
}

func isBackslashAppend(in ssa.Instruction) bool {
	c, ok := in.(*ssa.Call)
	if !ok {
		return false
	}
	spread, elems := appendElems(c)
	if spread != nil {
		if s, ok := constString(spread); ok && len(s) > 0 && s[0] == '\\' {
			return true
		}
		return false
	}
	if len(elems) > 0 && elems[0] != nil {
		if v, ok := constInt(elems[0]); ok && v == '\\' {
			return true
		}
	}
	return false
}

// byteAt: is v the byte text[idx] (string Lookup or slice IndexAddr load)? returns the index value.
func byteAt(v ssa.Value, text ssa.Value) (ssa.Value, bool) {
	switch x := v.(type) {
	case *ssa.Lookup:
		if x.X == text {
			return x.Index, true
		}
	case *ssa.Index:
		if x.X == text {
			return x.Index, true
		}
	case *ssa.UnOp:
		if x.Op == token.MUL {
			if ia, ok := x.X.(*ssa.IndexAddr); ok && ia.X == text {
				return ia.Index, true
			}
		}
	}
	return nil, false
}

// tableLookupOf: is v a load of table[b] (table a package-level [N]bool)? returns b.
func tableLookupOf(v ssa.Value) (ssa.Value, *ssa.Global, bool) {
	u, ok := v.(*ssa.UnOp)
	if !ok || u.Op != token.MUL {
		return nil, nil, false
	}
	ia, ok := u.X.(*ssa.IndexAddr)
	if !ok {
		return nil, nil, false
	}
	g, ok := ia.X.(*ssa.Global)
	if !ok {
		return nil, nil, false
	}
	idx := ia.Index
	if cv, ok := idx.(*ssa.Convert); ok {
		idx = cv.X
	}
	return idx, g, true
}

// safeByteCert: do the comparisons certify that byte b needs no escaping?
//
//	JSON encoder: noEscapeTable[b] == true ;  decoder: 0x20 <= b <= 0x7e && b != '\\' && b != '"'
func safeByteCert(cs []Cmp, isB func(ssa.Value) bool, table *ssa.Global) bool {
	if table != nil {
		return hasCmp(cs, func(op token.Token, x, y ssa.Value) bool {
			bv, ok := constBool(y)
			if !ok {
				return false
			}
			idx, g, ok := tableLookupOf(x)
			if !ok || g != table || !isB(idx) {
				return false
			}
			return (op == token.EQL && bv) || (op == token.NEQ && !bv)
		})
	}
	lo := hasCmp(cs, func(op token.Token, x, y ssa.Value) bool {
		n, ok := constInt(y)
		return ok && isB(x) && ((op == token.GEQ && n >= 0x20) || (op == token.GTR && n >= 0x1f))
	})
	hi := hasCmp(cs, func(op token.Token, x, y ssa.Value) bool {
		n, ok := constInt(y)
		return ok && isB(x) && ((op == token.LEQ && n <= 0x7e) || (op == token.LSS && n <= 0x7f))
	})
	nb := hasCmp(cs, func(op token.Token, x, y ssa.Value) bool {
		n, ok := constInt(y)
		return ok && isB(x) && op == token.NEQ && n == '\\'
	})
	nq := hasCmp(cs, func(op token.Token, x, y ssa.Value) bool {
		n, ok := constInt(y)
		return ok && isB(x) && op == token.NEQ && n == '"'
	})
	return lo && hi && nb && nq
}

func cmpsOfEdges(es []CondEdge) []Cmp {
	var out []Cmp
	for _, e := range es {
		if c, ok := cmpOf(e); ok {
			out = append(out, c)
		}
	}
	return out
}

// ruleEscaperComplex checks the byte-by-byte escaper g(dst, text, i).
// table == nil selects the decoder's explicit range test.
func ruleEscaperComplex(r *Run, p *Prog, rule string, g *ssa.Function, textIdx int, table *ssa.Global) {
	name := FnName(g)
	if len(g.Params) <= textIdx {
		r.Fail(rule, name+"/shape", p.Pos(g.Pos()), "escaper has an unexpected signature")
		return
	}
	var text ssa.Value = g.Params[textIdx]
	param := text
	// the scan loop: a header whose condition compares a phi with len(text); the text is the
	// parameter, or — when the escaper re-slices it behind every escaped character
	// (`s = s[i+1:]; i = 0`) — a loop variable that starts as the parameter ("re-based" form)
	var hdr *ssa.BasicBlock
	var iPhi *ssa.Phi
	var textPhi *ssa.Phi
	for _, b := range g.Blocks {
		if !isLoopHeader(b) {
			continue
		}
		ifi, ok := b.Instrs[len(b.Instrs)-1].(*ssa.If)
		if !ok {
			continue
		}
		bo, ok := ifi.Cond.(*ssa.BinOp)
		if !ok || bo.Op != token.LSS {
			continue
		}
		ph, ok := bo.X.(*ssa.Phi)
		lc, ok2 := bo.Y.(*ssa.Call)
		if ok && ok2 && builtinName(&lc.Call) == "len" && ph.Block() == b {
			if lc.Call.Args[0] == param {
				hdr, iPhi = b, ph
			} else if tp, isPhi := lc.Call.Args[0].(*ssa.Phi); isPhi && tp.Block() == b {
				fromParam := false
				for k, e := range tp.Edges {
					if !b.Dominates(b.Preds[k]) {
						fromParam = e == param
					}
				}
				if fromParam {
					hdr, iPhi, textPhi = b, ph, tp
				}
			}
		}
	}
	if hdr == nil {
		r.Fail(rule, name+"/scan-loop", p.Pos(g.Pos()), "no scan loop `for i < len(text)` found in the escaper (cannot apply the rule; fail closed)")
		return
	}
	if textPhi != nil {
		text = textPhi
	}
	isB := func(v ssa.Value) bool {
		idx, ok := byteAt(v, text)
		return ok && idx == ssa.Value(iPhi)
	}
	paths, complete := loopIterPaths(hdr, 4000)
	if !complete || len(paths) == 0 {
		r.Fail(rule, name+"/iter-paths", p.Pos(g.Pos()), "cannot enumerate the iteration paths of the escaper loop")
		return
	}
	// iterations on which a flag set earlier in the iteration would have to be both true and false
	// (`invalid := false … if invalid {`) are not iterations of the program
	{
		var feasible []iterPath
		for _, pa := range paths {
			if !(Path{Blocks: append(append([]*ssa.BasicBlock{}, pa.blocks...), hdr)}).InfeasibleByEval() {
				feasible = append(feasible, pa)
			}
		}
		paths = feasible
	}
	nEsc, nSafe, nRune := 0, 0, 0
	type iterInfo struct {
		pa   iterPath
		hasE bool
	}
	var iterInfos []iterInfo
	for i, pa := range paths {
		cs := cmpsOfEdges(pa.edges)
		hasE := false
		for _, b := range pa.blocks {
			for _, in := range b.Instrs {
				if isBackslashAppend(in) {
					hasE = true
				}
			}
		}
		safe := safeByteCert(cs, isB, table)
		// valid multi-byte rune: b >= RuneSelf and not (r == RuneError && size == 1)
		high := hasCmp(cs, func(op token.Token, x, y ssa.Value) bool {
			n, ok := constInt(y)
			return ok && isB(x) && ((op == token.GEQ && n >= 0x80) || (op == token.GTR && n >= 0x7f))
		})
		fromDecode := func(v ssa.Value, idx int) bool {
			ex, ok := v.(*ssa.Extract)
			if !ok || ex.Index != idx {
				return false
			}
			c, ok := ex.Tuple.(*ssa.Call)
			if !ok {
				return false
			}
			return isCallTo(&c.Call, "unicode/utf8.DecodeRuneInString") || isCallTo(&c.Call, "unicode/utf8.DecodeRune")
		}
		notErr := hasCmp(cs, func(op token.Token, x, y ssa.Value) bool {
			n, ok := constInt(y)
			return ok && ((fromDecode(x, 0) && op == token.NEQ && n == 0xFFFD) || (fromDecode(x, 1) && op == token.NEQ && n == 1))
		})
		validRune := high && notErr
		ok := hasE || safe || validRune
		switch {
		case hasE:
			nEsc++
		case safe:
			nSafe++
		case validRune:
			nRune++
		}
		var conds []string
		for _, c := range cs {
			conds = append(conds, cmpString(c))
		}
		d := "iteration emits an escape"
		if !hasE && safe {
			d = "iteration skips a byte certified safe"
		} else if !hasE && validRune {
			d = "iteration skips a valid multi-byte rune"
		}
		if !ok {
			d = "an iteration of the escaping loop advances without emitting an escape, without the safe-byte certificate and without a valid-rune decode: a byte that needs escaping can be copied raw [" + joinMax(conds, 6) + "]"
		}
		r.Ob(rule, name+"/iter#"+itoa(i), p.Pos(firstPos(pa.blocks)), ok, true, d)
		iterInfos = append(iterInfos, iterInfo{pa, hasE})
		if hasE {
			// what the iteration emits denotes the character it replaces
			isR := func(v ssa.Value) bool { return fromDecode(v, 0) }
			badEsc := ""
			var escPos token.Pos
			for _, b := range pa.blocks {
				for _, in := range b.Instrs {
					if !isBackslashAppend(in) {
						continue
					}
					if why := escapeDenotes(p, in.(*ssa.Call), cs, isB, isR); why != "" && badEsc == "" {
						badEsc, escPos = why, in.Pos()
					}
				}
			}
			if badEsc != "" {
				r.Ob(rule, name+"/escape#"+itoa(i), p.Pos(escPos), false, true, "the escape sequence emitted here does not denote the character it replaces ("+badEsc+"): the logged string decodes to a different string")
			} else {
				r.Ob(rule, name+"/escape#"+itoa(i), p.Pos(firstPos(pa.blocks)), true, true, "the escape emitted denotes the escaped character (short escape for that byte, \\u00XX with the byte's two hex digits, or U+FFFD for an invalid sequence)")
			}
		}
	}
	if nEsc == 0 || nSafe == 0 {
		r.Fail(rule, name+"/iter-kinds", p.Pos(g.Pos()), "the escaper loop has no escaping iteration or no safe-byte iteration (rule lost its grip)")
	}
	if textPhi != nil {
		ruleEscaperRebased(r, p, rule, g, name, hdr, iPhi, textPhi, func() []iterPath {
			var ps []iterPath
			for _, inf := range iterInfos {
				ps = append(ps, inf.pa)
			}
			return ps
		}(), func(k int) bool { return iterInfos[k].hasE })
		r.Count(rule+"_iter_paths", len(paths))
		return
	}
	// pending-run start: every raw copy is text[start:i] / text[start:], and start only catches up with i
	var startPhi *ssa.Phi
	nCopies := 0
	eachInstr(g, func(b *ssa.BasicBlock, i int, in ssa.Instruction) {
		c, ok := in.(*ssa.Call)
		if !ok {
			return
		}
		spread, _ := appendElems(c)
		sl, ok := spread.(*ssa.Slice)
		if !ok || sl.X != ssa.Value(text) {
			return
		}
		nCopies++
		lo, _ := sl.Low.(*ssa.Phi)
		hiLen := false
		if lc, isC := sl.High.(*ssa.Call); isC && builtinName(&lc.Call) == "len" && lc.Call.Args[0] == ssa.Value(text) {
			hiLen = true // text[start:len(text)] is text[start:]
		}
		okc := lo != nil && (sl.High == nil || hiLen || sl.High == ssa.Value(iPhi))
		if lo != nil {
			if startPhi == nil {
				startPhi = lo
			} else if startPhi != lo {
				okc = false
			}
		}
		r.Ob(rule, name+"/raw-copy", p.Pos(c.Pos()), okc, true, tern(okc, "raw copy is text[start:i] (bytes already classified)", "raw copy "+descr(sl)+" is not the run text[start:i] of already classified bytes"))
	})
	if nCopies == 0 {
		r.Fail(rule, name+"/raw-copy", p.Pos(g.Pos()), "no raw copy of the pending run found")
	}
	if startPhi != nil && startPhi.Block() == hdr {
		for k, e := range startPhi.Edges {
			if !hdr.Dominates(hdr.Preds[k]) {
				v, ok := constInt(e)
				r.Ob(rule, name+"/start-init", p.Pos(g.Pos()), ok && v == 0, true, "pending run starts at 0")
			}
		}
		// per iteration: after an escape the pending run restarts at the new scan index (and what
		// was pending has been flushed); otherwise it is left alone
		for i, inf := range iterInfos {
			sv := resolveOnIter(inf.pa, hdr, startPhi)
			iv := resolveOnIter(inf.pa, hdr, iPhi)
			var okS bool
			var d string
			if inf.hasE {
				flushed := false
				for _, b := range inf.pa.blocks {
					for _, in := range b.Instrs {
						if c, ok := in.(*ssa.Call); ok {
							if sp, _ := appendElems(c); sp != nil {
								if sl, ok := sp.(*ssa.Slice); ok && sl.X == ssa.Value(text) && sl.Low == ssa.Value(startPhi) {
									flushed = true
								}
							}
						}
					}
				}
				nothingPending := hasCmp(cmpsOfEdges(inf.pa.edges), func(op token.Token, x, y ssa.Value) bool {
					return x == ssa.Value(startPhi) && y == ssa.Value(iPhi) && (op == token.GEQ || op == token.EQL)
				})
				same := sv == iv || iterValueKey(inf.pa, hdr, sv, 0) == iterValueKey(inf.pa, hdr, iv, 0)
				okS = same && (flushed || nothingPending)
				d = tern(okS, "after the escape the pending run restarts at the scan index, pending bytes flushed", "after emitting an escape the pending-run start is "+descr(sv)+" while the scan index is "+descr(iv)+" (or the pending run was not flushed): the escaped byte is copied again raw, or bytes are lost")
			} else {
				okS = sv == ssa.Value(startPhi)
				d = tern(okS, "no escape: pending run untouched", "an iteration that emits nothing moves the pending-run start to "+descr(sv)+": the skipped bytes are never copied")
			}
			r.Ob(rule, name+"/start#"+itoa(i), p.Pos(firstPos(inf.pa.blocks)), okS, true, d)
		}
	} else {
		r.Fail(rule, name+"/start", p.Pos(g.Pos()), "pending-run start variable not found as a loop phi")
	}
	r.Count(rule+"_iter_paths", len(paths))
}

// escapeDenotes checks one escape append of an escaping iteration against the comparisons cs that
// hold on the iteration: "" if the sequence is a JSON escape of the character being replaced.
//
//	`\\ufffd`                       only where the rune decoder reported an invalid sequence
//	'\\', c  (c one of b f n r t)    only where the byte is pinned to the control character c names
//	'\\', <the byte itself>         only where the byte is pinned to '"', '\\' or '/'
//	'\\','u',d1,d2,d3,d4            the four hex digits spell the value: evaluated when the byte/rune is
//	                                pinned to a constant on this path, otherwise exactly 0,0,hex[b>>4],hex[b&0xF]
//
// strIndex: v is tab[idx] on a string (go/ssa uses Index or Lookup depending on the operand)
func strIndex(v ssa.Value) (tab, idx ssa.Value, ok bool) {
	switch x := v.(type) {
	case *ssa.Lookup:
		return x.X, x.Index, true
	case *ssa.Index:
		return x.X, x.Index, true
	}
	return nil, nil, false
}

func escapeDenotes(p *Prog, c *ssa.Call, cs []Cmp, isB, isR func(ssa.Value) bool) string {
	// value the escaped unit is pinned to on this path
	pinned := map[ssa.Value]int64{}
	var pinB, pinR *int64
	invalidSeq := false
	for _, cm := range cs {
		n, ok := constInt(cm.Y)
		if !ok {
			continue
		}
		x := cm.X
		if cm.Op == token.EQL {
			if isB(x) {
				v := n
				pinB = &v
				pinned[x] = n
			}
			if isR(x) {
				v := n
				pinR = &v
				pinned[x] = n
				if n == 0xFFFD {
					invalidSeq = true
				}
			}
		}
		if ex, isEx := x.(*ssa.Extract); isEx && ex.Index == 1 && cm.Op == token.EQL && n == 1 {
			invalidSeq = true // size == 1 from the rune decoder
		}
	}
	// a path that pins the byte to a value and also excludes that value is infeasible (the guard
	// `b == '\\'` taken, then the switch's `case '\\'` not taken)
	for _, cm := range cs {
		if n, ok := constInt(cm.Y); ok && cm.Op == token.NEQ {
			if (isB(cm.X) && pinB != nil && *pinB == n) || (isR(cm.X) && pinR != nil && *pinR == n) {
				return ""
			}
		}
	}
	// every read of the escaped byte / decoded rune in an expression takes the pinned value
	var bindUnits func(e *miniEnv, v ssa.Value, depth int)
	bindUnits = func(e *miniEnv, v ssa.Value, depth int) {
		if depth > 6 || v == nil {
			return
		}
		if isB(v) && pinB != nil {
			e.vals[v] = *pinB
			return
		}
		if isR(v) && pinR != nil {
			e.vals[v] = *pinR
			return
		}
		if in, ok := v.(ssa.Instruction); ok {
			for _, op := range in.Operands(nil) {
				if op != nil && *op != nil {
					bindUnits(e, *op, depth+1)
				}
			}
		}
	}
	shortOf := map[int64]int64{'b': 8, 'f': 12, 'n': 10, 'r': 13, 't': 9}
	spread, elems := appendElems(c)
	if spread != nil {
		str, _ := constString(spread)
		switch {
		case strings.EqualFold(str, `\ufffd`):
			if !invalidSeq {
				return "the replacement character is emitted where the input was not found invalid"
			}
			return ""
		case len(str) == 2 && str[0] == '\\':
			if want, ok := shortOf[int64(str[1])]; ok && pinB != nil && *pinB == want {
				return ""
			}
			if (str[1] == '"' || str[1] == '\\' || str[1] == '/') && pinB != nil && *pinB == int64(str[1]) {
				return ""
			}
		}
		return "constant escape " + strconv.Quote(str) + " on a path that does not pin the byte to the character it names"
	}
	if len(elems) < 2 {
		return "a lone backslash"
	}
	if len(elems) == 2 {
		if k, ok := constInt(elems[1]); ok {
			if want, isShort := shortOf[k]; isShort && pinB != nil && *pinB == want {
				return ""
			}
			if (k == '"' || k == '\\' || k == '/') && pinB != nil && *pinB == k {
				return ""
			}
			return "short escape \\" + string(rune(k)) + " on a path that does not pin the byte to the character it names"
		}
		v := elems[1]
		for {
			if cv, ok := v.(*ssa.Convert); ok {
				v = cv.X
				continue
			}
			break
		}
		// '\\', T[b] with T a package-level table of escape letters: every entry is the letter of its
		// own index (or the index itself for quote, backslash, slash); a zero entry ("no short escape")
		// must have been excluded on this path
		if ld, ok := v.(*ssa.UnOp); ok && ld.Op == token.MUL {
			if ia, ok := ld.X.(*ssa.IndexAddr); ok {
				idx := ia.Index
				for {
					if cv, ok := idx.(*ssa.Convert); ok {
						idx = cv.X
						continue
					}
					break
				}
				if g, isG := ia.X.(*ssa.Global); isG && isB(idx) && p != nil {
					vals, _, undecided := tableContentsOf(p, g)
					if undecided != "" {
						return "the table of escape letters cannot be evaluated: " + undecided
					}
					zeroExcluded := false
					for _, cm := range cs {
						if n, ok := constInt(cm.Y); ok && n == 0 && cm.Op == token.NEQ {
							if l2, ok := cm.X.(*ssa.UnOp); ok && l2.Op == token.MUL {
								if ia2, ok := l2.X.(*ssa.IndexAddr); ok && ia2.X == ia.X {
									zeroExcluded = true
								}
							}
						}
					}
					for b, letter := range vals {
						switch {
						case letter == 0:
							if !zeroExcluded {
								return "the table has no escape letter for some bytes and the path does not exclude them"
							}
						case letter == int64(b) && (b == '"' || b == '\\' || b == '/'):
						default:
							if want, isShort := shortOf[letter]; !isShort || want != int64(b) {
								return fmt.Sprintf("the table maps byte 0x%02x to the escape letter %q", b, rune(letter))
							}
						}
					}
					return ""
				}
			}
		}
		if isB(v) && pinB != nil && (*pinB == '"' || *pinB == '\\' || *pinB == '/') {
			return ""
		}
		return "a backslash followed by " + descr(elems[1]) + " where the byte is not known to be a quote, backslash or slash"
	}
	if len(elems) != 6 {
		return "an escape of " + itoa(len(elems)) + " bytes"
	}
	if u, ok := constInt(elems[1]); !ok || u != 'u' {
		return "a six byte escape that is not \\uXXXX"
	}
	hexDigit := func(ch int64) (int64, bool) {
		switch {
		case ch >= '0' && ch <= '9':
			return ch - '0', true
		case ch >= 'a' && ch <= 'f':
			return ch - 'a' + 10, true
		case ch >= 'A' && ch <= 'F':
			return ch - 'A' + 10, true
		}
		return 0, false
	}
	var pin *int64
	if pinR != nil {
		pin = pinR
	} else if pinB != nil {
		pin = pinB
	}
	if pin != nil {
		// evaluate the four digits for the pinned value
		e := &miniEnv{vals: map[ssa.Value]int64{}}
		for k, v := range pinned {
			e.vals[k] = v
		}
		got := int64(0)
		for _, d := range elems[2:] {
			var ch int64
			if k, ok := constInt(d); ok {
				ch = k
			} else if tv, iv, ok := strIndex(d); ok {
				tab, isS := constString(tv)
				bindUnits(e, iv, 0)
				idx, okI := e.eval(iv, 0)
				if !isS || !okI || idx < 0 || int(idx) >= len(tab) {
					return "a hex digit that cannot be evaluated: " + descr(d)
				}
				ch = int64(tab[idx])
			} else {
				return "a hex digit that cannot be evaluated: " + descr(d)
			}
			hv, ok := hexDigit(ch)
			if !ok {
				return "a digit that is not hexadecimal"
			}
			got = got*16 + hv
		}
		if got != *pin {
			return fmt.Sprintf("\\u%04x is written for U+%04X", got, *pin)
		}
		return ""
	}
	// the general arm: \u00XX of the byte
	for _, d := range elems[2:4] {
		if k, ok := constInt(d); !ok || k != '0' {
			return "the general \\u escape does not start with 00"
		}
	}
	digit := func(d ssa.Value, op token.Token, k int64) bool {
		tv, idx, ok := strIndex(d)
		if !ok {
			return false
		}
		tab, isS := constString(tv)
		if !isS || !strings.EqualFold(tab, "0123456789abcdef") {
			return false
		}
		for {
			if cv, ok := idx.(*ssa.Convert); ok {
				idx = cv.X
				continue
			}
			break
		}
		bo, ok := idx.(*ssa.BinOp)
		if !ok || bo.Op != op {
			return false
		}
		n, isN := constInt(bo.Y)
		x := bo.X
		for {
			if cv, ok := x.(*ssa.Convert); ok {
				x = cv.X
				continue
			}
			break
		}
		return isN && n == k && isB(x)
	}
	if !digit(elems[4], token.SHR, 4) || !digit(elems[5], token.AND, 0xF) {
		return "the two hex digits are not hex[b>>4], hex[b&0xF] of the escaped byte: " + descr(elems[4]) + " / " + descr(elems[5])
	}
	return ""
}

// ruleEscaperRebased: the pending-run rules for the re-based form of the escaper loop, in which
// the pending run is always text[:i]: every raw copy inside the loop is text[:i], after the loop
// the whole remaining text; an escaping iteration flushes the pending run (or has none), re-slices
// the text to begin behind the scan index and restarts the index at 0; any other iteration leaves
// the text alone.
func ruleEscaperRebased(r *Run, p *Prog, rule string, g *ssa.Function, name string, hdr *ssa.BasicBlock, iPhi, textPhi *ssa.Phi, iters []iterPath, hasE func(int) bool) {
	body := loopBlocks(hdr)
	nCopies := 0
	eachInstr(g, func(b *ssa.BasicBlock, i int, in ssa.Instruction) {
		c, ok := in.(*ssa.Call)
		if !ok {
			return
		}
		spread, _ := appendElems(c)
		if spread == nil {
			return
		}
		if spread == ssa.Value(textPhi) {
			// the whole remaining text: only once the scan has reached its end
			nCopies++
			okc := !body[b] && hasCmp(necessaryCmps(g, c), func(op token.Token, x, y ssa.Value) bool {
				lc, isC := y.(*ssa.Call)
				return x == ssa.Value(iPhi) && op == token.GEQ && isC && builtinName(&lc.Call) == "len" && lc.Call.Args[0] == ssa.Value(textPhi)
			})
			r.Ob(rule, name+"/raw-copy", p.Pos(c.Pos()), okc, true, tern(okc, "the remaining text is copied raw only after the scan reached its end (all of it classified)", "the remaining text is copied raw on a path where the scan has not reached its end"))
			return
		}
		sl, ok := spread.(*ssa.Slice)
		if !ok || sl.X != ssa.Value(textPhi) {
			return
		}
		nCopies++
		okc := sl.Low == nil && sl.High == ssa.Value(iPhi)
		r.Ob(rule, name+"/raw-copy", p.Pos(c.Pos()), okc, true, tern(okc, "raw copy is text[:i] (bytes already classified)", "raw copy "+descr(sl)+" is not the run text[:i] of already classified bytes"))
	})
	if nCopies == 0 {
		r.Fail(rule, name+"/raw-copy", p.Pos(g.Pos()), "no raw copy of the pending run found")
	}
	for k, pa := range iters {
		tv := resolveOnIter(pa, hdr, textPhi)
		iv := resolveOnIter(pa, hdr, iPhi)
		var okS bool
		var d string
		if hasE(k) {
			flushed := false
			for _, b := range pa.blocks {
				for _, in := range b.Instrs {
					if c, ok := in.(*ssa.Call); ok {
						if sp, _ := appendElems(c); sp != nil {
							if sl, ok := sp.(*ssa.Slice); ok && sl.X == ssa.Value(textPhi) && sl.Low == nil && sl.High == ssa.Value(iPhi) {
								flushed = true
							}
						}
					}
				}
			}
			nothingPending := hasCmp(cmpsOfEdges(pa.edges), func(op token.Token, x, y ssa.Value) bool {
				n, isN := constInt(y)
				return x == ssa.Value(iPhi) && isN && ((op == token.LEQ && n == 0) || (op == token.EQL && n == 0) || (op == token.LSS && n == 1))
			})
			rebased := false
			if sl, ok := tv.(*ssa.Slice); ok && sl.X == ssa.Value(textPhi) && sl.High == nil && sl.Low != nil {
				if add, ok := sl.Low.(*ssa.BinOp); ok && add.Op == token.ADD && (add.X == ssa.Value(iPhi) || add.Y == ssa.Value(iPhi)) {
					rebased = true
				}
			}
			zero, isZ := constInt(iv)
			okS = rebased && isZ && zero == 0 && (flushed || nothingPending)
			d = tern(okS, "after the escape the text is re-sliced behind the scan index, the index restarts at 0, pending bytes flushed", "after emitting an escape the text becomes "+descr(tv)+" and the scan index "+descr(iv)+" (or the pending run was not flushed): the escaped byte is copied again raw, or bytes are lost")
		} else {
			okS = tv == ssa.Value(textPhi)
			d = tern(okS, "no escape: text and pending run untouched", "an iteration that emits nothing re-slices the text to "+descr(tv)+": the skipped bytes are never copied")
		}
		r.Ob(rule, name+"/start#"+itoa(k), p.Pos(firstPos(pa.blocks)), okS, true, d)
	}
}

// (unused) isPhiOfSame: e is a phi merging only startPhi itself and the i-edge value (latch merge blocks)
func isPhiOfSame(e ssa.Value, start *ssa.Phi, ie ssa.Value) bool {
	ph, ok := e.(*ssa.Phi)
	if !ok {
		return false
	}
	iph, _ := ie.(*ssa.Phi)
	for k, x := range ph.Edges {
		if x == ssa.Value(start) {
			continue
		}
		if iph != nil && iph.Block() == ph.Block() && k < len(iph.Edges) && x == iph.Edges[k] {
			continue
		}
		if x == ie {
			continue
		}
		return false
	}
	return true
}

func firstPos(bs []*ssa.BasicBlock) token.Pos {
	for _, b := range bs {
		for _, in := range b.Instrs {
			if in.Pos().IsValid() {
				return in.Pos()
			}
		}
	}
	return token.NoPos
}

func joinMax(ss []string, n int) string {
	out := ""
	for i, s := range ss {
		if i >= n {
			out += " …"
			break
		}
		if i > 0 {
			out += " && "
		}
		out += s
	}
	return out
}

// ruleEscaperFast checks the fast path f(dst, text): the whole-text raw copy happens only after
// every byte passed the no-escape test.
func ruleEscaperFast(r *Run, p *Prog, rule string, f *ssa.Function, textIdx int, table *ssa.Global, complexFn *ssa.Function) {
	if len(f.Params) <= textIdx {
		r.Fail(rule, FnName(f)+"/shape", p.Pos(f.Pos()), "unexpected signature")
		return
	}
	ruleEscaperFastOn(r, p, rule, f, f.Params[textIdx], table, complexFn, nil)
}

// ruleEscaperFastOn: like ruleEscaperFast for an arbitrary text value; exempt(c) marks raw copies
// that are allowed for another stated reason.
func ruleEscaperFastOn(r *Run, p *Prog, rule string, f *ssa.Function, text ssa.Value, table *ssa.Global, complexFn *ssa.Function, exempt func(*ssa.Call) bool) {
	name := FnName(f)
	// the size a fixed-size read was asked for is the text's length
	var readSize ssa.Value
	if c, ok := text.(*ssa.Call); ok && len(c.Call.Args) == 2 && isIntLike(c.Call.Args[1].Type()) {
		readSize = c.Call.Args[1]
	}
	isLenOfText := func(v ssa.Value) bool {
		if lc, ok := v.(*ssa.Call); ok && builtinName(&lc.Call) == "len" && lc.Call.Args[0] == text {
			return true
		}
		return readSize != nil && v == readSize
	}
	var raws []*ssa.Call
	eachInstr(f, func(b *ssa.BasicBlock, i int, in ssa.Instruction) {
		c, ok := in.(*ssa.Call)
		if !ok {
			return
		}
		spread, _ := appendElems(c)
		// the complex escaper copies the pending prefix text[:i] itself: a fast path that also
		// copies part of the text writes those bytes twice
		if sl, isSl := spread.(*ssa.Slice); isSl && sl.X == text && complexFn != nil {
			r.Ob(rule, name+"/no-partial-copy", p.Pos(c.Pos()), false, true, "the fast path appends "+descr(sl)+" itself before handing the whole text to "+FnName(complexFn)+", which copies that prefix again: the bytes before the first escaped character are written twice")
		}
		if spread == text && (exempt == nil || !exempt(c)) {
			raws = append(raws, c)
		}
	})
	if len(raws) == 0 {
		r.Fail(rule, name+"/raw-copy", p.Pos(f.Pos()), "no whole-text raw copy found in the fast path (rule cannot be applied; fail closed)")
		return
	}
	for _, rc := range raws {
		cs := necessaryCmps(f, rc)
		// loop exit: idx >= len(text) with idx = phi[0, idx+1]
		var idxPhi *ssa.Phi
		var idxVal ssa.Value // the index used in the body: the phi itself, or phi+1 in go/ssa's range loops
		rangeForm := false
		exit := hasCmp(cs, func(op token.Token, x, y ssa.Value) bool {
			if !isLenOfText(y) || op != token.GEQ {
				return false
			}
			if ph, ok := x.(*ssa.Phi); ok {
				idxPhi, idxVal = ph, ph
				return true
			}
			// for i, b := range text: index = phi + 1 with phi starting at -1
			if inc, ok := x.(*ssa.BinOp); ok && inc.Op == token.ADD {
				if one, ok := constInt(inc.Y); ok && one == 1 {
					if ph, ok := inc.X.(*ssa.Phi); ok {
						idxPhi, idxVal, rangeForm = ph, inc, true
						return true
					}
				}
			}
			return false
		})
		if !exit || idxPhi == nil {
			r.Ob(rule, name+"/raw-copy-after-scan", p.Pos(rc.Pos()), false, true, "the whole input is copied raw on a path that did not finish scanning it (no `i >= len(text)` on the way)")
			continue
		}
		// counter shape
		okShape := true
		for k, e := range idxPhi.Edges {
			if idxPhi.Block().Dominates(idxPhi.Block().Preds[k]) {
				if rangeForm {
					if e != idxVal {
						okShape = false
					}
					continue
				}
				bo, ok := e.(*ssa.BinOp)
				if !ok || bo.Op != token.ADD || bo.X != ssa.Value(idxPhi) {
					okShape = false
				} else if n, ok := constInt(bo.Y); !ok || n != 1 {
					okShape = false
				}
			} else if n, ok := constInt(e); !ok || (!rangeForm && n != 0) || (rangeForm && n != -1) {
				okShape = false
			}
		}
		// every iteration passes the safe certificate for text[idx]
		isB := func(v ssa.Value) bool {
			idx, ok := byteAt(v, text)
			return ok && idx == idxVal
		}
		paths, complete := loopIterPaths(idxPhi.Block(), 2000)
		okIter := complete && len(paths) > 0
		for _, pa := range paths {
			if !safeByteCert(cmpsOfEdges(pa.edges), isB, table) {
				okIter = false
			}
		}
		ok := okShape && okIter
		r.Ob(rule, name+"/raw-copy-after-scan", p.Pos(rc.Pos()), ok, true, tern(ok, "whole-text raw copy only after i ran from 0 to len(text) in steps of 1 and every byte passed the no-escape test", "the fast path can copy the input raw although some byte was not tested (counter shape ok="+boolStr(okShape)+", every iteration certified="+boolStr(okIter)+")"))
	}
	// the slow path is entered with the index of the first offending byte and the result is returned quoted
	if complexFn != nil {
		n := 0
		eachInstr(f, func(b *ssa.BasicBlock, i int, in ssa.Instruction) {
			if c, ok := in.(*ssa.Call); ok && staticCallee(&c.Call) == complexFn {
				n++
			}
		})
		r.Ob(rule, name+"/delegates", p.Pos(f.Pos()), n >= 1, false, "delegates to "+FnName(complexFn)+" for inputs that need escaping")
	}
}

func boolStr(b bool) string {
	if b {
		return "true"
	}
	return "false"
}

// ruleA4JSON: escaper structure of the JSON encoder.
func ruleA4JSON(r *Run, p *Prog) {
	table := p.Global("internal/json", "noEscapeTable")
	if !r.Anchor(table != nil, "A4", "internal/json.noEscapeTable") {
		return
	}
	for _, pr := range [][2]string{{"AppendString", "appendStringComplex"}, {"AppendBytes", "appendBytesComplex"}} {
		fast := p.Method("internal/json", "Encoder", pr[0])
		cx := p.Func("internal/json", pr[1])
		if !r.Anchor(fast != nil, "A4", "json.Encoder."+pr[0]) || !r.Anchor(cx != nil, "A4", "json."+pr[1]) {
			continue
		}
		cxOrig := cx
		fast = p.View(fast, "keep-complex", func(g *ssa.Function) bool { return g == cxOrig })
		cx = p.View(cx, "", nil)
		ruleEscaperFast(r, p, "A4", fast, 2, table, cxOrig)
		ruleEscaperComplex(r, p, "A4", cx, 1, table)
		// any other function of the package that delegates to this escaper (an inlined fast path
		// in AppendKey, say) is held to the same discipline, for the text it hands over
		fastOrig := viewRoot(fast)
		for _, g := range p.ModFns {
			if pkgRel(g) != "internal/json" || g == fastOrig || g == cxOrig || g.Blocks == nil || g.Parent() != nil {
				continue
			}
			var text ssa.Value
			eachInstr(g, func(b *ssa.BasicBlock, i int, in ssa.Instruction) {
				if c, ok := in.(*ssa.Call); ok && staticCallee(&c.Call) == cxOrig && len(c.Call.Args) >= 2 {
					text = c.Call.Args[1]
				}
			})
			if text == nil {
				continue
			}
			if par, isPar := text.(*ssa.Parameter); isPar {
				gv := p.View(g, "keep-complex", func(h *ssa.Function) bool { return h == cxOrig })
				pi := -1
				for k, q := range g.Params {
					if q == par {
						pi = k
					}
				}
				if pi >= 0 && pi < len(gv.Params) {
					ruleEscaperFastOn(r, p, "A4", gv, gv.Params[pi], table, cxOrig, nil)
					continue
				}
			}
			r.Ob("A4", FnName(g)+"/delegates", p.Pos(g.Pos()), false, true, FnName(g)+" hands "+descr(text)+" to "+FnName(cxOrig)+": not one of its own parameters (undecided)")
		}
	}
	// the table itself: filled only by the init loop with the documented predicate (not evaluated; its
	// defining expression is compared structurally)
	ruleNoEscapeTableInit(r, p, table)
}

// ruleNoEscapeTableInit: the only stores into noEscapeTable are in the package initialiser and
// store the predicate  i >= 0x20 && i != '\\' && i != '"'  for i in [0, 0x7e].
// tableContentsOf evaluates the contents of a package-level array that is filled once: in place by
// the package initialiser (constant-range loop or constant-index stores), or built by a
// parameterless function (`var t = newTable()`) whose result — a local array — is assigned as a
// whole. Any store elsewhere, or anything outside the evaluable fragment, makes it undecided.
func tableContentsOf(p *Prog, table *ssa.Global) (entries []int64, pos token.Pos, undecided string) {
	// The table's contents are derived by evaluating the stores into it over the constant index
	// range of the initialiser loop (finite domain, see rule_eval.go) and compared with the
	// predicate the escapers rely on: entry b is true exactly for 0x20 <= b <= 0x7e, b != '\\', b != '"'.
	// The table is either filled in place by the package initialiser, or built by a function
	// (`var t = newTable()`) whose result — a local array — is assigned as a whole.
	n := 256
	if a, ok := derefType(table.Type()).Underlying().(*types.Array); ok {
		n = int(a.Len())
	}
	entries = make([]int64, n)
	stores := 0
	isInit := func(f *ssa.Function) bool {
		return f.Parent() == nil && (f.Name() == "init" || strings.HasPrefix(f.Name(), "init#"))
	}
	fns := append([]*ssa.Function{}, p.ModFns...)
	if table.Pkg != nil {
		if pi := table.Pkg.Func("init"); pi != nil {
			fns = append(fns, pi) // initialisers of package-level variables
		}
	}
	// (function, base) pairs whose element stores define the table
	type site struct {
		f    *ssa.Function
		base ssa.Value
	}
	var sitesIn []site
	for _, f := range fns {
		if f.Pkg != table.Pkg {
			continue
		}
		direct := false
		eachInstr(f, func(b *ssa.BasicBlock, i int, in ssa.Instruction) {
			st, ok := in.(*ssa.Store)
			if !ok {
				return
			}
			if ia, ok := st.Addr.(*ssa.IndexAddr); ok && ia.X == ssa.Value(table) {
				direct = true
				pos = st.Pos()
			}
			if st.Addr == ssa.Value(table) {
				pos = st.Pos()
				if !isInit(f) {
					undecided = "the whole table is assigned outside the package initialiser (in " + FnName(f) + ")"
					return
				}
				// *table = builder()  /  *table = *local
				switch v := st.Val.(type) {
				case *ssa.Call:
					bf := staticCallee(&v.Call)
					if bf == nil || !InModule(bf) || bf.Blocks == nil || len(bf.Params) != 0 {
						undecided = "the table is assigned the result of a call that cannot be evaluated"
						return
					}
					// the builder returns a local array
					var ret *ssa.Alloc
					okRet := true
					eachInstr(bf, func(_ *ssa.BasicBlock, _ int, x ssa.Instruction) {
						if rt, ok := x.(*ssa.Return); ok && len(rt.Results) == 1 {
							ld, ok := rt.Results[0].(*ssa.UnOp)
							if !ok || ld.Op != token.MUL {
								okRet = false
								return
							}
							al, ok := ld.X.(*ssa.Alloc)
							if !ok || (ret != nil && ret != al) {
								okRet = false
								return
							}
							ret = al
						}
					})
					if !okRet || ret == nil {
						undecided = "the table builder " + FnName(bf) + " does not return one local array"
						return
					}
					sitesIn = append(sitesIn, site{bf, ret})
				case *ssa.UnOp:
					if al, ok := v.X.(*ssa.Alloc); ok && v.Op == token.MUL {
						sitesIn = append(sitesIn, site{f, al})
					} else {
						undecided = "the table is assigned from a value that cannot be evaluated"
					}
				case *ssa.Const:
					// zero value
				default:
					undecided = "the table is assigned from a value that cannot be evaluated"
				}
			}
		})
		if direct {
			if !isInit(f) {
				undecided = "the table is written outside the package initialiser (in " + FnName(f) + ")"
				continue
			}
			sitesIn = append(sitesIn, site{f, table})
		}
	}
	for _, sx := range sitesIn {
		f, base := sx.f, sx.base
		var sites []*ssa.Store
		eachInstr(f, func(b *ssa.BasicBlock, i int, in ssa.Instruction) {
			if st, ok := in.(*ssa.Store); ok {
				if ia, ok := st.Addr.(*ssa.IndexAddr); ok && ia.X == base {
					sites = append(sites, st)
				}
			}
		})
		for _, st := range sites {
			stores++
			if !pos.IsValid() {
				pos = st.Pos()
			}
			record := func(e *miniEnv, s *ssa.Store) bool {
				ia, ok := s.Addr.(*ssa.IndexAddr)
				if !ok || ia.X != base {
					return true // stores to other locations do not matter here
				}
				k, ok1 := e.eval(ia.Index, 0)
				v, ok2 := e.eval(s.Val, 0)
				if !ok1 || !ok2 || k < 0 || int(k) >= n {
					return false
				}
				entries[k] = v
				return true
			}
			// inside a constant-range loop, or a straight-line store with a constant index
			var hdr *ssa.BasicBlock
			for _, b := range f.Blocks {
				if isLoopHeader(b) && loopBlocks(b)[st.Block()] {
					if hdr == nil || loopBlocks(hdr)[b] {
						hdr = b
					}
				}
			}
			if hdr == nil {
				e := &miniEnv{vals: map[ssa.Value]int64{}}
				if !record(e, st) {
					undecided = "a store into the table outside a loop has a non-constant index or value"
				}
				continue
			}
			idx, entry, values, ok := constRangeLoop(hdr)
			if !ok {
				undecided = "the initialiser loop is not `for i := c0; i <= c1; i++` over constants"
				continue
			}
			for _, iv := range values {
				e := &miniEnv{vals: map[ssa.Value]int64{idx: iv}}
				if why := e.walkIteration(hdr, entry, func(s *ssa.Store) bool { return record(e, s) }); why != "" {
					undecided = why
					break
				}
			}
		}
	}
	if stores == 0 && undecided == "" {
		undecided = "no initialising store into the table found"
	}
	return entries, pos, undecided
}

func ruleNoEscapeTableInit(r *Run, p *Prog, table *ssa.Global) {
	// The table's contents are derived by evaluating the stores into it over the constant index
	// range of the initialiser loop (finite domain, see rule_eval.go; tableContentsOf) and compared
	// with the predicate the escapers rely on: entry b is true exactly for 0x20 <= b <= 0x7e,
	// b != '\\', b != '"'.
	vals, pos, undecided := tableContentsOf(p, table)
	n := len(vals)
	entries := make([]bool, n)
	for k, v := range vals {
		entries[k] = v != 0
	}
	if undecided != "" {
		r.Ob("A4", "json.noEscapeTable/init", p.Pos(pos), false, true, "the contents of the no-escape table cannot be determined: "+undecided)
		return
	}
	var wrong []string
	for b := 0; b < n; b++ {
		want := b >= 0x20 && b <= 0x7e && b != '\\' && b != '"'
		if entries[b] != want {
			wrong = append(wrong, fmt.Sprintf("0x%02x", b))
		}
	}
	ok := len(wrong) == 0
	r.Ob("A4", "json.noEscapeTable/init", p.Pos(pos), ok, true, tern(ok, "table entry b is true exactly for 0x20 <= b <= 0x7e, b != '\\\\', b != '\"' (all "+itoa(n)+" entries evaluated from the initialiser)", "noEscapeTable is filled with a predicate other than i<=0x7e && i>=0x20 && i!='\\\\' && i!='\"': entries "+joinMax(wrong, 8)+" differ, so some byte that needs escaping is marked safe (or a safe one is escaped)"))
}

// storedPredicateOK: v is the SSA form of  i >= 0x20 && i != '\\' && i != '"'
// (a phi over short-circuit blocks whose non-false edge is the last comparison).
func storedPredicateOK(v ssa.Value, i ssa.Value) bool {
	need := map[string]bool{"ge20": false, "ne92": false, "ne34": false}
	var visit func(v ssa.Value, depth int) bool
	mark := func(bo *ssa.BinOp) bool {
		n, ok := constInt(bo.Y)
		if !ok || bo.X != i {
			return false
		}
		switch {
		case bo.Op == token.GEQ && n == 0x20:
			need["ge20"] = true
		case bo.Op == token.NEQ && n == '\\':
			need["ne92"] = true
		case bo.Op == token.NEQ && n == '"':
			need["ne34"] = true
		default:
			return false
		}
		return true
	}
	visit = func(v ssa.Value, depth int) bool {
		if depth > 6 {
			return false
		}
		switch x := v.(type) {
		case *ssa.BinOp:
			return mark(x)
		case *ssa.Phi:
			for k, e := range x.Edges {
				if b, ok := constBool(e); ok {
					if b {
						return false
					}
					// a constant false edge: the branch condition that led here must be one of the conjuncts
					pred := x.Block().Preds[k]
					if ifi, ok := pred.Instrs[len(pred.Instrs)-1].(*ssa.If); ok {
						if bo, ok := ifi.Cond.(*ssa.BinOp); ok {
							if !mark(bo) {
								return false
							}
						}
					}
					continue
				}
				if !visit(e, depth+1) {
					return false
				}
			}
			return true
		}
		return false
	}
	if !visit(v, 0) {
		return false
	}
	return need["ge20"] && need["ne92"] && need["ne34"]
}

// resolveOnIter: the value phi (a header phi) receives at the end of the iteration path.
func resolveOnIter(pa iterPath, hdr *ssa.BasicBlock, phi *ssa.Phi) ssa.Value {
	last := pa.blocks[len(pa.blocks)-1]
	var v ssa.Value
	for k, pb := range hdr.Preds {
		if pb == last {
			v = phi.Edges[k]
		}
	}
	// follow phis of merge blocks inside the iteration
	for depth := 0; depth < 8; depth++ {
		ph, ok := v.(*ssa.Phi)
		if !ok || ph.Block() == hdr {
			return v
		}
		idx := -1
		for i, b := range pa.blocks {
			if b == ph.Block() {
				idx = i
			}
		}
		if idx <= 0 {
			return v
		}
		pred := pa.blocks[idx-1]
		found := false
		for k, pb := range ph.Block().Preds {
			if pb == pred {
				v = ph.Edges[k]
				found = true
			}
		}
		if !found {
			return v
		}
	}
	return v
}

// iterValueKey renders the value v has at the end of the iteration pa as a structural key: phis of
// blocks inside the iteration are replaced by the edge the iteration came through, sums and
// differences are keyed by their operands' keys. Two keys are equal exactly when the two values are
// the same expression over the same SSA leaves on this iteration (`start = i + size` and the
// post statement's `i += width` with width = size on this path).
func iterValueKey(pa iterPath, hdr *ssa.BasicBlock, v ssa.Value, depth int) string {
	if depth > 8 || v == nil {
		return "?"
	}
	if ph, ok := v.(*ssa.Phi); ok && ph.Block() != hdr {
		idx := -1
		for i, b := range pa.blocks {
			if b == ph.Block() {
				idx = i
			}
		}
		if idx > 0 {
			pred := pa.blocks[idx-1]
			for k, pb := range ph.Block().Preds {
				if pb == pred {
					return iterValueKey(pa, hdr, ph.Edges[k], depth+1)
				}
			}
		}
	}
	switch x := v.(type) {
	case *ssa.Const:
		if n, ok := constInt(x); ok {
			return itoa(int(n))
		}
	case *ssa.BinOp:
		if x.Op == token.ADD || x.Op == token.SUB {
			return "(" + iterValueKey(pa, hdr, x.X, depth+1) + x.Op.String() + iterValueKey(pa, hdr, x.Y, depth+1) + ")"
		}
	case *ssa.Convert:
		return iterValueKey(pa, hdr, x.X, depth+1)
	}
	return fmt.Sprintf("%s@%p", v.Name(), v)
}

// ruleFloatGuard: JSON has no NaN/Infinity literals; strconv renders them as NaN, +Inf, -Inf.
// Every strconv.AppendFloat/FormatFloat in the JSON encoder is therefore reachable only after
// math.IsNaN and math.IsInf (both signs) were excluded for the value being formatted.
func ruleFloatGuard(r *Run, p *Prog) {
	n := 0
	for _, f := range p.RootViews([]string{"internal/json"}, "", nil) {
		eachInstr(f, func(b *ssa.BasicBlock, i int, in ssa.Instruction) {
			c, ok := in.(*ssa.Call)
			if !ok || !(isCallTo(&c.Call, "strconv.AppendFloat") || isCallTo(&c.Call, "strconv.FormatFloat")) {
				return
			}
			n++
			vi := 0
			if isCallTo(&c.Call, "strconv.AppendFloat") {
				vi = 1
			}
			val := c.Call.Args[vi]
			same := func(v ssa.Value) bool {
				for k := 0; k < 3; k++ {
					if sameValue(v, val) {
						return true
					}
					if cv, ok := v.(*ssa.Convert); ok {
						v = cv.X
						continue
					}
					break
				}
				w := val
				for k := 0; k < 3; k++ {
					if cv, ok := w.(*ssa.Convert); ok {
						w = cv.X
						if sameValue(v, w) {
							return true
						}
						continue
					}
					break
				}
				return false
			}
			notNaN, notPosInf, notNegInf := false, false, false
			for _, cm := range necessaryCmps(f, c) {
				call, isCall := cm.X.(*ssa.Call)
				bv, isB := constBool(cm.Y)
				if !isCall || !isB {
					continue
				}
				isFalse := (cm.Op == token.EQL && !bv) || (cm.Op == token.NEQ && bv)
				if !isFalse || len(call.Call.Args) == 0 || !same(call.Call.Args[0]) {
					continue
				}
				if isCallTo(&call.Call, "math.IsNaN") {
					notNaN = true
				}
				if isCallTo(&call.Call, "math.IsInf") && len(call.Call.Args) == 2 {
					if s, ok := constInt(call.Call.Args[1]); ok {
						if s >= 0 {
							notPosInf = true
						}
						if s <= 0 {
							notNegInf = true
						}
					}
				}
			}
			okc := notNaN && notPosInf && notNegInf
			r.Ob("A4", originFnName(f, c)+"/float-finite", p.Pos(c.Pos()), okc, true, tern(okc, "the float is formatted only after NaN and ±Inf were excluded", "strconv formats "+descr(val)+" on a path that did not exclude NaN/+Inf/-Inf (NaN="+boolStr(notNaN)+", +Inf="+boolStr(notPosInf)+", -Inf="+boolStr(notNegInf)+"): the bare words NaN/+Inf/-Inf are not JSON"))
		})
	}
	if n == 0 {
		r.Fail("A4", "float-finite", "-", "no strconv float formatting found in internal/json (rule lost its grip)")
	}
}

// ruleDefaultInterfaceMarshal: the pre-encoded channel AppendInterface splices whatever
// InterfaceMarshalFunc returns. Its default must hand back only bytes produced by encoding/json's
// encoder (Encoder.Encode into a local buffer, or json.Marshal): that encoder validates and
// compacts the output of user MarshalJSON methods, so the fragment is one line of valid JSON.
// A shortcut returning a user method's bytes as they are can put raw newlines into the event.
func ruleDefaultInterfaceMarshal(r *Run, p *Prog) {
	rule := "A4"
	g := p.Global("", "InterfaceMarshalFunc")
	if !r.Anchor(g != nil, rule, "InterfaceMarshalFunc") {
		return
	}
	var fn *ssa.Function
	if g.Pkg != nil {
		if pi := g.Pkg.Func("init"); pi != nil {
			eachInstr(pi, func(b *ssa.BasicBlock, i int, in ssa.Instruction) {
				if st, ok := in.(*ssa.Store); ok && st.Addr == ssa.Value(g) {
					switch v := st.Val.(type) {
					case *ssa.Function:
						fn = v
					case *ssa.MakeClosure:
						fn, _ = v.Fn.(*ssa.Function)
					}
				}
			})
		}
	}
	if fn == nil || fn.Blocks == nil {
		r.Ob(rule, "InterfaceMarshalFunc/default", p.Pos(g.Pos()), false, true, "the default value of InterfaceMarshalFunc cannot be determined (not a function literal or named function assigned in the package initialiser)")
		return
	}
	v := p.View(fn, "", nil)
	okAll, why, n := true, "", 0
	var fromJSON func(x ssa.Value, depth int) bool
	fromJSON = func(x ssa.Value, depth int) bool {
		if depth > 6 {
			return false
		}
		if isNilConst(x) {
			return true
		}
		switch y := x.(type) {
		case *ssa.Slice:
			return fromJSON(y.X, depth+1)
		case *ssa.Phi:
			for _, e := range y.Edges {
				if !fromJSON(e, depth+1) {
					return false
				}
			}
			return true
		case *ssa.Extract:
			if c, ok := y.Tuple.(*ssa.Call); ok && y.Index == 0 {
				return isCallTo(&c.Call, "encoding/json.Marshal")
			}
		case *ssa.Call:
			if isCallTo(&y.Call, "(*bytes.Buffer).Bytes") && len(y.Call.Args) == 1 {
				al, ok := y.Call.Args[0].(*ssa.Alloc)
				if !ok {
					return false
				}
				// the buffer is written only by an encoding/json Encoder created on it
				enc := false
				for _, ref := range referrersOf(al) {
					switch z := ref.(type) {
					case *ssa.MakeInterface:
						for _, r2 := range referrersOf(z) {
							if c, ok := r2.(*ssa.Call); ok && isCallTo(&c.Call, "encoding/json.NewEncoder") {
								enc = true
							} else {
								return false
							}
						}
					case *ssa.Call:
						if !(isCallTo(&z.Call, "(*bytes.Buffer).Bytes") || isCallTo(&z.Call, "(*bytes.Buffer).Len") || isCallTo(&z.Call, "(*bytes.Buffer).Reset") || isCallTo(&z.Call, "(*bytes.Buffer).Grow")) {
							return false
						}
					case *ssa.DebugRef:
					default:
						return false
					}
				}
				return enc
			}
		}
		return false
	}
	eachInstr(v, func(b *ssa.BasicBlock, i int, in ssa.Instruction) {
		ret, ok := in.(*ssa.Return)
		if !ok || len(ret.Results) == 0 {
			return
		}
		n++
		if !fromJSON(ret.Results[0], 0) {
			okAll = false
			why = descr(ret.Results[0])
		}
	})
	okc := okAll && n > 0
	r.Ob(rule, "InterfaceMarshalFunc/default", p.Pos(fn.Pos()), okc, true, tern(okc, "the default marshaler returns only what encoding/json's encoder produced (validated, compacted, one line)", "the default InterfaceMarshalFunc returns "+why+", bytes that did not pass through encoding/json's encoder: a user MarshalJSON that returns indented JSON puts raw newlines into the event"))
}
