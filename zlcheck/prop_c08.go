package main

import (
	"fmt"
	"go/token"
	"go/types"
	"math"
	"sort"
	"strings"

	"golang.org/x/tools/go/ssa"
)

func init() { register("C08", checkC08) }

func checkC08(r *Run) {
	r.Explain = "Decides four agreement conditions without which the decoded binary log cannot equal the JSON log for some program: AGNOSTIC the front-end is encoding-agnostic — the files of package zerolog common to both build configurations import neither encoder package, the configuration-specific files define no method of Event/Context/Array/Logger, and json.Encoder and cbor.Encoder offer the same method set with identical signatures (so keys, field order and call sequence come from the same code); ALPHABET the decoder covers what the encoder emits — all 8 major types in cbor2JsonOneObject, every tag number the encoder's constant tag headers spell is a case of decodeTagData, every simple/float minor the encoder uses is a case of decodeSimpleFloat, float16 is never emitted; WIDTH the item argument is accumulated and printed over the full unsigned 64-bit range (no narrowing conversion between the argument reader and the number formatter), the integer appenders of both encoders widen losslessly (A6), and the CBOR float appenders write the head byte and payload width of their own Go type on every path (a float64 is never compacted into the 4-byte form, whose digits the decoder prints as a float32's); ESCAPE bytes read from the input reach the JSON output only through decodeStringComplex (checked iteration path by iteration path like the JSON escaper), after a certified scan, or on the documented verbatim channel (noQuotes: embedded JSON, address/hex octets that are re-formatted); ELEM every slice appender of the CBOR encoder renders an element exactly as its scalar sibling does; B64 the JSON build and the CBOR decoder render RawCBOR data URLs with the same base64 Encoding variable; HOOK both builds bind the encoder's marshal hook to a function that reads InterfaceMarshalFunc at call time. DUR both encoders compute a duration's number the same way (integer quotient d/unit; float64(d)/float64(unit)); HOOK AppendInterface of both encoders consults the configured marshal function for every value, nil included; A13e no decode helper returns the bytes of a buffer it recycles (DecodeIfBinaryToBytes feeds ConsoleWriter/journald: the previous event's text would turn into the next one's). TSFMT the decoder renders a float (fractional) timestamp with a fractional-seconds layout and an integer one with the whole-seconds layout. TSFMT also: seconds and nanoseconds handed to time.Unix come from one split of the decoded float (n - float64(secs), or both halves of one Modf). ELEM net-text (shared with C02), on every path: the JSON side renders IP/prefix/MAC with the net package's String()."
	r.NotDec = "Equality of decoded values between the two builds (float text vs value, timestamp precision, IP/MAC notation): value-level, stated and not approximated."
	r.Assume = []string{"net/strconv/time formatting of decoded values is outside the claim"}
	pj := r.Use("J")
	pb := r.Use("B")
	if pj == nil || pb == nil {
		return
	}
	ruleAgnostic(r, pj, pb)
	r.cur = "B"
	ruleAlphabet(r, pb)
	ruleWidth(r, pb)
	ruleFloatWidth(r, pb)
	ruleA18(r, pb) // the encoder's argument widths and headers are what the decoder's reader assumes
	ruleA6(r, pb, []string{cborRel})
	r.cur = "J"
	ruleA6(r, pj, []string{"internal/json"})
	r.cur = "B"
	// the front-end hands every value to the encoder: the buffer typestate of the binary build (also
	// judged in C01/C09) includes that caller-supplied bytes are never appended raw (a raw
	// json.RawMessage is a no-op difference in the JSON build and an unframed item in this one)
	ruleA2(r, pb)
	ruleDecoderEscape(r, pb)
	// scalar/slice agreement inside the CBOR encoder (the JSON encoder's is part of C02)
	ruleElemAgreementIn(r, pb, cborRel, 10)
	ruleBuildAgreement(r, pj, pb)
	r.cur = "J"
	ruleDurationArithmetic(r, pj, "DUR")
	ruleInterfaceThroughMarshal(r, pj, "HOOK")
	ruleNetText(r, pj) // the JSON side renders addresses with the net package's String(), the text the decoder prints
	r.cur = "B"
	ruleDurationArithmetic(r, pb, "DUR")
	ruleInterfaceThroughMarshal(r, pb, "HOOK")
	rulePooledBufferNotReturned(r, pb, "A13e", []string{"", cborRel})
	ruleDecodedTimestampLayout(r, pb, "TSFMT")
	r.cur = "B"
	r.Floor("ELEM", 10)
	r.Floor("B64", 1)
	r.Floor("HOOK", 4)
	r.Floor("AGNOSTIC", 20)
	r.Floor("ALPHABET", 18)
	r.Floor("WIDTH", 3)
	r.Floor("A6", 20)
	r.Floor("ESCAPE", 20)
}

func importsOf(p *Prog, rel string) map[string][]string {
	out := map[string][]string{}
	path := modPath
	if rel != "" {
		path += "/" + rel
	}
	tp := p.TPkg[path]
	if tp == nil {
		return out
	}
	for _, f := range tp.Syntax {
		name := p.Fset.Position(f.Pos()).Filename
		name = name[strings.LastIndex(name, "/")+1:]
		for _, im := range f.Imports {
			out[name] = append(out[name], strings.Trim(im.Path.Value, "\""))
		}
		if _, ok := out[name]; !ok {
			out[name] = nil
		}
	}
	return out
}

func ruleAgnostic(r *Run, pj, pb *Prog) {
	fj, fb := pj.FilesOf(""), pb.FilesOf("")
	inJ, inB := map[string]bool{}, map[string]bool{}
	for _, f := range fj {
		inJ[f] = true
	}
	for _, f := range fb {
		inB[f] = true
	}
	impJ, impB := importsOf(pj, ""), importsOf(pb, "")
	isEnc := func(path string) bool {
		return path == modPath+"/internal/json" || path == modPath+"/internal/cbor"
	}
	nCommon := 0
	for _, f := range fj {
		if !inB[f] {
			continue
		}
		nCommon++
		bad := ""
		for _, im := range append(append([]string{}, impJ[f]...), impB[f]...) {
			if isEnc(im) {
				bad = im
			}
		}
		r.cur = "J,B"
		r.Ob("AGNOSTIC", "file:"+f, f, bad == "", true, tern(bad == "", "compiled in both configurations, imports no encoder package", "front-end file "+f+" is shared by both builds but imports "+bad+" directly: the two builds can diverge in what they emit for the same call"))
	}
	if nCommon < 12 {
		r.Fail("AGNOSTIC", "common-files", "-", fmt.Sprintf("only %d files of package zerolog are common to both configurations", nCommon))
	}
	// configuration-specific files define no front-end methods
	for _, pr := range []struct {
		p    *Prog
		only map[string]bool
		cfg  string
	}{{pj, inB, "J"}, {pb, inJ, "B"}} {
		for _, f := range pr.p.ModFns {
			if pkgRel(f) != "" || f.Parent() != nil || f.Signature.Recv() == nil {
				continue
			}
			file := pr.p.Fset.Position(f.Pos()).Filename
			file = file[strings.LastIndex(file, "/")+1:]
			if pr.only[file] {
				continue // common file
			}
			switch recvTypeName(f) {
			case "Event", "Context", "Array", "Logger":
				r.cur = pr.cfg
				r.Ob("AGNOSTIC", "method:"+FnName(f), pr.p.Pos(f.Pos()), false, true, "front-end method "+FnName(f)+" is defined in "+file+", which is compiled in only one of the two build configurations: the builds no longer run the same front-end code")
			}
		}
	}
	// per-build hooks: package-level functions defined in configuration-specific files and called
	// from the shared front-end. Frozen table (one reason each); anything else means the two
	// builds run different front-end code for some field.
	hooks := map[string]string{
		"appendJSON":             "RawJSON channel: verbatim in JSON, tag 262 in CBOR",
		"appendCBOR":             "RawCBOR channel: data URL in JSON, tag 63 in CBOR",
		"decodeIfBinaryToString": "decoder binding used by syslog",
		"decodeObjectToStr":      "decoder binding (tests)",
		"decodeIfBinaryToBytes":  "decoder binding used by ConsoleWriter",
	}
	for _, pr := range []struct {
		p      *Prog
		common map[string]bool
		cfg    string
	}{{pj, inB, "J"}, {pb, inJ, "B"}} {
		for _, f := range pr.p.ModFns {
			if pkgRel(f) != "" {
				continue
			}
			file := pr.p.Fset.Position(f.Pos()).Filename
			file = file[strings.LastIndex(file, "/")+1:]
			if !pr.common[file] {
				continue // caller must be in a common file
			}
			eachInstr(f, func(b *ssa.BasicBlock, i int, in ssa.Instruction) {
				cc := callCommon(in)
				if cc == nil {
					return
				}
				sc := staticCallee(cc)
				if sc == nil || pkgRel(sc) != "" || sc.Signature.Recv() != nil || sc.Parent() != nil {
					return
				}
				cfile := pr.p.Fset.Position(sc.Pos()).Filename
				cfile = cfile[strings.LastIndex(cfile, "/")+1:]
				if pr.common[cfile] || cfile == "" {
					return
				}
				why, ok := hooks[sc.Name()]
				r.cur = pr.cfg
				r.Ob("AGNOSTIC", "hook:"+sc.Name()+"←"+FnName(f), pr.p.Pos(in.Pos()), ok, true, tern(ok, "per-build hook "+sc.Name()+": "+why, "the shared front-end ("+FnName(f)+") calls "+sc.Name()+", a function defined separately for each build in "+cfile+" and not one of the documented per-build channels: the two builds can encode this field differently"))
			})
		}
	}
	// the two encoder types offer the same methods with identical signatures
	je := pb.NamedType("internal/json", "Encoder") // both packages are loaded in one universe
	ce := pb.NamedType(cborRel, "Encoder")
	if !r.Anchor(je != nil && ce != nil, "AGNOSTIC", "json.Encoder and cbor.Encoder") {
		return
	}
	meths := func(n *types.Named) map[string]*types.Func {
		out := map[string]*types.Func{}
		ms := types.NewMethodSet(n)
		for i := 0; i < ms.Len(); i++ {
			if o, ok := ms.At(i).Obj().(*types.Func); ok && o.Exported() {
				out[o.Name()] = o
			}
		}
		return out
	}
	sj, sb := meths(je), meths(ce)
	var names []string
	for n := range sj {
		names = append(names, n)
	}
	for n := range sb {
		if _, ok := sj[n]; !ok {
			names = append(names, n)
		}
	}
	sort.Strings(names)
	r.cur = "J,B"
	for _, n := range names {
		a, b := sj[n], sb[n]
		ok := a != nil && b != nil && types.Identical(a.Type().(*types.Signature).Params(), b.Type().(*types.Signature).Params()) &&
			types.Identical(a.Type().(*types.Signature).Results(), b.Type().(*types.Signature).Results())
		d := "same signature in both encoders"
		if !ok {
			d = "method " + n + " is missing from one encoder or has different parameter/result types in json.Encoder and cbor.Encoder"
		}
		r.Ob("AGNOSTIC", "encoder-method:"+n, "-", ok, true, d)
	}
	// the `enc` binding satisfies the front-end's interface in both configurations
	for _, p := range []*Prog{pj, pb} {
		g := p.Global("", "enc")
		it := p.NamedType("", "encoder")
		ok := false
		if g != nil && it != nil {
			if iface, isI := it.Underlying().(*types.Interface); isI {
				ok = types.Implements(derefType(g.Type()), iface) || types.Implements(types.NewPointer(derefType(g.Type())), iface)
			}
		}
		r.cur = p.Spec.Name
		r.Ob("AGNOSTIC", "enc-implements-encoder", "-", ok, true, tern(ok, "enc implements the encoder interface", "enc does not implement the front-end's encoder interface"))
	}
}

// constants compared with == inside f (through conversions of the compared value)
func eqConstsIn(f *ssa.Function) map[int64]bool {
	out := map[int64]bool{}
	eachInstr(f, func(b *ssa.BasicBlock, i int, in ssa.Instruction) {
		bo, ok := in.(*ssa.BinOp)
		// `x == C` selects the arm; `x != C` followed by the error path leaves the arm for C
		if !ok || (bo.Op != token.EQL && bo.Op != token.NEQ) {
			return
		}
		if n, ok := constInt(bo.Y); ok {
			out[n] = true
		}
		if n, ok := constInt(bo.X); ok {
			out[n] = true
		}
	})
	return out
}

func ruleAlphabet(r *Run, p *Prog) {
	one := p.Func(cborRel, "cbor2JsonOneObject")
	tag := p.Func(cborRel, "decodeTagData")
	sf := p.Func(cborRel, "decodeSimpleFloat")
	if !r.Anchor(one != nil && tag != nil && sf != nil, "ALPHABET", "cbor2JsonOneObject / decodeTagData / decodeSimpleFloat") {
		return
	}
	// majors
	have := eqConstsIn(one)
	for m := int64(0); m < 8; m++ {
		ok := have[m<<5]
		r.Ob("ALPHABET", fmt.Sprintf("major:%d", m), p.Pos(one.Pos()), ok, true, tern(ok, "decoder has an arm for this major type", fmt.Sprintf("cbor2JsonOneObject has no arm for major type %d: such items produce no output and are not consumed", m)))
	}
	// tags emitted by the encoder (constant tag headers, as in A18)
	emitted := map[int64]string{}
	prefixFn := p.Func(cborRel, "appendCborTypePrefix")
	for _, f := range p.RootViews([]string{cborRel}, "keep-prefix", func(g *ssa.Function) bool { return g == prefixFn }) {
		if f.Parent() != nil {
			continue
		}
		if !(isAppenderSig(f.Signature) || (f.Signature.Recv() != nil && isAppenderSigRecv(f.Signature))) {
			continue
		}
		for _, b := range f.Blocks {
			var run []int64
			flush := func() {
				if len(run) > 0 && run[0]>>5 == 6 {
					ai := run[0] & 31
					switch {
					case ai < 24:
						emitted[ai] = FnName(f)
					case ai == 24 && len(run) >= 2:
						emitted[run[1]] = FnName(f)
					case ai == 25 && len(run) >= 3:
						emitted[run[1]<<8|run[2]] = FnName(f)
					}
				}
				run = nil
			}
			for _, in := range b.Instrs {
				c, ok := in.(*ssa.Call)
				if !ok || builtinName(&c.Call) != "append" {
					continue
				}
				el, ok := singleAppend(c)
				if !ok {
					flush()
					continue
				}
				v, isC := foldInt(el, 0)
				if !isC {
					flush()
					continue
				}
				run = append(run, v&0xff)
			}
			flush()
		}
	}
	handled := eqConstsIn(p.View(tag, "", nil))
	var tags []int64
	for t := range emitted {
		tags = append(tags, t)
	}
	sort.Slice(tags, func(i, j int) bool { return tags[i] < tags[j] })
	for _, t := range tags {
		ok := handled[t]
		r.Ob("ALPHABET", fmt.Sprintf("tag:%d", t), p.Pos(tag.Pos()), ok, true, tern(ok, "tag emitted by "+emitted[t]+" has a decoder arm", fmt.Sprintf("the encoder (%s) emits tag %d but decodeTagData has no arm for it: such fields cannot be decoded", emitted[t], t)))
	}
	if len(tags) < 6 {
		r.Fail("ALPHABET", "tags", "-", fmt.Sprintf("only %d emitted tags recognised", len(tags)))
	}
	// simple values / floats
	simple := eqConstsIn(sf)
	for _, name := range []string{"additionalTypeBoolFalse", "additionalTypeBoolTrue", "additionalTypeNull", "additionalTypeFloat32", "additionalTypeFloat64"} {
		v, ok := cborConst(p, name)
		okc := ok && simple[v]
		r.Ob("ALPHABET", "simple:"+name, p.Pos(sf.Pos()), okc, true, tern(okc, "decodeSimpleFloat has an arm", "decodeSimpleFloat has no arm for "+name+", which the encoder emits"))
	}
	// float16 is never emitted: no constant header 0xf9, no minor constant 25 combined with major 7
	f16 := false
	for _, f := range p.ModFns {
		if pkgRel(f) != cborRel || !(isAppenderSig(f.Signature) || (f.Signature.Recv() != nil && isAppenderSigRecv(f.Signature))) {
			continue
		}
		eachInstr(f, func(b *ssa.BasicBlock, i int, in ssa.Instruction) {
			c, ok := in.(*ssa.Call)
			if !ok || builtinName(&c.Call) != "append" {
				return
			}
			sp, elems := appendElems(c)
			if s, ok := constString(sp); ok && len(s) > 0 && s[0] == 0xf9 {
				f16 = true
			}
			for _, e := range elems {
				if e == nil {
					continue
				}
				if v, ok := foldInt(e, 0); ok && v&0xff == 0xf9 && len(elems) == 1 {
					// only a header position matters: first constant of a run; approximated by single-element appends
					f16 = true
				}
			}
		})
	}
	r.Ob("ALPHABET", "no-float16", "-", !f16, true, tern(!f16, "the encoder never emits half-precision floats (the decoder rejects them)", "the encoder emits a half-precision float header (0xf9), which the decoder does not support"))
}

// ruleWidth: the argument reader accumulates in uint64 and nothing narrows the value before it is formatted.
func ruleWidth(r *Run, p *Prog) {
	one := p.Func(cborRel, "cbor2JsonOneObject")
	if one == nil {
		return
	}
	// functions that accumulate big-endian bytes: val*256 + x
	var readers []*ssa.Function
	for _, f := range p.ModFns {
		if pkgRel(f) != cborRel {
			continue
		}
		acc := false
		eachInstr(f, func(b *ssa.BasicBlock, i int, in ssa.Instruction) {
			if bo, ok := in.(*ssa.BinOp); ok && (bo.Op == token.MUL || bo.Op == token.SHL) {
				// val*256 or val<<8
				if n, ok := constInt(bo.Y); ok && (bo.Op == token.MUL && n == 256 || bo.Op == token.SHL && n == 8) && isIntLike(bo.Type()) {
					if basic, ok := bo.Type().Underlying().(*types.Basic); ok && basic.Kind() != types.Uint32 {
						acc = true
					}
				}
			}
		})
		if acc && f.Signature.Results().Len() == 1 && isIntLike(f.Signature.Results().At(0).Type()) {
			readers = append(readers, f)
		}
	}
	if !r.Anchor(len(readers) >= 1, "WIDTH", "the function accumulating the item argument") {
		return
	}
	u64 := map[*ssa.Function]bool{}
	for _, f := range readers {
		rt := f.Signature.Results().At(0).Type().Underlying().(*types.Basic)
		ok := rt.Kind() == types.Uint64
		if ok {
			u64[f] = true
		}
		r.Ob("WIDTH", FnName(f)+"/result-type", p.Pos(f.Pos()), ok, true, tern(ok, "item argument carried as uint64 (the encoder writes up to 64 unsigned bits)", "the item argument is accumulated as "+rt.Name()+": values of 2^63 and above (or beyond the type's range) are decoded as different numbers"))
	}
	if len(u64) == 0 {
		return
	}
	// a function that hands on what such a reader returned, still as uint64 (the reader may be a
	// shared `bigEndianUint(pb)` below the function that parses the head)
	for changed := true; changed; {
		changed = false
		for _, f := range p.ModFns {
			if pkgRel(f) != cborRel || u64[f] || f.Blocks == nil || f.Signature.Results().Len() != 1 {
				continue
			}
			if b, ok := f.Signature.Results().At(0).Type().Underlying().(*types.Basic); !ok || b.Kind() != types.Uint64 {
				continue
			}
			hands := false
			eachInstr(f, func(b *ssa.BasicBlock, i int, in ssa.Instruction) {
				ret, ok := in.(*ssa.Return)
				if !ok {
					return
				}
				var visit func(v ssa.Value, depth int)
				visit = func(v ssa.Value, depth int) {
					if depth > 4 {
						return
					}
					switch x := v.(type) {
					case *ssa.Call:
						if u64[staticCallee(&x.Call)] {
							hands = true
						}
					case *ssa.Phi:
						for _, e := range x.Edges {
							visit(e, depth+1)
						}
					}
				}
				visit(ret.Results[0], 0)
			})
			if hands {
				u64[f] = true
				changed = true
			}
		}
	}
	// in cbor2JsonOneObject the integer arms format the reader's result without narrowing
	direct := false
	one = p.View(one, "keep-u64-readers", func(g *ssa.Function) bool { return u64[g] })
	eachInstr(one, func(b *ssa.BasicBlock, i int, in ssa.Instruction) {
		c, ok := in.(*ssa.Call)
		if !ok || !u64[staticCallee(&c.Call)] {
			return
		}
		direct = true
		// conversions on the way to the number formatter (a converted copy used as a length or
		// count elsewhere is not the printed value)
		var reachesFormatter func(v ssa.Value, depth int) bool
		reachesFormatter = func(v ssa.Value, depth int) bool {
			if depth > 4 {
				return false
			}
			for _, ref := range referrersOf(v) {
				switch x := ref.(type) {
				case *ssa.Call:
					if o := calleeObj(&x.Call); o != nil && o.Pkg() != nil && o.Pkg().Path() == "strconv" {
						return true
					}
				case *ssa.Convert, *ssa.BinOp, *ssa.UnOp, *ssa.Phi, *ssa.ChangeType:
					if reachesFormatter(x.(ssa.Value), depth+1) {
						return true
					}
				}
			}
			return false
		}
		for _, ref := range referrersOf(c) {
			if cv, ok := ref.(*ssa.Convert); ok && isIntLike(cv.Type()) && reachesFormatter(cv, 0) {
				okc := valuePreserving(c.Type(), cv.Type(), p.sizes)
				r.Ob("WIDTH", FnName(one)+"/no-narrowing", p.Pos(cv.Pos()), okc, true, tern(okc, "no narrowing", "the decoded integer is converted to "+types.TypeString(cv.Type(), shortQual)+" before it is printed: large values come out as different numbers"))
			}
		}
	})
	// the negative arm prints -(val+1): val+1 is formed exactly for val < 2^64-1 — no unguarded
	// wrap-around, and no tighter bound either (every smaller val is a representable integer that
	// must be printed from the formula, not from the constant of the extreme case)
	eachInstr(one, func(b *ssa.BasicBlock, i int, in ssa.Instruction) {
		add, ok := in.(*ssa.BinOp)
		if !ok || add.Op != token.ADD {
			return
		}
		rc, isC := add.X.(*ssa.Call)
		if k, isK := constInt(add.Y); !isC || !u64[staticCallee(&rc.Call)] || !isK || k != 1 {
			return
		}
		exact := false
		for _, c := range necessaryCmps(one, add) {
			if c.X != ssa.Value(rc) {
				continue
			}
			cc, isConst := c.Y.(*ssa.Const)
			if !isConst || cc.Value == nil {
				continue
			}
			u, _ := constantUint64(cc)
			switch {
			case (c.Op == token.LSS || c.Op == token.NEQ) && u == math.MaxUint64:
				exact = true
			case c.Op == token.LEQ && u == math.MaxUint64-1:
				exact = true
			}
		}
		r.Ob("WIDTH", FnName(one)+"/negative-range", p.Pos(add.Pos()), exact, true, tern(exact, "-(val+1) is formed for exactly val < 2^64-1; only the one value whose successor does not fit takes the constant arm", "the guard of the negative-integer arm is not `val < 2^64-1`: either val+1 can wrap to 0, or representable values (e.g. the carrier of math.MinInt64) are sent to the arm that prints the constant for -2^64"))
	})
	r.Ob("WIDTH", FnName(one)+"/integers-use-uint64-reader", p.Pos(one.Pos()), direct, true, tern(direct, "integer items are read with the uint64 argument reader and printed from it", "cbor2JsonOneObject does not print integers from the uint64 argument reader (a narrower helper is used): values ≥ 2^63 are not preserved"))
	// formatter: strconv.AppendUint on that value
	fmtOK := false
	eachInstr(one, func(b *ssa.BasicBlock, i int, in ssa.Instruction) {
		if c, ok := in.(*ssa.Call); ok && isCallTo(&c.Call, "strconv.AppendUint") {
			fmtOK = true
		}
	})
	r.Ob("WIDTH", FnName(one)+"/unsigned-formatter", p.Pos(one.Pos()), fmtOK, true, tern(fmtOK, "printed with strconv.AppendUint", "integers are not printed with an unsigned 64-bit formatter"))
}

// textSources: readNBytes and the private thin wrappers around it (`readByteString`: consume the
// head, then return readNBytes(src, n) as it is): a call to any of them yields input text.
func cborTextSources(p *Prog) map[*ssa.Function]bool {
	out := map[*ssa.Function]bool{}
	rnb := p.Func(cborRel, "readNBytes")
	if rnb == nil {
		return out
	}
	out[rnb] = true
	for changed := true; changed; {
		changed = false
		for _, f := range p.ModFns {
			if pkgRel(f) != cborRel || out[f] || f.Parent() != nil || f.Blocks == nil {
				continue
			}
			if f.Signature.Results().Len() != 1 || !isByteSlice(f.Signature.Results().At(0).Type()) {
				continue
			}
			ok, n := true, 0
			eachInstr(f, func(b *ssa.BasicBlock, i int, in ssa.Instruction) {
				if ret, isRet := in.(*ssa.Return); isRet {
					n++
					c, isC := ret.Results[0].(*ssa.Call)
					if !isC || !out[staticCallee(&c.Call)] {
						ok = false
					}
				}
			})
			if ok && n > 0 {
				out[f] = true
				changed = true
			}
		}
	}
	return out
}

// ruleDecoderEscape: bytes read from the input reach the JSON output only escaped, after a
// certified scan, or on the verbatim channel that only the tag decoder may use. The string
// decoders are found by what they do, not by name: every function of the package that obtains
// input text (readNBytes or a thin wrapper) and returns a byte slice is classified as
//   - quoting decoder: it delegates to the escaper (decodeStringComplex) — its raw whole-text copy
//     must follow a complete certified scan; a boolean parameter may select the verbatim channel;
//   - verbatim decoder: it hands the text on raw and never escapes — every caller must belong to
//     the tag decoder;
//   - neither (the text is only re-encoded, e.g. base64): outside this rule.
func ruleDecoderEscape(r *Run, p *Prog) {
	cx := p.Func(cborRel, "decodeStringComplex")
	if !r.Anchor(cx != nil, "ESCAPE", "cbor.decodeStringComplex") {
		return
	}
	cxOrig := cx
	srcs := cborTextSources(p)
	if !r.Anchor(len(srcs) > 0, "ESCAPE", "cbor.readNBytes") {
		return
	}
	ruleEscaperComplex(r, p, "ESCAPE", p.View(cx, "", nil), 1, nil)
	tagSet := map[*ssa.Function]bool{}
	if tg := p.Func(cborRel, "decodeTagData"); tg != nil {
		tagSet = p.exclusiveHelpers(tg)
	}
	keep := func(g *ssa.Function) bool { return g == cxOrig || srcs[g] }
	var cands []*ssa.Function
	for _, f := range p.ModFns {
		if pkgRel(f) != cborRel || f.Parent() != nil || f.Blocks == nil || f == cxOrig || srcs[f] {
			continue
		}
		if f.Signature.Results().Len() != 1 || !isByteSlice(f.Signature.Results().At(0).Type()) {
			continue
		}
		direct := false
		eachInstr(f, func(b *ssa.BasicBlock, i int, in ssa.Instruction) {
			if c, ok := in.(*ssa.Call); ok && srcs[staticCallee(&c.Call)] {
				direct = true
			}
		})
		if direct {
			cands = append(cands, f)
		}
	}
	sort.Slice(cands, func(i, j int) bool { return FnName(cands[i]) < FnName(cands[j]) })
	nQuoting := 0
	flagged := map[*ssa.Function]bool{}  // quoting decoders with a verbatim flag parameter
	verbatim := map[*ssa.Function]bool{} // decoders that never escape
	for _, orig := range cands {
		// private scan helpers ("index of the first byte that needs escaping") are part of the decoder
		f := p.View(orig, "keep-complex-read", keep)
		var text ssa.Value
		hasCx := false
		eachInstr(f, func(b *ssa.BasicBlock, i int, in ssa.Instruction) {
			if c, ok := in.(*ssa.Call); ok {
				if sc := staticCallee(&c.Call); srcs[sc] {
					text = c
				} else if sc == cxOrig {
					hasCx = true
				}
			}
		})
		if text == nil {
			continue
		}
		// does the text leave raw (whole-text append, or returned as it is)?
		raw := false
		for _, ref := range referrersOf(text) {
			switch x := ref.(type) {
			case *ssa.Return:
				raw = true
			case *ssa.Call:
				if sp, _ := appendElems(x); sp == text {
					raw = true
				}
			}
		}
		switch {
		case hasCx:
			nQuoting++
			// raw copies under <bool parameter> == true are the documented verbatim channel
			exempt := func(c *ssa.Call) bool {
				return hasCmp(necessaryCmps(f, c), func(op token.Token, x, y ssa.Value) bool {
					b, ok := constBool(y)
					_, isP := x.(*ssa.Parameter)
					if ok && isP && ((op == token.EQL && b) || (op == token.NEQ && !b)) {
						flagged[orig] = true
						return true
					}
					return false
				})
			}
			ruleEscaperFastOn(r, p, "ESCAPE", f, text, nil, cxOrig, exempt)
		case raw:
			verbatim[orig] = true
			r.Ob("ESCAPE", FnName(orig)+"/verbatim-decoder", p.Pos(orig.Pos()), true, false, "hands the payload on unescaped: only the tag decoder may call it")
		}
	}
	if nQuoting < 2 {
		r.Fail("ESCAPE", "quoting-decoders", "-", fmt.Sprintf("only %d decoder functions that read text and delegate to the escaper were found (byte strings and text strings expected)", nQuoting))
	}
	// who asks for the verbatim channel
	for ds := range flagged {
		bi := -1
		for i, par := range ds.Params {
			if b, ok := par.Type().Underlying().(*types.Basic); ok && b.Kind() == types.Bool {
				bi = i
			}
		}
		for cf, sites := range callersOf(p, ds, "*") {
			for _, s := range sites {
				if s == nil || bi < 0 || len(s.Call.Args) <= bi {
					continue
				}
				b, isC := constBool(s.Call.Args[bi])
				if !isC {
					r.Ob("ESCAPE", FnName(cf)+"/verbatim", p.Pos(s.Pos()), false, true, "noQuotes is not a constant at this call")
					continue
				}
				if b {
					ok := tagSet[cf]
					r.Ob("ESCAPE", FnName(cf)+"/verbatim", p.Pos(s.Pos()), ok, true, tern(ok, "verbatim payload requested by the tag decoder (embedded JSON / octets that are re-formatted)", "a byte string is requested verbatim (unescaped, unquoted) outside the tag decoder"))
				} else {
					r.Ob("ESCAPE", FnName(cf)+"/quoted", p.Pos(s.Pos()), true, false, "quoted, escaped byte string")
				}
			}
		}
	}
	for vf := range verbatim {
		for cf, sites := range callersOf(p, vf, "*") {
			for _, s := range sites {
				if s == nil {
					continue
				}
				ok := tagSet[cf]
				r.Ob("ESCAPE", FnName(cf)+"/verbatim", p.Pos(s.Pos()), ok, true, tern(ok, "verbatim payload requested by the tag decoder (embedded JSON / octets that are re-formatted)", "a byte string is requested verbatim (unescaped, unquoted) outside the tag decoder"))
			}
		}
	}
	// in the tag decoder, verbatim octets reach the output only through formatting (net, hex table) or as embedded JSON
	rawFns := map[*ssa.Function]bool{}
	for f := range flagged {
		rawFns[f] = true
	}
	for f := range verbatim {
		rawFns[f] = true
	}
	ruleTagOctets(r, p, rawFns)
}

// ruleTagOctets: results of the verbatim channel (decodeString(src, true) / a verbatim decoder) in
// decodeTagData are returned as they are only in the embedded-JSON arm; otherwise they are
// converted (net.IP/HardwareAddr String, hex table).
func ruleTagOctets(r *Run, p *Prog, rawFns map[*ssa.Function]bool) {
	tag := p.Func(cborRel, "decodeTagData")
	if tag == nil || len(rawFns) == 0 {
		return
	}
	ej, _ := cborConst(p, "additionalTypeEmbeddedJSON")
	var names []string
	for f := range rawFns {
		names = append(names, f.Name())
	}
	sort.Strings(names)
	tag = p.View(tag, "keep-raw:"+strings.Join(names, ","), func(g *ssa.Function) bool { return rawFns[g] })
	eachInstr(tag, func(b *ssa.BasicBlock, i int, in ssa.Instruction) {
		c, ok := in.(*ssa.Call)
		if !ok || !rawFns[staticCallee(&c.Call)] {
			return
		}
		// is this value returned directly or appended raw? (through the result phis of inlined helpers)
		rawUse := ""
		var follow func(v ssa.Value, depth int)
		follow = func(v ssa.Value, depth int) {
			for _, ref := range referrersOf(v) {
				switch x := ref.(type) {
				case *ssa.Return:
					rawUse = "returned as is"
				case *ssa.Phi:
					if depth < 4 {
						follow(x, depth+1)
					}
				case *ssa.Call:
					if builtinName(&x.Call) == "append" {
						if sp, _ := appendElems(x); sp == v {
							rawUse = "appended raw"
						}
					}
				}
			}
		}
		follow(c, 0)
		if rawUse == "" {
			r.Ob("ESCAPE", FnName(tag)+"/octets-formatted", p.Pos(c.Pos()), true, true, "verbatim octets are only re-formatted (address / hex text)")
			return
		}
		okc := hasCmp(necessaryCmps(tag, c), func(op token.Token, x, y ssa.Value) bool {
			n, isN := constInt(y)
			return isN && n == ej && op == token.EQL
		})
		r.Ob("ESCAPE", FnName(tag)+"/verbatim-only-embedded-json", p.Pos(c.Pos()), okc, true, tern(okc, "verbatim payload "+rawUse+" only under the embedded-JSON tag", "a verbatim (unescaped) byte string is "+rawUse+" outside the embedded-JSON arm: arbitrary input bytes reach the JSON output"))
	})
}

// ruleBuildAgreement: two places where the JSON build and the binary build (encoder + decoder)
// must use the very same ingredient, or the decoded binary log differs from the JSON log:
//
//	B64   the base64 alphabet of RawCBOR data URLs: the JSON build's appendCBOR and the CBOR decoder
//	      reference the same encoding/base64 Encoding variable;
//	HOOK  both builds bind the encoder package's JSONMarshalFunc to a function that reads
//	      zerolog.InterfaceMarshalFunc when it is called (a value copied at init time ignores a
//	      marshaler installed later, in one build only).
func ruleBuildAgreement(r *Run, pj, pb *Prog) {
	b64vars := func(f *ssa.Function) map[string]bool {
		out := map[string]bool{}
		seen := map[*ssa.Function]bool{}
		var visit func(g *ssa.Function, depth int)
		visit = func(g *ssa.Function, depth int) {
			if g == nil || g.Blocks == nil || seen[g] || depth > 3 {
				return
			}
			seen[g] = true
			eachInstr(g, func(b *ssa.BasicBlock, i int, in ssa.Instruction) {
				for _, op := range in.Operands(nil) {
					if gl, ok := (*op).(*ssa.Global); ok && gl.Pkg != nil && gl.Pkg.Pkg.Path() == "encoding/base64" {
						out[gl.Name()] = true
					}
				}
				if cc := callCommon(in); cc != nil {
					if sc := staticCallee(cc); sc != nil && InModule(sc) && sc.Pkg == g.Pkg {
						visit(sc, depth+1)
					}
				}
			})
		}
		visit(f, 0)
		return out
	}
	enc := pj.Func("", "appendCBOR")
	dec := pb.Func(cborRel, "decodeStringToDataUrl")
	if dec == nil {
		// role: the decoder function with a string (mime type) parameter returning []byte
		for _, f := range pb.ModFns {
			if pkgRel(f) == cborRel && f.Parent() == nil && len(f.Params) == 2 && isStringType(f.Params[1].Type()) && f.Signature.Results().Len() == 1 && isByteSlice(f.Signature.Results().At(0).Type()) {
				if _, ok := f.Params[0].Type().(*types.Pointer); ok {
					dec = f
				}
			}
		}
	}
	if r.Anchor(enc != nil && dec != nil, "B64", "appendCBOR (JSON build) and the decoder's data-URL function") {
		r.cur = "J"
		ev := b64vars(enc)
		r.cur = "B"
		dv := b64vars(dec)
		same := len(ev) == 1 && len(dv) == 1
		for k := range ev {
			if !dv[k] {
				same = false
			}
		}
		r.Ob("B64", "data-url-alphabet", pb.Pos(dec.Pos()), same, true, tern(same, fmt.Sprintf("both builds render RawCBOR with base64.%v", keysOf(ev)), fmt.Sprintf("the JSON build renders RawCBOR with base64.%v, the CBOR decoder with base64.%v: the decoded binary log differs from the JSON log", keysOf(ev), keysOf(dv))))
	}
	for _, pr := range []struct {
		p   *Prog
		cfg string
		rel string
	}{{pj, "J", "internal/json"}, {pb, "B", cborRel}} {
		r.cur = pr.cfg
		hook := pr.p.Global(pr.rel, "JSONMarshalFunc")
		imf := pr.p.Global("", "InterfaceMarshalFunc")
		if !r.Anchor(hook != nil && imf != nil, "HOOK", pr.rel+".JSONMarshalFunc / zerolog.InterfaceMarshalFunc") {
			continue
		}
		n := 0
		for _, f := range pr.p.ModFns {
			if pkgRel(f) != "" {
				continue
			}
			eachInstr(f, func(b *ssa.BasicBlock, i int, in ssa.Instruction) {
				st, ok := in.(*ssa.Store)
				if !ok || st.Addr != ssa.Value(hook) {
					return
				}
				n++
				okc := false
				why := descr(st.Val)
				var fn *ssa.Function
				switch x := stripChange(st.Val).(type) {
				case *ssa.Function:
					fn = x
				case *ssa.MakeClosure:
					fn, _ = x.Fn.(*ssa.Function)
				}
				if fn != nil && fn.Blocks != nil {
					// reads the variable at call time and calls what it read
					eachInstr(fn, func(_ *ssa.BasicBlock, _ int, y ssa.Instruction) {
						if c, ok := y.(*ssa.Call); ok && !c.Call.IsInvoke() {
							if g := loadedGlobal(c.Call.Value); g == imf {
								okc = true
							}
						}
					})
					why = "a function that does not call InterfaceMarshalFunc as read at call time"
				} else if g := loadedGlobal(st.Val); g == imf {
					why = "the value InterfaceMarshalFunc had at init time"
				}
				r.Ob("HOOK", pr.rel+".JSONMarshalFunc/late-bound", pr.p.Pos(st.Pos()), okc, true, tern(okc, "bound to a function that reads InterfaceMarshalFunc on every call", "the "+pr.cfg+" build binds the encoder's marshal hook to "+why+": a marshaler installed later is honoured by one build and ignored by the other"))
			})
		}
		r.Ob("HOOK", pr.rel+".JSONMarshalFunc/bound", "-", n >= 1, true, fmt.Sprintf("%d binding(s) of the encoder's marshal hook in package zerolog", n))
	}
}

// ruleFloatWidth: the CBOR float appenders emit the width of their Go type on every path — head
// byte 0xfa and 4 payload bytes for float32, 0xfb and 8 for float64 (the special values are
// constant strings of the same shape). The decoder prints a 4-byte float with the shortest digits
// that identify a float32 and an 8-byte float with those of a float64, as the JSON build does for
// the two Go types: a float64 "compacted" into the 4-byte form decodes to different digits than
// the JSON build emits for the same call.
func ruleFloatWidth(r *Run, p *Prog) {
	for _, w := range []struct {
		name string
		head int64
		n    int
	}{{"AppendFloat32", 0xfa, 5}, {"AppendFloat64", 0xfb, 9}} {
		f := p.Method(cborRel, "Encoder", w.name)
		if !r.Anchor(f != nil, "WIDTH", "cbor.Encoder."+w.name) {
			continue
		}
		f = p.View(f, "", nil)
		paths, complete := enumPaths(f, 10, 20000)
		if !complete {
			r.Fail("WIDTH", FnName(f)+"/float-width", p.Pos(f.Pos()), "cannot enumerate the paths of the float appender")
			continue
		}
		okAll, why, nRet := true, "", 0
		for _, pa := range paths {
			if _, isRet := pa.Exit.(*ssa.Return); !isRet {
				continue
			}
			first := int64(-1)
			count := 0
			bad := ""
			var lit []byte // the bytes written, when they are all constant
			litKnown := true
			feasible := pa.WalkEval(func(bi int, in ssa.Instruction, e *miniEnv) {
				c, ok := in.(*ssa.Call)
				if !ok {
					return
				}
				if builtinName(&c.Call) != "append" {
					if isByteSlice(c.Type()) {
						bad = "hands the value to " + descr(c.Call.Value) + " instead of writing it"
					}
					return
				}
				spread, elems := appendElems(c)
				if spread != nil {
					str, isS := constString(pa.ResolveAt(spread, bi)) // a literal chosen by an earlier switch
					if !isS {
						// or read from a package-level table of literals by a class index that is a
						// constant on this path (`float32Special[class]`)
						if ld, ok := spread.(*ssa.UnOp); ok && ld.Op == token.MUL {
							if ia, ok := ld.X.(*ssa.IndexAddr); ok {
								if g, ok := ia.X.(*ssa.Global); ok {
									if k, ok := e.eval(pa.ResolveAt(ia.Index, bi), 0); ok {
										str, isS = globalStringAt(p, g, k)
									}
								}
							}
						}
					}
					if !isS {
						bad = "appends " + descr(spread)
						return
					}
					if count == 0 && len(str) > 0 {
						first = int64(str[0])
					}
					count += len(str)
					lit = append(lit, str...)
					return
				}
				litKnown = false
				for _, el := range elems {
					if count == 0 {
						if el != nil {
							if v, ok := e.eval(pa.ResolveAt(el, bi), 0); ok {
								first = v & 0xff
							}
						}
					}
					count++
				}
			})
			if !feasible {
				continue
			}
			nRet++
			// the three non-finite values are written as constants: each must be the IEEE 754 bit
			// pattern of the value the path has just identified
			class := ""
			for _, c := range pa.Cmps() {
				call, isCall := c.X.(*ssa.Call)
				bv, isB := constBool(c.Y)
				if !isCall || !isB || !((c.Op == token.EQL && bv) || (c.Op == token.NEQ && !bv)) {
					continue
				}
				switch {
				case isCallTo(&call.Call, "math.IsNaN"):
					class = "NaN"
				case isCallTo(&call.Call, "math.IsInf") && len(call.Call.Args) == 2:
					if sgn, ok := constInt(call.Call.Args[1]); ok && sgn > 0 {
						class = "+Inf"
					} else if ok && sgn < 0 {
						class = "-Inf"
					} else if class == "" {
						class = "anyInf" // sign 0 (or not a constant): true for +Inf and -Inf alike
					}
				}
			}
			if class == "anyInf" && bad == "" && litKnown && len(lit) > 0 {
				bad = fmt.Sprintf("writes the constant % x under math.IsInf(v, 0), which holds for both signs: one of the two infinities is written with the other's bit pattern", lit)
			}
			if class != "" && class != "anyInf" && bad == "" {
				want := map[string]map[int]string{
					"NaN":  {5: "\xfa\x7f\xc0\x00\x00", 9: "\xfb\x7f\xf8\x00\x00\x00\x00\x00\x00"},
					"+Inf": {5: "\xfa\x7f\x80\x00\x00", 9: "\xfb\x7f\xf0\x00\x00\x00\x00\x00\x00"},
					"-Inf": {5: "\xfa\xff\x80\x00\x00", 9: "\xfb\xff\xf0\x00\x00\x00\x00\x00\x00"},
				}[class][w.n]
				if litKnown && string(lit) != want {
					bad = fmt.Sprintf("writes % x for %s, whose bit pattern is % x", lit, class, []byte(want))
				}
			}
			if bad != "" || first != w.head || count != w.n {
				okAll = false
				if bad == "" {
					bad = fmt.Sprintf("writes head byte 0x%02x and %d bytes in all", first, count)
				}
				why = bad
			}
		}
		okc := okAll && nRet > 0
		r.Ob("WIDTH", FnName(f)+"/float-width", p.Pos(f.Pos()), okc, true, tern(okc, fmt.Sprintf("every path writes head byte 0x%02x and %d bytes in all", w.head, w.n), fmt.Sprintf("%s does not write the %d-byte form of its own Go type on every path (%s): the decoder prints the digits of the other width, which differ from what the JSON build emits for the same call", w.name, w.n, why)))
	}
}

// globalStringAt: the constant string the package initialiser stores into element k of the
// package-level array g (and nothing else stores into g).
func globalStringAt(p *Prog, g *ssa.Global, k int64) (string, bool) {
	if g.Pkg == nil {
		return "", false
	}
	var fns []*ssa.Function
	if pi := g.Pkg.Func("init"); pi != nil {
		fns = append(fns, pi)
	}
	for _, f := range p.ModFns {
		if f.Pkg == g.Pkg {
			fns = append(fns, f)
		}
	}
	val, found, bad := "", false, false
	for _, f := range fns {
		isInit := f.Parent() == nil && (f.Name() == "init" || strings.HasPrefix(f.Name(), "init#"))
		var lit *ssa.Alloc
		eachInstr(f, func(b *ssa.BasicBlock, i int, in ssa.Instruction) {
			if st, ok := in.(*ssa.Store); ok && st.Addr == ssa.Value(g) {
				if !isInit {
					bad = true
				}
				if ld, ok := st.Val.(*ssa.UnOp); ok && ld.Op == token.MUL {
					lit, _ = ld.X.(*ssa.Alloc)
				}
			}
		})
		eachInstr(f, func(b *ssa.BasicBlock, i int, in ssa.Instruction) {
			st, ok := in.(*ssa.Store)
			if !ok {
				return
			}
			ia, ok := st.Addr.(*ssa.IndexAddr)
			if !ok || !(ia.X == ssa.Value(g) || (lit != nil && ia.X == ssa.Value(lit))) {
				return
			}
			if !isInit {
				bad = true
				return
			}
			idx, okI := constInt(ia.Index)
			str, okS := constString(st.Val)
			if okI && idx == k {
				if !okS || found {
					bad = true
				}
				val, found = str, true
			}
		})
	}
	return val, found && !bad
}
