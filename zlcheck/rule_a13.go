package main

// A13 — pool typestate.
//  put-effect: a call that returns its argument to a sync.Pool (Pool.Put itself, or a module
//  function that puts that parameter on every path except a size guard);
//  (a) no use of an object after a put-effect on it;  (b) no second put;
//  (c) whoever splices the buffer of a pooled object into another buffer puts the object
//      afterwards on every path; whoever puts a parameter on one path puts it on all paths on
//      which it is non-nil (no leak on the filtered path).

import (
	"fmt"
	"go/token"
	"go/types"
	"sort"
	"strings"

	"golang.org/x/tools/go/ssa"
)

type a13 struct {
	r        *Run
	p        *Prog
	putsMemo map[string]int // fn|idx -> 0 unknown/in progress, 1 yes, 2 no
	pooled   map[*types.Named]bool
	nPools   int
	nPuts    int
	nSplice  int
}

func isPoolPut(c *ssa.CallCommon) bool { return isCallTo(c, "(*sync.Pool).Put") }
func isPoolGet(c *ssa.CallCommon) bool { return isCallTo(c, "(*sync.Pool).Get") }

func newA13(r *Run, p *Prog) *a13 {
	a := &a13{r: r, p: p, putsMemo: map[string]int{}, pooled: map[*types.Named]bool{}}
	// pooled types: whatever a Pool.Get result is asserted to
	for _, f := range p.ModFns {
		eachInstr(f, func(b *ssa.BasicBlock, i int, in ssa.Instruction) {
			c, ok := in.(*ssa.Call)
			if !ok || !isPoolGet(&c.Call) {
				return
			}
			for _, ref := range referrersOf(c) {
				if ta, ok := ref.(*ssa.TypeAssert); ok {
					if n := namedOf(ta.AssertedType); n != nil {
						a.pooled[n] = true
					}
				}
			}
		})
	}
	return a
}

// putArgOf: if the instruction has a put-effect, the value it puts.
func (a *a13) putArgOf(in ssa.Instruction) ssa.Value {
	cc := callCommon(in)
	if cc == nil {
		return nil
	}
	if isPoolPut(cc) && len(cc.Args) == 2 {
		v := cc.Args[1]
		if mi, ok := v.(*ssa.MakeInterface); ok {
			v = mi.X
		}
		return v
	}
	sc := staticCallee(cc)
	if sc == nil || !InModule(sc) {
		return nil
	}
	for i, arg := range cc.Args {
		if i < len(sc.Params) && isPointer(arg.Type()) && a.pooled[namedOf(arg.Type())] && a.puts(sc, i) {
			return arg
		}
	}
	return nil
}

// sameObj: do two pointer values designate the same object within one function (through
// receiver-returning method chains)?
func sameObj(x, y ssa.Value) bool {
	return baseObj(x) == baseObj(y)
}

func baseObj(v ssa.Value) ssa.Value {
	for depth := 0; depth < 10; depth++ {
		switch x := v.(type) {
		case *ssa.ChangeType:
			v = x.X
			continue
		case *ssa.MakeInterface:
			v = x.X
			continue
		case *ssa.Slice:
			v = x.X // same backing array
			continue
		case *ssa.Call:
			// e.Str(...) returns e: chained builders
			if sc := staticCallee(&x.Call); sc != nil && sc.Signature.Recv() != nil && len(x.Call.Args) > 0 &&
				types.Identical(x.Type(), x.Call.Args[0].Type()) && isPointer(x.Type()) && InModule(sc) {
				v = x.Call.Args[0]
				continue
			}
		}
		return v
	}
	return v
}

// puts: does f put its parameter idx on every path to a return, except paths guarded by a
// capacity test (the pool-size guard) or on which the parameter is nil?
func (a *a13) puts(f *ssa.Function, idx int) bool {
	key := fmt.Sprintf("%s|%d", f.String(), idx)
	switch a.putsMemo[key] {
	case 1:
		return true
	case 2, 3:
		return false
	}
	a.putsMemo[key] = 3
	res := false
	if f.Blocks != nil && viewInfo[f] == nil {
		// judged with private helpers inlined (e.g. the size guard factored out as a predicate)
		f = a.p.View(f, "", nil)
	}
	if f.Blocks != nil && idx < len(f.Params) {
		pv := f.Params[idx]
		has := false
		eachInstr(f, func(b *ssa.BasicBlock, i int, in ssa.Instruction) {
			if _, isDefer := in.(*ssa.Defer); isDefer {
				return
			}
			if v := a.putArgOf(in); v != nil && sameObj(v, pv) {
				has = true
			}
		})
		if has {
			leak, _ := pathExists(f, nil, isReturn, func(in ssa.Instruction) bool {
				v := a.putArgOf(in)
				return v != nil && sameObj(v, pv)
			}, a.guardFilter(f, pv))
			res = !leak
		}
	}
	if res {
		a.putsMemo[key] = 1
	} else {
		a.putsMemo[key] = 2
	}
	return res
}

// guardFilter removes the edges on which v is nil, a type assertion deriving the pooled object
// failed, or the pool's capacity guard fired.
func (a *a13) guardFilter(f *ssa.Function, v ssa.Value) edgeFilter {
	return func(b *ssa.BasicBlock, si int) bool {
		ifi, ok := b.Instrs[len(b.Instrs)-1].(*ssa.If)
		if !ok {
			return true
		}
		c, ok := cmpOf(CondEdge{ifi, si == 0})
		if !ok {
			return true
		}
		// v == nil (or a value derived from v by a type assertion)
		if c.Op == token.EQL && isNilConst(c.Y) && (sameObj(c.X, v) || derivedByAssert(c.X, v)) {
			return false
		}
		// ok == false of an assertion on v
		if ex, isEx := c.X.(*ssa.Extract); isEx && ex.Index == 1 {
			if ta, isTA := ex.Tuple.(*ssa.TypeAssert); isTA && sameObj(ta.X, v) {
				if bv, isB := constBool(c.Y); isB && ((c.Op == token.EQL && !bv) || (c.Op == token.NEQ && bv)) {
					return false
				}
			}
		}
		// cap(x.buf) > C : the object is too large to be pooled
		if call, isCall := c.X.(*ssa.Call); isCall && builtinName(&call.Call) == "cap" && (c.Op == token.GTR || c.Op == token.GEQ) {
			if _, isC := constInt(c.Y); isC {
				return false
			}
		}
		// (*bytes.Buffer).Cap() <= limit style guards
		if call, isCall := c.X.(*ssa.Call); isCall && isCallTo(&call.Call, "(*bytes.Buffer).Cap") && (c.Op == token.GTR || c.Op == token.GEQ) {
			return false
		}
		return true
	}
}

func derivedByAssert(x, v ssa.Value) bool {
	if ex, ok := x.(*ssa.Extract); ok && ex.Index == 0 {
		if ta, ok := ex.Tuple.(*ssa.TypeAssert); ok {
			return sameObj(ta.X, v)
		}
	}
	if ta, ok := x.(*ssa.TypeAssert); ok {
		return sameObj(ta.X, v)
	}
	return false
}

// loadedFromObj: v is (a slice of) a slice/pointer field value loaded from obj earlier
func loadedFromObj(v ssa.Value, obj ssa.Value) bool {
	return loadedFromObjN(v, obj, 0, map[ssa.Value]bool{})
}

// loadedFromObjN follows slices, phis, append and appender-shaped calls (result shares the
// backing array of the first slice argument) back to a load of a slice/pointer field of obj.
func loadedFromObjN(v ssa.Value, obj ssa.Value, depth int, seen map[ssa.Value]bool) bool {
	if depth > 10 || v == nil || seen[v] {
		return false
	}
	seen[v] = true
	v = baseObj(v)
	if fv, base := loadedField(v); fv != nil {
		switch fv.Type().Underlying().(type) {
		case *types.Slice, *types.Pointer:
			return sameObj(base, obj)
		}
		return false
	}
	switch x := v.(type) {
	case *ssa.Phi:
		for _, e := range x.Edges {
			if loadedFromObjN(e, obj, depth+1, seen) {
				return true
			}
		}
	case *ssa.Call:
		if _, isSlice := x.Type().Underlying().(*types.Slice); !isSlice {
			return false
		}
		for _, a := range x.Call.Args {
			if types.Identical(a.Type(), x.Type()) {
				return loadedFromObjN(a, obj, depth+1, seen)
			}
		}
	}
	return false
}

// usesObj: does the instruction read or write through obj, or hand it (or a buffer loaded from
// it) to a call?
func usesObj(in ssa.Instruction, obj ssa.Value) bool {
	switch x := in.(type) {
	case *ssa.FieldAddr:
		return sameObj(x.X, obj)
	case *ssa.UnOp:
		return x.Op == token.MUL && sameObj(x.X, obj)
	case *ssa.Store:
		return sameObj(x.Addr, obj)
	case *ssa.Call, *ssa.Go, *ssa.Defer:
		cc := callCommon(in)
		for _, a := range cc.Args {
			if sameObj(a, obj) || loadedFromObj(a, obj) {
				return true
			}
		}
		if cc.IsInvoke() && sameObj(cc.Value, obj) {
			return true
		}
	case *ssa.Return:
		// handing the object, or a buffer that still aliases its storage, back to the caller
		for _, res := range x.Results {
			if sameObj(res, obj) || loadedFromObj(res, obj) {
				return true
			}
		}
	}
	return false
}

// ruleA13 checks the functions of the given module-relative packages.
func ruleA13(r *Run, p *Prog, rels map[string]bool, rules string) *a13 {
	return ruleA13Filtered(r, p, rels, rules, nil)
}

// ruleA13Filtered: like ruleA13, restricted to the functions selected by only (nil = all).
func ruleA13Filtered(r *Run, p *Prog, rels map[string]bool, rules string, only func(root *ssa.Function) bool) *a13 {
	a := newA13(r, p)
	// functions are judged with their private helpers inlined (a helper that returns a pooled
	// object's buffer after putting it back is a use-after-put in its caller); the put wrappers
	// themselves (conditional Put on the buffer size) stay calls: they are what "put" means
	var relList []string
	for rel := range rels {
		relList = append(relList, rel)
	}
	sort.Strings(relList)
	isPutWrapper := func(g *ssa.Function) bool {
		for i := range g.Params {
			if a.puts(g, i) {
				return true
			}
		}
		return false
	}
	for _, f := range p.RootViews(relList, "keep-put-wrappers", isPutWrapper) {
		if only != nil && !only(viewRoot(f)) {
			continue
		}
		a.checkFunc(f, rules)
	}
	r.Count("a13_pooled_types", len(a.pooled))
	r.Count("a13_put_sites", a.nPuts)
	r.Count("a13_splice_sites", a.nSplice)
	return a
}

func (a *a13) checkFunc(f *ssa.Function, rules string) {
	r, p := a.r, a.p
	// a chainable method (exported, returns the pooled type) leaves its receiver with the caller,
	// who goes on using it: it never returns the receiver to the pool itself — only the finalisers
	// (Msg/Send through write) do. `Discard` recycling the event "because the chain ends here"
	// puts it a second time when the caller that kept the pointer finalises it.
	if strings.Contains(rules, "b") && f.Signature.Recv() != nil && f.Object() != nil && f.Object().Exported() && len(f.Params) > 0 && f.Signature.Results().Len() == 1 {
		rt := f.Signature.Recv().Type()
		if isPointer(rt) && a.pooled[namedOf(rt)] && types.Identical(f.Signature.Results().At(0).Type(), rt) {
			var bad ssa.Instruction
			eachInstr(f, func(b *ssa.BasicBlock, i int, in ssa.Instruction) {
				if v := a.putArgOf(in); v != nil && sameObj(v, f.Params[0]) {
					bad = in
				}
			})
			pos := p.Pos(f.Pos())
			if bad != nil {
				pos = p.Pos(bad.Pos())
			}
			r.Ob("A13b", FnName(f)+"/chainable-keeps-receiver", pos, bad == nil, true, tern(bad == nil, "the chainable method does not return its receiver to the pool", FnName(f)+" returns its own receiver to the pool although its caller still holds the pointer (the method is chainable): a caller that goes on to finalise the event puts it a second time, and two later events share one object"))
		}
	}
	has := func(x byte) bool {
		for i := 0; i < len(rules); i++ {
			if rules[i] == x {
				return true
			}
		}
		return false
	}
	// deferred puts
	var deferred []ssa.Value
	eachInstr(f, func(b *ssa.BasicBlock, i int, in ssa.Instruction) {
		if d, ok := in.(*ssa.Defer); ok {
			if v := a.putArgOf(d); v != nil {
				deferred = append(deferred, v)
			}
		}
	})
	eachInstr(f, func(b *ssa.BasicBlock, i int, in ssa.Instruction) {
		if _, isDefer := in.(*ssa.Defer); isDefer {
			return
		}
		v := a.putArgOf(in)
		if v == nil {
			return
		}
		a.nPuts++
		name := FnName(f) + "/put:" + descr(baseObj(v))
		// a path that re-executes the instruction defining the object deals with a new object
		def, _ := baseObj(v).(ssa.Instruction)
		if ph, isPhi := def.(*ssa.Phi); isPhi && phiCarriesItself(ph) {
			// a loop-carried variable (`var e *Event; for … { if e == nil { e = newEvent() }; …; put(e) }`):
			// executing the phi again hands the SAME object to the next iteration
			def = nil
		}
		redefined := func(x ssa.Instruction) bool { return def != nil && x == def }
		if has('a') {
			// (a) use after put
			found, path := pathExists(f, in, func(x ssa.Instruction) bool { return usesObj(x, v) && a.putArgOf(x) == nil }, redefined, nil)
			r.Ob("A13a", name, p.Pos(in.Pos()), !found, true, tern(!found, "no access to the object after it was returned to the pool", "the object is used after it was returned to the pool (another goroutine may already own it)"))
			_ = path
		}
		if has('a') {
			// (a') an object that lives in a field of a longer-lived value must not stay reachable
			// through that field once it is back in the pool: the field is overwritten on every path
			// from the put to the return (otherwise a later call uses, or puts, somebody else's object)
			if fv, base := loadedField(baseObj(v)); fv != nil && base != nil {
				if _, isAlloc := base.(*ssa.Alloc); !isAlloc {
					clears := func(x ssa.Instruction) bool {
						st, ok := x.(*ssa.Store)
						if !ok {
							return false
						}
						fa, ok := st.Addr.(*ssa.FieldAddr)
						return ok && fieldVar(fa) == fv && sameObj(fa.X, base)
					}
					stays, _ := pathExists(f, in, isReturn, clears, nil)
					if stays {
						// `buf := w.buf; w.buf = nil; …; pool.Put(buf)`: the field was cleared between the
						// load of the object and its put
						if ld, isInstr := baseObj(v).(ssa.Instruction); isInstr {
							if uncleared, _ := pathExists(f, ld, func(x ssa.Instruction) bool { return x == in }, clears, nil); !uncleared {
								stays = false
							}
						}
					}
					r.Ob("A13a", name+"/field-cleared", p.Pos(in.Pos()), !stays, true, tern(!stays, "the field that held the object is overwritten before the function returns", "the object is returned to the pool but field "+fname(fv)+" still refers to it when the function returns: the next call through that field uses (or puts again) an object another goroutine may own"))
				}
			}
		}
		if has('b') {
			// (b) double put
			found, _ := pathExists(f, in, func(x ssa.Instruction) bool {
				if _, isDefer := x.(*ssa.Defer); isDefer {
					return false
				}
				w := a.putArgOf(x)
				return w != nil && sameObj(w, v)
			}, redefined, nil)
			for _, d := range deferred {
				// the deferred put runs on the paths on which its object was created: there a
				// variable assigned from it (a phi with that edge) is the same object
				if sameObj(d, v) || phiHasEdge(baseObj(v), baseObj(d), 0) || phiHasEdge(baseObj(d), baseObj(v), 0) {
					found = true
				}
			}
			r.Ob("A13b", name, p.Pos(in.Pos()), !found, true, tern(!found, "the object is put at most once per path", "the object is returned to the pool twice on one path (two later Gets receive the same object)"))
		}
	})
	if !has('c') {
		return
	}
	// (c1) splice of a pooled object's buffer must be followed by a put of that object
	eachInstr(f, func(b *ssa.BasicBlock, i int, in ssa.Instruction) {
		c, ok := in.(*ssa.Call)
		if !ok || builtinName(&c.Call) != "append" || len(c.Call.Args) != 2 {
			return
		}
		fv, base := loadedField(c.Call.Args[1])
		if fv == nil || !isByteSlice(fv.Type()) || !isPointer(base.Type()) || !a.pooled[namedOf(base.Type())] {
			return
		}
		a.nSplice++
		// the object was dereferenced for the splice: after it, the `== nil` edge of a test of the
		// same pointer cannot be taken (`if dict != nil { putEvent(dict) }` as the common tail)
		notNilEdge := func(bb *ssa.BasicBlock, si int) bool {
			ifi, ok := bb.Instrs[len(bb.Instrs)-1].(*ssa.If)
			if !ok {
				return true
			}
			if cm, ok := cmpOf(CondEdge{ifi, si == 0}); ok && cm.Op == token.EQL && isNilConst(cm.Y) && sameObj(cm.X, base) {
				return false
			}
			return true
		}
		leak, _ := pathExists(f, c, isReturn, func(x ssa.Instruction) bool {
			if _, isDefer := x.(*ssa.Defer); isDefer {
				return false
			}
			w := a.putArgOf(x)
			return w != nil && sameObj(w, base)
		}, notNilEdge)
		for _, d := range deferred {
			if sameObj(d, base) {
				leak = false
			}
		}
		r.Ob("A13c", FnName(f)+"/splice:"+descr(baseObj(base)), p.Pos(c.Pos()), !leak, true,
			tern(!leak, "the pooled object whose buffer is spliced is returned to its pool on every path", "the buffer of a pooled "+types.TypeString(base.Type(), shortQual)+" is spliced into another buffer and the object is then dropped without being returned to its pool (one allocation per call)"))
	})
	// (c1') handing the buffer of a pooled object to a writer (interface call) consumes the object as well
	eachInstr(f, func(b *ssa.BasicBlock, i int, in ssa.Instruction) {
		c, ok := in.(*ssa.Call)
		if !ok || !c.Call.IsInvoke() {
			return
		}
		for _, arg := range c.Call.Args {
			if !isByteSlice(arg.Type()) {
				continue
			}
			base := pooledOwnerOf(a, f, arg)
			if base == nil {
				continue
			}
			a.nSplice++
			leak, _ := pathExists(f, c, isReturn, func(x ssa.Instruction) bool {
				if _, isDefer := x.(*ssa.Defer); isDefer {
					return false
				}
				w := a.putArgOf(x)
				return w != nil && sameObj(w, base)
			}, nil)
			for _, d := range deferred {
				if sameObj(d, base) {
					leak = false
				}
			}
			r.Ob("A13c", FnName(f)+"/written:"+descr(baseObj(base)), p.Pos(c.Pos()), !leak, true,
				tern(!leak, "the pooled object whose buffer was handed to the writer is returned to its pool afterwards", "the buffer of a pooled "+types.TypeString(base.Type(), shortQual)+" is handed to "+c.Call.Method.Name()+" and the object is then dropped without being returned to its pool (one allocation per event)"))
		}
	})
	// (c2) a parameter that is put on some path is put on all paths where it is non-nil
	for idx, pv := range f.Params {
		cand := false
		if isPointer(pv.Type()) && a.pooled[namedOf(pv.Type())] {
			cand = true
		}
		if _, isIface := pv.Type().Underlying().(*types.Interface); isIface {
			cand = true
		}
		if !cand {
			continue
		}
		putSomewhere := false
		isPutOfParam := func(x ssa.Instruction) bool {
			if _, isDefer := x.(*ssa.Defer); isDefer {
				return false
			}
			w := a.putArgOf(x)
			return w != nil && (sameObj(w, pv) || derivedByAssert(baseObj(w), pv) || phiIncludesAssertOf(baseObj(w), pv))
		}
		eachInstr(f, func(b *ssa.BasicBlock, i int, in ssa.Instruction) {
			if isPutOfParam(in) {
				putSomewhere = true
			}
		})
		if !putSomewhere {
			continue
		}
		leak, path := pathExists(f, nil, isReturn, isPutOfParam, a.guardFilter(f, pv))
		_ = idx
		r.Ob("A13c", FnName(f)+"/owns:"+pv.Name(), p.Pos(f.Pos()), !leak, true,
			tern(!leak, "parameter "+pv.Name()+" is returned to its pool on every path on which it is non-nil", "parameter "+pv.Name()+" is returned to its pool on some paths but dropped on another (e.g. the filtered/nil-receiver path): a pooled object leaks, one allocation per call"+pathHint(p, path)))
	}
}

func pathHint(p *Prog, path []*ssa.BasicBlock) string {
	if len(path) == 0 {
		return ""
	}
	s := "; leaking path:"
	for _, b := range path {
		s += " " + b.Comment + "@" + p.Pos(firstPos([]*ssa.BasicBlock{b}))
	}
	return s
}

// phiIncludesAssertOf: w is a phi one of whose inputs is a type assertion of pv
// (`a = aa` from `aa, ok := arr.(*Array)` merged with a fresh Arr()).
func phiIncludesAssertOf(w ssa.Value, pv ssa.Value) bool {
	ph, ok := w.(*ssa.Phi)
	if !ok {
		return false
	}
	for _, e := range ph.Edges {
		if derivedByAssert(e, pv) {
			return true
		}
	}
	return false
}

// pooledOwnerOf: the pooled object (parameter or local of a pooled type) whose buffer arg is, or is derived from.
func pooledOwnerOf(a *a13, f *ssa.Function, arg ssa.Value) ssa.Value {
	if fv, base := loadedField(arg); fv != nil && isByteSlice(fv.Type()) && isPointer(base.Type()) && a.pooled[namedOf(base.Type())] {
		return base
	}
	for _, p := range f.Params {
		if isPointer(p.Type()) && a.pooled[namedOf(p.Type())] && loadedFromObj(arg, p) {
			return p
		}
	}
	return nil
}

// phiHasEdge: v is a phi one of whose (transitive) incoming values is x.
func phiHasEdge(v, x ssa.Value, depth int) bool {
	ph, ok := v.(*ssa.Phi)
	if !ok || depth > 4 || x == nil {
		return false
	}
	for _, e := range ph.Edges {
		if e == x || sameObj(e, x) || phiHasEdge(e, x, depth+1) {
			return true
		}
	}
	return false
}

// ruleBufferPoolClean (A13d): a *bytes.Buffer taken from a sync.Pool must not carry the previous
// user's bytes. Either every Put is preceded by Reset of that buffer on every path that reaches it
// (a deferred Put: on every path from the defer to a return), or every Get is followed by Reset
// before any other use. "WriteTo drained it" holds on the success path only.
func ruleBufferPoolClean(r *Run, p *Prog, rels []string) {
	n := 0
	isBufPtr := func(t types.Type) bool { return isPointer(t) && typeIs(t, "bytes", "Buffer") }
	isReset := func(x ssa.Instruction, buf ssa.Value) bool {
		c, ok := x.(*ssa.Call)
		if !ok || len(c.Call.Args) != 1 {
			return false
		}
		if !(isCallTo(&c.Call, "(*bytes.Buffer).Reset") || isCallTo(&c.Call, "(*bytes.Buffer).Truncate")) {
			return false
		}
		return sameRef(c.Call.Args[0], buf, 0)
	}
	for _, f := range p.ModFns {
		okRel := false
		for _, rel := range rels {
			if pkgRel(f) == rel {
				okRel = true
			}
		}
		if !okRel || f.Blocks == nil {
			continue
		}
		eachInstr(f, func(b *ssa.BasicBlock, i int, in ssa.Instruction) {
			cc := callCommon(in)
			if cc == nil || !isPoolPut(cc) || len(cc.Args) != 2 {
				return
			}
			buf := stripIface(cc.Args[1])
			if !isBufPtr(buf.Type()) {
				return
			}
			n++
			name := FnName(f) + "/put-clean:" + descr(baseObj(buf))
			dirty := false
			if _, isDefer := in.(*ssa.Defer); isDefer {
				// runs at every return after the defer statement
				dirty, _ = pathExists(f, in, isReturn, func(x ssa.Instruction) bool { return isReset(x, buf) }, nil)
			} else {
				// a Reset between the last write and the Put: no path from the entry to the Put avoids it…
				// …and nothing writes to the buffer between that Reset and the Put
				avoid := func(x ssa.Instruction) bool { return isReset(x, buf) }
				dirty, _ = pathExists(f, nil, func(x ssa.Instruction) bool { return x == in }, avoid, nil)
			}
			if dirty {
				// Get-side discipline instead: every Get of this pool in the package is Reset first
				pool := cc.Args[0]
				getClean, nGet := true, 0
				for _, g := range p.ModFns {
					if g.Pkg != f.Pkg || g.Blocks == nil {
						continue
					}
					eachInstr(g, func(bb *ssa.BasicBlock, k int, x ssa.Instruction) {
						gc, ok := x.(*ssa.Call)
						if !ok || !isPoolGet(&gc.Call) || !sameObj(gc.Call.Args[0], pool) {
							return
						}
						nGet++
						// the asserted buffer
						var got ssa.Value
						for _, ref := range referrersOf(gc) {
							if ta, ok := ref.(*ssa.TypeAssert); ok {
								got = ta
								if ta.CommaOk {
									for _, r2 := range referrersOf(ta) {
										if ex, ok := r2.(*ssa.Extract); ok && ex.Index == 0 {
											got = ex
										}
									}
								}
							}
						}
						if got == nil {
							getClean = false
							return
						}
						used, _ := pathExists(g, x, func(y ssa.Instruction) bool {
							return usesObj(y, got) && !isReset(y, got)
						}, func(y ssa.Instruction) bool { return isReset(y, got) }, nil)
						_ = used
						// conservative: require a Reset of the value in the Get's own block right after it
						okHere := false
						for _, y := range bb.Instrs[k+1:] {
							if isReset(y, got) {
								okHere = true
								break
							}
							if c2, isC := y.(*ssa.Call); isC && usesObj(y, got) && !isReset(y, got) && c2 != nil {
								break
							}
						}
						if !okHere {
							getClean = false
						}
					})
				}
				if getClean && nGet > 0 {
					dirty = false
				}
			}
			r.Ob("A13d", name, p.Pos(in.Pos()), !dirty, true, tern(!dirty, "the buffer is emptied before it goes back to the pool (or right after every Get)", "a pooled buffer can go back to the pool still holding bytes (no Reset on some path to the Put, e.g. an error return, and Get does not reset it either): the next user — any goroutine, any writer — emits the stale bytes ahead of its own"))
		})
	}
	if n == 0 {
		r.Fail("A13d", "buffer-pools", "-", "no Put of a *bytes.Buffer into a sync.Pool found (ConsoleWriter and TriggerLevelWriter expected)")
	}
}

// sameRef: two values denote the same object — the same SSA value, or two loads of the same
// variable (a captured variable, a local, a field of the same base).
func sameRef(x, y ssa.Value, depth int) bool {
	x, y = baseObj(x), baseObj(y)
	if x == y {
		return true
	}
	if depth > 4 {
		return false
	}
	lx, ok1 := x.(*ssa.UnOp)
	ly, ok2 := y.(*ssa.UnOp)
	if !ok1 || !ok2 || lx.Op != token.MUL || ly.Op != token.MUL {
		return false
	}
	return sameAddr(lx.X, ly.X, depth+1)
}

func sameAddr(a, b ssa.Value, depth int) bool {
	if a == b {
		return true
	}
	fa, ok1 := a.(*ssa.FieldAddr)
	fb, ok2 := b.(*ssa.FieldAddr)
	if ok1 && ok2 && fa.Field == fb.Field {
		return fa.X == fb.X || sameRef(fa.X, fb.X, depth+1)
	}
	return false
}

// phiCarriesItself: the phi's value can flow, through phis only, back into the phi (a variable
// that keeps its value across loop iterations).
func phiCarriesItself(ph *ssa.Phi) bool {
	seen := map[*ssa.Phi]bool{}
	var walk func(v ssa.Value) bool
	walk = func(v ssa.Value) bool {
		q, ok := v.(*ssa.Phi)
		if !ok {
			return false
		}
		if q == ph {
			return true
		}
		if seen[q] {
			return false
		}
		seen[q] = true
		for _, e := range q.Edges {
			if walk(e) {
				return true
			}
		}
		return false
	}
	for _, e := range ph.Edges {
		if walk(e) {
			return true
		}
	}
	return false
}
