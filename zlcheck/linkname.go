package main

import (
	"io"
	_ "unsafe"

	"golang.org/x/tools/go/ssa"
)

//go:linkname ssaBuildDomTree golang.org/x/tools/go/ssa.buildDomTree
func ssaBuildDomTree(f *ssa.Function)

//go:linkname ssaNumberRegisters golang.org/x/tools/go/ssa.numberRegisters
func ssaNumberRegisters(f *ssa.Function)

//go:linkname ssaSanityCheck golang.org/x/tools/go/ssa.sanityCheck
func ssaSanityCheck(f *ssa.Function, reporter io.Writer) bool
