package main

func init() { register("C01", checkC01) }

func checkC01(r *Run) {
	r.Explain = "Decides the token skeleton of every emitted line: A1 no appender result is dropped; A2 buffer typestate of the front-end (every exported method of Event/Context/Array/Logger, Fields helpers, newEvent/write) preserves 'valid object/array prefix': keys and values alternate, separators are neither lost nor doubled, begin/end markers pair, an empty spliced object adds no separator, the writer receives exactly one closed object and one terminator; user code (marshalers, hooks, callbacks) is given the contract summary 'adds members through the exported API', which closes the induction over call sequences and nesting depth; A3 single terminator / single writer call site; A4 raw caller bytes reach a buffer only through the escaping appenders, whose escape switch is exhaustive. Also: the default InterfaceMarshalFunc returns only bytes produced by encoding/json's encoder (validated, compacted, one line); every escape sequence the string escaper emits denotes the character it replaces; every function delegating to a complex escaper keeps the fast-path discipline."
	r.NotDec = "Per-byte correctness of the escapers (UTF-8 validity, \\u00XX digits), float text, time layouts: value-level."
	r.Assume = []string{"user marshalers/hooks act on the event only through its exported methods", "RawJSON / custom marshal functions deliver valid fragments (excluded by the property)"}
	for _, cfg := range []string{"J", "B"} {
		p := r.Use(cfg)
		if p == nil {
			return
		}
		ruleA1(r, p)
		ruleA2(r, p)
		ruleA3(r, p)
		if cfg == "J" {
			// Output must not leave two loggers appending into one context array (UpdateContext
			// on both would cut a member in the middle): the completeness/independence rule of C05
			ruleA12Copy(r, p)
			ruleA4Confine(r, p)
			ruleA4JSON(r, p)
			ruleFloatGuard(r, p)
			ruleDefaultInterfaceMarshal(r, p)
		}
	}
	r.Floor("A3", 8)
	r.Floor("A4", 20)
	r.Floor("A2", 240)
}
