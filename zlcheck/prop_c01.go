package main

func init() { register("C01", checkC01) }

func checkC01(r *Run) {
	r.Explain = "Decides the token skeleton of every emitted line: A1 no appender result is dropped; A2 buffer typestate of the front-end (every exported method of Event/Context/Array/Logger, Fields helpers, newEvent/write) preserves 'valid object/array prefix': keys and values alternate, separators are neither lost nor doubled, begin/end markers pair, an empty spliced object adds no separator, the writer receives exactly one closed object and one terminator; user code (marshalers, hooks, callbacks) is given the contract summary 'adds members through the exported API', which closes the induction over call sequences and nesting depth; A3 single terminator / single writer call site; A4 raw caller bytes reach a buffer only through the escaping appenders, whose escape switch is exhaustive. Also: the default InterfaceMarshalFunc returns only bytes produced by encoding/json's encoder (validated, compacted, one line); every escape sequence the string escaper emits denotes the character it replaces; every function delegating to a complex escaper keeps the fast-path discipline. Further out (each shows on the second use): ISOL hlog derives one logger per request; A13 an event is never put back while a caller or msg() still uses it; PURE no encoder function writes into a slice it was given as input (a logger's stored context is spliced, not patched); A12 With() carries every byte of the parent's context into the child (append, not a bounded copy). A3 one-call-per-event: the pass-through wrappers call the underlying writer at most once per event on every path."
	r.NotDec = "Per-byte correctness of the escapers (UTF-8 validity, \\u00XX digits), float text, time layouts: value-level."
	r.Assume = []string{"user marshalers/hooks act on the event only through its exported methods", "RawJSON / custom marshal functions deliver valid fragments (excluded by the property)"}
	for _, cfg := range []string{"J", "B"} {
		p := r.Use(cfg)
		if p == nil {
			return
		}
		ruleA1(r, p)
		ruleA2(r, p)
		ruleA3(r, p)
		rulePassThroughWritesOnce(r, p, "A3")
		if cfg == "J" {
			// Output must not leave two loggers appending into one context array (UpdateContext
			// on both would cut a member in the middle): the completeness/independence rule of C05
			ruleA12Copy(r, p)
			ruleA4Confine(r, p)
			ruleA4JSON(r, p)
			ruleFloatGuard(r, p)
			ruleDefaultInterfaceMarshal(r, p)
			// further out (tenth seeding batch): a request logger shared between requests, an event
			// recycled while msg() still uses it, an encoder that patches its input in place — each
			// ends in a cut or doubled member on the SECOND use
			ruleHlogIsolation(r, p)
			ruleA13(r, p, map[string]bool{"": true}, "ab")
			ruleAppendersKeepInputs(r, p, "PURE", []string{"internal/json", cborRel})
			ruleWithCarriesContext(r, p, "A12")
		}
	}
	r.Floor("A3", 8)
	r.Floor("A4", 20)
	r.Floor("A2", 240)
}
