package main

// A11 — slice ownership (no shared backing array between loggers) and
// A12 — field completeness of copy / reset functions.

import (
	"fmt"
	"go/token"
	"go/types"
	"sort"
	"strings"

	"golang.org/x/tools/go/ssa"
)

type sliceOrigin struct {
	kinds    map[string]bool // "fresh", "recv:<field>", "other:<descr>"
	grown    bool            // an append/appender was applied on top of a non-fresh origin
	resliced bool            // a non-fresh slice was cut (x[:0], x[:n]) before being grown: existing bytes get overwritten
}

func (o sliceOrigin) String() string {
	var ks []string
	for k := range o.kinds {
		ks = append(ks, k)
	}
	sort.Strings(ks)
	s := strings.Join(ks, "|")
	if o.grown {
		s += " (grown)"
	}
	return s
}

// originOfSlice classifies where the backing array of slice value v comes from.
func originOfSlice(f *ssa.Function, v ssa.Value, depth int, seen map[ssa.Value]bool) sliceOrigin {
	o := sliceOrigin{kinds: map[string]bool{}}
	if depth > 12 || seen[v] {
		return o
	}
	seen[v] = true
	merge := func(x sliceOrigin) {
		for k := range x.kinds {
			o.kinds[k] = true
		}
		o.grown = o.grown || x.grown
		o.resliced = o.resliced || x.resliced
	}
	switch x := v.(type) {
	case *ssa.MakeSlice:
		o.kinds["fresh"] = true
	case *ssa.Const:
		o.kinds["fresh"] = true // nil
	case *ssa.ChangeType:
		return originOfSlice(f, x.X, depth+1, seen)
	case *ssa.Slice:
		// make([]T, n, C) with constant sizes is lowered to a fresh array that is sliced
		if al, ok := x.X.(*ssa.Alloc); ok {
			if _, isArr := derefType(al.Type()).Underlying().(*types.Array); isArr && (al.Comment == "makeslice" || al.Comment == "slicelit" || al.Comment == "varargs") {
				o.kinds["fresh"] = true
				return o
			}
		}
		// x[:n:n] forces reallocation on append; otherwise same backing array
		b := originOfSlice(f, x.X, depth+1, seen)
		if (x.High != nil || x.Low != nil) && !(len(b.kinds) == 1 && b.kinds["fresh"]) {
			b.resliced = true
		}
		if x.Max != nil && x.High != nil && sameValue(x.Max, x.High) {
			if lc, ok := x.High.(*ssa.Call); ok && builtinName(&lc.Call) == "len" && sameValue(lc.Call.Args[0], x.X) {
				o.kinds["fresh"] = true
				return o
			}
		}
		return b
	case *ssa.Phi:
		for _, e := range x.Edges {
			merge(originOfSlice(f, e, depth+1, seen))
		}
	case *ssa.Call:
		if bn := builtinName(&x.Call); bn == "append" {
			b := originOfSlice(f, x.Call.Args[0], depth+1, seen)
			merge(b)
			if !(len(b.kinds) == 1 && b.kinds["fresh"]) {
				o.grown = true
			}
			return o
		}
		if isCallTo(&x.Call, "slices.Clone") || isCallTo(&x.Call, "bytes.Clone") {
			o.kinds["fresh"] = true
			return o
		}
		sig := signatureOf(&x.Call)
		if sig != nil && sig.Results().Len() == 1 && types.Identical(sig.Results().At(0).Type(), x.Type()) {
			// appender-shaped: result is the grown first slice argument of the same type
			for _, a := range x.Call.Args {
				if types.Identical(a.Type(), x.Type()) {
					b := originOfSlice(f, a, depth+1, seen)
					merge(b)
					if !(len(b.kinds) == 1 && b.kinds["fresh"]) {
						o.grown = true
					}
					return o
				}
			}
		}
		o.kinds["other:"+descr(v)] = true
	case *ssa.UnOp:
		if x.Op != token.MUL {
			o.kinds["other:"+descr(v)] = true
			break
		}
		fa, ok := x.X.(*ssa.FieldAddr)
		if !ok {
			o.kinds["other:"+descr(v)] = true
			break
		}
		fv := fieldVar(fa)
		// flow-sensitive: a dominating store to the same field of the same local object
		if st := dominatingStore(f, x, fa); st != nil {
			return originOfSlice(f, st.Val, depth+1, seen)
		}
		root := fa.X
		for {
			if inner, ok := root.(*ssa.FieldAddr); ok {
				root = inner.X
				continue
			}
			break
		}
		switch r := root.(type) {
		case *ssa.Parameter:
			o.kinds["recv:"+fname(fv)] = true
		case *ssa.Alloc:
			if src := allocInit(r); src != nil {
				if _, isParam := src.(*ssa.Parameter); isParam {
					o.kinds["recv:"+fname(fv)] = true
				} else if c, isCall := src.(*ssa.Call); isCall && ctorLeavesZero(c, fv) {
					o.kinds["fresh"] = true // constructor result whose field is still nil
				} else {
					o.kinds["copyof:"+descr(src)+"."+fname(fv)] = true
				}
			} else {
				o.kinds["fresh"] = true // zero value of a local struct
			}
		default:
			o.kinds["other:"+descr(v)] = true
		}
	case *ssa.Field:
		if fv := fieldVar(x); fv != nil {
			if _, isParam := x.X.(*ssa.Parameter); isParam {
				o.kinds["recv:"+fname(fv)] = true
			} else {
				o.kinds["copyof:"+descr(x.X)+"."+fname(fv)] = true
			}
		}
	default:
		o.kinds["other:"+descr(v)] = true
	}
	return o
}

// allocInit: the whole-struct value stored into a local (value receiver spill, call result).
func allocInit(al *ssa.Alloc) ssa.Value {
	for _, ref := range referrersOf(al) {
		if st, ok := ref.(*ssa.Store); ok && st.Addr == ssa.Value(al) {
			return st.Val
		}
	}
	return nil
}

// sameFieldAddr: two FieldAddr chains designate the same field of the same object.
func sameFieldAddr(a, b *ssa.FieldAddr) bool {
	if fieldVar(a) != fieldVar(b) {
		return false
	}
	ax, aok := a.X.(*ssa.FieldAddr)
	bx, bok := b.X.(*ssa.FieldAddr)
	if aok && bok {
		return sameFieldAddr(ax, bx)
	}
	return a.X == b.X
}

// dominatingStore: the nearest store to the same field that dominates the load.
func dominatingStore(f *ssa.Function, load *ssa.UnOp, fa *ssa.FieldAddr) *ssa.Store {
	var best *ssa.Store
	lp := posOf(load)
	eachInstr(f, func(b *ssa.BasicBlock, i int, in ssa.Instruction) {
		st, ok := in.(*ssa.Store)
		if !ok {
			return
		}
		sfa, ok := st.Addr.(*ssa.FieldAddr)
		if !ok || !sameFieldAddr(sfa, fa) {
			return
		}
		dom := false
		if b == lp.b {
			dom = i < lp.i
		} else {
			dom = b.Dominates(lp.b)
		}
		if !dom {
			return
		}
		if best == nil {
			best = st
			return
		}
		// prefer the later one (dominated by the earlier)
		bp := posOf(best)
		if (bp.b == b && bp.i < i) || (bp.b != b && bp.b.Dominates(b)) {
			best = st
		}
	})
	if best == nil {
		return nil
	}
	// a non-dominating store in between would make the value a merge; be conservative
	other := false
	eachInstr(f, func(b *ssa.BasicBlock, i int, in ssa.Instruction) {
		st, ok := in.(*ssa.Store)
		if !ok || st == best {
			return
		}
		if sfa, ok := st.Addr.(*ssa.FieldAddr); ok && sameFieldAddr(sfa, fa) {
			if found, _ := pathExists(f, st, func(x ssa.Instruction) bool { return x == ssa.Instruction(load) }, func(x ssa.Instruction) bool { return x == ssa.Instruction(best) }, nil); found {
				if found2, _ := pathExists(f, best, func(x ssa.Instruction) bool { return x == ssa.Instruction(st) }, nil, nil); found2 {
					other = true
				}
			}
		}
	})
	if other {
		return nil
	}
	return best
}

// ruleA11 examines every store into Logger.context / Logger.hooks in package zerolog.
func ruleA11(r *Run, p *Prog) { ruleA11Only(r, p, nil) }

// ruleA11Only: with only != nil, just the stores made by the selected functions are judged (C18 needs
// Logger.With's fresh copy: hlog.NewHandler derives every request's logger through it), without the
// module-wide clauses.
func ruleA11Only(r *Run, p *Prog, only func(*ssa.Function) bool) {
	logger := p.NamedType("", "Logger")
	if !r.Anchor(logger != nil, "A11", "type Logger") {
		return
	}
	st := logger.Underlying().(*types.Struct)
	sliceFields := map[*types.Var]bool{}
	for i := 0; i < st.NumFields(); i++ {
		if _, ok := st.Field(i).Type().Underlying().(*types.Slice); ok {
			sliceFields[st.Field(i)] = true
		}
	}
	if !r.Anchor(len(sliceFields) >= 2, "A11", "slice fields of Logger (context, hooks)") {
		return
	}
	type agg struct {
		n   int
		pos string
		ex  []string
	}
	known := map[string]*agg{}
	nStores := 0
	// stores are judged in the functions that are judged on their own: a private helper such as
	// "return a copy of l with this context" is part of each caller, where the stored slice's origin is known
	for _, f := range p.RootViews([]string{""}, "", nil) {
		if only != nil && !only(f) {
			continue
		}
		eachInstr(f, func(b *ssa.BasicBlock, i int, in ssa.Instruction) {
			sx, ok := in.(*ssa.Store)
			if !ok {
				return
			}
			fa, ok := sx.Addr.(*ssa.FieldAddr)
			if !ok || !sliceFields[fieldVar(fa)] {
				return
			}
			nStores++
			fv := fieldVar(fa)
			o := originOfSlice(f, sx.Val, 0, map[ssa.Value]bool{})
			recvT := recvTypeName(f)
			ptrRecv := f.Signature.Recv() != nil && isPointer(f.Signature.Recv().Type())
			onlyFresh := len(o.kinds) == 1 && o.kinds["fresh"]
			ownSame := len(o.kinds) == 1 && o.kinds["recv:"+fname(fv)] && !o.grown && !o.resliced
			ownGrown := o.kinds["recv:"+fname(fv)] && o.grown
			cons := FnName(f) + "/" + fname(fv)
			switch {
			case onlyFresh:
				r.Ob("A11", cons, p.Pos(sx.Pos()), true, true, "stores a fresh backing array ("+o.String()+")")
			case ownSame:
				r.Ob("A11", cons, p.Pos(sx.Pos()), true, true, "stores the receiver's own slice unchanged")
			case o.resliced && o.grown:
				r.Ob("A11", cons+":reslice-overwrite", p.Pos(sx.Pos()), false, true, "the logger's "+fname(fv)+" is rebuilt inside the receiver's existing backing array ("+o.String()+", cut before growing): bytes other loggers still reference are overwritten")
			case ownGrown && !ptrRecv && f.Signature.Recv() != nil:
				// append in place on a by-value copy of the receiver: every other holder of that header shares the array
				key := "(zerolog." + recvT + ").*/" + fname(fv) + ":in-place-append-on-value-receiver"
				a := known[key]
				if a == nil {
					a = &agg{pos: p.Pos(sx.Pos())}
					known[key] = a
				}
				a.n++
				if len(a.ex) < 4 {
					a.ex = append(a.ex, f.Name())
				}
			case ptrRecv && f.Signature.Recv() != nil && (ownGrown || hasOtherOrigin(o)):
				// pointer receiver updating its own storage: documented in-place API (UpdateContext)
				ok := f.Name() == "UpdateContext"
				r.Ob("A11", cons, p.Pos(sx.Pos()), ok, true, tern(ok, "pointer-receiver in-place update (documented: UpdateContext is restricted to freshly derived loggers)", "a pointer-receiver method rewrites the logger's "+fname(fv)+" in place ("+o.String()+"): loggers that share this backing array change together"))
			default:
				r.Ob("A11", cons, p.Pos(sx.Pos()), false, true, "the logger's "+fname(fv)+" is set to a slice whose backing array is shared with another value ("+o.String()+"): two loggers that can both append will overwrite each other")
			}
		})
	}
	var keys []string
	for k := range known {
		keys = append(keys, k)
	}
	sort.Strings(keys)
	for _, k := range keys {
		a := known[k]
		r.Ob("A11", k, a.pos, false, true, fmt.Sprintf("%d value-receiver methods (e.g. %s) append to the receiver's slice in place: branching twice from one intermediate value makes the first branch see the second branch's bytes", a.n, strings.Join(a.ex, ", ")))
	}
	r.Count("a11_stores", nStores)
	if only != nil {
		if nStores < 1 {
			r.Fail("A11", "store-floor", "-", "no store into a Logger slice field found in the selected functions")
		}
	} else if nStores < 55 {
		r.Fail("A11", "store-floor", "-", fmt.Sprintf("only %d stores into Logger slice fields found (≥ 60 on the pinned tree)", nStores))
	}
	// entering builder mode: a Logger method that returns a Context must give it a fresh context
	// on every path (Context field adders append in place)
	for _, m := range p.Methods("", "Logger", true) {
		if m.Signature.Results().Len() != 1 || !typeIs(m.Signature.Results().At(0).Type(), modPath, "Context") {
			continue
		}
		if only != nil && !only(m) {
			continue
		}
		var ctxField *types.Var
		for fv := range sliceFields {
			if isByteSlice(fv.Type()) {
				ctxField = fv
			}
		}
		isCtxStore := func(in ssa.Instruction) bool {
			sx, ok := in.(*ssa.Store)
			if !ok {
				return false
			}
			fa, ok := sx.Addr.(*ssa.FieldAddr)
			return ok && fieldVar(fa) == ctxField
		}
		m = p.View(m, "", nil)
		leak, path := pathExists(m, nil, isReturn, isCtxStore, nil)
		r.Ob("A11", FnName(m)+"/fresh-context-on-every-path", p.Pos(m.Pos()), !leak, true, tern(!leak, "every path gives the returned Context a newly stored context buffer", "some path returns a Context that still carries the receiver's own context slice: field adders then append into the parent's backing array"+pathHint(p, path)))
	}
	if only != nil {
		return
	}
	// derivation methods never write through a pointer receiver (except the documented UpdateContext)
	ucHelpers := map[*ssa.Function]bool{}
	if uc := p.Method("", "Logger", "UpdateContext"); uc != nil {
		ucHelpers = p.exclusiveHelpers(uc) // private steps of UpdateContext are UpdateContext
	}
	for _, m := range p.Methods("", "Logger", false) {
		if m.Signature.Recv() == nil || !isPointer(m.Signature.Recv().Type()) {
			continue
		}
		bad := ""
		eachInstr(m, func(b *ssa.BasicBlock, i int, in ssa.Instruction) {
			if sx, ok := in.(*ssa.Store); ok {
				if fa, ok := sx.Addr.(*ssa.FieldAddr); ok && isParam(fa.X, m, 0) {
					bad = fname(fieldVar(fa))
				}
				if isParam(sx.Addr, m, 0) {
					bad = "*l"
				}
			}
		})
		ok := bad == "" || m.Name() == "UpdateContext" || (ucHelpers[m] && m.Object() != nil && !m.Object().Exported())
		r.Ob("A11", FnName(m)+"/receiver-unchanged", p.Pos(m.Pos()), ok, true, tern(ok, "does not modify the logger it is called on"+tern(bad != "", " (documented exception)", ""), "modifies field "+bad+" of the logger it is called on: parents/siblings holding the same *Logger change too"))
	}
	for _, tn := range []string{"Logger", "Context"} {
		for _, m := range p.Methods("", tn, true) {
			if m.Signature.Results().Len() == 1 && (typeIs(m.Signature.Results().At(0).Type(), modPath, "Logger") || typeIs(m.Signature.Results().At(0).Type(), modPath, "Context")) {
				valRecv := m.Signature.Recv() != nil && !isPointer(m.Signature.Recv().Type())
				r.Ob("A11", FnName(m)+"/value-receiver", p.Pos(m.Pos()), valRecv, false, tern(valRecv, "derivation method has a value receiver", "derivation method has a pointer receiver: it can mutate the logger it derives from"))
			}
		}
	}
}

func hasOtherOrigin(o sliceOrigin) bool {
	for k := range o.kinds {
		if strings.HasPrefix(k, "other:") || strings.HasPrefix(k, "copyof:") {
			return true
		}
	}
	return false
}

// ---- A12 ----

// ruleA12Reset: a function that takes an object from a pool must store every field of it on
// every path before returning it.
func ruleA12Reset(r *Run, p *Prog, fnName, tname string) {
	f := p.Func("", fnName)
	named := p.NamedType("", tname)
	if !r.Anchor(f != nil && named != nil, "A12", fnName+" / "+tname) {
		return
	}
	f = p.View(f, "", nil)
	st := named.Underlying().(*types.Struct)
	// the recycled object: result of Pool.Get asserted to *T
	var obj ssa.Value
	eachInstr(f, func(b *ssa.BasicBlock, i int, in ssa.Instruction) {
		if ta, ok := in.(*ssa.TypeAssert); ok && namedOf(ta.AssertedType) == named {
			if c, ok := ta.X.(*ssa.Call); ok && isPoolGet(&c.Call) {
				obj = ta
			}
		}
	})
	if obj == nil {
		r.Ob("A12", fnName+"/pooled-object", p.Pos(f.Pos()), false, true, fnName+" does not take its "+tname+" from a sync.Pool (allocation per event) or the pattern is not recognised")
		return
	}
	for i := 0; i < st.NumFields(); i++ {
		fld := st.Field(i)
		isStoreTo := func(in ssa.Instruction) bool {
			sx, ok := in.(*ssa.Store)
			if !ok {
				return false
			}
			// `*e = Event{…}` re-initialises every field at once
			if sx.Addr == obj {
				return true
			}
			fa, ok := sx.Addr.(*ssa.FieldAddr)
			return ok && fieldVar(fa) == fld && fa.X == obj
		}
		skip, _ := pathExists(f, nil, isReturn, isStoreTo, nil)
		r.Ob("A12", fnName+"/reset:"+fld.Name(), p.Pos(f.Pos()), !skip, true, tern(!skip, "field "+fld.Name()+" is re-initialised on every path", "field "+fld.Name()+" of the recycled "+tname+" is not re-initialised on every path: the next user sees the previous owner's "+fld.Name()))
	}
}

// ruleA12Copy: Logger.Output builds its result field by field: every field of Logger must be
// carried over (stored from the receiver's same field, or set by the constructor it starts from).
func ruleA12Copy(r *Run, p *Prog) {
	f := p.Method("", "Logger", "Output")
	named := p.NamedType("", "Logger")
	if !r.Anchor(f != nil && named != nil, "A12", "Logger.Output") {
		return
	}
	f = p.View(f, "", nil)
	st := named.Underlying().(*types.Struct)
	// if Output simply copies the receiver (l.w = …; return l) every field is carried: detect by
	// the returned value being the receiver's spill
	var resultAlloc *ssa.Alloc
	eachInstr(f, func(b *ssa.BasicBlock, i int, in ssa.Instruction) {
		if ret, ok := in.(*ssa.Return); ok && len(ret.Results) == 1 {
			if ld, ok := ret.Results[0].(*ssa.UnOp); ok {
				if al, ok := ld.X.(*ssa.Alloc); ok {
					resultAlloc = al
				}
			}
		}
	})
	if resultAlloc == nil {
		r.Ob("A12", FnName(f)+"/shape", p.Pos(f.Pos()), false, true, "cannot find the value Output returns (undecided)")
		return
	}
	// the result may be assembled in another local and copied over as a whole (a helper returning
	// the duplicate, inlined): follow whole-struct copies
	resultAllocs := map[ssa.Value]bool{resultAlloc: true}
	init := allocInit(resultAlloc)
	for hops := 0; hops < 4; hops++ {
		ld, ok := init.(*ssa.UnOp)
		if !ok || ld.Op != token.MUL {
			break
		}
		inner, ok := ld.X.(*ssa.Alloc)
		if !ok || resultAllocs[inner] {
			break
		}
		resultAllocs[inner] = true
		init = allocInit(inner)
		if init == nil {
			break
		}
	}
	if _, isParam := init.(*ssa.Parameter); isParam {
		for i := 0; i < st.NumFields(); i++ {
			r.Ob("A12", FnName(f)+"/copy:"+st.Field(i).Name(), p.Pos(f.Pos()), true, true, "result starts as a copy of the receiver")
		}
		// … but then the duplicate shares the receiver's context array unless it is replaced by a
		// private copy wherever the receiver has one: Output "duplicates the current logger", and
		// UpdateContext on the two loggers would otherwise write into the same spare capacity
		var ctxField *types.Var
		for i := 0; i < st.NumFields(); i++ {
			if isByteSlice(st.Field(i).Type()) {
				ctxField = st.Field(i)
			}
		}
		if ctxField != nil {
			freshStore := func(in ssa.Instruction) bool {
				sx, ok := in.(*ssa.Store)
				if !ok {
					return false
				}
				fa, ok := sx.Addr.(*ssa.FieldAddr)
				if !ok || fieldVar(fa) != ctxField || !resultAllocs[fa.X] {
					return false
				}
				o := originOfSlice(f, sx.Val, 0, map[ssa.Value]bool{})
				return len(o.kinds) == 1 && o.kinds["fresh"]
			}
			// edges on which the receiver's context is nil / empty need no copy
			nilEdge := func(b *ssa.BasicBlock, si int) bool {
				iff, ok := b.Instrs[len(b.Instrs)-1].(*ssa.If)
				if !ok {
					return true
				}
				c, ok := cmpOf(CondEdge{iff, si == 0})
				if !ok {
					return true
				}
				isCtx := func(v ssa.Value) bool {
					fv, _ := loadedField(v)
					return fv == ctxField
				}
				if isCtx(c.X) && isNilConst(c.Y) && c.Op == token.EQL {
					return false
				}
				if lc, isC := c.X.(*ssa.Call); isC && builtinName(&lc.Call) == "len" && isCtx(lc.Call.Args[0]) {
					if n, isN := constInt(c.Y); isN && ((c.Op == token.EQL && n == 0) || (c.Op == token.LEQ && n == 0) || (c.Op == token.LSS && n <= 1)) {
						return false
					}
				}
				return true
			}
			shared, path := pathExists(f, nil, isReturn, freshStore, nilEdge)
			r.Ob("A12", FnName(f)+"/context-not-shared", p.Pos(f.Pos()), !shared, true, tern(!shared, "the duplicate gets a private copy of the context bytes wherever the receiver has a context", "Output returns a logger that still shares the receiver's context array: UpdateContext on the two loggers writes into the same spare capacity and corrupts both loggers' events"+pathHint(p, path)))
		}
		return
	}
	// fields set by the constructor the result starts from
	ctorSets := map[string]bool{}
	if c, ok := init.(*ssa.Call); ok {
		if sc := staticCallee(&c.Call); sc != nil && InModule(sc) {
			eachInstr(sc, func(b *ssa.BasicBlock, i int, in ssa.Instruction) {
				if sx, ok := in.(*ssa.Store); ok {
					if fa, ok := sx.Addr.(*ssa.FieldAddr); ok && namedOf(fa.X.Type()) == named {
						ctorSets[fname(fieldVar(fa))] = true
					}
				}
			})
		}
	}
	for i := 0; i < st.NumFields(); i++ {
		fld := st.Field(i)
		stored := false
		fromSame := false
		fromDest := false
		eachInstr(f, func(b *ssa.BasicBlock, k int, in ssa.Instruction) {
			switch x := in.(type) {
			case *ssa.Store:
				if fa, ok := x.Addr.(*ssa.FieldAddr); ok && fieldVar(fa) == fld && resultAllocs[fa.X] {
					stored = true
					if mentionsRecvField(x.Val, f, fld.Name(), 0) {
						fromSame = true
					}
					if len(f.Params) > 1 && derivesFromValue(x.Val, f.Params[1], 0) {
						fromDest = true
					}
				}
			case *ssa.Call:
				// copy(l2.f, l.f)
				if builtinName(&x.Call) == "copy" && len(x.Call.Args) == 2 {
					if dfv, dbase := loadedField(x.Call.Args[0]); dfv == fld && resultAllocs[dbase] {
						if mentionsRecvField(x.Call.Args[1], f, fld.Name(), 0) {
							fromSame = true
						}
					}
				}
			}
		})
		// … and on every path: an early return (for a "disabled" receiver, say) that leaves a field
		// behind is a different logger once Level()/With() re-enable it. Edges on which the
		// receiver's own field is nil/empty need no copy.
		skipsOnSomePath := false
		var skipPath []*ssa.BasicBlock
		if stored && fromSame {
			storeTo := func(in ssa.Instruction) bool {
				switch x := in.(type) {
				case *ssa.Store:
					fa, ok := x.Addr.(*ssa.FieldAddr)
					return ok && fieldVar(fa) == fld && resultAllocs[fa.X]
				case *ssa.Call:
					if builtinName(&x.Call) == "copy" && len(x.Call.Args) == 2 {
						dfv, dbase := loadedField(x.Call.Args[0])
						return dfv == fld && resultAllocs[dbase]
					}
				}
				return false
			}
			emptyEdge := func(b *ssa.BasicBlock, si int) bool {
				iff, ok := b.Instrs[len(b.Instrs)-1].(*ssa.If)
				if !ok {
					return true
				}
				c, ok := cmpOf(CondEdge{iff, si == 0})
				if !ok {
					return true
				}
				isF := func(v ssa.Value) bool { return isFieldOfParam(v, f, 0, fld.Name()) }
				if isF(c.X) && isNilConst(c.Y) && c.Op == token.EQL {
					return false
				}
				if lc, isC := c.X.(*ssa.Call); isC && builtinName(&lc.Call) == "len" && isF(lc.Call.Args[0]) {
					if n, isN := constInt(c.Y); isN && ((c.Op == token.EQL && n == 0) || (c.Op == token.LEQ && n == 0) || (c.Op == token.LSS && n <= 1)) {
						return false
					}
				}
				return true
			}
			skipsOnSomePath, skipPath = pathExists(f, nil, isReturn, storeTo, emptyEdge)
		}
		// the context bytes are the one field UpdateContext rewrites in place: the duplicate needs
		// its own array (same demand as in the copy-the-receiver shape above)
		sharesCtx := false
		if stored && fromSame && isByteSlice(fld.Type()) {
			eachInstr(f, func(b *ssa.BasicBlock, k int, in ssa.Instruction) {
				if x, ok := in.(*ssa.Store); ok {
					if fa, ok := x.Addr.(*ssa.FieldAddr); ok && fieldVar(fa) == fld && resultAllocs[fa.X] {
						o := originOfSlice(f, x.Val, 0, map[ssa.Value]bool{})
						if !(len(o.kinds) == 1 && o.kinds["fresh"]) {
							sharesCtx = true
						}
					}
				}
			})
		}
		var ok bool
		var d string
		switch {
		case sharesCtx:
			ok, d = false, "Output returns a logger that shares the receiver's "+fld.Name()+" array: UpdateContext on the two loggers writes into the same bytes and corrupts both loggers' events"
		case stored && fromSame && skipsOnSomePath:
			ok, d = false, "Output() carries field "+fld.Name()+" over on some paths only: a path returns the new logger without it"+pathHint(p, skipPath)
		case stored && fromSame:
			ok, d = true, "copied from the receiver's "+fld.Name()
		case ctorSets[fld.Name()] && !stored:
			ok, d = true, "set by the constructor (destination-specific)"
		case stored && fromDest && !fromSame:
			ok, d = true, "set from Output's own argument (destination-specific)"
		case stored:
			ok, d = false, "field "+fld.Name()+" of the result is set, but not from the receiver's "+fld.Name()
		default:
			ok, d = false, "Output() does not carry field "+fld.Name()+" over to the new logger: Output(w) changes more than the destination"
		}
		r.Ob("A12", FnName(f)+"/copy:"+fld.Name(), p.Pos(f.Pos()), ok, true, d)
	}
}

func mentionsRecvField(v ssa.Value, f *ssa.Function, field string, depth int) bool {
	if depth > 8 || v == nil {
		return false
	}
	if isFieldOfParam(v, f, 0, field) {
		return true
	}
	switch x := v.(type) {
	case *ssa.Call:
		for _, a := range x.Call.Args {
			if mentionsRecvField(a, f, field, depth+1) {
				return true
			}
		}
	case *ssa.Phi:
		for _, e := range x.Edges {
			if mentionsRecvField(e, f, field, depth+1) {
				return true
			}
		}
	case *ssa.Slice:
		return mentionsRecvField(x.X, f, field, depth+1)
	case *ssa.MakeSlice:
		return mentionsRecvField(x.Len, f, field, depth+1) || mentionsRecvField(x.Cap, f, field, depth+1)
	case *ssa.ChangeType:
		return mentionsRecvField(x.X, f, field, depth+1)
	case *ssa.MakeInterface:
		return mentionsRecvField(x.X, f, field, depth+1)
	}
	return false
}

// ctorLeavesZero: the call is to a module function that returns a struct it builds itself and
// never sets field fv (so the field is the zero value: a nil slice).
func ctorLeavesZero(c *ssa.Call, fv *types.Var) bool {
	sc := staticCallee(&c.Call)
	if sc == nil || !InModule(sc) || sc.Blocks == nil {
		return false
	}
	sets := false
	fromLit := true
	eachInstr(sc, func(b *ssa.BasicBlock, i int, in ssa.Instruction) {
		switch x := in.(type) {
		case *ssa.Store:
			if fa, ok := x.Addr.(*ssa.FieldAddr); ok && fieldVar(fa) == fv {
				sets = true
			}
		case *ssa.Return:
			for _, res := range x.Results {
				ld, ok := res.(*ssa.UnOp)
				if !ok {
					fromLit = false
					continue
				}
				al, ok := ld.X.(*ssa.Alloc)
				if !ok || allocInit(al) != nil {
					fromLit = false
				}
			}
		}
	})
	return fromLit && !sets
}

// derivesFromValue: v is computed from root through calls, conversions, assertions and phis.
func derivesFromValue(v, root ssa.Value, depth int) bool {
	if v == nil || depth > 8 {
		return false
	}
	if v == root {
		return true
	}
	switch x := v.(type) {
	case *ssa.Call:
		for _, a := range x.Call.Args {
			if derivesFromValue(a, root, depth+1) {
				return true
			}
		}
	case *ssa.MakeInterface:
		return derivesFromValue(x.X, root, depth+1)
	case *ssa.ChangeInterface:
		return derivesFromValue(x.X, root, depth+1)
	case *ssa.ChangeType:
		return derivesFromValue(x.X, root, depth+1)
	case *ssa.TypeAssert:
		return derivesFromValue(x.X, root, depth+1)
	case *ssa.Extract:
		return derivesFromValue(x.Tuple, root, depth+1)
	case *ssa.Phi:
		for _, e := range x.Edges {
			if derivesFromValue(e, root, depth+1) {
				return true
			}
		}
	case *ssa.UnOp:
		if al, ok := x.X.(*ssa.Alloc); ok {
			if i := allocInit(al); i != nil {
				return derivesFromValue(i, root, depth+1)
			}
		}
	}
	return false
}

// ruleNewEventCarriesLogger: every event a logger creates carries that logger's hooks and Go
// context, unconditionally: `e.ch = l.hooks` and `e.ctx = l.ctx` are stored on every path of
// (*Logger).newEvent that returns an event (a copy made only "when there are hooks" loses the
// context for marshalers and Func callbacks of hook-less loggers).
func ruleNewEventCarriesLogger(r *Run, p *Prog) {
	ne := p.Method("", "Logger", "newEvent")
	pne := p.Func("", "newEvent")
	if !r.Anchor(ne != nil, "A12", "(*Logger).newEvent") {
		return
	}
	v := p.View(ne, "keep-newEvent", func(g *ssa.Function) bool { return g == pne })
	paths, complete := enumPaths(v, 1, 4000)
	if !complete {
		r.Fail("A12", FnName(ne)+"/carries-logger", p.Pos(ne.Pos()), "cannot enumerate paths")
		return
	}
	for _, fld := range []string{"ctx", "ch"} {
		src := map[string]string{"ctx": "ctx", "ch": "hooks"}[fld]
		okAll, n := true, 0
		for _, pa := range paths {
			ret, isRet := pa.Exit.(*ssa.Return)
			if !isRet || len(ret.Results) != 1 || isNilConst(pa.Resolve(ret.Results[0])) {
				continue
			}
			n++
			stored := false
			for _, in := range pa.Instrs() {
				if st, ok := in.(*ssa.Store); ok {
					if fa, ok := st.Addr.(*ssa.FieldAddr); ok && typeIs(fa.X.Type(), modPath, "Event") && fname(fieldVar(fa)) == fld {
						stored = isFieldOfParam(st.Val, v, 0, src)
					}
				}
			}
			if !stored {
				okAll = false
			}
		}
		okc := okAll && n > 0
		r.Ob("A12", FnName(ne)+"/carries-logger:"+fld, p.Pos(ne.Pos()), okc, true, tern(okc, "every event gets the logger's "+src, "some path of newEvent returns an event without storing the logger's "+src+" into it (e.g. only when the logger has hooks): marshalers and callbacks of such events see the background context / no hooks instead of the logger's"))
	}
}
