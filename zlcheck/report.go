package main

import (
	"bufio"
	"encoding/json"
	"fmt"
	"os"
	"path/filepath"
	"sort"
	"strings"
	"time"
)

// Report is one violation of a rule at a construct.
type Report struct {
	Rule      string   `json:"rule"`
	Construct string   `json:"construct"`
	Pos       string   `json:"pos"`
	Msg       string   `json:"message"`
	Witness   []string `json:"witness,omitempty"`
	Cfg       string   `json:"cfg,omitempty"`
	Known     bool     `json:"known_finding,omitempty"`
}

func (r Report) Key() string { return r.Rule + "/" + r.Construct }

// Obligation is one thing a rule had to establish.
type Obligation struct {
	Rule       string `json:"rule"`
	Construct  string `json:"construct"`
	Cfg        string `json:"cfg,omitempty"`
	Pos        string `json:"pos,omitempty"`
	Detail     string `json:"detail,omitempty"`
	OK         bool   `json:"discharged"`
	NonTrivial bool   `json:"-"`
}

// Run accumulates the result of checking one property.
type Run struct {
	Prop     string
	Tier     string
	Seed     int64
	start    time.Time
	Obs      []Obligation
	Reports  []Report
	Notes    []string
	Cfgs     map[string]*Prog
	Counters map[string]int
	Floors   map[string]int // rule -> minimum number of obligations
	Explain  string
	NotDec   string
	Assume   []string
	Trusted  []string
	Extra    map[string]interface{}
	cur      string // current cfg name
}

func NewRun(prop, tier string, seed int64) *Run {
	return &Run{Prop: prop, Tier: tier, Seed: seed, start: time.Now(), Cfgs: map[string]*Prog{},
		Counters: map[string]int{}, Floors: map[string]int{}, Extra: map[string]interface{}{}}
}

// Use loads a configuration and makes it current.
func (r *Run) Use(cfg string) *Prog {
	p, err := Load(cfg)
	if err != nil {
		r.Fail("LOAD", "cfg:"+cfg, "-", err.Error())
		return nil
	}
	r.Cfgs[cfg] = p
	r.cur = cfg
	return p
}

// Ob records an obligation; if !ok a report is made as well.
func (r *Run) Ob(rule, construct, pos string, ok bool, nontrivial bool, detail string) {
	r.Obs = append(r.Obs, Obligation{Rule: rule, Construct: construct, Cfg: r.cur, Pos: pos, Detail: detail, OK: ok, NonTrivial: nontrivial})
	if !ok {
		r.Reports = append(r.Reports, Report{Rule: rule, Construct: construct, Pos: pos, Msg: detail, Cfg: r.cur})
	}
}

// Fail records a report that is not tied to a counted obligation (infrastructure, anchors).
func (r *Run) Fail(rule, construct, pos, msg string, witness ...string) {
	r.Obs = append(r.Obs, Obligation{Rule: rule, Construct: construct, Cfg: r.cur, Pos: pos, Detail: msg, OK: false})
	r.Reports = append(r.Reports, Report{Rule: rule, Construct: construct, Pos: pos, Msg: msg, Witness: witness, Cfg: r.cur})
}

// Anchor fails the run when a construct the rules are anchored in cannot be found.
func (r *Run) Anchor(ok bool, rule, what string) bool {
	if !ok {
		r.Fail(rule, "anchor:"+what, "-", "anchor not found in the current tree: "+what+" (the rule cannot be applied; fail closed)")
	}
	return ok
}

func (r *Run) Note(format string, a ...interface{}) {
	r.Notes = append(r.Notes, fmt.Sprintf(format, a...))
}

func (r *Run) Count(k string, n int) { r.Counters[k] += n }

// Floor demands at least n obligations of the rule (per run, all cfgs).
func (r *Run) Floor(rule string, n int) { r.Floors[rule] = n }

type knownEntry struct {
	prop, rule, construct, text string
}

func verifDir() string {
	if d := os.Getenv("ZL_VERIF"); d != "" {
		return d
	}
	exe, err := os.Executable()
	if err == nil {
		d := filepath.Dir(filepath.Dir(exe))
		if _, err := os.Stat(filepath.Join(d, "known_findings.txt")); err == nil {
			return d
		}
	}
	return "/verif"
}

func loadKnown() ([]knownEntry, error) {
	f, err := os.Open(filepath.Join(verifDir(), "known_findings.txt"))
	if err != nil {
		return nil, err
	}
	defer f.Close()
	var out []knownEntry
	sc := bufio.NewScanner(f)
	for sc.Scan() {
		line := strings.TrimSpace(sc.Text())
		if !strings.HasPrefix(line, "known:") {
			continue // "fixed:" lines and comments suppress nothing
		}
		rest := strings.TrimSpace(strings.TrimPrefix(line, "known:"))
		text := ""
		if i := strings.Index(rest, " -- "); i >= 0 {
			text = strings.TrimSpace(rest[i+4:])
			rest = rest[:i]
		}
		e := knownEntry{text: text}
		for _, f := range strings.Fields(rest) {
			switch {
			case strings.HasPrefix(f, "property="):
				e.prop = strings.TrimPrefix(f, "property=")
			case strings.HasPrefix(f, "rule="):
				e.rule = strings.TrimPrefix(f, "rule=")
			case strings.HasPrefix(f, "construct="):
				e.construct = strings.TrimPrefix(f, "construct=")
			}
		}
		if e.prop != "" && e.rule != "" && e.construct != "" {
			out = append(out, e)
		}
	}
	return out, sc.Err()
}

// Finish enforces floors, matches known findings, writes evidence and returns the exit code.
func (r *Run) Finish() int {
	// floors
	perRule := map[string]int{}
	for _, o := range r.Obs {
		perRule[o.Rule]++
	}
	var fr []string
	for rule := range r.Floors {
		fr = append(fr, rule)
	}
	sort.Strings(fr)
	for _, rule := range fr {
		if perRule[rule] < r.Floors[rule] {
			r.cur = ""
			r.Fail("FLOOR", rule, "-", fmt.Sprintf("rule %s generated %d obligations, fewer than the %d confirmed by hand on the pinned tree: the rule has lost its grip on the code (fail closed)", rule, perRule[rule], r.Floors[rule]))
		}
	}
	if os.Getenv("ZL_DUMP") != "" {
		for _, o := range r.Obs {
			fmt.Printf("OB %s %s [%s] %s ok=%v %s\n", o.Rule, o.Construct, o.Cfg, o.Pos, o.OK, o.Detail)
		}
	}
	known, kerr := loadKnown()
	if kerr != nil {
		r.Note("known_findings.txt not readable: %v", kerr)
	}
	// dedupe reports by (rule, construct, cfg-insensitive)
	seen := map[string]int{}
	var reps []Report
	for _, rp := range r.Reports {
		k := rp.Key()
		if i, ok := seen[k]; ok {
			if rp.Cfg != "" && !strings.Contains(reps[i].Cfg, rp.Cfg) {
				reps[i].Cfg += "," + rp.Cfg
			}
			continue
		}
		seen[k] = len(reps)
		reps = append(reps, rp)
	}
	var viol []Report
	var kf []string
	for i := range reps {
		for _, k := range known {
			if k.prop == r.Prop && k.rule == reps[i].Rule && k.construct == reps[i].Construct {
				reps[i].Known = true
				line := fmt.Sprintf("KNOWN-FINDING: property=%s rule=%s construct=%s at %s: %s", r.Prop, reps[i].Rule, reps[i].Construct, reps[i].Pos, reps[i].Msg)
				kf = append(kf, line)
			}
		}
		if !reps[i].Known {
			viol = append(viol, reps[i])
		}
	}
	sort.Strings(kf)
	for _, l := range kf {
		fmt.Println(l)
	}
	// evidence
	total, ok := 0, 0
	distinct := map[string]bool{}
	byRule := map[string][2]int{}
	for _, o := range r.Obs {
		total++
		c := byRule[o.Rule]
		c[0]++
		if o.OK {
			ok++
			c[1]++
		}
		byRule[o.Rule] = c
		if o.NonTrivial {
			distinct[o.Rule+"/"+o.Construct] = true
		}
	}
	// known findings count as "examined, recorded" but not discharged
	var samples []interface{}
	perRuleSample := map[string]int{}
	for _, o := range r.Obs {
		if perRuleSample[o.Rule] >= 3 || len(samples) >= 40 {
			continue
		}
		perRuleSample[o.Rule]++
		samples = append(samples, map[string]interface{}{"rule": o.Rule, "construct": o.Construct, "cfg": o.Cfg, "pos": o.Pos, "discharged": o.OK, "detail": o.Detail})
	}
	var cfgs []string
	pkgs, fns := 0, 0
	for n, p := range r.Cfgs {
		cfgs = append(cfgs, n)
		if len(p.Pkgs) > pkgs {
			pkgs = len(p.Pkgs)
		}
		fns += len(p.ModFns)
	}
	sort.Strings(cfgs)
	ruleStat := map[string]interface{}{}
	for k, v := range byRule {
		ruleStat[k] = map[string]int{"obligations": v[0], "discharged": v[1]}
	}
	cov := map[string]interface{}{
		"explanation":         r.Explain,
		"not_decided":         r.NotDec,
		"obligations":         total,
		"discharged":          ok,
		"evaluations":         total,
		"distinct_nontrivial": len(distinct),
		"rule":                "one obligation per (rule, construct, cfg) generated from the current source; non-trivial = needed a path, dataflow or table argument (not a mere existence check); distinct by rule+construct",
		"samples":             samples,
		"per_rule":            ruleStat,
		"configs":             cfgs,
		"packages":            pkgs,
		"functions_analysed":  fns,
		"counters":            r.Counters,
		"known_findings":      kf,
		"notes":               r.Notes,
		"checker_cmd":         fmt.Sprintf("bin/zlcheck -property %s -tier %s", r.Prop, r.Tier),
		"trusted_base":        append([]string{"go/types", "golang.org/x/tools/go/ssa v0.29.0", "go/packages"}, r.Trusted...),
		"exhaustive":          false,
	}
	for k, v := range r.Extra {
		cov[k] = v
	}
	ev := map[string]interface{}{
		"property_id": r.Prop,
		"tier":        r.Tier,
		"seed":        r.Seed,
		"level":       "other",
		"coverage":    cov,
		"assumptions": r.Assume,
		"wall_s":      time.Since(r.start).Seconds(),
		"violations":  len(viol),
	}
	evdir := filepath.Join(verifDir(), "evidence")
	os.MkdirAll(evdir, 0o755)
	b, _ := json.MarshalIndent(ev, "", " ")
	if err := os.WriteFile(filepath.Join(evdir, r.Prop+".json"), append(b, '\n'), 0o644); err != nil {
		fmt.Fprintln(os.Stderr, "cannot write evidence:", err)
		return 2
	}
	fmt.Printf("property=%s tier=%s cfgs=%v obligations=%d discharged=%d known_findings=%d violations=%d wall=%.1fs\n",
		r.Prop, r.Tier, cfgs, total, ok, len(kf), len(viol), time.Since(r.start).Seconds())
	var rules []string
	for k := range byRule {
		rules = append(rules, k)
	}
	sort.Strings(rules)
	for _, k := range rules {
		fmt.Printf("  rule %-8s obligations=%d discharged=%d\n", k, byRule[k][0], byRule[k][1])
	}
	vpath := filepath.Join(evdir, r.Prop+".violations.json")
	if len(viol) == 0 {
		os.Remove(vpath)
		return 0
	}
	vb, _ := json.MarshalIndent(viol, "", " ")
	os.WriteFile(vpath, append(vb, '\n'), 0o644)
	for _, v := range viol {
		fmt.Printf("REPORT rule=%s construct=%s at %s [cfg %s]: %s\n", v.Rule, v.Construct, v.Pos, v.Cfg, v.Msg)
		for _, w := range v.Witness {
			fmt.Printf("    %s\n", w)
		}
	}
	fmt.Printf("VIOLATION property=%s replay=%s\n", r.Prop, vpath)
	return 1
}
