package main

// A16 — allocation effect over the fast path (C07).
// Oracle for heap sites inside zerolog: the gc compiler's own escape analysis
// (`go build -gcflags=-m`, diagnostics only, nothing is run).  Reachability: static calls
// from the property's method set; func-typed globals are followed to their initialiser;
// interface / callback calls are user code.  Cold blocks (error paths, non-default arms of
// the marshal-hook type switches, the numeric fall-through of Level.String) are excluded,
// each by a structural definition, not by name.

import (
	"bufio"
	"fmt"
	"go/token"
	"go/types"
	"os/exec"
	"path/filepath"
	"regexp"
	"sort"
	"strconv"
	"strings"

	"golang.org/x/tools/go/ssa"
)

type heapSite struct {
	file string
	line int
	msg  string
}

var heapRe = regexp.MustCompile(`^(\S+\.go):(\d+):\d+: (.*(escapes to heap|moved to heap).*)$`)

func escapeDiagnostics(p *Prog) ([]heapSite, string, error) {
	args := []string{"build", "-gcflags=-m"}
	if p.Spec.Tags != "" {
		args = append(args, "-tags="+p.Spec.Tags)
	}
	args = append(args, "./...")
	cmd := exec.Command("go", args...)
	cmd.Dir = p.repoDir
	cmd.Env = goEnv(p.Spec)
	out, err := cmd.CombinedOutput()
	if err != nil {
		return nil, "", fmt.Errorf("go build -gcflags=-m failed: %v: %s", err, tail(string(out), 400))
	}
	ver, _ := exec.Command("go", "version").Output()
	var sites []heapSite
	pkgDir := ""
	sc := bufio.NewScanner(strings.NewReader(string(out)))
	sc.Buffer(make([]byte, 1<<20), 1<<24)
	for sc.Scan() {
		line := sc.Text()
		if strings.HasPrefix(line, "# ") {
			pkgDir = strings.TrimPrefix(strings.TrimPrefix(strings.Fields(line)[1], modPath), "/")
			continue
		}
		m := heapRe.FindStringSubmatch(line)
		if m == nil {
			continue
		}
		// "leaking param content" etc. are not matched; "does not escape" is not matched
		n, _ := strconv.Atoi(m[2])
		f := strings.TrimPrefix(m[1], "./")
		if !filepath.IsAbs(f) && !strings.Contains(f, "/") {
			f = filepath.Join(pkgDir, f)
		}
		sites = append(sites, heapSite{filepath.ToSlash(f), n, m[3]})
	}
	return sites, strings.TrimSpace(string(ver)), nil
}

func tail(s string, n int) string {
	if len(s) > n {
		return s[len(s)-n:]
	}
	return s
}

// standard-library leaves known not to allocate (or only on paths outside the claim)
var a16ExternalAllow = map[string]string{
	"(*sync.Mutex).Lock":                     "no allocation (writer wrappers)",
	"(*sync.Mutex).Unlock":                   "no allocation (writer wrappers)",
	"(*bytes.Buffer).Bytes":                  "pure",
	"(*bytes.Buffer).Write":                  "appends to the pooled hold-back buffer (amortised growth, outside the pass-through claim)",
	"(*bytes.Buffer).WriteByte":              "appends to the pooled hold-back buffer (amortised growth, outside the pass-through claim)",
	"bytes.IndexByte":                        "pure",
	"(*sync.Pool).Get":                       "pool (warm)",
	"(*sync.Pool).Put":                       "pool",
	"strconv.AppendInt":                      "appends",
	"strconv.AppendUint":                     "appends",
	"strconv.AppendFloat":                    "appends",
	"strconv.AppendBool":                     "appends",
	"strconv.AppendQuote":                    "appends",
	"(time.Time).AppendFormat":               "appends",
	"(time.Time).Unix":                       "pure",
	"(time.Time).UnixNano":                   "pure",
	"(time.Time).UnixMilli":                  "pure",
	"(time.Time).UnixMicro":                  "pure",
	"(time.Time).Nanosecond":                 "pure",
	"(time.Time).UTC":                        "pure",
	"(time.Time).After":                      "pure",
	"(time.Time).Before":                     "pure",
	"(time.Time).Sub":                        "pure",
	"(time.Time).IsZero":                     "pure",
	"(time.Time).Equal":                      "pure",
	"time.Now":                               "pure",
	"(time.Duration).Nanoseconds":            "pure",
	"math.IsNaN":                             "pure",
	"math.IsInf":                             "pure",
	"math.Float32bits":                       "pure",
	"math.Float64bits":                       "pure",
	"math.Abs":                               "pure",
	"math.Modf":                              "pure",
	"math.Trunc":                             "pure",
	"math.Floor":                             "pure",
	"unicode/utf8.DecodeRune":                "pure",
	"unicode/utf8.DecodeRuneInString":        "pure",
	"unicode/utf8.RuneLen":                   "pure",
	"sync/atomic.LoadInt32":                  "pure",
	"sync/atomic.LoadUint32":                 "pure",
	"sync/atomic.AddUint32":                  "pure",
	"(*encoding/base64.Encoding).Encode":     "writes into the destination",
	"(*encoding/base64.Encoding).EncodedLen": "pure",
	"reflect.TypeOf":                         "no allocation (reads the type word)",
	"(*reflect.rtype).String":                "returns the type's name string",
	"context.Background":                     "pure",
	// fixed-width big/little-endian stores and loads into a caller-provided slice
	"(encoding/binary.bigEndian).PutUint16":    "writes into the destination",
	"(encoding/binary.bigEndian).PutUint32":    "writes into the destination",
	"(encoding/binary.bigEndian).PutUint64":    "writes into the destination",
	"(encoding/binary.bigEndian).Uint16":       "pure",
	"(encoding/binary.bigEndian).Uint32":       "pure",
	"(encoding/binary.bigEndian).Uint64":       "pure",
	"(encoding/binary.littleEndian).PutUint16": "writes into the destination",
	"(encoding/binary.littleEndian).PutUint32": "writes into the destination",
	"(encoding/binary.littleEndian).PutUint64": "writes into the destination",
	"math.Float32frombits":                     "pure",
	"math.Float64frombits":                     "pure",
	"math.Signbit":                             "pure",
}

type a16 struct {
	r       *Run
	p       *Prog
	reach   map[*ssa.Function]bool
	order   []*ssa.Function
	ext     map[string]string // external callee -> first caller
	dyn     int
	coldCnt int
	cold    map[*ssa.BasicBlock]string
	lvlT    *types.Named
}

// coldReason: why a block is outside the default-configuration fast path ("" if it is hot).
func (a *a16) coldReason(b *ssa.BasicBlock) string {
	if a.cold == nil {
		a.cold = map[*ssa.BasicBlock]string{}
	}
	if r, ok := a.cold[b]; ok {
		return r
	}
	a.cold[b] = ""
	f := b.Parent()
	if len(b.Instrs) == 0 {
		return ""
	}
	edges := necessaryEdges(f, b.Instrs[0])
	reason := ""
	var assertsFalse []types.Type
	neqLevel := 0
	for _, e := range edges {
		c, ok := cmpOf(e)
		if !ok {
			continue
		}
		// (i) error path: some error value is non-nil
		if c.Op == token.NEQ && isNilConst(c.Y) && isErrorType(c.X.Type()) && !isHookResult(c.X) {
			if _, isParam := c.X.(*ssa.Parameter); !isParam {
				reason = "error path (" + descr(c.X) + " != nil)"
			}
		}
		// (ii) type switch over the result of a marshal hook (func-typed global)
		if ex, ok := c.X.(*ssa.Extract); ok && ex.Index == 1 {
			if ta, ok := ex.Tuple.(*ssa.TypeAssert); ok && isHookResult(ta.X) {
				bv, _ := constBool(c.Y)
				truth := (c.Op == token.EQL && bv) || (c.Op == token.NEQ && !bv)
				if truth {
					if !isErrorType(ta.AssertedType) && !isStringType(ta.AssertedType) {
						reason = "marshal-hook result of type " + types.TypeString(ta.AssertedType, shortQual) + " (custom hook configuration)"
					}
				} else {
					assertsFalse = append(assertsFalse, ta.AssertedType)
				}
			}
		}
		// (iii) switch default over declared Level constants
		if c.Op == token.NEQ && a.lvlT != nil && types.Identical(c.X.Type(), a.lvlT) {
			if _, ok := constInt(c.Y); ok {
				neqLevel++
			}
		}
	}
	if reason == "" {
		ne, ns := false, false
		for _, t := range assertsFalse {
			if isErrorType(t) {
				ne = true
			}
			if isStringType(t) {
				ns = true
			}
		}
		if ne && ns {
			reason = "default arm of a marshal-hook type switch (value is neither nil, error nor string)"
		}
	}
	if reason == "" && neqLevel >= 9 {
		reason = "level outside the declared constants"
	}
	if reason == "" && a.lvlT != nil {
		// the same, however the declared constants are excluded (`case TraceLevel <= l && l <=
		// PanicLevel`, then `!= Disabled`, `!= NoLevel`): no declared level satisfies the conditions
		// that lead here
		var subject ssa.Value
		lc := levelConsts(a.p)
		possible := map[int64]bool{}
		for _, v := range lc {
			possible[v] = true
		}
		constrained := false
		for _, e := range edges {
			c, ok := cmpOf(e)
			if !ok {
				continue
			}
			x, y, op := c.X, c.Y, c.Op
			if _, isC := constInt(x); isC {
				x, y, op = y, x, swapOp(op)
			}
			n, isC := constInt(y)
			if !isC || !types.Identical(x.Type(), a.lvlT) {
				continue
			}
			if subject == nil {
				subject = x
			}
			if x != subject {
				continue
			}
			constrained = true
			for v := range possible {
				keep := true
				switch op {
				case token.EQL:
					keep = v == n
				case token.NEQ:
					keep = v != n
				case token.LSS:
					keep = v < n
				case token.LEQ:
					keep = v <= n
				case token.GTR:
					keep = v > n
				case token.GEQ:
					keep = v >= n
				}
				if !keep {
					delete(possible, v)
				}
			}
		}
		if constrained && len(lc) >= 9 && len(possible) == 0 {
			reason = "level outside the declared constants"
		}
		// a range test splits the ways into the block (`l < TraceLevel` or `l > PanicLevel`): decide
		// per path — the block is cold when no declared level can travel any path that reaches it
		if reason == "" && constrained && len(lc) >= 9 && subject != nil && len(f.Blocks) <= 64 {
			paths, complete := enumPaths(f, 1, 2000)
			anyLevel, through := false, 0
			for _, pa := range paths {
				hit := false
				for _, pb := range pa.Blocks {
					if pb == b {
						hit = true
					}
				}
				if !hit {
					continue
				}
				through++
				poss := map[int64]bool{}
				for _, v := range lc {
					poss[v] = true
				}
				// only the conditions met before the block is entered count
				for i, pb := range pa.Blocks {
					if pb == b {
						break
					}
					ifi, ok := pb.Instrs[len(pb.Instrs)-1].(*ssa.If)
					if !ok || i+1 >= len(pa.Blocks) || pb.Succs[0] == pb.Succs[1] {
						continue
					}
					// look through `a && b` compiled as a boolean phi: the value the path carried in
					cond, pol := ifi.Cond, pa.Blocks[i+1] == pb.Succs[0]
					for d := 0; d < 4; d++ {
						if u, ok := cond.(*ssa.UnOp); ok && u.Op == token.NOT {
							cond, pol = u.X, !pol
							continue
						}
						if ph, ok := cond.(*ssa.Phi); ok {
							if v := pa.ResolveAt(ph, i); v != ssa.Value(ph) {
								cond = v
								continue
							}
						}
						break
					}
					if bv, isB := constBool(cond); isB {
						if bv != pol {
							poss = map[int64]bool{} // the path contradicts itself: nothing travels it
						}
						continue
					}
					c, ok := cmpOf(CondEdge{&ssa.If{Cond: cond}, pol})
					if !ok {
						continue
					}
					x, y, op := c.X, c.Y, c.Op
					if _, isC := constInt(x); isC {
						x, y, op = y, x, swapOp(op)
					}
					n, isC := constInt(y)
					if !isC || x != subject {
						continue
					}
					for v := range poss {
						keep := true
						switch op {
						case token.EQL:
							keep = v == n
						case token.NEQ:
							keep = v != n
						case token.LSS:
							keep = v < n
						case token.LEQ:
							keep = v <= n
						case token.GTR:
							keep = v > n
						case token.GEQ:
							keep = v >= n
						}
						if !keep {
							delete(poss, v)
						}
					}
				}
				if len(poss) > 0 {
					anyLevel = true
				}
			}
			if complete && through > 0 && !anyLevel {
				reason = "level outside the declared constants"
			}
		}
	}
	a.cold[b] = reason
	return reason
}

func isErrorType(t types.Type) bool {
	n, ok := t.(*types.Named)
	return ok && n.Obj().Pkg() == nil && n.Obj().Name() == "error"
}

func isStringType(t types.Type) bool {
	b, ok := t.Underlying().(*types.Basic)
	return ok && b.Kind() == types.String
}

// isHookResult: v is the result of calling a func-typed package-level variable.
func isHookResult(v ssa.Value) bool {
	c, ok := v.(*ssa.Call)
	if !ok {
		return false
	}
	return loadedGlobal(c.Call.Value) != nil
}

// globalFuncInit: the function a func-typed global is initialised with (default configuration).
func globalFuncInit(g *ssa.Global) *ssa.Function {
	init := g.Pkg.Func("init")
	if init == nil {
		return nil
	}
	var fn *ssa.Function
	n := 0
	eachInstr(init, func(b *ssa.BasicBlock, i int, in ssa.Instruction) {
		if st, ok := in.(*ssa.Store); ok && st.Addr == ssa.Value(g) {
			n++
			switch x := st.Val.(type) {
			case *ssa.Function:
				fn = x
			case *ssa.MakeClosure:
				fn, _ = x.Fn.(*ssa.Function)
			case *ssa.ChangeType:
				if f, ok := x.X.(*ssa.Function); ok {
					fn = f
				}
			}
		}
	})
	if n != 1 {
		return nil
	}
	return fn
}

func (a *a16) visit(f *ssa.Function, via string) {
	if f == nil || a.reach[f] {
		return
	}
	a.reach[f] = true
	a.order = append(a.order, f)
	for _, b := range f.Blocks {
		if a.coldReason(b) != "" {
			a.coldCnt++
			continue
		}
		for _, in := range b.Instrs {
			if cv, ok := in.(*ssa.Convert); ok && allocatingStringConv(cv) {
				a.r.Ob("A16", FnName(f)+"/conv:"+types.TypeString(cv.Type(), shortQual), a.p.Pos(cv.Pos()), false, true,
					"string/[]byte conversion of "+descr(cv.X)+" on the fast path: the copy is heap-allocated whenever it exceeds the runtime's 32-byte stack buffer (the compiler's -m output does not list it)")
			}
			cc := callCommon(in)
			if cc == nil {
				continue
			}
			if _, isGo := in.(*ssa.Go); isGo {
				a.r.Ob("A16", FnName(f)+"/go", a.p.Pos(in.Pos()), false, true, "a goroutine is started on the fast path (allocates)")
				continue
			}
			if builtinName(cc) == "append" {
				// the log buffers ([]byte) are amortised by the pools; growing any other slice on the
				// fast path is a fresh allocation per event (the compiler's -m output does not list growslice)
				if c, isCall := in.(*ssa.Call); isCall && !isByteSlice(c.Type()) && len(cc.Args) == 2 {
					a.r.Ob("A16", FnName(f)+"/append:"+types.TypeString(c.Type(), shortQual), a.p.Pos(in.Pos()), false, true,
						"append to a "+types.TypeString(c.Type(), shortQual)+" on the fast path ("+descr(cc.Args[0])+"): unlike the pooled byte buffers this slice is not amortised, so growing it allocates for every event")
				}
				continue
			}
			if builtinName(cc) != "" {
				continue
			}
			if cc.IsInvoke() {
				a.dyn++
				continue
			}
			sc := staticCallee(cc)
			if sc == nil {
				if g := loadedGlobal(cc.Value); g != nil {
					if fn := globalFuncInit(g); fn != nil {
						if InModule(fn) {
							a.visit(fn, FnName(f))
						} else {
							name := fn.String()
							if o, ok := fn.Object().(*types.Func); ok {
								name = o.FullName()
							}
							if _, ok := a16ExternalAllow[name]; ok {
								if _, seen := a.ext[name]; !seen {
									a.ext[name] = FnName(f) + " (default value of " + g.Name() + ")"
								}
							} else {
								a.r.Ob("A16", FnName(f)+"/calls:"+name, a.p.Pos(in.Pos()), false, true, "the fast path reaches "+name+" (default value of "+g.Name()+"), which is not on the list of allocation-free standard-library leaves")
							}
						}
						continue
					}
					if g.Pkg != nil && strings.HasPrefix(g.Pkg.Pkg.Path(), modPath) {
						// nil by default (e.g. ErrorStackMarshaler) or set elsewhere: user configuration
						a.dyn++
						continue
					}
				}
				a.dyn++
				continue
			}
			if InModule(sc) {
				if sc.Blocks == nil {
					continue
				}
				a.visit(sc, FnName(f))
				continue
			}
			name := ""
			if o := calleeObj(cc); o != nil {
				name = o.FullName()
			}
			if _, ok := a16ExternalAllow[name]; ok {
				if _, seen := a.ext[name]; !seen {
					a.ext[name] = FnName(f)
				}
				continue
			}
			a.r.Ob("A16", FnName(f)+"/calls:"+name, a.p.Pos(in.Pos()), false, true,
				"the fast path reaches "+name+" (called from "+FnName(f)+"), which is not on the list of allocation-free standard-library leaves")
		}
	}
}

var a16EventRoots = strings.Fields(`Str Strs Bytes Hex Bool Bools Int Ints Int8 Ints8 Int16 Ints16 Int32 Ints32 Int64 Ints64
 Uint Uints Uint8 Uints8 Uint16 Uints16 Uint32 Uints32 Uint64 Uints64 Float32 Floats32 Float64 Floats64
 Time Times Dur Durs TimeDiff Timestamp Err AnErr Dict Array Object RawJSON Type Func Msg Send Enabled`)
var a16LoggerRoots = strings.Fields(`Trace Debug Info Warn Error Log WithLevel Err`)
var a16ArrayRoots = strings.Fields(`Str Bytes Hex Bool Int Int8 Int16 Int32 Int64 Uint Uint8 Uint16 Uint32 Uint64 Float32 Float64 Time Dur Object Dict RawJSON Err`)

func ruleA16(r *Run, p *Prog) {
	a := &a16{r: r, p: p, reach: map[*ssa.Function]bool{}, ext: map[string]string{}, lvlT: p.NamedType("", "Level")}
	sites, ver, err := escapeDiagnostics(p)
	if err != nil {
		r.Fail("A16", "escape-diagnostics", "-", err.Error())
		return
	}
	if len(sites) < 100 {
		r.Fail("A16", "escape-diagnostics", "-", fmt.Sprintf("only %d heap sites parsed from the compiler's -m output (≥ 300 module-wide on the pinned tree): oracle output not understood", len(sites)))
		return
	}
	r.Extra["compiler"] = ver
	var roots []*ssa.Function
	missing := 0
	add := func(tn string, names []string) {
		for _, n := range names {
			m := p.Method("", tn, n)
			if m == nil {
				missing++
				r.Anchor(false, "A16", "root "+tn+"."+n)
				continue
			}
			roots = append(roots, m)
		}
	}
	add("Event", a16EventRoots)
	add("Logger", a16LoggerRoots)
	add("Array", a16ArrayRoots)
	for _, n := range []string{"Dict", "Arr"} {
		if f := p.Func("", n); f != nil {
			roots = append(roots, f)
		}
	}
	// the module's own writer wrappers are part of emitting an event when they are the destination:
	// their pass-through paths allocate nothing either
	for _, w := range [][2]string{{"LevelWriterAdapter", "WriteLevel"}, {"syncWriter", "WriteLevel"}, {"multiLevelWriter", "WriteLevel"}, {"FilteredLevelWriter", "WriteLevel"}, {"TriggerLevelWriter", "WriteLevel"}} {
		if m := p.Method("", w[0], w[1]); m != nil {
			roots = append(roots, m)
		}
	}
	for _, f := range roots {
		a.visit(f, "root")
	}
	ruleNoFixedScratchAppend(r, p, "A16", a.reach)
	// attribute heap sites to reachable functions; a site is relevant unless every instruction on its line is cold
	type rng struct {
		file       string
		start, end int
		f          *ssa.Function
	}
	var rs []rng
	for f := range a.reach {
		if f.Syntax() == nil || !InModule(f) {
			continue
		}
		s, e := p.Fset.Position(f.Syntax().Pos()), p.Fset.Position(f.Syntax().End())
		file := s.Filename
		if rel, err := filepath.Rel(p.repoDir, file); err == nil {
			file = rel
		}
		rs = append(rs, rng{filepath.ToSlash(file), s.Line, e.Line, f})
	}
	inReach := 0
	for _, s := range sites {
		var owner *ssa.Function
		for _, g := range rs {
			if g.file == s.file && s.line >= g.start && s.line <= g.end {
				if owner == nil || (g.end-g.start) < lineSpan(p, owner) {
					owner = g.f // innermost (closures)
				}
			}
		}
		if owner == nil {
			continue
		}
		// pool constructors are cold by definition: the closure stored in a sync.Pool's New field is not reachable statically
		cold := true
		found := false
		for _, b := range owner.Blocks {
			for _, in := range b.Instrs {
				if in.Pos().IsValid() && p.Fset.Position(in.Pos()).Line == s.line {
					found = true
					if a.coldReason(b) == "" {
						cold = false
					}
				}
			}
		}
		if found && cold {
			continue
		}
		inReach++
		r.Ob("A16", FnName(owner)+"/heap:"+shorten(s.msg), fmt.Sprintf("%s:%d", s.file, s.line), false, true,
			"heap allocation site on the zero-allocation fast path (reachable from the property's method set): "+s.msg)
	}
	for _, f := range a.order {
		if InModule(f) {
			r.Ob("A16", FnName(f), p.Pos(f.Pos()), true, true, "reachable from the fast-path roots: no heap site on a hot line, all external callees allow-listed")
		}
	}
	var exts []string
	for k, v := range a.ext {
		exts = append(exts, k+" (from "+v+")")
	}
	sort.Strings(exts)
	r.Extra["external_callees_"+p.Spec.Name] = exts
	r.Count("a16_roots_"+p.Spec.Name, len(roots))
	r.Count("a16_reachable_"+p.Spec.Name, len(a.order))
	r.Count("a16_heap_sites_module_"+p.Spec.Name, len(sites))
	r.Count("a16_heap_sites_hot_"+p.Spec.Name, inReach)
	r.Count("a16_dynamic_calls_"+p.Spec.Name, a.dyn)
	r.Count("a16_cold_blocks_"+p.Spec.Name, a.coldCnt)
	if len(roots) < 70 || len(a.order) < 110 {
		r.Fail("A16", "floor", "-", fmt.Sprintf("%d roots / %d reachable functions (floors 70 / 110)", len(roots), len(a.order)))
	}
}

func lineSpan(p *Prog, f *ssa.Function) int {
	s, e := p.Fset.Position(f.Syntax().Pos()), p.Fset.Position(f.Syntax().End())
	return e.Line - s.Line
}

// allocatingStringConv: string([]byte) / []byte(string) of a non-constant whose result is used as
// a value (not just compared or used as a map key, the cases the compiler performs without copying).
func allocatingStringConv(cv *ssa.Convert) bool {
	from, to := cv.X.Type().Underlying(), cv.Type().Underlying()
	isStr := func(t types.Type) bool { b, ok := t.(*types.Basic); return ok && b.Info()&types.IsString != 0 }
	isBytes := func(t types.Type) bool { return isByteSlice(t) }
	if !((isStr(from) && isBytes(to)) || (isBytes(from) && isStr(to))) {
		return false
	}
	if _, isConst := cv.X.(*ssa.Const); isConst {
		return false
	}
	for _, ref := range referrersOf(cv) {
		switch x := ref.(type) {
		case *ssa.BinOp:
			switch x.Op {
			case token.EQL, token.NEQ, token.LSS, token.GTR, token.LEQ, token.GEQ:
				continue
			}
			return true
		case *ssa.Lookup:
			if x.Index == ssa.Value(cv) {
				continue
			}
			return true
		case *ssa.DebugRef:
			continue
		default:
			return true
		}
	}
	return false
}

// ruleEncStatic: the front-end reaches the encoder through the package-level variable `enc`. Its
// type must be the concrete encoder struct of the build: with an interface type every enc.AppendX
// becomes a dynamic call, escape analysis can no longer see that the appenders do not retain their
// slice arguments, and a caller's stack-backed argument (`id[:]`, a slice literal) is moved to the
// heap — one allocation per such field, also on a disabled logger.
func ruleEncStatic(r *Run, p *Prog) {
	g := p.Global("", "enc")
	if !r.Anchor(g != nil, "A16", "package-level enc") {
		return
	}
	t := derefType(g.Type())
	_, isIface := t.Underlying().(*types.Interface)
	_, isStruct := t.Underlying().(*types.Struct)
	okc := !isIface && isStruct
	r.Ob("A16", "enc/statically-dispatched", p.Pos(g.Pos()), okc, true, tern(okc, "enc has the concrete type "+types.TypeString(t, shortQual)+": every enc.AppendX is a static call", "enc is declared with the type "+types.TypeString(t, shortQual)+": calls through it are dynamic, so the slice arguments of the field methods escape and stack-backed arguments are heap-allocated at every call"))
	// and no call through it is an interface invoke
	n, dyn := 0, 0
	for _, f := range p.ModFns {
		if pkgRel(f) != "" {
			continue
		}
		eachInstr(f, func(b *ssa.BasicBlock, i int, in ssa.Instruction) {
			cc := callCommon(in)
			if cc == nil {
				return
			}
			if cc.IsInvoke() {
				if loadedGlobal(cc.Value) == g {
					dyn++
				}
				return
			}
			if len(cc.Args) > 0 && loadedGlobal(cc.Args[0]) == g {
				n++
			}
		})
	}
	r.Ob("A16", "enc/call-sites", "-", dyn == 0 && n > 50, false, fmt.Sprintf("%d static call sites through enc, %d dynamic", n, dyn))
}
