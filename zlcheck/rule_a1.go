package main

// A1 — append result used.  An "appender" takes the buffer as its first
// (non-receiver) parameter and returns the grown buffer as its only result; so does the
// builtin append.  A call whose result is never used is a dropped write.

import (
	"go/types"

	"golang.org/x/tools/go/ssa"
)

// isAppenderSig: func([recv,] dst []byte, ...) []byte
func isAppenderSig(sig *types.Signature) bool {
	if sig == nil || sig.Results().Len() != 1 || !isByteSlice(sig.Results().At(0).Type()) {
		return false
	}
	if sig.Params().Len() == 0 || !isByteSlice(sig.Params().At(0).Type()) {
		return false
	}
	return true
}

func ruleA1(r *Run, p *Prog) {
	sites, dropped := 0, 0
	for _, f := range p.ModFns {
		eachInstr(f, func(b *ssa.BasicBlock, i int, in ssa.Instruction) {
			c, ok := in.(*ssa.Call)
			if !ok {
				return
			}
			what := ""
			if bn := builtinName(&c.Call); bn != "" {
				if bn != "append" {
					return
				}
				what = "append"
			} else {
				var sig *types.Signature
				if c.Call.IsInvoke() {
					sig, _ = c.Call.Method.Type().(*types.Signature)
				} else {
					sig, _ = c.Call.Value.Type().Underlying().(*types.Signature)
				}
				if !isAppenderSig(sig) {
					return
				}
				if o := calleeObj(&c.Call); o != nil {
					what = o.Name()
				} else {
					what = "appender value"
				}
			}
			sites++
			used := false
			for _, ref := range referrersOf(c) {
				if _, dbg := ref.(*ssa.DebugRef); !dbg {
					used = true
				}
			}
			if !used {
				dropped++
				r.Ob("A1", FnName(f)+"/"+what, p.Pos(c.Pos()), false, true, "the buffer returned by "+what+" is discarded: the bytes it appended are lost (or, if capacity was reused, silently overwritten later)")
			}
		})
	}
	r.Ob("A1", "all-appender-call-sites", "-", true, false, itoa(sites)+" appender/append call sites scanned, "+itoa(dropped)+" with an unused result")
	r.Count("a1_sites_"+p.Spec.Name, sites)
	if sites < 600 {
		r.Fail("A1", "site-floor", "-", "only "+itoa(sites)+" appender call sites found (≥ 700 on the pinned tree): the rule lost its grip")
	}
}
