package main

// JSONARR — the slice appenders of internal/json: '[' elem (',' elem)* ']' with the element
// rendered by the same primitive (and settings) as the scalar appender of that type.

import (
	"fmt"
	"strings"

	"golang.org/x/tools/go/ssa"
)

func ruleJSONSliceAppenders(r *Run, p *Prog) {
	enc := p.NamedType("internal/json", "Encoder")
	if !r.Anchor(enc != nil, "JSONARR", "json.Encoder") {
		return
	}
	n := 0
	var cands []*ssa.Function
	helper := map[*ssa.Function]bool{}
	for _, m := range p.Methods("internal/json", "Encoder", true) {
		if strings.HasPrefix(m.Name(), "Append") && len(m.Params) >= 3 {
			if _, ok := m.Params[2].Type().Underlying().(*typesSlice); ok && !isByteSlice(m.Params[2].Type()) {
				cands = append(cands, m)
			}
		}
	}
	for _, f := range p.ModFns {
		// unexported slice helpers (functions or methods): []byte result, a non-byte slice parameter
		if pkgRel(f) != "internal/json" || f.Parent() != nil || f.Object() == nil || f.Object().Exported() {
			continue
		}
		if f.Signature.Results().Len() != 1 || !isByteSlice(f.Signature.Results().At(0).Type()) {
			continue
		}
		for _, par := range f.Params {
			if _, ok := par.Type().Underlying().(*typesSlice); ok && !isByteSlice(par.Type()) {
				cands = append(cands, f)
				helper[f] = true
				break
			}
		}
	}
	for _, m := range cands {
		name := m.Name()
		n++
		// thin private helpers ("write the separator and one integer") are part of the appender;
		// delegated slice appenders and the real element renderers (appendFloat …) stay calls
		m = p.View(m, "keep-slice-helpers", func(g *ssa.Function) bool { return helper[g] || len(g.Blocks) > 3 })
		// token sequence along every path: constant bytes and element calls
		paths, complete := enumPaths(m, 3, 20000)
		if !complete {
			r.Ob("JSONARR", FnName(m)+"/paths", p.Pos(m.Pos()), false, true, "cannot enumerate paths")
			continue
		}
		okAll := true
		bad := ""
		okElem := true
		allPrims := map[string]bool{}
		for _, pa := range paths {
			if _, isRet := pa.Exit.(*ssa.Return); !isRet {
				continue
			}
			if pa.InfeasibleByEval() {
				continue
			}
			elemPrims := map[string]bool{}
			var toks []string
			type pin struct {
				in ssa.Instruction
				bi int
			}
			var seqInstrs []pin
			for bi, blk := range pa.Blocks {
				for _, in := range blk.Instrs {
					seqInstrs = append(seqInstrs, pin{in, bi})
				}
			}
			for _, pi := range seqInstrs {
				in, bi := pi.in, pi.bi
				c, ok := in.(*ssa.Call)
				if !ok {
					continue
				}
				if builtinName(&c.Call) == "append" {
					sp, elems := appendElems(c)
					if s, ok := constString(sp); ok {
						for _, ch := range s {
							toks = append(toks, string(ch))
						}
						continue
					}
					for _, e := range elems {
						// a separator kept in a variable ('[' for the first element, ',' afterwards)
						e = pa.ResolveAt(e, bi)
						if v, ok := constInt(e); ok {
							toks = append(toks, string(rune(v)))
						} else {
							toks = append(toks, "?")
						}
					}
					if sp != nil {
						toks = append(toks, "?raw")
					}
					continue
				}
				if o := calleeObj(&c.Call); o != nil && isAppenderSig(signatureOf(&c.Call)) || (o != nil && strings.HasPrefix(o.Name(), "Append")) {
					if o.Name() == name {
						continue
					}
					if sc := staticCallee(&c.Call); sc != nil && helper[sc] {
						toks = append(toks, "D")
						continue
					}
					toks = append(toks, "E")
					set := ""
					if len(c.Call.Args) > 3 {
						set = settingsOf(c, 3)
					} else if staticCallee(&c.Call) != nil && staticCallee(&c.Call).Signature.Recv() == nil && len(c.Call.Args) > 2 {
						set = settingsOf(c, 2)
					}
					elemPrims[o.Name()+"("+set+")"] = true
				}
			}
			seq := strings.Join(toks, "")
			// strip quotes around elements (times are quoted by the caller)
			seq = strings.ReplaceAll(seq, "\"E\"", "E")
			seq = strings.ReplaceAll(seq, "\"E", "E")
			seq = strings.ReplaceAll(seq, "E\"", "E")
			if seq != "D" && !validArraySeq(seq) {
				okAll = false
				bad = seq
			}
			if len(elemPrims) > 1 {
				okElem = false
			}
			for k := range elemPrims {
				allPrims[k] = true
			}
		}
		r.Ob("JSONARR", FnName(m)+"/shape", p.Pos(m.Pos()), okAll, true, tern(okAll, "every path emits [ E (,E)* ] (or [])", "a path of "+name+" emits the token sequence "+bad+" instead of '[' element (',' element)* ']'"))
		// one element primitive, with one settings tuple
		r.Ob("JSONARR", FnName(m)+"/element", p.Pos(m.Pos()), okElem, true, tern(okElem, fmt.Sprintf("one element primitive per path: %v", keysOf(allPrims)), fmt.Sprintf("elements of one array are rendered by different primitives/settings on the same path: %v", keysOf(allPrims))))
	}
	if n < 15 {
		r.Fail("JSONARR", "floor", "-", fmt.Sprintf("only %d slice appenders found in internal/json", n))
	}
}

func keysOf(m map[string]bool) []string {
	var out []string
	for k := range m {
		out = append(out, k)
	}
	return out
}

// validArraySeq: "[]" | "[E(,E)*]" where loops were unrolled at most twice
func validArraySeq(s string) bool {
	if s == "[]" {
		return true
	}
	if !strings.HasPrefix(s, "[E") || !strings.HasSuffix(s, "]") {
		return false
	}
	body := s[2 : len(s)-1]
	for len(body) > 0 {
		if !strings.HasPrefix(body, ",E") {
			return false
		}
		body = body[2:]
	}
	return true
}
