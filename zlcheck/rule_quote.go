package main

// QUOTE — C16 "strings appear verbatim or Go-quoted when they contain space, quote, backslash,
// control or non-ASCII bytes": the predicate that chooses between the two renderings is a scan
// over the bytes of the value; its per-byte decision is evaluated over the finite domain 0..255
// by following the loop body's branch conditions (comparisons of text[i] with constants) — an
// exact abstract evaluation, no zerolog code is executed — and must be true exactly on
// {b < 0x20, b > 0x7e, ' ', '\\', '"'}.  Every call site quotes with strconv.Quote on the true
// branch and writes the value verbatim on the false branch.

import (
	"fmt"
	"go/token"

	"strings"

	"golang.org/x/tools/go/ssa"
)

// evalByteCond evaluates a boolean SSA value for text[i] == b; ok=false if not evaluable.
// A class table indexed by the byte (`quoteTable[s[i]]`, a package-level array filled once by the
// package initialiser) is read through tableContentsOf.
func evalByteCond(p *Prog, v ssa.Value, text ssa.Value, b int64, depth int) (val bool, ok bool) {
	if depth > 8 {
		return false, false
	}
	switch x := v.(type) {
	case *ssa.Const:
		return constBool(x)
	case *ssa.UnOp:
		if x.Op == token.NOT {
			r, ok := evalByteCond(p, x.X, text, b, depth+1)
			return !r, ok
		}
		if x.Op == token.MUL {
			if ia, isIA := x.X.(*ssa.IndexAddr); isIA {
				g, isG := ia.X.(*ssa.Global)
				idx := ia.Index
				for {
					if cv, ok := idx.(*ssa.Convert); ok {
						idx = cv.X
						continue
					}
					break
				}
				if _, isByte := byteAt(idx, text); isG && isByte && p != nil {
					vals, _, undecided := tableContentsOf(p, g)
					if undecided == "" && b >= 0 && int(b) < len(vals) {
						return vals[b] != 0, true
					}
				}
			}
		}
	case *ssa.BinOp:
		num := func(y ssa.Value) (int64, bool) {
			if c, ok := constInt(y); ok {
				return c, true
			}
			for {
				if cv, ok := y.(*ssa.Convert); ok {
					y = cv.X
					continue
				}
				break
			}
			if _, ok := byteAt(y, text); ok {
				return b, true
			}
			return 0, false
		}
		l, ok1 := num(x.X)
		r, ok2 := num(x.Y)
		if !ok1 || !ok2 {
			return false, false
		}
		switch x.Op {
		case token.EQL:
			return l == r, true
		case token.NEQ:
			return l != r, true
		case token.LSS:
			return l < r, true
		case token.LEQ:
			return l <= r, true
		case token.GTR:
			return l > r, true
		case token.GEQ:
			return l >= r, true
		}
	}
	return false, false
}

func ruleConsoleQuote(r *Run, p *Prog) {
	rule := "QUOTE"
	nq := p.Func("", "needsQuote")
	if !r.Anchor(nq != nil && len(nq.Params) == 1, rule, "needsQuote(string) bool") {
		return
	}
	text := ssa.Value(nq.Params[0])
	var hdr *ssa.BasicBlock
	for _, b := range nq.Blocks {
		if isLoopHeader(b) {
			if hdr != nil {
				hdr = nil
				break
			}
			hdr = b
		}
	}
	if hdr == nil {
		r.Ob(rule, FnName(nq)+"/scan", p.Pos(nq.Pos()), false, true, "the quoting predicate is not a single scan over the bytes of the value: its per-byte decision cannot be determined")
		return
	}
	body := loopBlocks(hdr)
	var entry *ssa.BasicBlock
	for _, s := range hdr.Succs {
		if body[s] && s != hdr {
			entry = s
		}
	}
	var exit *ssa.BasicBlock
	for _, s := range hdr.Succs {
		if !body[s] {
			exit = s
		}
	}
	if entry == nil || exit == nil {
		r.Ob(rule, FnName(nq)+"/scan", p.Pos(nq.Pos()), false, true, "loop shape not recognised")
		return
	}
	// after the scan: returns false
	okExit := false
	if ret, ok := exit.Instrs[len(exit.Instrs)-1].(*ssa.Return); ok && len(ret.Results) == 1 {
		if v, ok := constBool(ret.Results[0]); ok && !v {
			okExit = true
		}
	}
	r.Ob(rule, FnName(nq)+"/no-hit", p.Pos(nq.Pos()), okExit, true, tern(okExit, "a value with no special byte is reported as not needing quotes", "after scanning every byte without a hit the predicate does not return false"))
	var wrong []string
	undec := ""
	for b := int64(0); b < 256; b++ {
		cur := entry
		res := -1 // 1 quote, 0 continue
		for steps := 0; steps < 64 && res < 0; steps++ {
			if cur == hdr {
				res = 0
				break
			}
			switch t := cur.Instrs[len(cur.Instrs)-1].(type) {
			case *ssa.Return:
				if v, ok := constBool(t.Results[0]); ok {
					res = 0
					if v {
						res = 1
					}
				} else {
					undec = "return of a non-constant"
					res = -2
				}
			case *ssa.If:
				v, ok := evalByteCond(p, t.Cond, text, b, 0)
				if !ok {
					undec = "condition " + descr(t.Cond) + " at " + p.Pos(t.Pos())
					res = -2
					break
				}
				if v {
					cur = cur.Succs[0]
				} else {
					cur = cur.Succs[1]
				}
			case *ssa.Jump:
				cur = cur.Succs[0]
			default:
				undec = "unexpected terminator"
				res = -2
			}
		}
		if res < 0 {
			break
		}
		want := b < 0x20 || b > 0x7e || b == ' ' || b == '\\' || b == '"'
		if (res == 1) != want {
			wrong = append(wrong, fmt.Sprintf("0x%02x", b))
		}
	}
	if undec != "" {
		r.Ob(rule, FnName(nq)+"/byte-classes", p.Pos(nq.Pos()), false, true, "the per-byte quoting decision cannot be evaluated ("+undec+")")
	} else {
		ok := len(wrong) == 0
		r.Ob(rule, FnName(nq)+"/byte-classes", p.Pos(nq.Pos()), ok, true, tern(ok, "quoted exactly for bytes < 0x20, > 0x7e, space, backslash, quote (all 256 byte values evaluated)", "the quoting decision is wrong for bytes "+joinMax(wrong, 8)+": strings containing them are rendered "+"verbatim/quoted contrary to C16"))
	}
	// call sites
	n := 0
	for _, f := range p.ModFns {
		eachInstr(f, func(bk *ssa.BasicBlock, i int, in ssa.Instruction) {
			c, ok := in.(*ssa.Call)
			if !ok || staticCallee(&c.Call) != nq {
				return
			}
			n++
			okc := false
			detail := "the result of needsQuote does not select between strconv.Quote(value) and the value itself"
			for _, ref := range referrersOf(c) {
				iff, ok := ref.(*ssa.If)
				if !ok {
					continue
				}
				tb, fb := iff.Block().Succs[0], iff.Block().Succs[1]
				quoted, plainQuoted := false, false
				for _, x := range tb.Instrs {
					if qc, ok := x.(*ssa.Call); ok && isCallTo(&qc.Call, "strconv.Quote") && len(qc.Call.Args) == 1 && qc.Call.Args[0] == c.Call.Args[0] {
						quoted = true
					}
				}
				for _, x := range fb.Instrs {
					if qc, ok := x.(*ssa.Call); ok && strings.HasPrefix(calleeFull(&qc.Call), "strconv.Quote") {
						plainQuoted = true
					}
				}
				if quoted && !plainQuoted {
					okc = true
				}
			}
			r.Ob(rule, FnName(f)+"/quotes-on-true", p.Pos(c.Pos()), okc, true, tern(okc, "strconv.Quote(value) on the true branch, the value verbatim otherwise", detail))
		})
	}
	r.Ob(rule, "needsQuote/call-sites", p.Pos(nq.Pos()), n >= 1, true, fmt.Sprintf("%d call site(s)", n))
}

func calleeFull(c *ssa.CallCommon) string {
	if o := calleeObj(c); o != nil {
		return funcFullName(o)
	}
	return ""
}

// ruleConsoleMarshal: nested values (arrays, objects, other JSON values) are re-encoded by the
// console writer with the library's own InterfaceMarshalFunc — the marshaler the event was written
// with (HTML escaping off) — not with encoding/json.Marshal, which escapes <, > and & and so
// renders a nested string differently from the event.
func ruleConsoleMarshal(r *Run, p *Prog) {
	wf := p.Method("", "ConsoleWriter", "writeFields")
	imf := p.Global("", "InterfaceMarshalFunc")
	if !r.Anchor(wf != nil && imf != nil, "ONCE", "ConsoleWriter.writeFields / InterfaceMarshalFunc") {
		return
	}
	v := p.View(wf, "", nil)
	viaHook, direct := 0, ""
	eachInstr(v, func(b *ssa.BasicBlock, i int, in ssa.Instruction) {
		c, ok := in.(*ssa.Call)
		if !ok {
			return
		}
		if loadedGlobal(c.Call.Value) == imf {
			viaHook++
		}
		if o := calleeObj(&c.Call); o != nil && o.Pkg() != nil && o.Pkg().Path() == "encoding/json" && (o.Name() == "Marshal" || o.Name() == "MarshalIndent") {
			direct = o.Name()
		}
	})
	okc := viaHook > 0 && direct == ""
	r.Ob("ONCE", FnName(wf)+"/nested-values-by-InterfaceMarshalFunc", p.Pos(wf.Pos()), okc, true, tern(okc, "nested values are re-encoded with InterfaceMarshalFunc", "nested values are re-encoded with encoding/json."+direct+" instead of InterfaceMarshalFunc: <, > and & inside nested strings come out as \\u003c, \\u003e, \\u0026, not as the event has them"))
}
