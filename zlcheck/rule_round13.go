package main

// Rules written after the thirteenth seeding batch (DESIGN 10.24).

import (
	"fmt"
	"go/token"
	"go/types"

	"golang.org/x/tools/go/ssa"
)

// producerRoots: the exported methods of diode.Writer a producer can call — everything except
// Close (which is allowed to wait for the consumer).  A method added later (WriteLevel,
// WriteString, …) is a producer entry like Write.
func producerRoots(p *Prog) []*ssa.Function {
	var out []*ssa.Function
	for _, m := range p.Methods("diode", "Writer", true) {
		if m.Name() == "Close" {
			continue
		}
		out = append(out, m)
	}
	return out
}

// moduleClosure: module functions reachable from root through the call graph, go statements excluded.
func moduleClosure(p *Prog, root *ssa.Function) []*ssa.Function {
	cg := p.CG()
	seen := map[*ssa.Function]bool{}
	var order []*ssa.Function
	var visit func(f *ssa.Function)
	visit = func(f *ssa.Function) {
		if f == nil || seen[f] || !InModule(f) || f.Blocks == nil {
			return
		}
		seen[f] = true
		order = append(order, f)
		if n := cg.Nodes[f]; n != nil {
			for _, e := range n.Out {
				if _, isGo := e.Site.(*ssa.Go); isGo {
					continue
				}
				visit(e.Callee.Func)
			}
		}
	}
	visit(root)
	return order
}

// ruleProducersNeverTouchWrappedWriter (A19, all producer entries): every exported method of
// diode.Writer other than Close is a producer entry; none of them reaches a lock, a wait, a
// channel operation or the wrapped writer (a WriteLevel that writes "urgent" levels straight
// through blocks the producer on the wrapped writer, runs concurrently with poll's delivery and
// overtakes queued messages).
func ruleProducersNeverTouchWrappedWriter(r *Run, p *Prog, rule string, done *ssa.Function) {
	n := 0
	for _, m := range producerRoots(p) {
		n++
		if m == done {
			continue
		}
		bad, pos, via := "", m.Pos(), ""
		for _, f := range moduleClosure(p, m) {
			eachInstr(f, func(b *ssa.BasicBlock, i int, in ssa.Instruction) {
				if bad != "" {
					return
				}
				if why := blockingInstr(in); why != "" {
					bad, pos, via = why, in.Pos(), FnName(f)
				}
				if c, ok := in.(*ssa.Call); ok && c.Call.IsInvoke() {
					if fv, _ := loadedField(c.Call.Value); fv != nil && fname(fv) == "w" {
						bad, pos, via = "calls the wrapped writer (w."+c.Call.Method.Name()+")", c.Pos(), FnName(f)
					}
				}
				// any other way of getting at it (io.WriteString(dw.w, …), a type assertion, a
				// helper that receives it): the producer side has no business reading the field
				if v, ok := in.(ssa.Value); ok && bad == "" {
					switch in.(type) {
					case *ssa.Field, *ssa.FieldAddr:
						if fv := fieldVar(v); fv != nil && fname(fv) == "w" && fv.Pkg() != nil && fv.Pkg() == m.Pkg.Pkg {
							bad, pos, via = "reads the wrapped writer (field w of diode.Writer)", in.Pos(), FnName(f)
						}
					}
				}
			})
		}
		r.Ob(rule, FnName(m)+"/producer-entry-non-blocking", p.Pos(pos), bad == "", true, tern(bad == "", "producer entry: nothing reachable locks, waits, uses a channel or calls the wrapped writer", "the producer entry "+FnName(m)+" can block or write itself (in "+via+"): "+bad+" — producers wait for the wrapped writer, the write runs concurrently with the consumer's delivery and overtakes queued messages"))
	}
	r.Ob(rule, "producer-entries", "-", n >= 1, false, fmt.Sprintf("%d exported producer entries of diode.Writer examined", n))
}

// rulePublishedBufferStaysWithConsumer (A13 published): once a producer entry has handed its copy
// to the ring (Set), nothing on the producer side returns that buffer to the pool — it belongs to
// the consumer until delivered.  Judged on the inlined view of each producer entry: no path leads
// from a Set call to a Pool.Put.
func rulePublishedBufferStaysWithConsumer(r *Run, p *Prog, rule string) {
	n := 0
	for _, m := range producerRoots(p) {
		v := p.View(m, "", nil)
		var sets []*ssa.Call
		eachInstr(v, func(b *ssa.BasicBlock, i int, in ssa.Instruction) {
			if c, ok := in.(*ssa.Call); ok && c.Call.IsInvoke() && c.Call.Method.Name() == "Set" {
				sets = append(sets, c)
			}
		})
		// helpers kept out of line by the view are covered through the call graph: a Put anywhere
		// in a function called after Set
		putIn := func(in ssa.Instruction) bool {
			c, ok := in.(*ssa.Call)
			if !ok {
				return false
			}
			if isPoolPut(&c.Call) {
				return true
			}
			if cal := staticCallee(&c.Call); cal != nil && InModule(cal) {
				for _, g := range moduleClosure(p, cal) {
					found := false
					eachInstr(g, func(b *ssa.BasicBlock, i int, x ssa.Instruction) {
						if cc, ok := x.(*ssa.Call); ok && isPoolPut(&cc.Call) {
							found = true
						}
					})
					if found {
						return true
					}
				}
			}
			return false
		}
		for k, set := range sets {
			n++
			found, _ := pathExists(v, set, putIn, nil, nil)
			r.Ob(rule, FnName(m)+"/published-not-recycled"+tern(k == 0, "", "#"+itoa(k+1)), p.Pos(set.Pos()), !found, true, tern(!found, "after Set no path of the producer entry returns a buffer to the pool", "after publishing its copy to the ring the producer entry can return the buffer to the pool: the consumer still delivers that buffer, and the next Write overwrites it (corrupted or duplicated message)"))
		}
	}
	r.Ob(rule, "published-not-recycled/sites", "-", n >= 1, false, fmt.Sprintf("%d publication site(s) in producer entries examined", n))
}

// ruleEventPathIgnoresGlobalLevel (GATE decided-once): the level gate and the sampler decide once,
// when the event is created.  Nothing reachable from a method of *Event consults the global level
// again — an event the sampler admitted (and charged for) that is dropped later, because the
// global level moved in between, breaks the admitted share.
func ruleEventPathIgnoresGlobalLevel(r *Run, p *Prog, rule string) {
	glob := p.Func("", "GlobalLevel")
	gl := p.Global("", "gLevel")
	if !r.Anchor(glob != nil, rule, "GlobalLevel") {
		return
	}
	n := 0
	seen := map[*ssa.Function]bool{}
	for _, m := range p.Methods("", "Event", false) {
		for _, f := range moduleClosure(p, m) {
			if seen[f] {
				continue
			}
			seen[f] = true
			n++
			bad := token.NoPos
			eachInstr(f, func(b *ssa.BasicBlock, i int, in ssa.Instruction) {
				if c, ok := in.(*ssa.Call); ok && staticCallee(&c.Call) == glob && bad == token.NoPos {
					bad = c.Pos()
				}
				if gl != nil {
					for _, op := range in.Operands(nil) {
						if *op == ssa.Value(gl) && bad == token.NoPos {
							bad = in.Pos()
						}
					}
				}
			})
			if bad != token.NoPos {
				r.Ob(rule, FnName(f)+"/decided-once", p.Pos(bad), false, true, FnName(f)+" (reachable from a method of *Event) reads the global level: the gate and the sampler have already decided when the event was created, so an admitted event that is dropped here has consumed sampler budget without being written")
			}
		}
	}
	r.Ob(rule, "event-path/decided-once", "-", n >= 40, false, fmt.Sprintf("%d functions reachable from *Event methods examined: none reads the global level", n))
}

// ruleNoFixedScratchAppend (A16 scratch): on the fast paths nothing is appended into a slice of a
// fixed-size local array — output that outgrows the array moves to the heap (one allocation per
// event for exactly the long inputs), where appending to the caller's pooled buffer does not.
func ruleNoFixedScratchAppend(r *Run, p *Prog, rule string, reach map[*ssa.Function]bool) {
	n := 0
	for _, f := range p.ModFns {
		if !reach[f] || f.Blocks == nil {
			continue
		}
		n++
		eachInstr(f, func(b *ssa.BasicBlock, i int, in ssa.Instruction) {
			c, ok := in.(*ssa.Call)
			if !ok || len(c.Call.Args) == 0 || c.Call.IsInvoke() {
				return
			}
			// a call that extends its first argument: the append builtin, or a function from
			// []byte to []byte (strconv.AppendX, the encoders' AppendX)
			if builtinName(&c.Call) != "append" {
				sig := c.Call.Signature()
				if sig == nil || sig.Results().Len() != 1 || !isByteSlice(sig.Results().At(0).Type()) {
					return
				}
			}
			if !isByteSlice(c.Call.Args[0].Type()) {
				return
			}
			sl, ok := c.Call.Args[0].(*ssa.Slice)
			if !ok {
				return
			}
			al, ok := sl.X.(*ssa.Alloc)
			if !ok {
				return
			}
			if _, isArr := al.Type().Underlying().(*types.Pointer).Elem().Underlying().(*types.Array); !isArr {
				return
			}
			r.Ob(rule, FnName(f)+"/fixed-scratch-append", p.Pos(c.Pos()), false, true, FnName(f)+" appends into a slice of the fixed-size local array "+al.Comment+": output longer than the array is moved to the heap (an allocation per event for long inputs), which appending to the destination buffer is not")
		})
	}
	r.Ob(rule, "fast-path/fixed-scratch", "-", n >= 100, false, fmt.Sprintf("%d fast-path functions examined: none appends into a fixed-size local array", n))
}

