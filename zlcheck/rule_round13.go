package main

// Rules written after the thirteenth seeding batch (DESIGN 10.24).

import (
	"fmt"
	"go/token"
	"go/types"

	"golang.org/x/tools/go/ssa"
)

// producerRoots: the exported methods of diode.Writer a producer can call — everything except
// Close (which is allowed to wait for the consumer).  A method added later (WriteLevel,
// WriteString, …) is a producer entry like Write.
func producerRoots(p *Prog) []*ssa.Function {
	var out []*ssa.Function
	for _, m := range p.Methods("diode", "Writer", true) {
		if m.Name() == "Close" {
			continue
		}
		out = append(out, m)
	}
	return out
}

// moduleClosure: module functions reachable from root through the call graph, go statements excluded.
func moduleClosure(p *Prog, root *ssa.Function) []*ssa.Function {
	cg := p.CG()
	seen := map[*ssa.Function]bool{}
	var order []*ssa.Function
	var visit func(f *ssa.Function)
	visit = func(f *ssa.Function) {
		if f == nil || seen[f] || !InModule(f) || f.Blocks == nil {
			return
		}
		seen[f] = true
		order = append(order, f)
		if n := cg.Nodes[f]; n != nil {
			for _, e := range n.Out {
				if _, isGo := e.Site.(*ssa.Go); isGo {
					continue
				}
				visit(e.Callee.Func)
			}
		}
	}
	visit(root)
	return order
}

// ruleProducersNeverTouchWrappedWriter (A19, all producer entries): every exported method of
// diode.Writer other than Close is a producer entry; none of them reaches a lock, a wait, a
// channel operation or the wrapped writer (a WriteLevel that writes "urgent" levels straight
// through blocks the producer on the wrapped writer, runs concurrently with poll's delivery and
// overtakes queued messages).
func ruleProducersNeverTouchWrappedWriter(r *Run, p *Prog, rule string, done *ssa.Function) {
	n := 0
	for _, m := range producerRoots(p) {
		n++
		if m == done {
			continue
		}
		bad, pos, via := "", m.Pos(), ""
		for _, f := range moduleClosure(p, m) {
			eachInstr(f, func(b *ssa.BasicBlock, i int, in ssa.Instruction) {
				if bad != "" {
					return
				}
				if why := blockingInstr(in); why != "" {
					bad, pos, via = why, in.Pos(), FnName(f)
				}
				if c, ok := in.(*ssa.Call); ok && c.Call.IsInvoke() {
					if fv, _ := loadedField(c.Call.Value); fv != nil && fname(fv) == "w" {
						bad, pos, via = "calls the wrapped writer (w."+c.Call.Method.Name()+")", c.Pos(), FnName(f)
					}
				}
				// any other way of getting at it (io.WriteString(dw.w, …), a type assertion, a
				// helper that receives it): the producer side has no business reading the field
				if v, ok := in.(ssa.Value); ok && bad == "" {
					switch in.(type) {
					case *ssa.Field, *ssa.FieldAddr:
						if fv := fieldVar(v); fv != nil && fname(fv) == "w" && fv.Pkg() != nil && fv.Pkg() == m.Pkg.Pkg {
							bad, pos, via = "reads the wrapped writer (field w of diode.Writer)", in.Pos(), FnName(f)
						}
					}
				}
			})
		}
		r.Ob(rule, FnName(m)+"/producer-entry-non-blocking", p.Pos(pos), bad == "", true, tern(bad == "", "producer entry: nothing reachable locks, waits, uses a channel or calls the wrapped writer", "the producer entry "+FnName(m)+" can block or write itself (in "+via+"): "+bad+" — producers wait for the wrapped writer, the write runs concurrently with the consumer's delivery and overtakes queued messages"))
	}
	r.Ob(rule, "producer-entries", "-", n >= 1, false, fmt.Sprintf("%d exported producer entries of diode.Writer examined", n))
}

// rulePublishedBufferStaysWithConsumer (A13 published): once a producer entry has handed its copy
// to the ring (Set), nothing on the producer side returns that buffer to the pool — it belongs to
// the consumer until delivered.  Judged on the inlined view of each producer entry: no path leads
// from a Set call to a Pool.Put.
func rulePublishedBufferStaysWithConsumer(r *Run, p *Prog, rule string) {
	n := 0
	for _, m := range producerRoots(p) {
		v := p.View(m, "", nil)
		var sets []*ssa.Call
		eachInstr(v, func(b *ssa.BasicBlock, i int, in ssa.Instruction) {
			if c, ok := in.(*ssa.Call); ok && c.Call.IsInvoke() && c.Call.Method.Name() == "Set" {
				sets = append(sets, c)
			}
		})
		// helpers kept out of line by the view are covered through the call graph: a Put anywhere
		// in a function called after Set
		putIn := func(in ssa.Instruction) bool {
			c, ok := in.(*ssa.Call)
			if !ok {
				return false
			}
			if isPoolPut(&c.Call) {
				return true
			}
			if cal := staticCallee(&c.Call); cal != nil && InModule(cal) {
				for _, g := range moduleClosure(p, cal) {
					found := false
					eachInstr(g, func(b *ssa.BasicBlock, i int, x ssa.Instruction) {
						if cc, ok := x.(*ssa.Call); ok && isPoolPut(&cc.Call) {
							found = true
						}
					})
					if found {
						return true
					}
				}
			}
			return false
		}
		for k, set := range sets {
			n++
			found, _ := pathExists(v, set, putIn, nil, nil)
			r.Ob(rule, FnName(m)+"/published-not-recycled"+tern(k == 0, "", "#"+itoa(k+1)), p.Pos(set.Pos()), !found, true, tern(!found, "after Set no path of the producer entry returns a buffer to the pool", "after publishing its copy to the ring the producer entry can return the buffer to the pool: the consumer still delivers that buffer, and the next Write overwrites it (corrupted or duplicated message)"))
		}
	}
	r.Ob(rule, "published-not-recycled/sites", "-", n >= 1, false, fmt.Sprintf("%d publication site(s) in producer entries examined", n))
}

// ruleEventPathIgnoresGlobalLevel (GATE decided-once): the level gate and the sampler decide once,
// when the event is created.  Nothing reachable from a method of *Event consults the global level
// again — an event the sampler admitted (and charged for) that is dropped later, because the
// global level moved in between, breaks the admitted share.
func ruleEventPathIgnoresGlobalLevel(r *Run, p *Prog, rule string) {
	glob := p.Func("", "GlobalLevel")
	gl := p.Global("", "gLevel")
	if !r.Anchor(glob != nil, rule, "GlobalLevel") {
		return
	}
	n := 0
	seen := map[*ssa.Function]bool{}
	for _, m := range p.Methods("", "Event", false) {
		for _, f := range moduleClosure(p, m) {
			if seen[f] {
				continue
			}
			seen[f] = true
			n++
			bad := token.NoPos
			eachInstr(f, func(b *ssa.BasicBlock, i int, in ssa.Instruction) {
				if c, ok := in.(*ssa.Call); ok && staticCallee(&c.Call) == glob && bad == token.NoPos {
					bad = c.Pos()
				}
				if gl != nil {
					for _, op := range in.Operands(nil) {
						if *op == ssa.Value(gl) && bad == token.NoPos {
							bad = in.Pos()
						}
					}
				}
			})
			if bad != token.NoPos {
				r.Ob(rule, FnName(f)+"/decided-once", p.Pos(bad), false, true, FnName(f)+" (reachable from a method of *Event) reads the global level: the gate and the sampler have already decided when the event was created, so an admitted event that is dropped here has consumed sampler budget without being written")
			}
		}
	}
	r.Ob(rule, "event-path/decided-once", "-", n >= 40, false, fmt.Sprintf("%d functions reachable from *Event methods examined: none reads the global level", n))
}

// ruleNoFixedScratchAppend (A16 scratch): on the fast paths nothing is appended into a slice of a
// fixed-size local array — output that outgrows the array moves to the heap (one allocation per
// event for exactly the long inputs), where appending to the caller's pooled buffer does not.
func ruleNoFixedScratchAppend(r *Run, p *Prog, rule string, reach map[*ssa.Function]bool) {
	n := 0
	for _, f := range p.ModFns {
		if !reach[f] || f.Blocks == nil {
			continue
		}
		n++
		eachInstr(f, func(b *ssa.BasicBlock, i int, in ssa.Instruction) {
			c, ok := in.(*ssa.Call)
			if !ok || len(c.Call.Args) == 0 || c.Call.IsInvoke() {
				return
			}
			// a call that extends its first argument: the append builtin, or a function from
			// []byte to []byte (strconv.AppendX, the encoders' AppendX)
			if builtinName(&c.Call) != "append" {
				sig := c.Call.Signature()
				if sig == nil || sig.Results().Len() != 1 || !isByteSlice(sig.Results().At(0).Type()) {
					return
				}
			}
			// the destination is the first argument, or the one after the receiver of a method
			// (`t.AppendFormat(b[:0], layout)`)
			var al *ssa.Alloc
			destIdx := 0
			if builtinName(&c.Call) != "append" {
				if sig := c.Call.Signature(); sig != nil && sig.Recv() != nil {
					destIdx = 1
				}
			}
			for k, a := range c.Call.Args {
				if k != destIdx || !isByteSlice(a.Type()) {
					continue
				}
				sl, ok := a.(*ssa.Slice)
				if !ok {
					continue
				}
				x, ok := sl.X.(*ssa.Alloc)
				if !ok {
					continue
				}
				if _, isArr := x.Type().Underlying().(*types.Pointer).Elem().Underlying().(*types.Array); isArr {
					al = x
				}
			}
			if al == nil {
				return
			}
			r.Ob(rule, FnName(f)+"/fixed-scratch-append", p.Pos(c.Pos()), false, true, FnName(f)+" appends into a slice of the fixed-size local array "+al.Comment+": output longer than the array is moved to the heap (an allocation per event for long inputs), which appending to the destination buffer is not")
		})
	}
	r.Ob(rule, "fast-path/fixed-scratch", "-", n >= 100, false, fmt.Sprintf("%d fast-path functions examined: none appends into a fixed-size local array", n))
}


// ---------- rules written after the fourteenth seeding batch (DESIGN 10.25) ----------

// ruleContextHookBuildersUnconditional (HOOKS registers-on-every-path): a method of Context that
// registers a hook (Timestamp, Caller, CallerWithSkipFrameCount) does so on every path — a "skip
// when such a hook is already inherited" shortcut makes the registration run zero times and the
// field it adds loses its place in the layout.
func ruleContextHookBuildersUnconditional(r *Run, p *Prog, rule string) {
	hook := p.Method("", "Logger", "Hook")
	if !r.Anchor(hook != nil, rule, "Logger.Hook") {
		return
	}
	n := 0
	for _, m := range p.Methods("", "Context", true) {
		v := p.View(m, "hookkeep", func(f *ssa.Function) bool { return f == hook })
		isHook := func(in ssa.Instruction) bool {
			c, ok := in.(*ssa.Call)
			return ok && staticCallee(&c.Call) == hook
		}
		has := false
		eachInstr(v, func(b *ssa.BasicBlock, i int, in ssa.Instruction) {
			if isHook(in) {
				has = true
			}
		})
		if !has {
			continue
		}
		n++
		found, _ := pathExists(v, nil, func(in ssa.Instruction) bool { _, ok := in.(*ssa.Return); return ok }, isHook, nil)
		r.Ob(rule, FnName(m)+"/registers-on-every-path", p.Pos(m.Pos()), !found, true, tern(!found, "every return follows the Logger.Hook call", FnName(m)+" can return without registering its hook (a shortcut in front of Logger.Hook): that registration runs zero times, and the field it stands for is missing from, or misplaced in, the events of the derived logger"))
	}
	r.Ob(rule, "context-hook-builders", "-", n >= 2, false, fmt.Sprintf("%d Context methods that register a hook examined", n))
}

// ruleNewKeepsItsWriter (FANOUT keeps-its-writer): the Logger built by New writes to the very
// writer it was given (asserted to LevelWriter or wrapped in the adapter) — not to something read
// out of it (a single-destination shortcut that unwraps a MultiLevelWriter drops the wrapper's
// short-write and error handling).
func ruleNewKeepsItsWriter(r *Run, p *Prog, rule string) {
	nw := p.Func("", "New")
	if !r.Anchor(nw != nil, rule, "zerolog.New") {
		return
	}
	v := p.View(nw, "", nil)
	var okVal func(x ssa.Value, depth int, seen map[ssa.Value]bool) (bool, string)
	okVal = func(x ssa.Value, depth int, seen map[ssa.Value]bool) (bool, string) {
		if seen[x] || depth > 40 {
			return true, ""
		}
		seen[x] = true
		switch y := x.(type) {
		case *ssa.Parameter, *ssa.Const, *ssa.Global:
			return true, ""
		case *ssa.Phi:
			for _, e := range y.Edges {
				if ok, why := okVal(e, depth+1, seen); !ok {
					return false, why
				}
			}
			return true, ""
		case *ssa.TypeAssert:
			return okVal(y.X, depth+1, seen)
		case *ssa.Extract:
			return okVal(y.Tuple, depth+1, seen)
		case *ssa.MakeInterface:
			return okVal(y.X, depth+1, seen)
		case *ssa.ChangeInterface:
			return okVal(y.X, depth+1, seen)
		case *ssa.ChangeType:
			return okVal(y.X, depth+1, seen)
		case *ssa.UnOp:
			if y.Op == token.MUL {
				switch a := y.X.(type) {
				case *ssa.Global:
					return true, ""
				case *ssa.Alloc:
					// a local composite: everything stored into it (or its fields) is judged
					for _, ref := range referrersOf(a) {
						switch s := ref.(type) {
						case *ssa.Store:
							if s.Addr == ssa.Value(a) {
								if ok, why := okVal(s.Val, depth+1, seen); !ok {
									return false, why
								}
							}
						case *ssa.FieldAddr:
							for _, r2 := range referrersOf(s) {
								if st, isSt := r2.(*ssa.Store); isSt && st.Addr == ssa.Value(s) {
									if ok, why := okVal(st.Val, depth+1, seen); !ok {
										return false, why
									}
								}
							}
						}
					}
					return true, ""
				}
			}
		}
		return false, descr(x)
	}
	n := 0
	eachInstr(v, func(b *ssa.BasicBlock, i int, in ssa.Instruction) {
		st, ok := in.(*ssa.Store)
		if !ok {
			return
		}
		fa, ok := st.Addr.(*ssa.FieldAddr)
		if !ok || fieldVar(fa) == nil || fname(fieldVar(fa)) != "w" {
			return
		}
		if nt, isN := derefType(fa.X.Type()).(*types.Named); !isN || nt.Obj().Name() != "Logger" {
			return
		}
		n++
		ok2, why := okVal(st.Val, 0, map[ssa.Value]bool{})
		r.Ob(rule, FnName(nw)+"/keeps-its-writer", p.Pos(st.Pos()), ok2, true, tern(ok2, "Logger.w is the writer given to New (asserted to LevelWriter or wrapped in the adapter)", "New stores a writer derived from "+why+" instead of the one it was given: whatever the given writer does around its destinations (short-write detection, error routing, fan-out, Close) is bypassed"))
	})
	if n == 0 {
		r.Fail(rule, FnName(nw)+"/keeps-its-writer", p.Pos(nw.Pos()), "no store to Logger.w found in New (undecided, fail closed)")
	}
}

// rulePassThroughWritesOnce (A3 one-call-per-event): the pass-through wrappers hand one event to
// the underlying writer with one call — no retry loop that delivers the rest of a short write as
// a second, partial Write (a fragment that is not a JSON object).
func rulePassThroughWritesOnce(r *Run, p *Prog, rule string) {
	n := 0
	for _, tm := range [][2]string{{"LevelWriterAdapter", "WriteLevel"}, {"syncWriter", "Write"}, {"syncWriter", "WriteLevel"}} {
		m := p.Method("", tm[0], tm[1])
		if m == nil {
			continue
		}
		v := p.View(m, "", nil)
		isW := func(in ssa.Instruction) bool {
			c, ok := in.(*ssa.Call)
			return ok && c.Call.IsInvoke() && (c.Call.Method.Name() == "Write" || c.Call.Method.Name() == "WriteLevel")
		}
		var calls []ssa.Instruction
		eachInstr(v, func(b *ssa.BasicBlock, i int, in ssa.Instruction) {
			if isW(in) {
				calls = append(calls, in)
			}
		})
		n++
		bad := token.NoPos
		for _, c := range calls {
			if again, _ := pathExists(v, c, isW, nil, nil); again && bad == token.NoPos {
				bad = c.Pos()
			}
		}
		r.Ob(rule, FnName(m)+"/one-call-per-event", p.Pos(tern2(bad != token.NoPos, bad, m.Pos())), bad == token.NoPos && len(calls) > 0, true, tern(bad == token.NoPos && len(calls) > 0, "every path hands the event to the underlying writer with at most one call", tern(len(calls) == 0, "the wrapper never calls the underlying writer", "a path of "+FnName(m)+" calls the underlying writer more than once for one event (a retry of a short write): the destination receives a fragment that is not a complete event")))
	}
	r.Ob(rule, "pass-through/one-call-per-event", "-", n >= 3, false, fmt.Sprintf("%d pass-through methods examined", n))
}

func tern2(c bool, a, b token.Pos) token.Pos {
	if c {
		return a
	}
	return b
}

// ruleCloseCoversWrittenFields (FATAL close-covers): in the writer wrappers, every field through
// which a method writes (invoke of Write/WriteLevel) is also offered to io.Closer by Close — a
// wrapper that writes through one field and closes through another (left nil for plain writers)
// never closes, and a diode behind it is never drained.
func ruleCloseCoversWrittenFields(r *Run, p *Prog, rule string) {
	n := 0
	for _, tn := range []string{"LevelWriterAdapter", "syncWriter", "FilteredLevelWriter"} {
		cl := p.Method("", tn, "Close")
		if cl == nil {
			continue
		}
		written := map[string]token.Pos{}
		for _, m := range p.Methods("", tn, false) {
			if m == cl {
				continue
			}
			eachInstr(p.View(m, "", nil), func(b *ssa.BasicBlock, i int, in ssa.Instruction) {
				if c, ok := in.(*ssa.Call); ok && c.Call.IsInvoke() && (c.Call.Method.Name() == "Write" || c.Call.Method.Name() == "WriteLevel") {
					if fv, _ := loadedField(c.Call.Value); fv != nil {
						written[fname(fv)] = c.Pos()
					}
				}
			})
		}
		closed := map[string]bool{}
		eachInstr(p.View(cl, "", nil), func(b *ssa.BasicBlock, i int, in ssa.Instruction) {
			switch x := in.(type) {
			case *ssa.TypeAssert:
				a := x.X
				for {
					if ci, ok := a.(*ssa.ChangeInterface); ok {
						a = ci.X
						continue
					}
					break
				}
				if fv, _ := loadedField(a); fv != nil {
					closed[fname(fv)] = true
				}
			case *ssa.Call:
				if x.Call.IsInvoke() && x.Call.Method.Name() == "Close" {
					if fv, _ := loadedField(x.Call.Value); fv != nil {
						closed[fname(fv)] = true
					}
				}
				// handed to a shared helper (`closeIfCloser(w.Writer)`), possibly as another
				// interface type: the field is offered for closing there
				for _, a := range x.Call.Args {
					for {
						if ci, ok := a.(*ssa.ChangeInterface); ok {
							a = ci.X
							continue
						}
						break
					}
					if fv, _ := loadedField(a); fv != nil {
						closed[fname(fv)] = true
					}
				}
			}
		})
		for f, pos := range written {
			n++
			r.Ob(rule, FnName(cl)+"/close-covers:"+f, p.Pos(pos), closed[f], true, tern(closed[f], "the field written through is offered to io.Closer by Close", tn+" writes through field "+f+" but Close never looks at it: for writers held only there Close does nothing, and a buffering writer (a diode) behind the wrapper is never drained on Close or Fatal"))
		}
	}
	r.Ob(rule, "wrappers/close-covers", "-", n >= 3, false, fmt.Sprintf("%d written-through fields of writer wrappers examined", n))
}

// ruleFrontEndConversions (A6 front-end): the Event/Array/Context methods hand the logged integer
// to the encoder as it is or through a value-preserving conversion — a shared `appendInt(int64(i))`
// helper behind Uint()/Uint64() turns values from 1<<63 into negative numbers.
func ruleFrontEndConversions(r *Run, p *Prog, rule string) {
	nM, nC := 0, 0
	for _, tn := range []string{"Event", "Array", "Context"} {
		for _, m := range p.Methods("", tn, true) {
			var ints []*ssa.Parameter
			for _, pa := range m.Params[1:] {
				if isIntLike(pa.Type()) {
					ints = append(ints, pa)
				}
			}
			if len(ints) == 0 {
				continue
			}
			nM++
			eachInstr(m, func(b *ssa.BasicBlock, i int, in ssa.Instruction) {
				cv, ok := in.(*ssa.Convert)
				if !ok || !isIntLike(cv.Type()) || !isIntLike(cv.X.Type()) {
					return
				}
				direct := false
				for _, pa := range ints {
					if cv.X == ssa.Value(pa) {
						direct = true
					}
				}
				if !direct {
					return
				}
				nC++
				okc := valuePreserving(cv.X.Type(), cv.Type(), p.sizes)
				r.Ob(rule, FnName(m)+"/front-end-conv:"+types.TypeString(cv.X.Type(), shortQual)+"→"+types.TypeString(cv.Type(), shortQual), p.Pos(cv.Pos()), okc, true,
					tern(okc, "value-preserving widening of the logged integer", FnName(m)+" converts the logged "+types.TypeString(cv.X.Type(), shortQual)+" to "+types.TypeString(cv.Type(), shortQual)+" before it reaches the encoder: values outside the target's range are encoded as different numbers"))
			})
		}
	}
	r.Ob(rule, "front-end/int-methods", "-", nM >= 30, false, fmt.Sprintf("%d front-end methods with an integer parameter examined, %d direct conversions", nM, nC))
}
