package main

import (
	"fmt"
	"go/constant"
	"go/token"
	"go/types"
	"sort"
	"strings"

	"golang.org/x/tools/go/ssa"
)

func init() { register("C04", checkC04) }

func checkC04(r *Run) {
	r.Explain = "Decides structurally: (a) A9 every exported *Event method is inert on a nil receiver (no dereference, no callback/marshaler/hook/writer call, no panic, no store, no operation that can panic); " +
		"(b) GATE the level gate (*Logger).should, as a path table: every admitting path carries lvl>=l.level and lvl>=GlobalLevel(), every rejecting path carries lvl<l.level, lvl<GlobalLevel() or a nil writer, " +
		"the sampler is called only after both comparisons and only when sampling is enabled; (*Logger).newEvent returns nil exactly on should()==false and calls done(\"\") there; " +
		"(c) WITHLEVEL no os.Exit/panic closure reachable from WithLevel, each arm creates the event with the switched level, the level entry points pass their own constant; " +
		"(d) WLEVEL the writer receives the Event.level field, stored only from newEvent's parameter and by Discard; (d') TLW (C15's framing rules) the level byte of a line held by TriggerLevelWriter is byte(l) and is re-emitted as Level(line[0]), a bit-preserving round trip also for negative levels; (e) LVLTAB ParseLevel pairs every declared Level constant with itself and has the exact numeric fallback. Contradiction rule nil-test-before-use: a pointer parameter that a function tests against nil is not dereferenced where the test has not been passed yet. FANOUT keeps-every-writer: each writer given to MultiLevelWriter becomes exactly one destination; GATE always-delegates: the package-level log.Panic()/log.Fatal() go through the Logger methods on every path. GATE decided-once: the gate decides when the event is created; nothing reachable from a method of *Event reads the global level. A13 (shared with C06): a pooled event is put at most once and not used afterwards — two live events sharing one struct hand the writer each other's level."
	r.NotDec = "Nothing value-level remains: with two comparisons on int8 operands the 256x256x136 table is determined by operator and operands. User samplers/hooks are outside."
	r.Assume = []string{"user code reached through Sampler.Sample / done callbacks is outside the claim", "go/ssa lowers && and || into separate If blocks (checked by path enumeration, not by syntax)"}
	p := r.Use("J")
	if p == nil {
		return
	}
	ruleA9Event(r, p, false)
	ruleNilOrder(r, p, []string{""})
	// a filtered Fatal() closes the writer before exiting: Close of a diode must return, also when
	// nothing was ever written (the consumer is started by the constructor, Close waits only for it)
	ruleSingleConsumer(r, p)
	ruleCloseOrder(r, p, "CLOSE")
	ruleGate(r, p, true)
	ruleNewEventNil(r, p)
	ruleWithLevel(r, p)
	ruleWriteLevelOperand(r, p)
	// "the writer's WriteLevel receives exactly the event's level" also behind a TriggerLevelWriter:
	// the held lines' level byte round-trips (C15's framing rules)
	ruleTLWPaths(r, p)
	ruleTLWFrame(r, p)
	ruleMultiKeepsEveryWriter(r, p, "FANOUT") // a writer dropped by the constructor never sees an event, whatever its level
	ruleGlobalPanicFatalDelegate(r, p, "GATE")
	ruleEventPathIgnoresGlobalLevel(r, p, "GATE")
	ruleA13(r, p, map[string]bool{"": true}, "ab") // an event put twice is owned by two callers: the writer receives another event's level (C06's rule)
	ruleLevelTables(r, p)
	r.Floor("A9", 60)
	r.Floor("GATE", 4)
	r.Floor("LVLTAB", 9)
	r.Floor("WITHLEVEL", 10)
	if r.Tier == "thorough" {
		if pb := r.Use("B"); pb != nil {
			ruleA9Event(r, pb, false)
			ruleGate(r, pb, true)
		}
	}
}

// ruleA9Event: nil inertness of every exported method of *Event. With allocs=true
// also allocation findings are reports (C07's filtered-path clause).
func ruleA9Event(r *Run, p *Prog, allocs bool) {
	ms := p.Methods("", "Event", true)
	if !r.Anchor(len(ms) > 0, "A9", "exported methods of zerolog.Event") {
		return
	}
	an := newNilAnalyzer(p)
	for _, m := range ms {
		if m.Signature.Recv() == nil || !isPointer(m.Signature.Recv().Type()) {
			// a value-receiver method cannot be called on a nil *Event without a dereference
			r.Ob("A9", FnName(m)+"/receiver", p.Pos(m.Pos()), false, true, "exported Event method with a value receiver: calling it on a filtered (nil) event dereferences nil")
			continue
		}
		fs := an.analyze(m, 0)
		bad := 0
		for _, f := range fs {
			if f.Alloc != allocs {
				continue
			}
			bad++
			rule := "A9"
			if allocs {
				rule = "A9alloc"
			}
			r.Ob(rule, FnName(m)+"/"+f.Kind+":"+shorten(f.What), p.Pos(f.Pos), false, true,
				fmt.Sprintf("on a filtered (nil) event %s is not inert: %s", FnName(m), f.What))
		}
		if bad == 0 {
			rule := "A9"
			if allocs {
				rule = "A9alloc"
			}
			r.Ob(rule, FnName(m), p.Pos(m.Pos()), true, true, "nil region scanned: only comparisons, returns and harmless helpers")
		}
	}
	r.Count("a9_nil_regions", an.stats.regions)
	r.Count("a9_instructions_in_nil_regions", an.stats.instrs)
}

func shorten(s string) string {
	if len(s) > 70 {
		s = s[:70]
	}
	return strings.ReplaceAll(s, " ", "_")
}

// ---- gate ----

func isParam(v ssa.Value, f *ssa.Function, idx int) bool {
	return idx < len(f.Params) && stripChange(v) == ssa.Value(f.Params[idx])
}

func isFieldOfParam(v ssa.Value, f *ssa.Function, pidx int, field string) bool {
	fv, base := loadedField(v)
	if fv == nil || fname(fv) != field {
		return false
	}
	// value receivers are spilled: base may be the Alloc holding the receiver copy
	if isParam(base, f, pidx) {
		return true
	}
	if al, ok := base.(*ssa.Alloc); ok {
		for _, ref := range referrersOf(al) {
			if st, ok := ref.(*ssa.Store); ok && st.Addr == al && isParam(st.Val, f, pidx) {
				return true
			}
		}
	}
	return false
}

func isCallOfFunc(v ssa.Value, fn *ssa.Function) bool {
	c, ok := v.(*ssa.Call)
	return ok && fn != nil && staticCallee(&c.Call) == fn
}

func ruleGate(r *Run, p *Prog, withSampler bool) {
	should := p.Method("", "Logger", "should")
	glob := p.Func("", "GlobalLevel")
	sdis := p.Func("", "samplingDisabled")
	if !r.Anchor(should != nil, "GATE", "(*Logger).should") || !r.Anchor(glob != nil, "GATE", "GlobalLevel") {
		return
	}
	should = p.View(should, "keep-gate-anchors", func(g *ssa.Function) bool { return g == glob || g == sdis })
	paths, complete := enumPaths(should, 1, 4000)
	if !complete || len(paths) == 0 {
		r.Fail("GATE", FnName(should)+"/paths", p.Pos(should.Pos()), "cannot enumerate the paths of the level gate (undecided, fail closed)")
		return
	}
	isLvl := func(v ssa.Value) bool { return isParam(v, should, 1) }
	isLoggerLevel := func(v ssa.Value) bool { return isFieldOfParam(v, should, 0, "level") }
	isGlobal := func(v ssa.Value) bool { return isCallOfFunc(v, glob) }
	// implies lvl >= X
	geLogger := func(op token.Token, x, y ssa.Value) bool {
		return isLvl(x) && isLoggerLevel(y) && (op == token.GEQ || op == token.GTR || op == token.EQL)
	}
	geGlobal := func(op token.Token, x, y ssa.Value) bool {
		return isLvl(x) && isGlobal(y) && (op == token.GEQ || op == token.GTR || op == token.EQL)
	}
	ltLogger := func(op token.Token, x, y ssa.Value) bool { return isLvl(x) && isLoggerLevel(y) && op == token.LSS }
	ltGlobal := func(op token.Token, x, y ssa.Value) bool { return isLvl(x) && isGlobal(y) && op == token.LSS }
	wNil := func(op token.Token, x, y ssa.Value) bool {
		return op == token.EQL && isFieldOfParam(x, should, 0, "w") && isNilConst(y)
	}
	samplerNonNil := func(op token.Token, x, y ssa.Value) bool {
		return op == token.NEQ && isFieldOfParam(x, should, 0, "sampler") && isNilConst(y)
	}
	samplerNil := func(op token.Token, x, y ssa.Value) bool {
		return op == token.EQL && isFieldOfParam(x, should, 0, "sampler") && isNilConst(y)
	}
	sampEnabled := func(op token.Token, x, y ssa.Value) bool {
		b, ok := constBool(y)
		return ok && isCallOfFunc(x, sdis) && ((op == token.EQL && !b) || (op == token.NEQ && b))
	}
	sampDisabled := func(op token.Token, x, y ssa.Value) bool {
		b, ok := constBool(y)
		return ok && isCallOfFunc(x, sdis) && ((op == token.EQL && b) || (op == token.NEQ && !b))
	}
	for i, pa := range paths {
		ret, ok := pa.Exit.(*ssa.Return)
		cons := fmt.Sprintf("%s/path#%d", FnName(should), i)
		if pa.Infeasible() || nilContradiction(pa) {
			continue // e.g. `s := activeSampler()` is nil on this path and the path takes `s != nil`
		}
		if !ok || len(ret.Results) != 1 {
			r.Ob("GATE", cons, p.Pos(pa.Exit.Pos()), false, true, "the level gate has a path that does not return a decision (panic or malformed return)")
			continue
		}
		cs := pa.Cmps()
		res := pa.Resolve(ret.Results[0])
		desc := pa.String(p)
		if b, isConst := constBool(res); isConst && !b {
			// rejecting path: must have a reason that implies "below a level" or "no writer"
			ok := hasCmp(cs, ltLogger) || hasCmp(cs, ltGlobal) || hasCmp(cs, wNil)
			r.Ob("GATE", cons+"/reject", p.Pos(ret.Pos()), ok, true,
				"rejecting path ["+desc+"]"+tern(ok, " carries lvl<l.level, lvl<GlobalLevel() or w==nil", ": an event at or above both levels is dropped without consulting a sampler"))
			continue
		}
		// admitting (true) or delegating to the sampler
		ok1 := hasCmp(cs, geLogger)
		ok2 := hasCmp(cs, geGlobal)
		okAll := ok1 && ok2
		msg := "admitting path [" + desc + "]"
		if !ok1 {
			msg += ": does not carry lvl >= l.level"
		}
		if !ok2 {
			msg += ": does not carry lvl >= GlobalLevel()"
		}
		if b, isConst := constBool(res); isConst && b {
			if withSampler {
				ok3 := hasCmp(cs, samplerNil) || hasCmp(cs, sampDisabled)
				if !ok3 {
					msg += ": admits without consulting a configured, enabled sampler"
				}
				okAll = okAll && ok3
			}
			r.Ob("GATE", cons+"/admit", p.Pos(ret.Pos()), okAll, true, msg)
			continue
		}
		// result must be the sampler's answer for this level
		call, isCall := res.(*ssa.Call)
		okS := isCall && call.Call.IsInvoke() && call.Call.Method.Name() == "Sample" && isFieldOfParam(pa.Resolve(call.Call.Value), should, 0, "sampler") &&
			len(call.Call.Args) == 1 && isLvl(call.Call.Args[0])
		if !okS {
			msg += ": returns " + descr(res) + ", which is neither a constant nor l.sampler.Sample(lvl)"
		}
		ok4 := hasCmp(cs, samplerNonNil)
		ok5 := sdis == nil || hasCmp(cs, sampEnabled)
		if !ok4 {
			msg += ": sampler used without nil check"
		}
		if !ok5 {
			msg += ": sampler consulted although DisableSampling may be on"
		}
		r.Ob("GATE", cons+"/sampler", p.Pos(ret.Pos()), okAll && okS && ok4 && ok5, true, msg)
	}
	// the sampler call itself must come after both level comparisons on every path
	eachInstr(should, func(b *ssa.BasicBlock, i int, in ssa.Instruction) {
		c, ok := in.(*ssa.Call)
		if !ok || !c.Call.IsInvoke() || c.Call.Method.Name() != "Sample" {
			return
		}
		cs := necessaryCmps(should, c)
		ok = hasCmp(cs, geLogger) && hasCmp(cs, geGlobal)
		r.Ob("GATE", FnName(should)+"/Sample-after-levels", p.Pos(c.Pos()), ok, true,
			tern(ok, "Sampler.Sample is control-dependent on lvl>=l.level and lvl>=GlobalLevel()", "Sampler.Sample can run for an event the level gate rejects (consumes sampler budget)"))
	})
	// GlobalLevel must read the level atomically from the one global
	r.Count("gate_paths", len(paths))
}

// nilContradiction: the path tests the same value (phis resolved along the path; two loads of one
// field of the same object count as the same value) against nil with both outcomes.
func nilContradiction(pa Path) bool {
	type t struct {
		v   ssa.Value
		neq bool
	}
	var seen []t
	for _, c := range pa.Cmps() {
		x, y := pa.Resolve(c.X), pa.Resolve(c.Y)
		if isNilConst(x) {
			x, y = y, x
		}
		if !isNilConst(y) || (c.Op != token.EQL && c.Op != token.NEQ) {
			continue
		}
		for _, s := range seen {
			if sameValue(s.v, x) && s.neq != (c.Op == token.NEQ) {
				return true
			}
		}
		seen = append(seen, t{x, c.Op == token.NEQ})
	}
	return false
}

func tern(c bool, a, b string) string {
	if c {
		return a
	}
	return b
}

// newEvent: nil iff !should; done("") on the filtered path.
func ruleNewEventNil(r *Run, p *Prog) {
	ne := p.Method("", "Logger", "newEvent")
	should := p.Method("", "Logger", "should")
	if !r.Anchor(ne != nil, "GATE", "(*Logger).newEvent") || should == nil {
		return
	}
	pneFn := p.Func("", "newEvent")
	ne = p.View(ne, "keep-should-newEvent", func(g *ssa.Function) bool { return g == should || g == pneFn })
	paths, complete := enumPaths(ne, 1, 4000)
	if !complete {
		r.Fail("GATE", FnName(ne)+"/paths", p.Pos(ne.Pos()), "cannot enumerate paths of newEvent")
		return
	}
	var doneParam ssa.Value
	for _, pr := range ne.Params {
		if _, ok := pr.Type().Underlying().(*types.Signature); ok {
			doneParam = pr
		}
	}
	shouldIs := func(want bool) func(op token.Token, x, y ssa.Value) bool {
		return func(op token.Token, x, y ssa.Value) bool {
			b, ok := constBool(y)
			if !ok || !isCallOfFunc(x, should) {
				return false
			}
			c := x.(*ssa.Call)
			if len(c.Call.Args) != 2 || !isParam(c.Call.Args[0], ne, 0) || !isParam(c.Call.Args[1], ne, 1) {
				return false
			}
			return (op == token.EQL && b == want) || (op == token.NEQ && b != want)
		}
	}
	nNil, nEv := 0, 0
	for i, pa := range paths {
		ret, ok := pa.Exit.(*ssa.Return)
		cons := fmt.Sprintf("%s/path#%d", FnName(ne), i)
		if !ok || len(ret.Results) != 1 {
			r.Ob("GATE", cons, p.Pos(pa.Exit.Pos()), false, true, "newEvent path without a result")
			continue
		}
		res := pa.Resolve(ret.Results[0])
		cs := pa.Cmps()
		if isNilConst(res) {
			nNil++
			ok := hasCmp(cs, shouldIs(false))
			r.Ob("GATE", cons+"/nil", p.Pos(ret.Pos()), ok, true, tern(ok, "nil event only when should(level) is false", "returns a nil (filtered) event on a path where should(level) was not false: ["+pa.String(p)+"]"))
			// done("") when done != nil
			if doneParam != nil {
				hasDoneNonNil := hasCmp(cs, func(op token.Token, x, y ssa.Value) bool {
					return op == token.NEQ && x == doneParam && isNilConst(y)
				})
				called := false
				for _, in := range pa.Instrs() {
					if c, ok := in.(*ssa.Call); ok && c.Call.Value == doneParam {
						if s, ok := constString(c.Call.Args[0]); ok && s == "" {
							called = true
						}
					}
				}
				hasDoneNil := hasCmp(cs, func(op token.Token, x, y ssa.Value) bool {
					return op == token.EQL && x == doneParam && isNilConst(y)
				})
				ok := (hasDoneNonNil && called) || (hasDoneNil && !called)
				r.Ob("GATE", cons+"/done", p.Pos(ret.Pos()), ok, true, tern(ok, "filtered path: done(\"\") called iff done != nil", "filtered path does not call done(\"\") exactly when done != nil (Panic()/Fatal() must keep their effect when filtered)"))
			}
		} else {
			nEv++
			ok := hasCmp(cs, shouldIs(true))
			r.Ob("GATE", cons+"/event", p.Pos(ret.Pos()), ok, true, tern(ok, "event created only when should(level) is true", "creates an event on a path where should(level) was not true: ["+pa.String(p)+"]"))
		}
	}
	r.Ob("GATE", FnName(ne)+"/both-outcomes", p.Pos(ne.Pos()), nNil > 0 && nEv > 0, false, fmt.Sprintf("%d filtered paths, %d event paths", nNil, nEv))
}

// levelConsts returns the declared constants of type zerolog.Level.
func levelConsts(p *Prog) map[string]int64 {
	out := map[string]int64{}
	lt := p.NamedType("", "Level")
	if lt == nil {
		return out
	}
	sc := p.Pkg("").Pkg.Scope()
	for _, n := range sc.Names() {
		if c, ok := sc.Lookup(n).(*types.Const); ok && types.Identical(c.Type(), lt) {
			if v, ok := constant.Int64Val(c.Val()); ok {
				out[n] = v
			}
		}
	}
	return out
}

func ruleWithLevel(r *Run, p *Prog) {
	wl := p.Method("", "Logger", "WithLevel")
	ne := p.Method("", "Logger", "newEvent")
	if !r.Anchor(wl != nil, "WITHLEVEL", "(*Logger).WithLevel") || ne == nil {
		return
	}
	lc := levelConsts(p)
	if !r.Anchor(len(lc) >= 9, "WITHLEVEL", "declared Level constants") {
		return
	}
	// 1. entry points named after a level constant pass that constant
	entry := map[string]string{"Trace": "TraceLevel", "Debug": "DebugLevel", "Info": "InfoLevel", "Warn": "WarnLevel",
		"Error": "ErrorLevel", "Fatal": "FatalLevel", "Panic": "PanicLevel", "Log": "NoLevel"}
	entryLevel := map[*ssa.Function]int64{}
	var names []string
	for n := range entry {
		names = append(names, n)
	}
	sort.Strings(names)
	for _, n := range names {
		m := p.Method("", "Logger", n)
		if m == nil {
			r.Anchor(false, "WITHLEVEL", "(*Logger)."+n)
			continue
		}
		var lv []int64
		eachInstr(p.View(m, "keep-newEvent", func(g *ssa.Function) bool { return g == ne }), func(b *ssa.BasicBlock, i int, in ssa.Instruction) {
			if c, ok := in.(*ssa.Call); ok && staticCallee(&c.Call) == ne {
				if v, ok := constInt(c.Call.Args[1]); ok {
					lv = append(lv, v)
				} else {
					lv = append(lv, -999)
				}
			}
		})
		ok := len(lv) == 1 && lv[0] == lc[entry[n]]
		r.Ob("WITHLEVEL", FnName(m)+"/level", p.Pos(m.Pos()), ok, true, fmt.Sprintf("passes level %v to newEvent, declared %s=%d", lv, entry[n], lc[entry[n]]))
		if len(lv) == 1 {
			entryLevel[m] = lv[0]
		}
	}
	// 2. per path of WithLevel: the event level equals the switched constant (or the parameter)
	wl = p.View(wl, "keep-newEvent", func(g *ssa.Function) bool { return g == ne })
	paths, complete := enumPaths(wl, 1, 4000)
	if !complete {
		r.Fail("WITHLEVEL", FnName(wl)+"/paths", p.Pos(wl.Pos()), "cannot enumerate paths")
		return
	}
	for i, pa := range paths {
		cons := fmt.Sprintf("%s/path#%d", FnName(wl), i)
		var eq *int64
		for _, c := range pa.Cmps() {
			if c.Op == token.EQL && isParam(c.X, wl, 1) {
				if v, ok := constInt(c.Y); ok {
					vv := v
					eq = &vv
				}
			}
		}
		ret, _ := pa.Exit.(*ssa.Return)
		if ret == nil {
			r.Ob("WITHLEVEL", cons, p.Pos(pa.Exit.Pos()), false, true, "WithLevel path ends in panic")
			continue
		}
		res := pa.Resolve(ret.Results[0])
		if isNilConst(res) {
			ok := eq != nil && *eq == lc["Disabled"]
			r.Ob("WITHLEVEL", cons+"/nil", p.Pos(ret.Pos()), ok, true, tern(ok, "nil event only for level == Disabled", "WithLevel returns a nil event for a level other than Disabled"))
			continue
		}
		c, ok := res.(*ssa.Call)
		if !ok {
			r.Ob("WITHLEVEL", cons, p.Pos(ret.Pos()), false, true, "result is not a call: "+descr(res))
			continue
		}
		sc := staticCallee(&c.Call)
		var got *int64
		gotParam := false
		if sc == ne {
			if v, ok := constInt(c.Call.Args[1]); ok {
				got = &v
			} else if isParam(c.Call.Args[1], wl, 1) {
				gotParam = true
			}
			if !isNilConst(c.Call.Args[2]) {
				r.Ob("WITHLEVEL", cons+"/done", p.Pos(c.Pos()), false, true, "WithLevel passes a completion callback to newEvent (WithLevel must never exit or panic)")
			}
		} else if v, ok := entryLevel[sc]; ok {
			got = &v
		}
		switch {
		case gotParam:
			r.Ob("WITHLEVEL", cons, p.Pos(ret.Pos()), true, true, "event created with the level parameter")
		case got != nil && eq != nil && *got == *eq:
			r.Ob("WITHLEVEL", cons, p.Pos(ret.Pos()), true, true, fmt.Sprintf("case %d creates an event of level %d", *eq, *got))
		default:
			r.Ob("WITHLEVEL", cons, p.Pos(ret.Pos()), false, true, fmt.Sprintf("arm for level %v creates an event through %s with level %v", deref64(eq), descr(res), deref64(got)))
		}
	}
	// 3. nothing reachable from WithLevel exits or panics by design
	reach := map[*ssa.Function]bool{}
	var visit func(f *ssa.Function, via string)
	visit = func(f *ssa.Function, via string) {
		if f == nil || reach[f] {
			return
		}
		reach[f] = true
		if !InModule(f) {
			if o, ok := f.Object().(*types.Func); ok && o.FullName() == "os.Exit" {
				r.Ob("WITHLEVEL", "reach/os.Exit", "-", false, true, "os.Exit is reachable from WithLevel via "+via)
			}
			return
		}
		eachInstr(f, func(b *ssa.BasicBlock, i int, in ssa.Instruction) {
			if mc, ok := in.(*ssa.MakeClosure); ok {
				cf := mc.Fn.(*ssa.Function)
				bad := ""
				eachInstr(cf, func(_ *ssa.BasicBlock, _ int, x ssa.Instruction) {
					if _, ok := x.(*ssa.Panic); ok {
						bad = "panics"
					}
					if cc := callCommon(x); cc != nil && isCallTo(cc, "os.Exit") {
						bad = "calls os.Exit"
					}
				})
				if bad != "" {
					r.Ob("WITHLEVEL", "reach/closure:"+FnName(cf), p.Pos(mc.Pos()), false, true, "WithLevel reaches "+FnName(f)+", which creates a completion closure that "+bad)
				}
				visit(cf, via+" → "+FnName(cf))
			}
			if cc := callCommon(in); cc != nil {
				if sc := staticCallee(cc); sc != nil {
					visit(sc, via+" → "+FnName(sc))
				}
			}
		})
	}
	visit(wl, FnName(wl))
	n := 0
	for f := range reach {
		if InModule(f) {
			n++
		}
	}
	r.Ob("WITHLEVEL", "reach/scan", p.Pos(wl.Pos()), true, true, fmt.Sprintf("%d module functions statically reachable from WithLevel scanned for os.Exit and exiting/panicking completion closures", n))
	// Fatal and Panic must keep their effect: they do pass a closure
	for _, n := range []string{"Fatal", "Panic"} {
		m := p.Method("", "Logger", n)
		if m == nil {
			continue
		}
		has := false
		eachInstr(m, func(b *ssa.BasicBlock, i int, in ssa.Instruction) {
			if c, ok := in.(*ssa.Call); ok && staticCallee(&c.Call) == ne && !isNilConst(c.Call.Args[2]) {
				has = true
			}
		})
		r.Ob("WITHLEVEL", FnName(m)+"/done", p.Pos(m.Pos()), has, false, tern(has, n+"() passes a completion callback", n+"() no longer passes a completion callback: a filtered "+n+"() would neither exit nor panic"))
	}
}

func deref64(p *int64) interface{} {
	if p == nil {
		return "?"
	}
	return *p
}

// the writer receives Event.level; the field is stored only from newEvent's parameter and by Discard (constant Disabled).
func ruleWriteLevelOperand(r *Run, p *Prog) {
	ev := p.NamedType("", "Event")
	if !r.Anchor(ev != nil, "WLEVEL", "type Event") {
		return
	}
	lc := levelConsts(p)
	nCalls := 0
	for _, f := range p.ModFns {
		if pkgRel(f) != "" {
			continue
		}
		eachInstr(f, func(b *ssa.BasicBlock, i int, in ssa.Instruction) {
			switch x := in.(type) {
			case *ssa.Call:
				if x.Call.IsInvoke() && x.Call.Method.Name() == "WriteLevel" {
					fv, base := loadedField(x.Call.Value)
					if fv == nil || fname(fv) != "w" || !typeIs(base.Type(), modPath, "Event") {
						return
					}
					nCalls++
					lf, lb := loadedField(x.Call.Args[0])
					ok := lf != nil && fname(lf) == "level" && lb == base
					r.Ob("WLEVEL", FnName(f)+"/WriteLevel-level", p.Pos(x.Pos()), ok, true, tern(ok, "writer receives e.level", "the writer is called with "+descr(x.Call.Args[0])+" instead of the event's level"))
				}
			case *ssa.Store:
				fa, ok := x.Addr.(*ssa.FieldAddr)
				if !ok {
					return
				}
				fv := fieldVar(fa)
				if fv == nil || fname(fv) != "level" || !typeIs(fa.X.Type(), modPath, "Event") {
					return
				}
				okv := false
				why := "stores " + descr(x.Val)
				if _, isP := stripChange(x.Val).(*ssa.Parameter); isP {
					okv = true
					why = "stores its level parameter"
				} else if v, ok := constInt(x.Val); ok && v == lc["Disabled"] {
					okv = true
					why = "stores Disabled (discard)"
				}
				r.Ob("WLEVEL", FnName(f)+"/store-level", p.Pos(x.Pos()), okv, true, "Event.level: "+why)
			}
		})
	}
	r.Ob("WLEVEL", "writer-call-sites", "-", nCalls >= 1, false, fmt.Sprintf("%d WriteLevel call(s) on Event.w", nCalls))
	// the chain newEvent(level) -> e.level: Logger.newEvent passes its own level parameter
	ne := p.Method("", "Logger", "newEvent")
	pne := p.Func("", "newEvent")
	if ne != nil && pne != nil {
		eachInstr(ne, func(b *ssa.BasicBlock, i int, in ssa.Instruction) {
			if c, ok := in.(*ssa.Call); ok && staticCallee(&c.Call) == pne {
				ok := len(c.Call.Args) == 2 && isParam(c.Call.Args[1], ne, 1)
				r.Ob("WLEVEL", FnName(ne)+"/level-arg", p.Pos(c.Pos()), ok, true, tern(ok, "passes its level parameter on", "creates the event with "+descr(c.Call.Args[1])+" instead of the requested level"))
			}
		})
	}
}

// Level text forms round-trip: ParseLevel pairs each constant with itself; exact numeric fallback.
func ruleLevelTables(r *Run, p *Prog) {
	pl := p.Func("", "ParseLevel")
	if !r.Anchor(pl != nil, "LVLTAB", "ParseLevel") {
		return
	}
	lc := levelConsts(p)
	plOrig := pl
	pl = p.View(pl, "", nil)
	paths, complete := enumPaths(pl, 2, 8000)
	if !complete {
		r.Fail("LVLTAB", "ParseLevel/paths", p.Pos(pl.Pos()), "cannot enumerate paths")
		return
	}
	lfm := p.Global("", "LevelFieldMarshalFunc")
	covered := map[int64]bool{}
	numericOK := false
	for i, pa := range paths {
		ret, _ := pa.Exit.(*ssa.Return)
		if ret == nil || len(ret.Results) != 2 {
			continue
		}
		res := pa.Resolve(ret.Results[0])
		errv := pa.Resolve(ret.Results[1])
		if !isNilConst(errv) {
			continue // error path
		}
		cons := fmt.Sprintf("ParseLevel/path#%d", i)
		// find the EqualFold comparison that succeeded
		var matched *int64
		var matchedVal ssa.Value
		bad := false
		for _, c := range pa.Cmps() {
			call, ok := c.X.(*ssa.Call)
			if !ok || !isCallTo(&call.Call, "strings.EqualFold") {
				continue
			}
			b, _ := constBool(c.Y)
			truth := (c.Op == token.EQL && b) || (c.Op == token.NEQ && !b)
			if !truth {
				continue
			}
			// second arg: LevelFieldMarshalFunc(C)
			inner, ok := call.Call.Args[1].(*ssa.Call)
			if !ok || lfm == nil || loadedGlobal(inner.Call.Value) != lfm || len(inner.Call.Args) != 1 {
				bad = true
				continue
			}
			if v, ok := constInt(inner.Call.Args[0]); ok {
				matched = &v
			} else {
				matchedVal = inner.Call.Args[0]
			}
			if !isParam(call.Call.Args[0], pl, 0) {
				bad = true
			}
		}
		if matched == nil && matchedVal != nil {
			// table form: the level whose text matched is the level returned — `for i := range T {
			// if EqualFold(s, F(T[i])) { return T[i] } }`; the levels covered are the table's contents
			sameElem := func(a, b ssa.Value) bool {
				la, ok1 := a.(*ssa.UnOp)
				lb, ok2 := b.(*ssa.UnOp)
				if !ok1 || !ok2 || la.Op != token.MUL || lb.Op != token.MUL {
					return a == b
				}
				ia, ok1 := la.X.(*ssa.IndexAddr)
				ib, ok2 := lb.X.(*ssa.IndexAddr)
				return ok1 && ok2 && ia.X == ib.X && ia.Index == ib.Index
			}
			good := !bad && sameElem(res, matchedVal)
			r.Ob("LVLTAB", cons+"/table", p.Pos(ret.Pos()), good, true, tern(good, "the level whose text matched is the level returned (table lookup)", "a table lookup returns "+descr(res)+" for the text of "+descr(matchedVal)))
			if good {
				for _, v := range levelTableContents(p, pl, matchedVal) {
					covered[v] = true
				}
			}
			continue
		}
		if matched != nil {
			v, ok := constInt(res)
			good := ok && v == *matched && !bad
			covered[*matched] = covered[*matched] || good
			r.Ob("LVLTAB", cons, p.Pos(ret.Pos()), good, true, fmt.Sprintf("text of level %d parses to %s", *matched, descr(res)))
			continue
		}
		// numeric fallback: Level(i) with i from Atoi, guarded by -128 <= i <= 127
		conv, ok := res.(*ssa.Convert)
		if !ok {
			r.Ob("LVLTAB", cons, p.Pos(ret.Pos()), false, true, "success path returns "+descr(res)+" without a matching text comparison")
			continue
		}
		src := conv.X
		isI := func(v ssa.Value) bool { return v == src }
		okHi := hasCmp(pa.Cmps(), func(op token.Token, x, y ssa.Value) bool {
			n, ok := constInt(y)
			return ok && isI(x) && ((op == token.LEQ && n == 127) || (op == token.LSS && n == 128))
		})
		okLo := hasCmp(pa.Cmps(), func(op token.Token, x, y ssa.Value) bool {
			n, ok := constInt(y)
			return ok && isI(x) && ((op == token.GEQ && n == -128) || (op == token.GTR && n == -129))
		})
		fromAtoi := false
		if ex, ok := src.(*ssa.Extract); ok {
			if c, ok := ex.Tuple.(*ssa.Call); ok && isCallTo(&c.Call, "strconv.Atoi") {
				fromAtoi = true
			}
		}
		numericOK = okHi && okLo && fromAtoi
		r.Ob("LVLTAB", cons+"/numeric", p.Pos(ret.Pos()), numericOK, true, tern(numericOK, "numeric fallback: Level(i) for -128 <= i <= 127 from strconv.Atoi", "numeric fallback is not exactly the int8 range of strconv.Atoi's result"))
	}
	var names []string
	for n := range lc {
		names = append(names, n)
	}
	sort.Strings(names)
	for _, n := range names {
		ok := covered[lc[n]]
		r.Ob("LVLTAB", "ParseLevel/const:"+n, p.Pos(pl.Pos()), ok, true, tern(ok, "declared constant has an arm returning itself", "ParseLevel has no arm that maps the text of "+n+" back to "+n+" (MarshalText/UnmarshalText no longer round-trip)"))
	}
	// String(): numeric fallback present (levels outside the constants print as numbers, which ParseLevel's fallback reads)
	st := p.Method("", "Level", "String")
	if r.Anchor(st != nil, "LVLTAB", "Level.String") {
		has := false
		eachInstr(st, func(b *ssa.BasicBlock, i int, in ssa.Instruction) {
			if c, ok := in.(*ssa.Call); ok && isCallTo(&c.Call, "strconv.Itoa") {
				if cv, ok := c.Call.Args[0].(*ssa.Convert); ok && isParam(cv.X, st, 0) {
					has = true
				}
			}
		})
		r.Ob("LVLTAB", "Level.String/numeric", p.Pos(st.Pos()), has, true, tern(has, "levels without a name print as strconv.Itoa(int(l))", "Level.String has no numeric fallback for levels outside the declared constants"))
		// every named arm returns a distinct source (global or literal); an arm returning the text of another level breaks the round trip
		ruleLevelStringArms(r, p, st, lc)
	}
	// MarshalText goes through LevelFieldMarshalFunc(l); UnmarshalText through ParseLevel
	if mt := p.Method("", "Level", "MarshalText"); r.Anchor(mt != nil, "LVLTAB", "Level.MarshalText") {
		ok := false
		eachInstr(mt, func(b *ssa.BasicBlock, i int, in ssa.Instruction) {
			if c, isC := in.(*ssa.Call); isC && lfm != nil && loadedGlobal(c.Call.Value) == lfm && len(c.Call.Args) == 1 && isParam(c.Call.Args[0], mt, 0) {
				ok = true
			}
		})
		r.Ob("LVLTAB", "Level.MarshalText", p.Pos(mt.Pos()), ok, true, tern(ok, "MarshalText = LevelFieldMarshalFunc(l), the text ParseLevel compares with", "MarshalText does not use LevelFieldMarshalFunc(l), the text ParseLevel compares with"))
	}
	if ut := p.Method("", "Level", "UnmarshalText"); r.Anchor(ut != nil, "LVLTAB", "(*Level).UnmarshalText") {
		ok := false
		eachInstr(ut, func(b *ssa.BasicBlock, i int, in ssa.Instruction) {
			if c, isC := in.(*ssa.Call); isC && staticCallee(&c.Call) == plOrig {
				ok = true
			}
		})
		r.Ob("LVLTAB", "Level.UnmarshalText", p.Pos(ut.Pos()), ok, true, tern(ok, "UnmarshalText parses with ParseLevel", "UnmarshalText does not parse with ParseLevel"))
	}
}

func ruleLevelStringArms(r *Run, p *Prog, st *ssa.Function, lc map[string]int64) {
	paths, complete := enumPaths(st, 1, 4000)
	if !complete {
		return
	}
	srcOf := map[string][]int64{}
	for _, pa := range paths {
		ret, _ := pa.Exit.(*ssa.Return)
		if ret == nil {
			continue
		}
		var eq *int64
		for _, c := range pa.Cmps() {
			if c.Op == token.EQL && isParam(c.X, st, 0) {
				if v, ok := constInt(c.Y); ok {
					eq = &v
				}
			}
		}
		if eq == nil {
			continue
		}
		res := pa.Resolve(ret.Results[0])
		d := descr(res)
		srcOf[d] = append(srcOf[d], *eq)
	}
	var ks []string
	for k := range srcOf {
		ks = append(ks, k)
	}
	sort.Strings(ks)
	for _, k := range ks {
		uniq := map[int64]bool{}
		for _, v := range srcOf[k] {
			uniq[v] = true
		}
		ok := len(uniq) == 1 // the same arm may be reached along several paths (a range test before it)
		r.Ob("LVLTAB", "Level.String/arm:"+k, p.Pos(st.Pos()), ok, true, fmt.Sprintf("levels %v print as %s", srcOf[k], k))
	}
}

// levelTableContents: v is a load of T[i] with T a package-level array (or slice literal) filled by
// constant stores in the package initialiser and i the counter of a loop that visits all of T:
// returns the constants stored in T.
func levelTableContents(p *Prog, f *ssa.Function, v ssa.Value) []int64 {
	var g *ssa.Global
	var idx ssa.Value
	switch x := v.(type) {
	case *ssa.UnOp: // *&T[i]
		if ia, ok := x.X.(*ssa.IndexAddr); ok && x.Op == token.MUL {
			g, _ = ia.X.(*ssa.Global)
			idx = ia.Index
		}
	case *ssa.Index: // (*T)[i]: `for _, l := range T` over an array value
		if ld, ok := x.X.(*ssa.UnOp); ok && ld.Op == token.MUL {
			g, _ = ld.X.(*ssa.Global)
			idx = x.Index
		}
	}
	if g == nil {
		return nil
	}
	arr, ok := derefType(g.Type()).Underlying().(*types.Array)
	if !ok {
		return nil
	}
	// the loop visits every index: counter from 0 (or -1 in go/ssa's range form) step 1 up to len(T)
	var ph *ssa.Phi
	rangeForm := false
	if inc, ok := idx.(*ssa.BinOp); ok && inc.Op == token.ADD {
		if one, ok := constInt(inc.Y); ok && one == 1 {
			ph, _ = inc.X.(*ssa.Phi)
			rangeForm = true
		}
	} else {
		ph, _ = idx.(*ssa.Phi)
	}
	if ph == nil || !isLoopHeader(ph.Block()) {
		return nil
	}
	for k, e := range ph.Edges {
		if ph.Block().Dominates(ph.Block().Preds[k]) {
			continue
		}
		n, ok := constInt(e)
		if !ok || (rangeForm && n != -1) || (!rangeForm && n != 0) {
			return nil
		}
	}
	bound := false
	if ifi, ok := ph.Block().Instrs[len(ph.Block().Instrs)-1].(*ssa.If); ok {
		if bo, ok := ifi.Cond.(*ssa.BinOp); ok && bo.Op == token.LSS && bo.X == idx {
			if n, ok := constInt(bo.Y); ok && n == arr.Len() {
				bound = true
			}
			if lc, ok := bo.Y.(*ssa.Call); ok && builtinName(&lc.Call) == "len" {
				bound = true
			}
		}
	}
	if !bound {
		return nil
	}
	// contents: constant stores T[k] = c in the package initialiser, one per index
	vals := map[int64]int64{}
	fns := append([]*ssa.Function{}, p.ModFns...)
	if pi := g.Pkg.Func("init"); pi != nil {
		fns = append(fns, pi) // package-level initialisers live in the synthetic init
	}
	for _, fn := range fns {
		if fn.Pkg != g.Pkg || fn.Parent() != nil || !(fn.Name() == "init" || strings.HasPrefix(fn.Name(), "init#")) {
			// any store elsewhere makes the contents unknown
			bad := false
			eachInstr(fn, func(b *ssa.BasicBlock, i int, in ssa.Instruction) {
				if st, ok := in.(*ssa.Store); ok {
					if sia, ok := st.Addr.(*ssa.IndexAddr); ok && sia.X == ssa.Value(g) {
						bad = true
					}
					if st.Addr == ssa.Value(g) {
						bad = true
					}
				}
			})
			if bad {
				return nil
			}
			continue
		}
		// a composite literal is assembled in a local and copied over as a whole
		var lit *ssa.Alloc
		eachInstr(fn, func(b *ssa.BasicBlock, i int, in ssa.Instruction) {
			if st, ok := in.(*ssa.Store); ok && st.Addr == ssa.Value(g) {
				if ld, ok := st.Val.(*ssa.UnOp); ok && ld.Op == token.MUL {
					lit, _ = ld.X.(*ssa.Alloc)
				}
			}
		})
		eachInstr(fn, func(b *ssa.BasicBlock, i int, in ssa.Instruction) {
			st, ok := in.(*ssa.Store)
			if !ok {
				return
			}
			sia, ok := st.Addr.(*ssa.IndexAddr)
			if !ok || !(sia.X == ssa.Value(g) || lit != nil && sia.X == ssa.Value(lit)) {
				return
			}
			k, ok1 := constInt(sia.Index)
			c, ok2 := constInt(st.Val)
			if ok1 && ok2 {
				vals[k] = c
			}
		})
	}
	var out []int64
	for k := int64(0); k < arr.Len(); k++ {
		c, ok := vals[k]
		if !ok {
			// an element left at its zero value
			c = 0
		}
		out = append(out, c)
	}
	return out
}
