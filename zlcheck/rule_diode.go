package main

// Rules for the diode (C10, C11, C12): A19 may-block effect, A20 unsigned subtraction without
// order check, A21 claim-without-publish, A15b condition-variable discipline, plus ordering
// tables for Next/Close/Fatal.

import (
	"fmt"
	"go/token"
	"go/types"
	"sort"
	"strings"

	"golang.org/x/tools/go/ssa"
)

const diodesRel = "diode/internal/diodes"

// ---------- A19 ----------

var blockingExternals = map[string]string{
	"(*sync.Mutex).Lock":     "takes a mutex",
	"(*sync.RWMutex).Lock":   "takes a mutex",
	"(*sync.RWMutex).RLock":  "takes a mutex",
	"(*sync.Cond).Wait":      "waits on a condition variable",
	"(*sync.WaitGroup).Wait": "waits for a wait group",
	"time.Sleep":             "sleeps",
}

// blockingInstr: does the instruction possibly block the calling goroutine?
func blockingInstr(in ssa.Instruction) string {
	switch x := in.(type) {
	case *ssa.Send:
		return "channel send"
	case *ssa.UnOp:
		if x.Op == token.ARROW {
			return "channel receive"
		}
	case *ssa.Select:
		if x.Blocking {
			return "blocking select"
		}
	case *ssa.Call:
		if o := calleeObj(&x.Call); o != nil {
			if why, ok := blockingExternals[o.FullName()]; ok {
				return o.FullName() + " (" + why + ")"
			}
		}
	}
	return ""
}

// ruleA19: nothing reachable from root (module functions through the VTA call graph, excluding
// go statements) blocks or calls the wrapped writer.
// syncReach: the module functions reachable from root through synchronous calls (go statements
// excluded), with the call chain that reaches each.
func syncReach(p *Prog, root *ssa.Function) ([]*ssa.Function, map[*ssa.Function]string) {
	cg := p.CG()
	seen := map[*ssa.Function]string{}
	var order []*ssa.Function
	var visit func(f *ssa.Function, via string)
	visit = func(f *ssa.Function, via string) {
		if _, ok := seen[f]; ok || f == nil || !InModule(f) || f.Blocks == nil {
			return
		}
		seen[f] = via
		order = append(order, f)
		n := cg.Nodes[f]
		if n == nil {
			return
		}
		for _, e := range n.Out {
			if _, isGo := e.Site.(*ssa.Go); isGo {
				continue
			}
			visit(e.Callee.Func, via+" → "+FnName(e.Callee.Func))
		}
	}
	visit(root, FnName(root))
	return order, seen
}

// ruleNoReentrantLock (C12): the consumer runs the user's alerter (through TryNext) while it
// holds the waiter's mutex; an alerter that logs to the same diode re-enters the producer path on
// the consumer goroutine, so the producer path must not take that mutex (sync.Mutex is not
// re-entrant: the consumer would block on itself with work pending, and Close with it).
func ruleNoReentrantLock(r *Run, p *Prog, rule string) {
	named := p.NamedType(diodesRel, "Waiter")
	next := p.Method(diodesRel, "Waiter", "Next")
	w := p.Method("diode", "Writer", "Write")
	if !r.Anchor(named != nil && next != nil && w != nil, rule, "diodes.Waiter, (*Waiter).Next, diode.Writer.Write") {
		return
	}
	var mu *types.Var
	st := named.Underlying().(*types.Struct)
	for i := 0; i < st.NumFields(); i++ {
		if isMutexType(st.Field(i).Type()) {
			mu = st.Field(i)
		}
	}
	if mu == nil {
		r.Ob(rule, "producer-path/no-consumer-mutex", p.Pos(next.Pos()), true, true, "the waiter has no mutex")
		return
	}
	heldAt := ""
	eachInstr(next, func(b *ssa.BasicBlock, i int, in ssa.Instruction) {
		c, ok := in.(*ssa.Call)
		if !ok || !c.Call.IsInvoke() || c.Call.Method.Name() != "TryNext" {
			return
		}
		if lockedAround(next, c, mu) {
			heldAt = p.Pos(c.Pos())
		}
	})
	if heldAt == "" {
		r.Ob(rule, "producer-path/no-consumer-mutex", p.Pos(next.Pos()), true, true, "(*Waiter).Next does not hold the waiter's mutex while it calls TryNext (and through it the alerter)")
		return
	}
	order, via := syncReach(p, w)
	bad, badPos := "", ""
	for _, f := range order {
		eachInstr(f, func(b *ssa.BasicBlock, i int, in ssa.Instruction) {
			if n, _, ok := mutexCall(in, mu); ok && (n == "Lock" || n == "RLock") && bad == "" {
				bad, badPos = via[f], p.Pos(in.Pos())
			}
		})
	}
	if bad == "" {
		badPos = heldAt
	}
	r.Ob(rule, "producer-path/no-consumer-mutex", badPos, bad == "", true, tern(bad == "", fmt.Sprintf("the consumer calls TryNext (which runs the alerter) holding Waiter.%s at %s; none of the %d functions reachable from diode.Writer.Write takes that mutex, so an alerter that logs to the same diode cannot block the consumer on itself", mu.Name(), heldAt, len(order)), "the producer path "+bad+" takes Waiter."+mu.Name()+", which the consumer holds (at "+heldAt+") while TryNext runs the user's alerter: an alerter that writes to the same diode locks a mutex its own goroutine already holds — the consumer blocks forever with work pending, every later Write blocks in Set, and Close never returns"))
}

func ruleA19(r *Run, p *Prog, rule string, root *ssa.Function, forbidField string) {
	cg := p.CG()
	seen := map[*ssa.Function]string{}
	var order []*ssa.Function
	var visit func(f *ssa.Function, via string)
	visit = func(f *ssa.Function, via string) {
		if _, ok := seen[f]; ok || f == nil || !InModule(f) || f.Blocks == nil {
			return
		}
		seen[f] = via
		order = append(order, f)
		n := cg.Nodes[f]
		if n == nil {
			return
		}
		for _, e := range n.Out {
			if _, isGo := e.Site.(*ssa.Go); isGo {
				continue
			}
			visit(e.Callee.Func, via+" → "+FnName(e.Callee.Func))
		}
	}
	visit(root, FnName(root))
	for _, f := range order {
		bad := ""
		var pos token.Pos
		eachInstr(f, func(b *ssa.BasicBlock, i int, in ssa.Instruction) {
			if why := blockingInstr(in); why != "" && bad == "" {
				bad, pos = why, in.Pos()
			}
			if c, ok := in.(*ssa.Call); ok && c.Call.IsInvoke() && forbidField != "" {
				if fv, _ := loadedField(c.Call.Value); fv != nil && fname(fv) == forbidField && bad == "" {
					bad, pos = "calls the wrapped writer ("+forbidField+"."+c.Call.Method.Name()+")", c.Pos()
				}
			}
		})
		if pos == token.NoPos {
			pos = f.Pos()
		}
		r.Ob(rule, FnName(f)+"/non-blocking", p.Pos(pos), bad == "", true, tern(bad == "", "reachable from "+FnName(root)+": no lock, wait, sleep, channel operation or call of the wrapped writer", "the producer path "+seen[f]+" can block: "+bad))
	}
	if len(order) < 3 {
		r.Fail(rule, FnName(root)+"/reach", p.Pos(root.Pos()), fmt.Sprintf("only %d functions reachable from the producer entry", len(order)))
	}
}

// ---------- A20 ----------

func isUnsigned(t types.Type) bool {
	b, ok := t.Underlying().(*types.Basic)
	return ok && b.Info()&types.IsUnsigned != 0
}

func ruleA20(r *Run, p *Prog, rule string) {
	n := 0
	// judged with private helpers inlined into their callers (a `lapped(old, writeIndex)` predicate
	// is part of Set, where the operand is the fetch-add's result)
	for _, f := range p.RootViews([]string{diodesRel}, "", nil) {
		eachInstr(f, func(b *ssa.BasicBlock, i int, in ssa.Instruction) {
			bo, ok := in.(*ssa.BinOp)
			if !ok || bo.Op != token.SUB || !isUnsigned(bo.Type()) {
				return
			}
			if _, isC := bo.X.(*ssa.Const); isC {
				return
			}
			n++
			cs := necessaryCmps(f, bo)
			guarded := hasCmp(cs, func(op token.Token, x, y ssa.Value) bool {
				return sameValue(x, bo.X) && sameValue(y, bo.Y) && (op == token.GEQ || op == token.GTR)
			})
			if _, isC := bo.Y.(*ssa.Const); isC {
				// x - const: guarded by x >= const / x > const-1
				guarded = guarded || hasCmp(cs, func(op token.Token, x, y ssa.Value) bool {
					_, yc := constInt(y)
					return sameValue(x, bo.X) && yc && (op == token.GEQ || op == token.GTR || op == token.NEQ)
				})
			}
			r.Ob(rule, FnName(f)+"/"+shortDescr(bo.X)+"-"+shortDescr(bo.Y), p.Pos(bo.Pos()), guarded, true, tern(guarded, "unsigned subtraction dominated by an order check on the same operands", "unsigned subtraction "+descr(bo)+" without a dominating `>=`/`>` on its operands: when the left side is smaller the result wraps to a huge value and the comparison it feeds is vacuous"))
		})
	}
	if n < 2 {
		r.Fail(rule, "sites", "-", fmt.Sprintf("only %d unsigned subtractions found in the diode package", n))
	}
}

func shortDescr(v ssa.Value) string {
	s := descr(v)
	if fv, _ := loadedField(v); fv != nil {
		return fname(fv)
	}
	if cv, ok := v.(*ssa.Convert); ok {
		if c, ok := cv.X.(*ssa.Call); ok && builtinName(&c.Call) == "len" {
			return "len"
		}
	}
	if c, ok := v.(*ssa.Call); ok {
		if o := calleeObj(&c.Call); o != nil {
			return o.Name()
		}
	}
	if len(s) > 24 {
		s = s[:24]
	}
	return s
}

// ---------- A21 ----------

// ruleA21: in ManyToOne.Set every iteration that claimed a sequence number either publishes it
// (successful CAS, then return) or is an abandoning path.
func ruleA21(r *Run, p *Prog, rule string) {
	f := p.Method(diodesRel, "ManyToOne", "Set")
	if !r.Anchor(f != nil, rule, "diodes.(*ManyToOne).Set") {
		return
	}
	f = p.View(f, "", nil) // `lapped(…)` / `publish(…)` helpers are part of Set
	var claim, cas *ssa.Call
	eachInstr(f, func(b *ssa.BasicBlock, i int, in ssa.Instruction) {
		if c, ok := in.(*ssa.Call); ok {
			if isCallTo(&c.Call, "sync/atomic.AddUint64") {
				claim = c
			}
			if isCallTo(&c.Call, "sync/atomic.CompareAndSwapPointer") {
				cas = c
			}
		}
	})
	if claim == nil || cas == nil {
		r.Ob(rule, FnName(f)+"/protocol", p.Pos(f.Pos()), false, true, "claim (fetch-add) / publish (compare-and-swap) protocol not recognised")
		return
	}
	var hdr *ssa.BasicBlock
	for _, b := range f.Blocks {
		if isLoopHeader(b) && loopBlocks(b)[claim.Block()] {
			hdr = b
		}
	}
	if hdr == nil {
		r.Ob(rule, FnName(f)+"/loop", p.Pos(f.Pos()), false, true, "the claim is not inside a retry loop")
		return
	}
	ruleRetryStateless(r, p, rule, f, hdr)
	paths, complete := loopIterPaths(hdr, 2000)
	if !complete {
		r.Fail(rule, FnName(f)+"/paths", p.Pos(f.Pos()), "cannot enumerate iterations")
		return
	}
	other := 0
	for _, pa := range paths {
		claimed := false
		for _, b := range pa.blocks {
			for _, in := range b.Instrs {
				if in == ssa.Instruction(claim) {
					claimed = true
				}
			}
		}
		if !claimed {
			continue
		}
		// an iteration after which the loop's own test ends the loop (`for stored := false; !stored;`)
		// is the publishing one when it passed the successful compare-and-swap
		if leaves, known := iterLeavesLoop(hdr, pa); known && leaves {
			casOK := hasCmp(cmpsOfEdges(pa.edges), func(op token.Token, x, y ssa.Value) bool {
				b, ok := constBool(y)
				return ok && x == ssa.Value(cas) && ((op == token.EQL && b) || (op == token.NEQ && !b))
			})
			if casOK {
				continue
			}
			// the loop ends although nothing was stored: judged by the publish obligation below
			continue
		}
		// this iteration goes back to the header: the claimed position was not published
		cs := cmpsOfEdges(pa.edges)
		kind := ""
		if hasCmp(cs, func(op token.Token, x, y ssa.Value) bool {
			b, ok := constBool(y)
			return ok && x == ssa.Value(cas) && ((op == token.EQL && !b) || (op == token.NEQ && b))
		}) {
			kind = "cas-failed"
		} else if hasCmp(cs, func(op token.Token, x, y ssa.Value) bool {
			fv, _ := loadedField(x)
			return fv != nil && fname(fv) == "seq" && op == token.GTR
		}) {
			kind = "newer-bucket"
		} else {
			other++
			kind = fmt.Sprintf("other#%d", other)
		}
		r.Ob(rule, FnName(f)+"/abandon:"+kind, p.Pos(firstPos(pa.blocks)), false, true, "a claimed ring position is abandoned (the loop retries with a new position without ever storing into the claimed one): the consumer later stalls at the hole, and Close discards what follows it without an alert ["+kind+"]")
	}
	// every way out of Set has stored the value: after the last claim on the path, the
	// compare-and-swap succeeded
	all, completeAll := enumPaths(f, 2, 20000)
	if !completeAll {
		r.Fail(rule, FnName(f)+"/publish", p.Pos(f.Pos()), "cannot enumerate the paths of Set")
		return
	}
	dropped := ""
	nRet := 0
	for _, pa := range all {
		if _, isRet := pa.Exit.(*ssa.Return); !isRet || pa.InfeasibleByEval() {
			continue
		}
		nRet++
		lastClaim := -1
		for i, b := range pa.Blocks {
			if b == claim.Block() {
				lastClaim = i
			}
		}
		if lastClaim < 0 {
			continue // returns without having claimed a position (nothing to publish)
		}
		stored := false
		for i := lastClaim; i+1 < len(pa.Blocks); i++ {
			b := pa.Blocks[i]
			ifi, ok := b.Instrs[len(b.Instrs)-1].(*ssa.If)
			if !ok || b.Succs[0] == b.Succs[1] {
				continue
			}
			c, ok := cmpOf(CondEdge{ifi, pa.Blocks[i+1] == b.Succs[0]})
			if !ok {
				continue
			}
			if bv, isB := constBool(c.Y); isB && c.X == ssa.Value(cas) && ((c.Op == token.EQL && bv) || (c.Op == token.NEQ && !bv)) {
				stored = true
			}
		}
		if !stored && dropped == "" {
			dropped = p.Pos(firstPos(pa.Blocks[lastClaim:]))
		}
	}
	okp := dropped == "" && nRet > 0
	r.Ob(rule, FnName(f)+"/publish", p.Pos(cas.Pos()), okp, true, tern(okp, "every return of Set follows a successful compare-and-swap at the position it claimed last", "Set can return after claiming a ring position without a successful compare-and-swap into it (path through "+dropped+"): the value is silently dropped, never alerted, and the consumer later stalls at the hole"))
}

// ---------- A15b ----------

// ruleA15b: every Broadcast/Signal on the Waiter's condition variable is issued with the
// waiter's mutex held (the waiter tests and sleeps under that mutex; the tested state is
// modified outside it).
func ruleA15b(r *Run, p *Prog, rule string) {
	named := p.NamedType(diodesRel, "Waiter")
	if !r.Anchor(named != nil, rule, "diodes.Waiter") {
		return
	}
	st := named.Underlying().(*types.Struct)
	var mu *types.Var
	for i := 0; i < st.NumFields(); i++ {
		if isMutexType(st.Field(i).Type()) {
			mu = st.Field(i)
		}
	}
	if !r.Anchor(mu != nil, rule, "Waiter mutex") {
		return
	}
	n := 0
	// judged with private helpers inlined into their callers: a `wake()` helper that broadcasts is
	// part of Set (no mutex) and of the cancel goroutine (mutex held)
	for _, f := range p.RootViews([]string{diodesRel}, "", nil) {
		eachInstr(f, func(b *ssa.BasicBlock, i int, in ssa.Instruction) {
			c, ok := in.(*ssa.Call)
			if !ok || !(isCallTo(&c.Call, "(*sync.Cond).Broadcast") || isCallTo(&c.Call, "(*sync.Cond).Signal")) {
				return
			}
			n++
			// lock region: a Lock on the waiter's mutex dominates, no Unlock in between
			held := lockedAround(f, c, mu)
			r.Ob(rule, FnName(f)+"/"+calleeObj(&c.Call).Name(), p.Pos(c.Pos()), held, true, tern(held, "signal issued while holding the waiter's mutex", "the condition variable is signalled without holding the waiter's mutex while the state the waiter tests (the ring) is changed outside that mutex: the signal can fall between the waiter's empty TryNext and its Wait, and the consumer sleeps with a message in the ring"))
		})
	}
	if n < 2 {
		r.Fail(rule, "signals", "-", fmt.Sprintf("only %d Broadcast/Signal sites found", n))
	}
	// the waiter: Wait is called with the mutex held, inside a loop that re-tests TryNext
	next := p.Method(diodesRel, "Waiter", "Next")
	if r.Anchor(next != nil, rule, "(*Waiter).Next") {
		next = p.View(next, "keep-isDone", isDoneFn)
		eachInstr(next, func(b *ssa.BasicBlock, i int, in ssa.Instruction) {
			c, ok := in.(*ssa.Call)
			if !ok || !isCallTo(&c.Call, "(*sync.Cond).Wait") {
				return
			}
			held := lockedAround(next, c, mu)
			inLoop := false
			for _, hb := range next.Blocks {
				if isLoopHeader(hb) && loopBlocks(hb)[c.Block()] {
					inLoop = true
				}
			}
			r.Ob(rule, FnName(next)+"/Wait", p.Pos(c.Pos()), held && inLoop, true, tern(held && inLoop, "Wait under the mutex, inside the retry loop", "Cond.Wait is not called under the waiter's mutex inside the loop that re-tests TryNext"))
			// the condition is tested in the same critical section that Wait releases: the mutex is
			// held from the tests (TryNext, isDone) up to the Wait — no Unlock and no fresh Lock in
			// between (otherwise a wake-up sent under the mutex between the test and the Wait is lost)
			var tests []ssa.Instruction
			eachInstr(next, func(_ *ssa.BasicBlock, _ int, x ssa.Instruction) {
				cc, ok := x.(*ssa.Call)
				if !ok {
					return
				}
				if cc.Call.IsInvoke() && cc.Call.Method.Name() == "TryNext" {
					tests = append(tests, cc)
				}
				if sc := staticCallee(&cc.Call); sc != nil && isDoneFn(sc) {
					tests = append(tests, cc)
				}
			})
			okSec := len(tests) >= 2
			for _, t := range tests {
				if !lockedAround(next, t, mu) {
					okSec = false
				}
				// no lock operation on a path from the test to the Wait
				touched, _ := pathExists(next, t, func(x ssa.Instruction) bool {
					if _, d := x.(*ssa.Defer); d {
						return false
					}
					_, _, isMu := mutexCall(x, mu)
					return isMu
				}, func(x ssa.Instruction) bool { return x == ssa.Instruction(c) }, nil)
				if reach, _ := pathExists(next, t, func(x ssa.Instruction) bool { return x == ssa.Instruction(c) }, nil, nil); reach && touched {
					okSec = false
				}
			}
			r.Ob(rule, FnName(next)+"/test-and-wait-atomic", p.Pos(c.Pos()), okSec, true, tern(okSec, "TryNext and isDone are evaluated under the mutex that Wait releases, with no unlock in between", "the waiter tests its condition (TryNext / isDone) outside the critical section in which it waits: a Broadcast issued under the mutex between the test and the Wait reaches nobody and the consumer parks forever"))
		})
	}
	// producers: the wake-up follows the publication — in (*Waiter).Set no path reaches Broadcast
	// without having stored into the ring first
	if set := p.Method(diodesRel, "Waiter", "Set"); r.Anchor(set != nil, rule, "(*Waiter).Set") {
		sv := p.View(set, "", nil)
		isPublish := func(x ssa.Instruction) bool {
			c, ok := x.(*ssa.Call)
			return ok && c.Call.IsInvoke() && c.Call.Method.Name() == "Set"
		}
		isSignal := func(x ssa.Instruction) bool {
			c, ok := x.(*ssa.Call)
			return ok && (isCallTo(&c.Call, "(*sync.Cond).Broadcast") || isCallTo(&c.Call, "(*sync.Cond).Signal"))
		}
		early, _ := pathExists(sv, nil, isSignal, isPublish, nil)
		// and every path signals after the last publication
		silent := false
		eachInstr(sv, func(_ *ssa.BasicBlock, _ int, x ssa.Instruction) {
			if isPublish(x) {
				if miss, _ := pathExists(sv, x, isReturn, isSignal, nil); miss {
					silent = true
				}
			}
		})
		okc := !early && !silent
		r.Ob(rule, FnName(set)+"/signal-after-publish", p.Pos(set.Pos()), okc, true, tern(okc, "the consumer is woken after the message is in the ring, on every path", tern(early, "the wake-up is sent before the message is published: the consumer re-tests an empty ring, parks again, and the message sits there until something else is written", "a path publishes a message without waking the consumer")))
	}
}

// lockedAround: on every path from the entry to `at` a Lock of field mu (of any base) was taken
// and not released.
func lockedAround(f *ssa.Function, at ssa.Instruction, mu *types.Var) bool {
	isLock := func(in ssa.Instruction) bool {
		if _, d := in.(*ssa.Defer); d {
			return false
		}
		n, _, ok := mutexCall(in, mu)
		return ok && n == "Lock"
	}
	isUnlock := func(in ssa.Instruction) bool {
		if _, d := in.(*ssa.Defer); d {
			return false
		}
		n, _, ok := mutexCall(in, mu)
		return ok && n == "Unlock"
	}
	target := func(in ssa.Instruction) bool { return in == at }
	if free, _ := pathExists(f, nil, target, isLock, nil); free {
		return false
	}
	bad := false
	eachInstr(f, func(b *ssa.BasicBlock, i int, in ssa.Instruction) {
		if isUnlock(in) {
			if found, _ := pathExists(f, in, target, isLock, nil); found {
				bad = true
			}
		}
	})
	return !bad
}

// ---------- ordering tables ----------

// ruleDrainBeforeExit: in Next(), every `return nil` comes after a failed TryNext followed by a
// true isDone() — never isDone first.
func ruleDrainBeforeExit(r *Run, p *Prog, rule, tname string) {
	f := p.Method(diodesRel, tname, "Next")
	if !r.Anchor(f != nil, rule, "(*"+tname+").Next") {
		return
	}
	f = p.View(f, "keep-isDone", isDoneFn)
	paths, complete := enumPaths(f, 2, 5000)
	if !complete {
		r.Fail(rule, FnName(f)+"/paths", p.Pos(f.Pos()), "cannot enumerate paths")
		return
	}
	nNil := 0
	okAll := true
	detail := ""
	for _, pa := range paths {
		ret, isRet := pa.Exit.(*ssa.Return)
		if !isRet || len(ret.Results) != 1 {
			continue
		}
		if !isNilConst(pa.Resolve(ret.Results[0])) {
			continue
		}
		if pa.InfeasibleByEval() {
			continue // e.g. `for !ok && …` left because ok was true, then `if ok` false
		}
		nNil++
		// last TryNext and last isDone on the path
		lastTry, lastDone := -1, -1
		var tryCall, doneCall *ssa.Call
		for idx, in := range pa.Instrs() {
			c, ok := in.(*ssa.Call)
			if !ok {
				continue
			}
			if c.Call.IsInvoke() && c.Call.Method.Name() == "TryNext" {
				lastTry, tryCall = idx, c
			}
			if sc := staticCallee(&c.Call); sc != nil && isDoneFn(sc) {
				lastDone, doneCall = idx, c
			}
		}
		cs := pa.Cmps()
		failed := tryCall != nil && hasCmp(cs, func(op token.Token, x, y ssa.Value) bool {
			ex, ok := pa.Resolve(x).(*ssa.Extract)
			b, isB := constBool(y)
			return ok && isB && ex.Tuple == ssa.Value(tryCall) && ex.Index == 1 && ((op == token.EQL && !b) || (op == token.NEQ && b))
		})
		done := doneCall != nil && hasCmp(cs, func(op token.Token, x, y ssa.Value) bool {
			b, isB := constBool(y)
			return isB && x == ssa.Value(doneCall) && ((op == token.EQL && b) || (op == token.NEQ && !b))
		})
		// end of stream is reported only when the ring was found empty AFTER the cancellation had
		// been observed: … isDone() == true … TryNext() fails … return nil.  (The weaker order
		// "TryNext fails, then isDone() is true" loses a Set that completes between the two.)
		if !(lastDone >= 0 && lastTry > lastDone && failed && done) {
			okAll = false
			detail = fmt.Sprintf("%s (lastTry=%d lastDone=%d failed=%v done=%v)", pa.String(p), lastTry, lastDone, failed, done)
		}
	}
	r.Ob(rule, FnName(f)+"/drain-before-exit", p.Pos(f.Pos()), okAll && nNil > 0, true, tern(okAll && nNil > 0, fmt.Sprintf("%d end-of-stream path(s): each returns nil only after isDone() was true and a TryNext after that found the ring empty", nNil), "Next() can report end of stream without having found the ring empty after it saw the cancellation (no TryNext after isDone() == true): a message whose Write returned before Close was called can be left in the ring, neither delivered nor reported ["+detail+"]"))
}

// eventsOnPaths returns, for every entry→return path of f, the ordered list of event labels.
func eventOrder(f *ssa.Function, label func(ssa.Instruction) string) [][]string {
	paths, _ := enumPaths(f, 1, 5000)
	var out [][]string
	for _, pa := range paths {
		if _, isRet := pa.Exit.(*ssa.Return); !isRet {
			continue
		}
		var ev []string
		for _, in := range pa.Instrs() {
			if l := label(in); l != "" {
				ev = append(ev, l)
			}
		}
		out = append(out, ev)
	}
	return out
}

func ruleCloseOrder(r *Run, p *Prog, rule string) {
	f := p.Method("diode", "Writer", "Close")
	poll := p.Method("diode", "Writer", "poll")
	if !r.Anchor(f != nil && poll != nil, rule, "diode.Writer.Close / poll") {
		return
	}
	f = p.View(f, "", nil) // a private stop() = cancel + wait is part of Close
	label := func(in ssa.Instruction) string {
		switch x := in.(type) {
		case *ssa.Call:
			if fv, _ := loadedField(x.Call.Value); fv != nil && fname(fv) == "c" {
				return "cancel"
			}
			if x.Call.IsInvoke() && x.Call.Method.Name() == "Close" {
				return "close-wrapped"
			}
		case *ssa.UnOp:
			if x.Op == token.ARROW {
				if fv, _ := loadedField(x.X); fv != nil && fname(fv) == "done" {
					return "wait-done"
				}
				return "recv-other"
			}
		}
		return ""
	}
	okAll := true
	var seqs []string
	for _, ev := range eventOrder(f, label) {
		s := strings.Join(ev, "→")
		seqs = append(seqs, s)
		if s != "cancel→wait-done" && s != "cancel→wait-done→close-wrapped" {
			okAll = false
		}
	}
	sort.Strings(seqs)
	r.Ob(rule, FnName(f)+"/order", p.Pos(f.Pos()), okAll && len(seqs) > 0, true, tern(okAll, "Close: cancel, wait for the poll goroutine, then close the wrapped writer", "Close does not order cancel → wait for poll → close wrapped writer on every path: "+strings.Join(seqs, " | ")))
	// done is closed only by poll's deferred close, and poll returns only when Next() returned nil
	nClose := 0
	for _, g := range p.ModFns {
		if pkgRel(g) != "diode" {
			continue
		}
		eachInstr(g, func(b *ssa.BasicBlock, i int, in ssa.Instruction) {
			cc := callCommon(in)
			if cc == nil || builtinName(cc) != "close" {
				return
			}
			nClose++
			_, isDefer := in.(*ssa.Defer)
			ok := g == poll && isDefer
			r.Ob(rule, FnName(g)+"/close-done", p.Pos(in.Pos()), ok, true, tern(ok, "done is closed by poll's deferred close", "the done channel is closed outside poll's deferred close: Close can return before the ring is drained"))
		})
	}
	if nClose == 0 {
		r.Ob(rule, FnName(poll)+"/close-done", p.Pos(poll.Pos()), false, true, "poll never closes done: Close blocks forever")
	}
	// poll returns only on a nil from Next()
	poll = p.View(poll, "", nil)
	paths, _ := enumPaths(poll, 2, 5000)
	okRet := true
	for _, pa := range paths {
		if _, isRet := pa.Exit.(*ssa.Return); !isRet {
			continue
		}
		var next *ssa.Call
		for _, in := range pa.Instrs() {
			if c, ok := in.(*ssa.Call); ok && c.Call.IsInvoke() && c.Call.Method.Name() == "Next" {
				next = c
			}
		}
		if next == nil || !hasCmp(pa.Cmps(), func(op token.Token, x, y ssa.Value) bool {
			return pa.Resolve(x) == ssa.Value(next) && isNilConst(y) && op == token.EQL
		}) {
			okRet = false
		}
	}
	r.Ob(rule, FnName(poll)+"/returns-on-nil", p.Pos(poll.Pos()), okRet, true, tern(okRet, "poll ends only when Next() reports end of stream", "poll can end although Next() did not report end of stream"))
}

func ruleFatalCloses(r *Run, p *Prog, rule string) {
	fatal := p.Method("", "Logger", "Fatal")
	if !r.Anchor(fatal != nil, rule, "(*Logger).Fatal") {
		return
	}
	var cl *ssa.Function
	eachInstr(fatal, func(b *ssa.BasicBlock, i int, in ssa.Instruction) {
		if mc, ok := in.(*ssa.MakeClosure); ok {
			cl, _ = mc.Fn.(*ssa.Function)
		}
	})
	if cl == nil {
		r.Ob(rule, FnName(fatal)+"/closure", p.Pos(fatal.Pos()), false, true, "Fatal's completion closure not found")
		return
	}
	label := func(in ssa.Instruction) string {
		if c, ok := in.(*ssa.Call); ok {
			if c.Call.IsInvoke() && c.Call.Method.Name() == "Close" {
				return "close"
			}
			if isCallTo(&c.Call, "os.Exit") {
				return "exit"
			}
		}
		return ""
	}
	// every path ends in exit; on paths where the writer is an io.Closer, close precedes exit
	// a method value (l.exit) is a synthetic bound-method wrapper around the real method
	if cl.Synthetic != "" {
		eachInstr(cl, func(b *ssa.BasicBlock, i int, in ssa.Instruction) {
			if cc := callCommon(in); cc != nil {
				if sc := staticCallee(cc); sc != nil && InModule(sc) && sc.Synthetic == "" {
					cl = sc
				}
			}
		})
	}
	cl = p.View(cl, "", nil)
	paths, _ := enumPaths(cl, 1, 1000)
	okAll := len(paths) > 0
	sawClose := false
	for _, pa := range paths {
		var ev []string
		for _, in := range pa.Instrs() {
			if l := label(in); l != "" {
				ev = append(ev, l)
			}
		}
		s := strings.Join(ev, "→")
		isCloser := hasCmp(pa.Cmps(), func(op token.Token, x, y ssa.Value) bool {
			ex, ok := x.(*ssa.Extract)
			b, isB := constBool(y)
			if !ok || !isB || ex.Index != 1 {
				return false
			}
			ta, ok := ex.Tuple.(*ssa.TypeAssert)
			return ok && typeIs(ta.AssertedType, "io", "Closer") && ((op == token.EQL && b) || (op == token.NEQ && !b))
		})
		if isCloser {
			sawClose = true
			if s != "close→exit" {
				okAll = false
			}
		} else if s != "exit" {
			okAll = false
		}
	}
	r.Ob(rule, FnName(cl)+"/close-before-exit", p.Pos(cl.Pos()), okAll && sawClose, true, tern(okAll && sawClose, "Fatal closes a closable writer before os.Exit", "Fatal does not close the writer before exiting: events still buffered in a diode are lost"))
	// wrappers between a Logger and a diode forward Close
	// multiLevelWriter.Close visits every child: its loop ends by exhaustion, or by returning the
	// non-nil error of a Close call (documented) — never because a child is not a Closer
	if m := p.Method("", "multiLevelWriter", "Close"); m != nil {
		mv := p.View(m, "", nil)
		var closeCall *ssa.Call
		eachInstr(mv, func(b *ssa.BasicBlock, i int, in ssa.Instruction) {
			if c, ok := in.(*ssa.Call); ok && c.Call.IsInvoke() && c.Call.Method.Name() == "Close" {
				closeCall = c
			}
		})
		okAllChildren := false
		why := "no Close call on the children found"
		if closeCall != nil {
			var hdr *ssa.BasicBlock
			for _, b := range mv.Blocks {
				if isLoopHeader(b) && loopBlocks(b)[closeCall.Block()] {
					hdr = b
				}
			}
			if hdr == nil {
				why = "the children are not closed in a loop"
			} else {
				body := loopBlocks(hdr)
				okAllChildren = true
				why = ""
				// a counting loop visits every index: forwards from 0 (range: from -1 with the test on
				// i+1) while below len, or backwards from len-1 while >= 0; a recognisable counter
				// that starts one late or stops one early skips a child
				if miss := counterSkipsAnIndex(hdr); miss != "" {
					okAllChildren = false
					why = "the loop over the children " + miss
				}
				for b := range body {
					if b == hdr {
						continue
					}
					for si, sx := range b.Succs {
						if body[sx] {
							continue
						}
						// an exit from inside the loop: allowed only on the edge where the Close error is non-nil
						allowed := false
						if iff, ok := b.Instrs[len(b.Instrs)-1].(*ssa.If); ok {
							if cm, ok := cmpOf(CondEdge{iff, si == 0}); ok && cm.Op == token.NEQ && isNilConst(cm.Y) {
								if cm.X == ssa.Value(closeCall) {
									allowed = true
								}
							}
						}
						// (or any later block reached only through that edge)
						if !allowed {
							for _, cm := range necessaryCmps(mv, b.Instrs[len(b.Instrs)-1]) {
								if cm.Op == token.NEQ && isNilConst(cm.Y) && cm.X == ssa.Value(closeCall) {
									allowed = true
								}
							}
						}
						if !allowed {
							okAllChildren = false
							why = "the loop over the children can be left early although no Close call failed (" + p.Pos(b.Instrs[len(b.Instrs)-1].Pos()) + ")"
						}
					}
					if _, isRet := b.Instrs[len(b.Instrs)-1].(*ssa.Return); isRet {
						allowed := false
						for _, cm := range necessaryCmps(mv, b.Instrs[len(b.Instrs)-1]) {
							if cm.Op == token.NEQ && isNilConst(cm.Y) && cm.X == ssa.Value(closeCall) {
								allowed = true
							}
						}
						if !allowed {
							okAllChildren = false
							why = "Close returns from inside the loop although no Close call failed"
						}
					}
				}
			}
		}
		r.Ob(rule, FnName(m)+"/closes-every-child", p.Pos(m.Pos()), okAllChildren, true, tern(okAllChildren, "every child that is an io.Closer is closed unless an earlier Close failed", "multiLevelWriter.Close does not reach every child: "+why+": a diode behind a later child is not drained on Close/Fatal"))
	}
	for _, tn := range []string{"LevelWriterAdapter", "syncWriter", "multiLevelWriter", "FilteredLevelWriter"} {
		m := p.Method("", tn, "Close")
		if m == nil {
			r.Ob(rule, tn+".Close", "-", false, true, tn+" no longer declares Close: a diode behind it is not flushed on Fatal")
			continue
		}
		fwd := false
		eachInstr(p.View(m, "", nil), func(b *ssa.BasicBlock, i int, in ssa.Instruction) {
			if c, ok := in.(*ssa.Call); ok && c.Call.IsInvoke() && c.Call.Method.Name() == "Close" {
				if ex, ok := c.Call.Value.(*ssa.Extract); ok {
					if ta, ok := ex.Tuple.(*ssa.TypeAssert); ok && typeIs(ta.AssertedType, "io", "Closer") {
						fwd = true
					}
				}
			}
		})
		r.Ob(rule, FnName(m)+"/forwards-close", p.Pos(m.Pos()), fwd, true, tern(fwd, "forwards Close to a wrapped io.Closer", tn+".Close does not forward to the wrapped writer"))
	}
}

// ALERT — the drop report reaches the user's alerter (C11 "reported"): (a) whenever TryNext moves
// readIndex forward by more than one, it calls alerter.Alert with (new − old) on every path to the
// return; (b) NewManyToOne stores the caller's alerter (a default only when it is nil);
// (c) AlertFunc.Alert forwards its argument unconditionally; (d) diode.NewWriter hands the ring the
// user's Alerter itself, or a function that calls it with the same count on every path.
func ruleAlertWiring(r *Run, p *Prog, rule string) {
	try := p.Method(diodesRel, "ManyToOne", "TryNext")
	if r.Anchor(try != nil, rule, "(*ManyToOne).TryNext") {
		try = p.View(try, "", nil) // a private fastForward(seq) step is part of TryNext
		isAlert := func(in ssa.Instruction) (*ssa.Call, bool) {
			c, ok := in.(*ssa.Call)
			if !ok || !c.Call.IsInvoke() || c.Call.Method.Name() != "Alert" {
				return nil, false
			}
			fv, _ := loadedField(c.Call.Value)
			return c, fv != nil && fname(fv) == "alerter"
		}
		nSkip := 0
		eachInstr(try, func(b *ssa.BasicBlock, i int, in ssa.Instruction) {
			st, ok := in.(*ssa.Store)
			if !ok {
				return
			}
			fa, ok := st.Addr.(*ssa.FieldAddr)
			if !ok || fname(fieldVar(fa)) != "readIndex" {
				return
			}
			if bo, ok := st.Val.(*ssa.BinOp); ok && bo.Op == token.ADD {
				if c, ok := constInt(bo.Y); ok && c == 1 {
					if fv, _ := loadedField(bo.X); fv != nil && fname(fv) == "readIndex" {
						return // the ordinary increment
					}
				}
			}
			nSkip++
			// every path from the skip to a return reports it
			escapes, path := pathExists(try, st, isReturn, func(x ssa.Instruction) bool { _, ok := isAlert(x); return ok }, nil)
			// … or the alert came first, in the same guarded region (dominates the store)
			var dom *ssa.Call
			eachInstr(try, func(b2 *ssa.BasicBlock, j int, x ssa.Instruction) {
				if c, ok := isAlert(x); ok && (b2 == b && j < i || b2 != b && b2.Dominates(b)) && len(necessaryEdges(try, c)) == len(necessaryEdges(try, st)) {
					dom = c
				}
			})
			okc := !escapes || dom != nil
			r.Ob(rule, FnName(try)+"/skip-reported", p.Pos(st.Pos()), okc, true, tern(okc, "readIndex is fast-forwarded only together with alerter.Alert", "readIndex is moved forward (messages skipped) on a path that never calls alerter.Alert: dropped messages are not reported "+strings.Join(blockPath(p, path), "→")))
			// the count is new − old
			var al *ssa.Call
			eachInstr(try, func(b2 *ssa.BasicBlock, j int, x ssa.Instruction) {
				if c, ok := isAlert(x); ok && al == nil {
					al = c
				}
			})
			if al != nil && len(al.Call.Args) == 1 {
				v := al.Call.Args[0]
				for {
					if cv, ok := v.(*ssa.Convert); ok {
						v = cv.X
						continue
					}
					break
				}
				okn := false
				if bo, ok := v.(*ssa.BinOp); ok && bo.Op == token.SUB && sameValue(bo.X, st.Val) {
					if fv, _ := loadedField(bo.Y); fv != nil && fname(fv) == "readIndex" {
						// the old index must be read before it is overwritten
						ld := bo.Y.(ssa.Instruction)
						okn = ld.Block() == b && posOf(ld).i < i || ld.Block() != b && ld.Block().Dominates(b)
					}
				}
				r.Ob(rule, FnName(try)+"/count", p.Pos(al.Pos()), okn, true, tern(okn, "Alert receives (new readIndex − old readIndex)", "the count handed to Alert is "+descr(al.Call.Args[0])+", not the number of skipped messages (new − old readIndex, old read before the store)"))
			}
		})
		r.Ob(rule, FnName(try)+"/skip-sites", p.Pos(try.Pos()), nSkip >= 1, true, fmt.Sprintf("%d fast-forward store(s) of readIndex", nSkip))
	}
	// (b)
	if nm := p.Func(diodesRel, "NewManyToOne"); r.Anchor(nm != nil, rule, "NewManyToOne") {
		nm = p.View(nm, "", nil) // a private "build the value" helper is part of the constructor
		var par *ssa.Parameter
		for _, q := range nm.Params {
			if _, ok := q.Type().Underlying().(*types.Interface); ok {
				par = q
			}
		}
		found := false
		eachInstr(nm, func(b *ssa.BasicBlock, i int, in ssa.Instruction) {
			st, ok := in.(*ssa.Store)
			if !ok {
				return
			}
			fa, ok := st.Addr.(*ssa.FieldAddr)
			if !ok || fname(fieldVar(fa)) != "alerter" {
				return
			}
			found = true
			okc := par != nil && valueIsParamOrNilDefault(nm, st.Val, par)
			r.Ob(rule, FnName(nm)+"/stores-alerter", p.Pos(st.Pos()), okc, true, tern(okc, "the ring keeps the caller's alerter (a no-op only when it is nil)", "the ring's alerter is "+descr(st.Val)+", not the caller's: drops are reported to nobody"))
		})
		r.Ob(rule, FnName(nm)+"/alerter-field", p.Pos(nm.Pos()), found, true, "alerter field initialised")
	}
	// (c)
	if af := p.Method(diodesRel, "AlertFunc", "Alert"); r.Anchor(af != nil, rule, "AlertFunc.Alert") {
		okc := len(af.Params) == 2 && mustCallWith(af, af.Params[0], af.Params[1])
		r.Ob(rule, FnName(af)+"/forwards", p.Pos(af.Pos()), okc, true, tern(okc, "AlertFunc.Alert calls the function with the count on every path", "AlertFunc.Alert does not call the wrapped function with the missed count on every path"))
	}
	// (d)
	if nw := p.Func("diode", "NewWriter"); r.Anchor(nw != nil, rule, "diode.NewWriter") {
		nw = p.View(nw, "", nil)
		var par *ssa.Parameter
		for _, q := range nw.Params {
			if nt := namedOf(q.Type()); nt != nil && nt.Obj().Name() == "Alerter" {
				par = q
			}
		}
		found := false
		eachInstr(nw, func(b *ssa.BasicBlock, i int, in ssa.Instruction) {
			c, ok := in.(*ssa.Call)
			if !ok {
				return
			}
			sc := staticCallee(&c.Call)
			if sc == nil || sc.Name() != "NewManyToOne" || len(c.Call.Args) < 2 {
				return
			}
			found = true
			v := c.Call.Args[1]
			if mi, ok := v.(*ssa.MakeInterface); ok {
				v = mi.X
			}
			v = stripChange(v)
			okc := false
			why := descr(v)
			if par != nil {
				if mc, ok := v.(*ssa.MakeClosure); ok {
					// a wrapper: must call the user's alerter with its own argument on every path
					fn := mc.Fn.(*ssa.Function)
					for k, fvr := range fn.FreeVars {
						if k < len(mc.Bindings) && bindingIsParam(nw, mc.Bindings[k], par) && len(fn.Params) == 1 {
							if mustCallWith(fn, fvr, fn.Params[0]) {
								okc = true
							}
						}
					}
					why = "a wrapper closure that does not call the user's alerter on every path"
				} else {
					okc = valueIsParamOrNilDefault(nw, v, par)
				}
			}
			r.Ob(rule, FnName(nw)+"/user-alerter", p.Pos(c.Pos()), okc, true, tern(okc, "the ring reports drops to the user's Alerter", "the ring's alerter is "+why+": dropped messages are not (always) reported to the Alerter given to NewWriter"))
		})
		r.Ob(rule, FnName(nw)+"/ring", p.Pos(nw.Pos()), found, true, "NewManyToOne call found")
	}
}

// bindingIsParam: a closure binding that is the parameter itself or the address of the local the
// parameter was spilled to.
func bindingIsParam(f *ssa.Function, v ssa.Value, par *ssa.Parameter) bool {
	if v == ssa.Value(par) {
		return true
	}
	if al, ok := v.(*ssa.Alloc); ok {
		for _, ref := range referrersOf(al) {
			if st, ok := ref.(*ssa.Store); ok && st.Addr == ssa.Value(al) && st.Val == ssa.Value(par) {
				return true
			}
		}
	}
	return false
}

// valueIsParamOrNilDefault: v is par, possibly replaced by something else only where par == nil.
func valueIsParamOrNilDefault(f *ssa.Function, v ssa.Value, par *ssa.Parameter) bool {
	v = stripChange(v)
	if v == ssa.Value(par) {
		return true
	}
	// spilled parameter: load of the alloc that holds it
	if ld, ok := v.(*ssa.UnOp); ok && ld.Op == token.MUL {
		if al, ok := ld.X.(*ssa.Alloc); ok {
			okAll, sawPar := true, false
			for _, ref := range referrersOf(al) {
				st, ok := ref.(*ssa.Store)
				if !ok || st.Addr != ssa.Value(al) {
					continue
				}
				if st.Val == ssa.Value(par) {
					sawPar = true
					continue
				}
				if !underNilTest(f, st, par, al) {
					okAll = false
				}
			}
			return okAll && sawPar
		}
	}
	phi, ok := v.(*ssa.Phi)
	if !ok {
		return false
	}
	sawPar := false
	for k, e := range phi.Edges {
		e = stripChange(e)
		if e == ssa.Value(par) {
			sawPar = true
			continue
		}
		pred := phi.Block().Preds[k]
		if !underNilTest(f, pred.Instrs[len(pred.Instrs)-1], par, nil) {
			return false
		}
	}
	return sawPar
}

func underNilTest(f *ssa.Function, at ssa.Instruction, par *ssa.Parameter, spill *ssa.Alloc) bool {
	for _, c := range necessaryCmps(f, at) {
		if c.Op != token.EQL {
			continue
		}
		x, y := c.X, c.Y
		if isNilConst(x) {
			x, y = y, x
		}
		if !isNilConst(y) {
			continue
		}
		if x == ssa.Value(par) {
			return true
		}
		if ld, ok := x.(*ssa.UnOp); ok && ld.Op == token.MUL && spill != nil && ld.X == ssa.Value(spill) {
			return true
		}
	}
	return false
}

// mustCallWith: every entry→return path of fn calls the function value `callee` (a parameter,
// a free variable or a load of one) with `arg` as its only argument.
func mustCallWith(fn *ssa.Function, callee ssa.Value, arg ssa.Value) bool {
	isIt := func(in ssa.Instruction) bool {
		c, ok := in.(*ssa.Call)
		if !ok || c.Call.IsInvoke() || len(c.Call.Args) != 1 || c.Call.Args[0] != arg {
			return false
		}
		v := stripChange(c.Call.Value)
		if v == callee {
			return true
		}
		if ld, ok := v.(*ssa.UnOp); ok && ld.Op == token.MUL && ld.X == callee {
			return true
		}
		return false
	}
	escapes, _ := pathExists(fn, nil, isReturn, isIt, nil)
	return !escapes
}

// TAKE — the consumer takes a message out of its slot with ONE atomic exchange and decides
// everything (empty / stale / lapped / regular) on the very bucket that exchange returned: a
// separate peek followed by a later swap lets producers replace the bucket in between, so the
// sequence number that was tested is not the one of the data that is delivered (C10 order, no
// duplicates).
func ruleTakeAtomically(r *Run, p *Prog, rule string) {
	for _, tn := range []string{"ManyToOne", "OneToOne"} {
		f := p.Method(diodesRel, tn, "TryNext")
		if f == nil {
			if tn == "ManyToOne" {
				r.Anchor(false, rule, "(*ManyToOne).TryNext")
			}
			continue
		}
		fv := p.View(f, "", nil)
		var slotOps []*ssa.Call
		eachInstr(fv, func(b *ssa.BasicBlock, i int, in ssa.Instruction) {
			c, ok := in.(*ssa.Call)
			if !ok || !isAtomicCall(&c.Call) || len(c.Call.Args) == 0 {
				return
			}
			if ia, ok := c.Call.Args[0].(*ssa.IndexAddr); ok {
				if fvr, _ := loadedField(ia.X); fvr != nil && fname(fvr) == "buffer" {
					slotOps = append(slotOps, c)
				}
			}
		})
		one := len(slotOps) == 1 && calleeObj(&slotOps[0].Call) != nil && calleeObj(&slotOps[0].Call).Name() == "SwapPointer" && len(slotOps[0].Call.Args) == 2 && isNilConst(slotOps[0].Call.Args[1])
		r.Ob(rule, FnName(f)+"/single-exchange", p.Pos(f.Pos()), one, true, tern(one, "the slot is read and emptied by a single atomic SwapPointer(slot, nil)", fmt.Sprintf("TryNext touches the ring slot with %d atomic operations (a peek and a later exchange, or no exchange at all): the bucket that is tested is not necessarily the one that is delivered", len(slotOps))))
		if !one {
			continue
		}
		// every access to a bucket's seq/data goes through the exchanged pointer
		okAll := true
		var bad token.Pos
		eachInstr(fv, func(b *ssa.BasicBlock, i int, in ssa.Instruction) {
			fa, ok := in.(*ssa.FieldAddr)
			if !ok {
				return
			}
			n := fname(fieldVar(fa))
			if n != "seq" && n != "data" {
				return
			}
			base := fa.X
			for k := 0; k < 3; k++ {
				if cv, ok := base.(*ssa.Convert); ok {
					base = cv.X
					continue
				}
				break
			}
			if base != ssa.Value(slotOps[0]) {
				okAll = false
				bad = fa.Pos()
			}
		})
		pos := f.Pos()
		if !okAll {
			pos = bad
		}
		r.Ob(rule, FnName(f)+"/decides-on-exchanged-bucket", p.Pos(pos), okAll, true, tern(okAll, "sequence tests, the readIndex update and the returned data all use the exchanged bucket", "TryNext reads seq/data of a bucket other than the one it took out of the slot"))
	}
}

// ruleReaderAdvances — on every path of TryNext that delivers a message (returns ok == true) the
// last write to readIndex is `readIndex + 1`, after any fast-forward `readIndex = seq`: the read
// head ends one past the delivered bucket.  (A delivering path that leaves the head on the slot it
// just emptied never reads the newer messages behind it.)
func ruleReaderAdvances(r *Run, p *Prog, rule string) {
	for _, tn := range []string{"ManyToOne", "OneToOne"} {
		f := p.Method(diodesRel, tn, "TryNext")
		if f == nil {
			continue
		}
		fv := p.View(f, "", nil)
		paths, complete := enumPaths(fv, 1, 2000)
		if !complete {
			r.Ob(rule, FnName(f)+"/advances", p.Pos(f.Pos()), false, true, "cannot enumerate the paths of TryNext")
			continue
		}
		okAll, n := true, 0
		ffBad := ""
		// a path that delivers nothing leaves the read head where it is: stepping over an empty or
		// stale slot walks past a position a producer fills later (never delivered, never counted)
		nIdle, idleBad := 0, ""
		for _, pa := range paths {
			ret, isRet := pa.Exit.(*ssa.Return)
			if !isRet || len(ret.Results) != 2 {
				continue
			}
			if b, isB := constBool(pa.Resolve(ret.Results[1])); isB && !b {
				nIdle++
				for _, in := range pa.Instrs() {
					if st, ok := in.(*ssa.Store); ok {
						if fa, ok := st.Addr.(*ssa.FieldAddr); ok && fname(fieldVar(fa)) == "readIndex" && idleBad == "" {
							idleBad = p.Pos(st.Pos())
						}
					}
				}
			}
		}
		if nIdle > 0 {
			r.Ob(rule, FnName(f)+"/idle-keeps-read-head", tern(idleBad != "", idleBad, p.Pos(f.Pos())), idleBad == "", true, tern(idleBad == "", fmt.Sprintf("%d non-delivering path(s): none writes readIndex", nIdle), "a path of TryNext that delivers nothing (empty or stale slot) moves readIndex: the reader steps over a position that is written later, and that message is neither delivered nor counted as dropped"))
		}
		for _, pa := range paths {
			ret, isRet := pa.Exit.(*ssa.Return)
			if !isRet || len(ret.Results) != 2 {
				continue
			}
			if b, isB := constBool(pa.Resolve(ret.Results[1])); !isB || !b {
				continue
			}
			n++
			var last ssa.Value
			for _, in := range pa.Instrs() {
				if st, ok := in.(*ssa.Store); ok {
					if fa, ok := st.Addr.(*ssa.FieldAddr); ok && fname(fieldVar(fa)) == "readIndex" {
						last = st.Val
					}
				}
			}
			inc := false
			if bo, ok := last.(*ssa.BinOp); ok && bo.Op == token.ADD {
				if one, ok := constInt(bo.Y); ok && one == 1 {
					if fvr, _ := loadedField(bo.X); fvr != nil && fname(fvr) == "readIndex" {
						inc = true
						// the value incremented is the read index as it is now: no other store to
						// it (the fast-forward) lies between that load and the final store — a copy
						// taken at the top of the function is stale after a fast-forward
						ld, _ := bo.X.(ssa.Instruction)
						seenLoad := false
						for _, in := range pa.Instrs() {
							if in == ld {
								seenLoad = true
								continue
							}
							if st, ok := in.(*ssa.Store); ok && seenLoad && st.Val != last {
								if fa, ok := st.Addr.(*ssa.FieldAddr); ok && fname(fieldVar(fa)) == "readIndex" {
									inc = false
								}
							}
						}
					}
				}
			}
			if !inc {
				okAll = false
			}
			// every earlier store on the path (the fast-forward) puts the read head on the
			// delivered bucket itself: it stores that bucket's seq, not a value computed from it
			// (a helper returning seq+1 in front of the final increment overshoots by one, and the
			// next message is taken for stale: neither delivered nor reported)
			for _, in := range pa.Instrs() {
				if st, ok := in.(*ssa.Store); ok && st.Val != last {
					if fa, ok := st.Addr.(*ssa.FieldAddr); ok && fname(fieldVar(fa)) == "readIndex" {
						if sv, _ := loadedField(st.Val); sv == nil || fname(sv) != "seq" {
							ffBad = p.Pos(st.Pos())
						}
					}
				}
			}
		}
		if n > 0 {
			r.Ob(rule, FnName(f)+"/fast-forward-lands-on-delivered", tern(ffBad != "", ffBad, p.Pos(f.Pos())), ffBad == "", true, tern(ffBad == "", "every store to readIndex before the final increment stores the delivered bucket's seq", "a delivering path moves readIndex to a value other than the delivered bucket's seq before the final increment: the read head ends beyond the position after the delivered message, and the message written there is taken for stale (neither delivered nor reported as dropped)"))
		}
		r.Ob(rule, FnName(f)+"/advances", p.Pos(f.Pos()), okAll && n > 0, true, tern(okAll && n > 0, fmt.Sprintf("%d delivering path(s): each ends with readIndex = readIndex + 1", n), "a path of TryNext delivers a message without finally advancing readIndex by one: the read head stays on the emptied slot and newer messages are never read (lost without an alert)"))
	}
}

// ruleRetryStateless: every attempt of Set starts from scratch: nothing read from a ring slot in one
// attempt is still used after the retry (a bucket remembered from an attempt that lost its race is
// not the one a later attempt has taken out of the ring: whoever is handed it — a pool, a callback —
// gets a message that is still queued or already delivered).
func ruleRetryStateless(r *Run, p *Prog, rule string, f *ssa.Function, hdr *ssa.BasicBlock) {
	body := loopBlocks(hdr)
	fromSlot := map[ssa.Value]bool{}
	for changed := true; changed; {
		changed = false
		for b := range body {
			for _, in := range b.Instrs {
				v, ok := in.(ssa.Value)
				if !ok || fromSlot[v] {
					continue
				}
				mark := false
				if c, isC := in.(*ssa.Call); isC && (isCallTo(&c.Call, "sync/atomic.LoadPointer") || isCallTo(&c.Call, "sync/atomic.SwapPointer")) {
					mark = true
				}
				switch in.(type) {
				case *ssa.ChangeType, *ssa.Convert, *ssa.Phi, *ssa.FieldAddr, *ssa.UnOp, *ssa.MakeInterface:
					for _, op := range in.Operands(nil) {
						if op != nil && *op != nil && fromSlot[*op] {
							mark = true
						}
					}
				}
				if mark {
					fromSlot[v] = true
					changed = true
				}
			}
		}
	}
	stale := ""
	for _, in := range hdr.Instrs {
		ph, ok := in.(*ssa.Phi)
		if !ok {
			break
		}
		for k, e := range ph.Edges {
			if body[hdr.Preds[k]] && fromSlot[e] && e != ssa.Value(ph) {
				stale = ph.Comment
			}
		}
	}
	r.Ob(rule, FnName(f)+"/retry-stateless", p.Pos(hdr.Instrs[0].Pos()), stale == "", true, tern(stale == "", "no value read from a ring slot is carried from one attempt of Set into the next", "the variable "+stale+" carries a bucket read from a ring slot across a retry of Set: after an attempt that lost its race it still designates a bucket this producer never took out of the ring (handing it to a pool or a callback releases a message that is still queued, being delivered, or already released)"))
}

// ruleSetRetryStateless locates the claim loop of ManyToOne.Set and applies ruleRetryStateless.
func ruleSetRetryStateless(r *Run, p *Prog, rule string) {
	f := p.Method(diodesRel, "ManyToOne", "Set")
	if !r.Anchor(f != nil, rule, "diodes.(*ManyToOne).Set") {
		return
	}
	f = p.View(f, "", nil)
	var claim *ssa.Call
	eachInstr(f, func(b *ssa.BasicBlock, i int, in ssa.Instruction) {
		if c, ok := in.(*ssa.Call); ok && isCallTo(&c.Call, "sync/atomic.AddUint64") {
			claim = c
		}
	})
	if claim == nil {
		return
	}
	for _, b := range f.Blocks {
		if isLoopHeader(b) && loopBlocks(b)[claim.Block()] {
			r.Ob(rule, FnName(f)+"/claims-inside-retry", p.Pos(claim.Pos()), true, true, "every retry claims a fresh ring position")
			ruleRetryStateless(r, p, rule, f, b)
			return
		}
	}
	// the fetch-add is outside every loop: a producer that finds a newer bucket in its slot retries
	// the same, lapped position for ever (Write never returns while the consumer is blocked)
	hasLoop := false
	for _, b := range f.Blocks {
		if isLoopHeader(b) {
			hasLoop = true
		}
	}
	if hasLoop {
		r.Ob(rule, FnName(f)+"/claims-inside-retry", p.Pos(claim.Pos()), false, true, "the ring position is claimed once, outside Set's retry loop: after losing its slot to a newer bucket the producer retries the same position and spins until the consumer frees it (with the wrapped writer blocked, Write never returns)")
	}
}

// counterSkipsAnIndex: hdr is the header of a loop `if <counter test> …` over the indices of a
// slice. Returns a description when the counter provably leaves out the first or the last index,
// "" when it covers all of them or the shape is not a plain counter (no verdict).
func counterSkipsAnIndex(hdr *ssa.BasicBlock) string {
	ifi, ok := hdr.Instrs[len(hdr.Instrs)-1].(*ssa.If)
	if !ok {
		return ""
	}
	bo, ok := ifi.Cond.(*ssa.BinOp)
	if !ok {
		return ""
	}
	body := loopBlocks(hdr)
	isLen := func(v ssa.Value) bool {
		c, ok := v.(*ssa.Call)
		return ok && builtinName(&c.Call) == "len"
	}
	lenMinus := func(v ssa.Value) (int64, bool) { // len(x) - k
		if isLen(v) {
			return 0, true
		}
		if b, ok := v.(*ssa.BinOp); ok && b.Op == token.SUB && isLen(b.X) {
			if k, ok := constInt(b.Y); ok {
				return k, true
			}
		}
		return 0, false
	}
	// the counter phi and its step
	ph, _ := bo.X.(*ssa.Phi)
	rangeForm := false
	if inc, ok := bo.X.(*ssa.BinOp); ok && inc.Op == token.ADD {
		if one, ok := constInt(inc.Y); ok && one == 1 {
			ph, _ = inc.X.(*ssa.Phi)
			rangeForm = true
		}
	}
	if ph == nil || ph.Block() != hdr {
		return ""
	}
	var start ssa.Value
	step := int64(0)
	for k, e := range ph.Edges {
		if body[hdr.Preds[k]] {
			if b, ok := e.(*ssa.BinOp); ok && (b.Op == token.ADD || b.Op == token.SUB) && (b.X == ssa.Value(ph)) {
				if n, ok := constInt(b.Y); ok {
					step = n
					if b.Op == token.SUB {
						step = -n
					}
				}
			}
		} else {
			start = e
		}
	}
	if start == nil || (step != 1 && step != -1) || !body[hdr.Succs[0]] {
		return ""
	}
	if step == 1 {
		s0, ok := constInt(start)
		if !ok {
			return ""
		}
		first := s0
		if rangeForm {
			first = s0 + 1
		}
		if first > 0 {
			return fmt.Sprintf("starts at index %d: the first child is never reached", first)
		}
		if k, ok := lenMinus(bo.Y); ok {
			if (bo.Op == token.LSS && k > 0) || (bo.Op == token.LEQ && k > 1) {
				return "stops before the last index: the last child is never reached"
			}
		}
		return ""
	}
	// counting down
	if k, ok := lenMinus(start); ok && k > 1 {
		return "starts below the last index: the last child is never reached"
	}
	if n, ok := constInt(bo.Y); ok {
		if (bo.Op == token.GTR && n >= 0) || (bo.Op == token.GEQ && n >= 1) {
			return "counts down only while the index is above 0: the first child is never reached"
		}
	}
	return ""
}

// isDoneFn: the non-blocking "has the context been cancelled" predicate — by role name, or by what
// it is: a function of the diodes package returning one bool whose body polls ctx.Done().
func isDoneFn(g *ssa.Function) bool {
	if g == nil {
		return false
	}
	if canonFn(g) == "isDone" {
		return true
	}
	if g.Blocks == nil || pkgRel(g) != diodesRel || g.Signature.Results().Len() != 1 {
		return false
	}
	if b, ok := g.Signature.Results().At(0).Type().Underlying().(*types.Basic); !ok || b.Kind() != types.Bool {
		return false
	}
	polls := false
	eachInstr(g, func(b *ssa.BasicBlock, i int, in ssa.Instruction) {
		if c, ok := in.(*ssa.Call); ok && c.Call.IsInvoke() && c.Call.Method.Name() == "Done" {
			polls = true
		}
	})
	return polls
}
