package main

// A25 — stack-frame accounting for runtime.Caller (C19).
// For every call chain f0 → … → fn inside the module, where fn calls runtime.Caller and f0 is
// an exported function a user statement can call, the skip operand is evaluated symbolically
// along the chain as a linear expression; its constant part plus the documented base
// (the initial value of CallerSkipFrameCount) must equal the number of module frames.

import (
	"fmt"
	"go/constant"
	"go/token"
	"go/types"
	"sort"
	"strings"

	"golang.org/x/tools/go/ssa"
)

type lin struct {
	c    int64
	syms map[string]int64
	bad  string
}

func (l lin) String() string {
	var ks []string
	for k := range l.syms {
		ks = append(ks, k)
	}
	sort.Strings(ks)
	s := fmt.Sprint(l.c)
	for _, k := range ks {
		if l.syms[k] == 1 {
			s += " + " + k
		} else {
			s += fmt.Sprintf(" + %d*%s", l.syms[k], k)
		}
	}
	if l.bad != "" {
		s += " + <" + l.bad + ">"
	}
	return s
}

func linAdd(a, b lin) lin {
	r := lin{a.c + b.c, map[string]int64{}, a.bad + b.bad}
	for k, v := range a.syms {
		r.syms[k] += v
	}
	for k, v := range b.syms {
		r.syms[k] += v
	}
	return r
}

func linScale(a lin, n int64) lin {
	r := lin{a.c * n, map[string]int64{}, a.bad}
	for k, v := range a.syms {
		r.syms[k] = v * n
	}
	return r
}

func linSym(s string) lin  { return lin{0, map[string]int64{s: 1}, ""} }
func linBad(s string) lin  { return lin{0, nil, s} }
func linConst(n int64) lin { return lin{n, nil, ""} }

type a25frame struct {
	f    *ssa.Function
	site ssa.CallInstruction // call in f to the next frame (nil for the last)
}

type a25 struct {
	r          *Run
	p          *Prog
	target     *ssa.Function
	rcCall     *ssa.Call
	skipFr     *types.Var // Event.skipFrame
	baseG      *ssa.Global
	base       int64
	nPaths     int
	usesGlobal map[string]bool
}

func globalInitInt(g *ssa.Global) (int64, bool) {
	init := g.Pkg.Func("init")
	if init == nil {
		return 0, false
	}
	var val int64
	found := 0
	eachInstr(init, func(b *ssa.BasicBlock, i int, in ssa.Instruction) {
		if st, ok := in.(*ssa.Store); ok && st.Addr == ssa.Value(g) {
			if c, ok := st.Val.(*ssa.Const); ok && c.Value != nil && c.Value.Kind() == constant.Int {
				val, _ = constant.Int64Val(c.Value)
				found++
			} else {
				found += 100
			}
		}
	})
	return val, found == 1
}

// evalIn evaluates v (a value of chain[idx].f) as a linear expression; parameters are
// substituted from the call site of the previous frame. Phis fork.
func (a *a25) evalIn(chain []a25frame, idx int, v ssa.Value, depth int) []lin {
	if depth > 12 {
		return []lin{linBad("depth")}
	}
	switch x := v.(type) {
	case *ssa.Const:
		if n, ok := constInt(x); ok {
			return []lin{linConst(n)}
		}
	case *ssa.BinOp:
		if x.Op == token.ADD || x.Op == token.SUB {
			var out []lin
			for _, l := range a.evalIn(chain, idx, x.X, depth+1) {
				for _, rr := range a.evalIn(chain, idx, x.Y, depth+1) {
					if x.Op == token.SUB {
						rr = linScale(rr, -1)
					}
					out = append(out, linAdd(l, rr))
				}
			}
			return out
		}
		if x.Op == token.MUL {
			if n, ok := constInt(x.Y); ok {
				var out []lin
				for _, l := range a.evalIn(chain, idx, x.X, depth+1) {
					out = append(out, linScale(l, n))
				}
				return out
			}
		}
	case *ssa.Convert:
		return a.evalIn(chain, idx, x.X, depth+1)
	case *ssa.ChangeType:
		return a.evalIn(chain, idx, x.X, depth+1)
	case *ssa.Phi:
		var out []lin
		for _, e := range x.Edges {
			out = append(out, a.evalIn(chain, idx, e, depth+1)...)
		}
		return out
	case *ssa.Parameter:
		f := chain[idx].f
		pi := -1
		for i, p := range f.Params {
			if p == x {
				pi = i
			}
		}
		if idx > 0 && pi >= 0 {
			site := chain[idx-1].site
			args := site.Common().Args
			if site.Common().IsInvoke() {
				// invoke: receiver is Value, Args are the remaining parameters
				if pi == 0 {
					return []lin{linSym("recv")}
				}
				if pi-1 < len(args) {
					return a.evalIn(chain, idx-1, args[pi-1], depth+1)
				}
			} else if pi < len(args) {
				return a.evalIn(chain, idx-1, args[pi], depth+1)
			}
		}
		return []lin{linSym("user:" + f.Name() + "." + x.Name())}
	case *ssa.UnOp:
		if x.Op == token.MUL {
			if g, ok := x.X.(*ssa.Global); ok {
				return []lin{linSym("G:" + g.Name())}
			}
			if fa, ok := x.X.(*ssa.FieldAddr); ok {
				if fv := fieldVar(fa); fv != nil {
					if fv == a.skipFr {
						return []lin{linSym("event.skipFrame")}
					}
					return []lin{linSym("field:" + fname(fv))}
				}
			}
			if ia, ok := x.X.(*ssa.IndexAddr); ok {
				if p, ok := ia.X.(*ssa.Parameter); ok {
					if k, ok := constInt(ia.Index); ok {
						return []lin{linSym(fmt.Sprintf("user:%s.%s[%d]", chain[idx].f.Name(), p.Name(), k))}
					}
				}
			}
		}
	case *ssa.Field:
		if fv := fieldVar(x); fv != nil {
			return []lin{linSym("field:" + fname(fv))}
		}
	case *ssa.Call:
		// a small private helper that computes the operand (`h.skipFrameCount()`): its returns are
		// evaluated with its parameters bound to the arguments of this call
		if g := staticCallee(&x.Call); g != nil && InModule(g) && g.Blocks != nil && len(g.Blocks) <= 8 && g.Object() != nil && !g.Object().Exported() && g.Signature.Results().Len() == 1 {
			hasLoop := false
			for _, b := range g.Blocks {
				if isLoopHeader(b) {
					hasLoop = true
				}
			}
			if !hasLoop {
				sub := append([]a25frame{}, chain[:idx+1]...)
				sub[idx].site = x
				sub = append(sub, a25frame{f: g})
				var out []lin
				eachInstr(g, func(_ *ssa.BasicBlock, _ int, in ssa.Instruction) {
					if ret, ok := in.(*ssa.Return); ok && len(ret.Results) == 1 {
						out = append(out, a.evalIn(sub, idx+1, ret.Results[0], depth+1)...)
					}
				})
				if len(out) > 0 {
					return out
				}
			}
		}
	}
	return []lin{linBad("unsupported " + descr(v))}
}

// skipFrameAdded: how much the receiver of the call at `site` had added to Event.skipFrame inside
// this frame (chained CallerSkipFrame(c) calls), and whether the event was created in this frame.
func (a *a25) skipFrameAdded(chain []a25frame, idx int) (lin, bool) {
	site := chain[idx].site
	if site == nil {
		return linConst(0), false
	}
	com := site.Common()
	var recv ssa.Value
	if com.IsInvoke() {
		return linConst(0), false
	}
	if len(com.Args) == 0 {
		return linConst(0), false
	}
	recv = com.Args[0]
	if !typeIs(recv.Type(), modPath, "Event") {
		// the event may be another argument (hook.Run(e, …) is an invoke; handled above)
		return linConst(0), false
	}
	total := linConst(0)
	for depth := 0; depth < 12; depth++ {
		c, ok := recv.(*ssa.Call)
		if !ok {
			return total, false // parameter or phi: whatever the caller accumulated is accounted in its own frame
		}
		sc := staticCallee(&c.Call)
		if sc == nil {
			return total, false
		}
		if a.addsToSkipFrame(sc) {
			ls := a.evalIn(chain, idx, c.Call.Args[1], 0)
			if len(ls) != 1 {
				return linBad("forked CallerSkipFrame argument"), false
			}
			total = linAdd(total, ls[0])
			recv = c.Call.Args[0]
			continue
		}
		if len(c.Call.Args) > 0 && typeIs(c.Call.Args[0].Type(), modPath, "Event") && typeIs(c.Type(), modPath, "Event") {
			if sc.Signature.Recv() == nil {
				// a private helper that takes the event and hands it back prepared
				// (`printEvent(l.Debug())`): what it adds on the event it returns counts here
				k, ok := a.retSkip(sc, 0)
				if !ok {
					return linBad("the helper " + FnName(sc) + " returns events with differing skipFrame adjustments"), false
				}
				total = linAdd(total, linConst(k))
			}
			recv = c.Call.Args[0] // chained field method returning its receiver
			continue
		}
		// event created here (Logger.Debug(), newEvent…), possibly through a private helper that
		// already adjusted skipFrame on the event it returns (e.g. "debug event for the Print family")
		if k, ok := a.retSkip(sc, 0); ok {
			total = linAdd(total, linConst(k))
		} else {
			return linBad("the helper " + FnName(sc) + " returns events with differing skipFrame adjustments"), true
		}
		return total, true
	}
	return total, false
}

// retSkip: the constant a module function has added to Event.skipFrame of the event it returns
// (0 for plain creators); all non-nil returns must agree.
func (a *a25) retSkip(f *ssa.Function, depth int) (int64, bool) {
	if f == nil || f.Blocks == nil || depth > 4 || !InModule(f) {
		return 0, true
	}
	if f.Signature.Results().Len() != 1 || !typeIs(f.Signature.Results().At(0).Type(), modPath, "Event") {
		return 0, true
	}
	var vals []int64
	okAll := true
	var walk func(v ssa.Value, acc int64, d int)
	walk = func(v ssa.Value, acc int64, d int) {
		if d > 12 {
			okAll = false
			return
		}
		if isNilConst(v) {
			return
		}
		switch x := v.(type) {
		case *ssa.Phi:
			for _, e := range x.Edges {
				walk(e, acc, d+1)
			}
			return
		case *ssa.Call:
			sc := staticCallee(&x.Call)
			if sc == nil {
				vals = append(vals, acc)
				return
			}
			if a.addsToSkipFrame(sc) {
				k, ok := constInt(x.Call.Args[1])
				if !ok {
					okAll = false
					return
				}
				walk(x.Call.Args[0], acc+k, d+1)
				return
			}
			if len(x.Call.Args) > 0 && typeIs(x.Call.Args[0].Type(), modPath, "Event") && typeIs(x.Type(), modPath, "Event") {
				if sc.Signature.Recv() == nil && sc != f {
					k, ok := a.retSkip(sc, depth+1)
					if !ok {
						okAll = false
						return
					}
					acc += k
				}
				walk(x.Call.Args[0], acc, d+1)
				return
			}
			k, ok := a.retSkip(sc, depth+1)
			if !ok {
				okAll = false
				return
			}
			vals = append(vals, acc+k)
			return
		}
		vals = append(vals, acc)
	}
	eachInstr(f, func(b *ssa.BasicBlock, i int, in ssa.Instruction) {
		if ret, ok := in.(*ssa.Return); ok && len(ret.Results) == 1 {
			walk(ret.Results[0], 0, 0)
		}
	})
	if !okAll {
		return 0, false
	}
	for _, v := range vals {
		if v != vals[0] {
			return 0, false
		}
	}
	if len(vals) == 0 {
		return 0, true
	}
	return vals[0], true
}

// addsToSkipFrame: the method's only effect on skipFrame is `e.skipFrame += param1`.
func (a *a25) addsToSkipFrame(f *ssa.Function) bool {
	found := false
	eachInstr(f, func(b *ssa.BasicBlock, i int, in ssa.Instruction) {
		st, ok := in.(*ssa.Store)
		if !ok {
			return
		}
		fa, ok := st.Addr.(*ssa.FieldAddr)
		if !ok || fieldVar(fa) != a.skipFr {
			return
		}
		if bo, ok := st.Val.(*ssa.BinOp); ok && bo.Op == token.ADD && len(f.Params) == 2 && bo.Y == ssa.Value(f.Params[1]) {
			if fv, _ := loadedField(bo.X); fv == a.skipFr {
				found = true
			}
		}
	})
	return found
}

func isUserEntry(f *ssa.Function) bool {
	if f.Object() == nil || !f.Object().Exported() || f.Pkg == nil {
		return false
	}
	if f.Pkg.Pkg.Name() == "main" {
		return false
	}
	if recv := f.Signature.Recv(); recv != nil {
		n := namedOf(recv.Type())
		if n == nil || !n.Obj().Exported() {
			return false
		}
	}
	return true
}

func ruleA25(r *Run, p *Prog) {
	a := &a25{r: r, p: p}
	type a25target struct {
		f *ssa.Function
		c *ssa.Call
	}
	var targets []a25target
	cmf := p.Global("", "CallerMarshalFunc")
	// target: the module function that calls runtime.Caller with a non-constant operand on an Event
	for _, f := range p.ModFns {
		if pkgRel(f) != "" {
			continue
		}
		eachInstr(f, func(b *ssa.BasicBlock, i int, in ssa.Instruction) {
			if c, ok := in.(*ssa.Call); ok && isCallTo(&c.Call, "runtime.Caller") {
				if f.Signature.Recv() != nil && typeIs(f.Signature.Recv().Type(), modPath, "Event") {
					a.target, a.rcCall = f, c
				}
				// every stack lookup of the package is judged (a hook that looks the frame up itself too)
				// (a lookup whose result is rendered with CallerMarshalFunc, i.e. a caller field; TestWriter's
				// own frame lookup for testing.TB is not one)
				if _, isConst := c.Call.Args[0].(*ssa.Const); !isConst && cmf != nil && refersToGlobal(f, cmf) {
					targets = append(targets, a25target{f, c})
				}
			}
		})
	}
	if !r.Anchor(a.target != nil, "A25", "the *Event method that calls runtime.Caller") {
		return
	}
	ev := p.NamedType("", "Event")
	st := ev.Underlying().(*types.Struct)
	for i := 0; i < st.NumFields(); i++ {
		if fname(st.Field(i)) == "skipFrame" {
			a.skipFr = st.Field(i)
		}
	}
	a.baseG = p.Global("", "CallerSkipFrameCount")
	if !r.Anchor(a.skipFr != nil, "A25", "Event.skipFrame") || !r.Anchor(a.baseG != nil, "A25", "CallerSkipFrameCount") {
		return
	}
	base, ok := globalInitInt(a.baseG)
	if !r.Anchor(ok, "A25", "constant initial value of CallerSkipFrameCount") {
		return
	}
	a.base = base
	// who writes Event.skipFrame: only the pool reset (0) and the += method
	for _, f := range p.ModFns {
		eachInstr(f, func(b *ssa.BasicBlock, i int, in ssa.Instruction) {
			stx, ok := in.(*ssa.Store)
			if !ok {
				return
			}
			fa, ok := stx.Addr.(*ssa.FieldAddr)
			if !ok || fieldVar(fa) != a.skipFr {
				return
			}
			okS := false
			why := "stores " + descr(stx.Val)
			if n, isC := constInt(stx.Val); isC && n == 0 {
				okS, why = true, "reset to 0 when the event is taken from the pool"
			} else if a.addsToSkipFrame(f) {
				okS, why = true, "skipFrame += k"
			}
			r.Ob("A25", FnName(f)+"/store-skipFrame", p.Pos(stx.Pos()), okS, true, "Event.skipFrame: "+why)
		})
	}
	// hooks run once per registered hook on the same event: a hook that changes Event.skipFrame
	// (directly or through CallerSkipFrame) shifts the frame arithmetic of every later hook
	hookT := p.NamedType("", "Hook")
	if hookT != nil {
		writes := map[*ssa.Function]bool{}
		for _, f := range p.ModFns {
			eachInstr(f, func(b *ssa.BasicBlock, i int, in ssa.Instruction) {
				if stx, ok := in.(*ssa.Store); ok {
					if fa, ok := stx.Addr.(*ssa.FieldAddr); ok && fieldVar(fa) == a.skipFr {
						if n, isC := constInt(stx.Val); !isC || n != 0 {
							writes[f] = true
						}
					}
				}
			})
		}
		iface, _ := hookT.Underlying().(*types.Interface)
		for _, f := range p.ModFns {
			if pkgRel(f) != "" || f.Name() != "Run" || f.Signature.Recv() == nil || iface == nil || !types.Implements(f.Signature.Recv().Type(), iface) {
				continue
			}
			// static callees closure
			seen := map[*ssa.Function]bool{f: true}
			st := []*ssa.Function{f}
			bad := ""
			for len(st) > 0 {
				g := st[len(st)-1]
				st = st[:len(st)-1]
				if writes[g] {
					bad = FnName(g)
				}
				eachInstr(g, func(b *ssa.BasicBlock, i int, in ssa.Instruction) {
					if cc := callCommon(in); cc != nil {
						if sc := staticCallee(cc); sc != nil && InModule(sc) && !seen[sc] && sc.Blocks != nil {
							seen[sc] = true
							st = append(st, sc)
						}
					}
				})
			}
			r.Ob("A25", FnName(f)+"/hook-leaves-skipFrame", p.Pos(f.Pos()), bad == "", true, tern(bad == "", "the hook does not modify Event.skipFrame", "the hook changes Event.skipFrame (through "+bad+"): the event is shared by all hooks of the logger, so every later caller hook (and Event.Caller in a later hook) is off by that amount"))
		}
	}
	// The skip adjustment belongs to the event's whole remaining life (every later caller field
	// adds it): inside the module it may therefore only be applied to an event the applying
	// function has just created (the Print family, package log), never to an event handed in by
	// the user — a field method such as Event.Caller(k) that left k behind would shift the caller
	// hook and every later Caller() on that event.
	{
		writes := map[*ssa.Function]bool{}
		for _, f := range p.ModFns {
			eachInstr(f, func(b *ssa.BasicBlock, i int, in ssa.Instruction) {
				if stx, ok := in.(*ssa.Store); ok {
					if fa, ok := stx.Addr.(*ssa.FieldAddr); ok && fieldVar(fa) == a.skipFr {
						if n, isC := constInt(stx.Val); !isC || n != 0 {
							writes[f] = true
						}
					}
				}
			})
		}
		// appliesToParam[f] = index of the parameter whose event f adjusts (directly or through a helper)
		type site struct {
			f   *ssa.Function
			pos token.Pos
			via string
		}
		var bad []site
		nSites := 0
		var judge func(g *ssa.Function, pidx int, depth int, via string)
		judge = func(g *ssa.Function, pidx int, depth int, via string) {
			// g adjusts the event in its parameter pidx: every in-module caller must pass a fresh event
			for _, f := range p.ModFns {
				eachInstr(f, func(b *ssa.BasicBlock, i int, in ssa.Instruction) {
					cc := callCommon(in)
					if cc == nil || staticCallee(cc) != g || len(cc.Args) <= pidx {
						return
					}
					nSites++
					arg := cc.Args[pidx]
					if par, isPar := arg.(*ssa.Parameter); isPar {
						k := -1
						for j, q := range f.Params {
							if q == par {
								k = j
							}
						}
						exported := f.Object() != nil && f.Object().Exported()
						if exported || depth >= 3 || f.Parent() != nil {
							bad = append(bad, site{f, in.Pos(), via})
							return
						}
						judge(f, k, depth+1, via+" ← "+FnName(f))
					}
				})
			}
		}
		for g := range writes {
			if g.Signature.Recv() != nil {
				judge(g, 0, 0, FnName(g))
			}
		}
		sort.Slice(bad, func(i, j int) bool { return FnName(bad[i].f) < FnName(bad[j].f) })
		for _, b := range bad {
			r.Ob("A25", FnName(b.f)+"/skip-only-on-fresh-events", p.Pos(b.pos), false, true, FnName(b.f)+" changes Event.skipFrame of an event it was handed (through "+b.via+"): the adjustment outlives the call, so the caller hook and every later Caller() on that event are reported that many frames too high")
		}
		r.Ob("A25", "skipFrame/skip-only-on-fresh-events", "-", len(bad) == 0 && nSites > 0, true, fmt.Sprintf("%d in-module call sites adjust Event.skipFrame; each applies it to an event created in the same function (or hands it to such a caller)", nSites))
	}
	// enumerate chains backwards through the VTA call graph
	cg := p.CG()
	var chains [][]a25frame
	var walk func(f *ssa.Function, tail []a25frame, depth int)
	walk = func(f *ssa.Function, tail []a25frame, depth int) {
		if isUserEntry(f) {
			chains = append(chains, append([]a25frame{}, tail...))
		}
		if depth > 10 {
			return
		}
		n := cg.Nodes[f]
		if n == nil {
			return
		}
		seen := map[ssa.CallInstruction]bool{}
		for _, e := range n.In {
			cf := e.Caller.Func
			if !InModule(cf) || cf.Synthetic != "" || e.Site == nil || seen[e.Site] {
				continue
			}
			if cf.Pkg != nil && cf.Pkg.Pkg.Name() == "main" {
				continue
			}
			if _, isCall := e.Site.(*ssa.Call); !isCall {
				continue // go/defer start a new stack / run at function exit: not a nested frame of the user's statement
			}
			onStack := false
			for _, fr := range tail {
				if fr.f == cf {
					onStack = true
				}
			}
			if onStack {
				continue
			}
			seen[e.Site] = true
			nt := append([]a25frame{{cf, e.Site}}, tail...)
			walk(cf, nt, depth+1)
		}
	}
	sort.Slice(targets, func(i, j int) bool { return FnName(targets[i].f) < FnName(targets[j].f) })
	dup := map[string]int{}
	a.usesGlobal = map[string]bool{}
	var order []string
	nChains := 0
	for _, tg := range targets {
		chains = nil
		a.rcCall = tg.c
		walk(tg.f, []a25frame{{tg.f, nil}}, 0)
		sort.Slice(chains, func(i, j int) bool { return chainString(chains[i]) < chainString(chains[j]) })
		for _, ch := range chains {
			k := chainString(ch)
			if dup[k] == 0 {
				order = append(order, k)
			}
			dup[k]++
			a.checkChain(ch, dup[k])
		}
		nChains += len(chains)
	}
	// the documented global knob must be read at event time on every entry chain (Caller() without
	// an explicit count follows CallerSkipFrameCount)
	for _, k := range order {
		ok := a.usesGlobal[k]
		r.Ob("A25", k+"/reads-global", "-", ok, true, tern(ok, "some arm of this chain reads CallerSkipFrameCount when the event is finalised", "no arm of this chain reads the global CallerSkipFrameCount at event time: changing the documented knob no longer moves the site reported through this entry point"))
	}
	r.Count("a25_chains", nChains)
	r.Count("a25_paths", a.nPaths)
}

func chainString(ch []a25frame) string {
	var parts []string
	for _, fr := range ch {
		parts = append(parts, FnName(fr.f))
	}
	return strings.Join(parts, " → ")
}

func (a *a25) checkChain(ch []a25frame, arm int) {
	r, p := a.r, a.p
	n := len(ch) // number of module frames above the user's statement, including the one calling runtime.Caller
	last := len(ch) - 1
	ops := a.evalIn(ch, last, a.rcCall.Call.Args[0], 0)
	// skipFrame contributions made inside the chain's frames
	added := linConst(0)
	for i := 0; i < last; i++ {
		l, _ := a.skipFrameAdded(ch, i)
		added = linAdd(added, l)
	}
	cs := chainString(ch)
	for vi, op := range ops {
		a.nPaths++
		total := linAdd(op, added)
		cons := fmt.Sprintf("%s#arm%d.%d", cs, arm, vi)
		pos := p.Pos(ch[0].f.Pos())
		if total.bad != "" {
			r.Ob("A25", cons, pos, false, true, "cannot evaluate the skip operand along this chain: "+total.String()+" (undecided, fail closed)")
			continue
		}
		// base symbol: the global CallerSkipFrameCount or the per-hook replacement field
		baseSyms := 0
		okCoef := true
		var userSyms []string
		for k, v := range total.syms {
			switch {
			case k == "G:"+a.baseG.Name() || strings.HasPrefix(k, "field:"):
				baseSyms += int(v)
			case k == "event.skipFrame":
				if v != 1 {
					okCoef = false
				}
				userSyms = append(userSyms, k)
			case strings.HasPrefix(k, "user:"):
				if v != 1 {
					okCoef = false
				}
				userSyms = append(userSyms, k)
			default:
				okCoef = false
			}
		}
		if total.syms["G:"+a.baseG.Name()] == 1 {
			a.usesGlobal[cs] = true
		}
		want := int64(n)
		got := total.c + int64(baseSyms)*a.base
		if op.syms["event.skipFrame"] != 1 {
			okCoef = false // CallerSkipFrame(k) must move the reported site by exactly k
		}
		ok := okCoef && baseSyms == 1 && got == want
		sort.Strings(userSyms)
		msg := fmt.Sprintf("runtime.Caller operand along the chain = %s; with the documented base %s=%d it names frame %d, the user's statement is frame %d (%d module frames)", total.String(), a.baseG.Name(), a.base, got, want, n)
		if !ok {
			msg = "caller field would not name the user's call site: " + msg
			if !okCoef || baseSyms != 1 {
				msg += "; coefficients of the base/user skip parameters are not 1"
			}
		}
		r.Ob("A25", cons, pos, ok, true, msg)
	}
}

func refersToGlobal(f *ssa.Function, g *ssa.Global) bool {
	found := false
	eachInstr(f, func(b *ssa.BasicBlock, i int, in ssa.Instruction) {
		for _, op := range in.Operands(nil) {
			if op != nil && *op == ssa.Value(g) {
				found = true
			}
		}
	})
	return found
}
