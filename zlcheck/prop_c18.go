package main

import (
	"fmt"
	"go/token"
	"go/types"
	"sort"
	"strings"

	"golang.org/x/tools/go/ssa"
)

func init() { register("C18", checkC18) }

const mutilRel = "hlog/internal/mutil"

func checkC18(r *Run) {
	r.Explain = "Decides request isolation as ownership (no schedule needed) and the response-proxy accounting as path tables: ISOL hlog.NewHandler stores in the request context a logger obtained by With().Logger() from the configured logger in the same request activation and never writes the configured logger; every UpdateContext call in hlog is made on the pointer returned by zerolog.Ctx(<context derived from this request>); package hlog has no package-level variables and no request-level closure writes a variable captured from a construction-time scope (nothing mutable is shared between requests); PROXY in mutil the status code and the wroteHeader flag are stored only by WriteHeader, together, only when no header was written yet, and before the call is forwarded; Write forces WriteHeader(200) before the underlying Write and adds exactly the underlying Write's count on every path (also on error); ReadFrom (no tee) forces the header first and adds the underlying ReadFrom's count; Status/BytesWritten return those fields; A24 every unchecked capability assertion in fancyWriter/flushWriter methods is covered by the guard under which WrapWriter constructs that type; AccessHandler's callback reads Status/BytesWritten of the very proxy it passed down. A11 (shared with C05): Logger.With, through which NewHandler derives each request's logger, stores a freshly allocated context on every path (never a view of the configured logger's bytes). A13 (shared with C06): the event pool discipline — a double put makes two requests share one event. A13d: the console's pooled buffer goes back empty on every path (the next request's line does not start with the previous request's rejected one). ISOL field-added-whenever-present: a field handler's UpdateContext is control-dependent only on 'has a key/value' conditions, never on a negative lookup outcome. HOOKS (shared with C03/C19): Logger.Hook stores a fresh slice, so per-request loggers that add hooks share no array. A18 (C09's rule, binary build): the CBOR string header length equals the payload length at every size."
	r.NotDec = "Concurrent request schedules as such (covered only through no-sharing). With a tee installed ReadFrom counts twice; Tee is outside the property's call alphabet (observation)."
	r.Assume = []string{"net/http gives every request its own *http.Request and context"}
	p := r.Use("J")
	if p == nil {
		return
	}
	ruleHlogIsolation(r, p)
	// two requests that receive the same pooled Event share one buffer: the pool discipline of C06
	ruleA13(r, p, map[string]bool{"": true}, "ab")
	ruleProxy(r, p)
	ruleA24(r, p)
	// the per-request logger is only private if With() really copies: a view of the configured
	// logger's context (even only for some sizes) makes concurrent requests append into one array
	with := p.Method("", "Logger", "With")
	if r.Anchor(with != nil, "A11", "(Logger).With") {
		ruleA11Only(r, p, func(f *ssa.Function) bool {
			return f.Name() == with.Name() && f.Signature.Recv() != nil && typeIs(f.Signature.Recv().Type(), modPath, "Logger")
		})
	}
	ruleFieldHandlersUnconditional(r, p, "ISOL")
	if lh := p.Method("", "Logger", "Hook"); lh != nil {
		ruleHookAppend(r, p, lh) // per-request loggers that add a hook must not share the hook array
	}
	// the next request's event must not start with the previous request's rejected line
	ruleBufferPoolClean(r, p, []string{""})
	if pb := r.Use("B"); pb != nil {
		ruleA18(r, pb) // under binary_log the request fields (URL, user agent, …) go through the CBOR string appender: header length = payload length at every size (C09's rule)
	}
	r.Floor("A11", 2)
	r.Floor("ISOL", 17)
	r.Floor("PROXY", 12)
	r.Floor("A24", 5)
}

func isHTTPRequestPtr(t types.Type) bool { return isPointer(t) && typeIs(t, "net/http", "Request") }

// requestLevel: the function is an http handler body (has a *http.Request parameter) or is nested in one.
func requestLevel(f *ssa.Function) bool {
	for g := f; g != nil; g = g.Parent() {
		for _, p := range g.Params {
			if isHTTPRequestPtr(p.Type()) {
				return true
			}
		}
	}
	return false
}

// derivedFromRequest: a context / request value that stems from this request.
func derivedFromRequest(v ssa.Value, depth int) bool {
	if depth > 10 || v == nil {
		return false
	}
	switch x := v.(type) {
	case *ssa.Parameter:
		return isHTTPRequestPtr(x.Type())
	case *ssa.FreeVar:
		// captured request (or a local of the handler holding it)
		t := derefType(x.Type())
		return isHTTPRequestPtr(x.Type()) || isHTTPRequestPtr(t) || typeIs(t, "context", "Context") && true
	case *ssa.UnOp:
		if x.Op == token.MUL {
			if al, ok := x.X.(*ssa.Alloc); ok {
				for _, ref := range referrersOf(al) {
					if st, ok := ref.(*ssa.Store); ok && st.Addr == ssa.Value(al) {
						if !derivedFromRequest(st.Val, depth+1) {
							return false
						}
					}
				}
				return true
			}
			return derivedFromRequest(x.X, depth+1)
		}
	case *ssa.Extract:
		if x.Index == 0 {
			return derivedFromRequest(x.Tuple, depth+1)
		}
	case *ssa.Phi:
		for _, e := range x.Edges {
			if !derivedFromRequest(e, depth+1) {
				return false
			}
		}
		return true
	case *ssa.Call:
		if isCallTo(&x.Call, "(*net/http.Request).Context") || isCallTo(&x.Call, "(*net/http.Request).WithContext") {
			return derivedFromRequest(x.Call.Args[0], depth+1)
		}
		// a child context of a context of this request
		for _, n := range []string{"context.WithValue", "context.WithCancel", "context.WithTimeout", "context.WithDeadline", "context.WithoutCancel"} {
			if isCallTo(&x.Call, n) {
				return derivedFromRequest(x.Call.Args[0], depth+1)
			}
		}
		if sc := staticCallee(&x.Call); sc != nil && InModule(sc) && len(x.Call.Args) > 0 && typeIs(x.Type(), "context", "Context") {
			// helper returning a context derived from its context argument (CtxWithID, Logger.WithContext)
			for _, a := range x.Call.Args {
				if typeIs(a.Type(), "context", "Context") {
					return derivedFromRequest(a, depth+1)
				}
			}
		}
	}
	return false
}

func ruleHlogIsolation(r *Run, p *Prog) {
	pk := p.Pkg("hlog")
	if !r.Anchor(pk != nil, "ISOL", "package hlog") {
		return
	}
	// no package-level variables
	var globals []string
	for name, m := range pk.Members {
		if g, ok := m.(*ssa.Global); ok && !strings.HasPrefix(name, "init$") {
			globals = append(globals, g.Name())
		}
	}
	sort.Strings(globals)
	r.Ob("ISOL", "hlog/package-variables", "-", len(globals) == 0, true, tern(len(globals) == 0, "package hlog has no package-level variables", "package hlog has package-level variables "+strings.Join(globals, ", ")+": state shared between requests"))
	upd := p.Method("", "Logger", "UpdateContext")
	ctxFn := p.Func("", "Ctx")
	if !r.Anchor(upd != nil && ctxFn != nil, "ISOL", "zerolog.Ctx / (*Logger).UpdateContext") {
		return
	}
	nUpd := 0
	for _, f := range p.RootViews([]string{"hlog"}, "", nil) {
		eachInstr(f, func(b *ssa.BasicBlock, i int, in ssa.Instruction) {
			switch x := in.(type) {
			case *ssa.Call:
				if staticCallee(&x.Call) == upd {
					nUpd++
					recv := x.Call.Args[0]
					c, ok := recv.(*ssa.Call)
					okc := ok && staticCallee(&c.Call) == ctxFn && derivedFromRequest(c.Call.Args[0], 0) && requestLevel(f)
					r.Ob("ISOL", FnName(f)+"/UpdateContext", p.Pos(x.Pos()), okc, true, tern(okc, "updates the logger found in this request's context", "UpdateContext is applied to "+descr(recv)+", which is not the logger fetched from this request's context: fields of one request reach another request's (or the shared) logger"))
				}
			case *ssa.Store:
				// request-level code must not write variables captured from construction-time scopes
				if fv, ok := x.Addr.(*ssa.FreeVar); ok && requestLevel(f) {
					owner := freeVarOwner(f, fv)
					if owner != nil && !requestLevel(owner) {
						r.Ob("ISOL", FnName(f)+"/writes-captured:"+fv.Name(), p.Pos(x.Pos()), false, true, "request-handling code assigns "+fv.Name()+", a variable of the construction-time scope "+FnName(owner)+" shared by all requests of this handler")
					}
				}
			}
		})
	}
	// every field handler of the package's API still reaches an UpdateContext site (judged above);
	// handlers may share one site through a private constructor
	fieldHandlers := []string{"URLHandler", "MethodHandler", "RequestHandler", "RemoteAddrHandler", "RemoteIPHandler", "UserAgentHandler",
		"RefererHandler", "ProtoHandler", "HTTPVersionHandler", "RequestIDHandler", "CustomHeaderHandler", "EtagHandler", "ResponseHeaderHandler", "HostHandler"}
	for _, hn := range fieldHandlers {
		hf := p.Func("hlog", hn)
		if !r.Anchor(hf != nil, "ISOL", "hlog."+hn) {
			continue
		}
		seen := map[*ssa.Function]bool{}
		found := false
		var visit func(g *ssa.Function, depth int)
		visit = func(g *ssa.Function, depth int) {
			if g == nil || seen[g] || depth > 6 || g.Blocks == nil {
				return
			}
			seen[g] = true
			eachInstr(g, func(b *ssa.BasicBlock, i int, in ssa.Instruction) {
				if cc := callCommon(in); cc != nil {
					if sc := staticCallee(cc); sc != nil {
						if sc == upd {
							found = true
						} else if pkgRel(sc) == "hlog" {
							visit(sc, depth+1)
						}
					}
				}
				if mc, ok := in.(*ssa.MakeClosure); ok {
					if fn, ok := mc.Fn.(*ssa.Function); ok {
						visit(fn, depth+1)
					}
				}
			})
		}
		visit(hf, 0)
		r.Ob("ISOL", "hlog."+hn+"/adds-its-field", p.Pos(hf.Pos()), found, true, tern(found, "the handler reaches an UpdateContext call on the request's logger", hn+" no longer updates the request's logger: its field is missing from the request's events"))
	}
	if nUpd < 1 {
		r.Fail("ISOL", "UpdateContext-sites", "-", "no UpdateContext call site found in hlog")
	}
	// NewHandler
	nh := p.Func("hlog", "NewHandler")
	if !r.Anchor(nh != nil, "ISOL", "hlog.NewHandler") {
		return
	}
	wc := p.Method("", "Logger", "WithContext")
	with := p.Method("", "Logger", "With")
	lg := p.Method("", "Context", "Logger")
	var inner []*ssa.Function
	var collect func(f *ssa.Function)
	collect = func(f *ssa.Function) {
		inner = append(inner, f)
		for _, a := range f.AnonFuncs {
			collect(a)
		}
	}
	collect(nh)
	found := false
	for _, f := range inner {
		// private helpers (`attachLoggerCopy(r, log)`) are part of the handler body
		f = p.View(f, "", nil)
		eachInstr(f, func(b *ssa.BasicBlock, i int, in ssa.Instruction) {
			c, ok := in.(*ssa.Call)
			if ok && staticCallee(&c.Call) == wc {
				found = true
				// receiver: With().Logger() of the configured logger, computed in this activation
				recv := c.Call.Args[0]
				if ld, isLd := recv.(*ssa.UnOp); isLd {
					if al, isAl := ld.X.(*ssa.Alloc); isAl {
						recv = allocInit(al)
					}
				}
				okc := false
				if lc, isC := recv.(*ssa.Call); isC && staticCallee(&lc.Call) == lg {
					if wcall, isW := lc.Call.Args[0].(*ssa.Call); isW && staticCallee(&wcall.Call) == with {
						src := wcall.Call.Args[0]
						if ld, isLd := src.(*ssa.UnOp); isLd {
							src = ld.X
						}
						if fvr, isFV := src.(*ssa.FreeVar); isFV && freeVarOwner(f, fvr) == nh {
							okc = requestLevel(f)
						}
					}
				}
				// … on every path to the next handler: an early hand-over ("already installed further up")
				// passes the request on with whatever logger its context inherited
				if okc {
					isServe := func(x ssa.Instruction) bool {
						cc, ok := x.(*ssa.Call)
						return ok && cc.Call.IsInvoke() && cc.Call.Method.Name() == "ServeHTTP"
					}
					if skip, _ := pathExists(f, nil, isServe, func(x ssa.Instruction) bool { return x == ssa.Instruction(c) }, nil); skip {
						r.Ob("ISOL", FnName(f)+"/per-request-copy-on-every-path", p.Pos(c.Pos()), false, true, "NewHandler can hand the request to the next handler without attaching a fresh With().Logger() copy (an early path skips it): requests whose context already carries a logger — sub-requests built from r.Context(), a parent router's — then update one shared logger")
					} else {
						r.Ob("ISOL", FnName(f)+"/per-request-copy-on-every-path", p.Pos(c.Pos()), true, true, "every path to next.ServeHTTP attaches the per-request copy first")
					}
				}
				r.Ob("ISOL", FnName(f)+"/per-request-copy", p.Pos(c.Pos()), okc, true, tern(okc, "the request context receives log.With().Logger(), a copy made for this request", "NewHandler puts "+descr(recv)+" into the request context instead of a fresh With().Logger() copy of the configured logger: handlers' UpdateContext calls then modify a logger shared between requests"))
				ctxOK := len(c.Call.Args) == 2 && derivedFromRequest(c.Call.Args[1], 0)
				r.Ob("ISOL", FnName(f)+"/request-context", p.Pos(c.Pos()), ctxOK, true, "the logger is attached to this request's context")
			}
			if st, isSt := in.(*ssa.Store); isSt {
				if fvr, isFV := st.Addr.(*ssa.FreeVar); isFV && freeVarOwner(f, fvr) == nh {
					r.Ob("ISOL", FnName(f)+"/writes-configured-logger", p.Pos(st.Pos()), false, true, "the logger passed to NewHandler is modified")
				}
			}
			if c, ok := in.(*ssa.Call); ok && staticCallee(&c.Call) == upd {
				if fvr, isFV := c.Call.Args[0].(*ssa.FreeVar); isFV && freeVarOwner(f, fvr) == nh {
					r.Ob("ISOL", FnName(f)+"/updates-configured-logger", p.Pos(c.Pos()), false, true, "UpdateContext is applied to the logger passed to NewHandler")
				}
			}
		})
	}
	if !found {
		r.Ob("ISOL", FnName(nh)+"/per-request-copy", p.Pos(nh.Pos()), false, true, "NewHandler does not attach a logger to the request context")
	}
	// Logger.WithContext attaches a private copy of the receiver in a NEW context value and never
	// writes through a *Logger it found in the context (requests deriving from a common base
	// context would otherwise share, and overwrite, one logger)
	if wc != nil {
		wv := p.View(wc, "", nil)
		writesAttached := false
		var pos token.Pos = wc.Pos()
		fromCtxValue := func(v ssa.Value) bool {
			for depth := 0; depth < 6; depth++ {
				switch x := v.(type) {
				case *ssa.Extract:
					v = x.Tuple
				case *ssa.TypeAssert:
					v = x.X
				case *ssa.FieldAddr:
					v = x.X
				case *ssa.Phi:
					for _, e := range x.Edges {
						if c, ok := stripToCall(e); ok && c.Call.IsInvoke() && c.Call.Method.Name() == "Value" {
							return true
						}
					}
					return false
				case *ssa.Call:
					return x.Call.IsInvoke() && x.Call.Method.Name() == "Value"
				default:
					return false
				}
			}
			return false
		}
		attachesCopy := false
		eachInstr(wv, func(b *ssa.BasicBlock, i int, in ssa.Instruction) {
			if st, ok := in.(*ssa.Store); ok && fromCtxValue(st.Addr) {
				writesAttached = true
				pos = st.Pos()
			}
			if c, ok := in.(*ssa.Call); ok && isCallTo(&c.Call, "context.WithValue") && len(c.Call.Args) == 3 {
				v := c.Call.Args[2]
				if mi, ok := v.(*ssa.MakeInterface); ok {
					v = mi.X
				}
				if al, ok := v.(*ssa.Alloc); ok {
					if init := allocInit(al); init != nil && isParam(init, wv, 0) {
						attachesCopy = true
					}
				}
			}
		})
		r.Ob("ISOL", FnName(wc)+"/attached-logger-untouched", p.Pos(pos), !writesAttached, true, tern(!writesAttached, "WithContext never writes through a logger found in the context", "WithContext overwrites the *Logger already attached to the context in place: every context derived from the same base (all requests under a common base context) now shares and clobbers one logger"))
		r.Ob("ISOL", FnName(wc)+"/attaches-private-copy", p.Pos(wc.Pos()), attachesCopy, true, tern(attachesCopy, "WithContext attaches the address of its own copy of the receiver in a new context value", "WithContext does not attach a private copy of the receiver through context.WithValue"))
	}
}

func stripToCall(v ssa.Value) (*ssa.Call, bool) {
	for depth := 0; depth < 4; depth++ {
		switch x := v.(type) {
		case *ssa.Extract:
			v = x.Tuple
		case *ssa.TypeAssert:
			v = x.X
		case *ssa.Call:
			return x, true
		default:
			return nil, false
		}
	}
	return nil, false
}

// freeVarOwner: the enclosing function whose local the free variable refers to.
func freeVarOwner(f *ssa.Function, fv *ssa.FreeVar) *ssa.Function {
	// walk up: the binding in the parent's MakeClosure is either a local (Alloc/Parameter) of the
	// parent or one of the parent's own free variables
	cur := f
	var v ssa.Value = fv
	for cur != nil && cur.Parent() != nil {
		idx := -1
		for i, x := range cur.FreeVars {
			if ssa.Value(x) == v {
				idx = i
			}
		}
		if idx < 0 {
			return nil
		}
		parent := cur.Parent()
		var binding ssa.Value
		eachInstr(parent, func(b *ssa.BasicBlock, i int, in ssa.Instruction) {
			if mc, ok := in.(*ssa.MakeClosure); ok && (mc.Fn == ssa.Value(cur) || viewInfo[cur] != nil && mc.Fn == ssa.Value(viewInfo[cur].root)) && idx < len(mc.Bindings) {
				binding = mc.Bindings[idx]
			}
		})
		if binding == nil {
			return nil
		}
		if pfv, ok := binding.(*ssa.FreeVar); ok {
			cur, v = parent, pfv
			continue
		}
		return parent
	}
	return nil
}

// ---- proxy accounting ----

func ruleProxy(r *Run, p *Prog) {
	wh := p.Method(mutilRel, "basicWriter", "WriteHeader")
	wr := p.Method(mutilRel, "basicWriter", "Write")
	mw := p.Method(mutilRel, "basicWriter", "maybeWriteHeader")
	rf := p.Method(mutilRel, "fancyWriter", "ReadFrom")
	st := p.Method(mutilRel, "basicWriter", "Status")
	bw := p.Method(mutilRel, "basicWriter", "BytesWritten")
	if !r.Anchor(wh != nil && wr != nil && mw != nil && rf != nil && st != nil && bw != nil, "PROXY", "mutil basicWriter/fancyWriter methods") {
		return
	}
	fieldOf := func(in ssa.Instruction) (string, ssa.Value) {
		if s, ok := in.(*ssa.Store); ok {
			if fa, ok := s.Addr.(*ssa.FieldAddr); ok {
				return fname(fieldVar(fa)), s.Val
			}
		}
		return "", nil
	}
	// who stores code / wroteHeader / bytes
	whSet := p.exclusiveHelpers(wh)
	cntSet := p.exclusiveHelpers(wr, rf)
	for _, f := range p.ModFns {
		if pkgRel(f) != mutilRel {
			continue
		}
		eachInstr(f, func(b *ssa.BasicBlock, i int, in ssa.Instruction) {
			name, _ := fieldOf(in)
			switch name {
			case "code", "wroteHeader":
				r.Ob("PROXY", FnName(f)+"/stores-"+name, p.Pos(in.Pos()), whSet[f], true, tern(whSet[f], name+" stored by WriteHeader", name+" is stored outside WriteHeader: the reported status is no longer the first one sent"))
			case "bytes":
				ok := cntSet[f]
				r.Ob("PROXY", FnName(f)+"/stores-bytes", p.Pos(in.Pos()), ok, true, tern(ok, "byte count updated by Write/ReadFrom", "the byte count is modified in "+FnName(f)))
			}
		})
	}
	// WriteHeader path table
	whOrig := wh
	wh = p.View(wh, "", nil)
	paths, _ := enumPaths(wh, 1, 200)
	for i, pa := range paths {
		var ev []string
		okVals := true
		for _, in := range pa.Instrs() {
			name, val := fieldOf(in)
			switch name {
			case "code":
				ev = append(ev, "code")
				if !isParam(val, wh, 1) {
					okVals = false
				}
			case "wroteHeader":
				ev = append(ev, "flag")
				if b, ok := constBool(val); !ok || !b {
					okVals = false
				}
			}
			if c, ok := in.(*ssa.Call); ok && c.Call.IsInvoke() && c.Call.Method.Name() == "WriteHeader" {
				ev = append(ev, "forward")
				if len(c.Call.Args) != 1 || !isParam(c.Call.Args[0], wh, 1) {
					okVals = false
				}
			}
		}
		first := hasCmp(pa.Cmps(), func(op token.Token, x, y ssa.Value) bool {
			b, ok := constBool(y)
			return ok && isFieldOfParam(x, wh, 0, "wroteHeader") && ((op == token.EQL && !b) || (op == token.NEQ && b))
		})
		seq := strings.Join(ev, "→")
		var ok bool
		if first {
			ok = okVals && (seq == "code→flag→forward" || seq == "flag→code→forward")
		} else {
			ok = seq == ""
		}
		r.Ob("PROXY", FnName(wh)+"/path#"+itoa(i), p.Pos(wh.Pos()), ok, true, tern(ok, tern(first, "first WriteHeader: records the code and the flag, then forwards", "later WriteHeader calls are ignored"), "WriteHeader "+tern(first, "(first call)", "(header already written)")+" does "+seq+": the status recorded is not exactly the first code sent"))
	}
	// Write: WriteHeader(200) before the underlying Write; bytes += n of that Write on every path
	wh = whOrig
	keepHdr := func(g *ssa.Function) bool { return g == wh || g == mw }
	checkCount := func(f *ssa.Function, callName string, pre *ssa.Function, preArg int64, onlyWhen func(pa Path) bool) {
		f = p.View(f, "keep-header", keepHdr)
		paths, complete := enumPaths(f, 1, 2000)
		if !complete {
			r.Fail("PROXY", FnName(f)+"/paths", p.Pos(f.Pos()), "cannot enumerate")
			return
		}
		n := 0
		for i, pa := range paths {
			if _, isRet := pa.Exit.(*ssa.Return); !isRet {
				continue
			}
			if onlyWhen != nil && !onlyWhen(pa) {
				continue
			}
			n++
			var under *ssa.Call
			preAt, underAt, addAt := -1, -1, -1
			addOK := false
			for idx, in := range pa.Instrs() {
				if c, ok := in.(*ssa.Call); ok {
					if c.Call.IsInvoke() && c.Call.Method.Name() == callName {
						if fv, _ := loadedField(c.Call.Value); fv != nil && fname(fv) == "ResponseWriter" || isAssertOfField(c.Call.Value, "ResponseWriter") {
							under, underAt = c, idx
						}
					}
					if staticCallee(&c.Call) == pre {
						if preArg < 0 {
							preAt = idx
						} else if v, ok := constInt(c.Call.Args[len(c.Call.Args)-1]); ok && v == preArg {
							preAt = idx
						}
					}
				}
				if name, val := fieldOf(in); name == "bytes" && under != nil {
					addAt = idx
					if bo, ok := val.(*ssa.BinOp); ok && bo.Op == token.ADD {
						cnt := pa.Resolve(bo.Y)
						if cv, isCv := cnt.(*ssa.Convert); isCv {
							cnt = pa.Resolve(cv.X)
						}
						if ex, isEx := cnt.(*ssa.Extract); isEx && ex.Tuple == ssa.Value(under) && ex.Index == 0 {
							if fv, _ := loadedField(bo.X); fv != nil && fname(fv) == "bytes" {
								addOK = true
							}
						}
					}
				}
			}
			ok := under != nil && preAt >= 0 && preAt < underAt && addAt > underAt && addOK
			r.Ob("PROXY", FnName(f)+"/path#"+itoa(i), p.Pos(f.Pos()), ok, true, tern(ok, "header forced first, then the underlying "+callName+", then bytes += its count", "on some path "+FnName(f)+" does not (force the header, call the underlying "+callName+", add exactly its returned count to bytes) in that order"))
		}
		if n == 0 {
			r.Ob("PROXY", FnName(f)+"/paths", p.Pos(f.Pos()), false, true, "no relevant path found")
		}
	}
	checkCount(wr, "Write", wh, 200, nil)
	checkCount(rf, "ReadFrom", mw, -1, func(pa Path) bool {
		// tee == nil paths only (Tee is outside the property's alphabet)
		return hasCmp(pa.Cmps(), func(op token.Token, x, y ssa.Value) bool {
			fv, _ := loadedField(x)
			return fv != nil && fname(fv) == "tee" && isNilConst(y) && op == token.EQL
		})
	})
	// maybeWriteHeader
	okM := false
	eachInstr(mw, func(b *ssa.BasicBlock, i int, in ssa.Instruction) {
		if c, ok := in.(*ssa.Call); ok && staticCallee(&c.Call) == wh {
			if v, ok := constInt(c.Call.Args[1]); ok && v == 200 {
				okM = true
			}
		}
	})
	r.Ob("PROXY", FnName(mw), p.Pos(mw.Pos()), okM, true, tern(okM, "maybeWriteHeader forces WriteHeader(200)", "maybeWriteHeader does not force status 200"))
	// getters
	for _, g := range []struct {
		f     *ssa.Function
		field string
	}{{st, "code"}, {bw, "bytes"}} {
		ok, nRet := true, 0
		eachInstr(g.f, func(b *ssa.BasicBlock, i int, in ssa.Instruction) {
			if ret, isRet := in.(*ssa.Return); isRet {
				nRet++
				if len(ret.Results) != 1 || !isFieldOfParam(ret.Results[0], g.f, 0, g.field) {
					ok = false
				}
			}
		})
		ok = ok && nRet > 0
		r.Ob("PROXY", FnName(g.f), p.Pos(g.f.Pos()), ok, true, tern(ok, "returns the "+g.field+" field unmodified", FnName(g.f)+" does not return the "+g.field+" field as recorded"))
	}
	// AccessHandler: the callback reads Status/BytesWritten of the proxy passed down
	ah := p.Func("hlog", "AccessHandler")
	if r.Anchor(ah != nil, "PROXY", "hlog.AccessHandler") {
		var all []*ssa.Function
		var collect func(f *ssa.Function)
		seenAll := map[*ssa.Function]bool{}
		collect = func(f *ssa.Function) {
			if seenAll[f] {
				return
			}
			seenAll[f] = true
			all = append(all, f)
			for _, a := range f.AnonFuncs {
				collect(a)
			}
		}
		collect(ah)
		// … and the private helpers only AccessHandler's closures use (with their own closures)
		var helpers []*ssa.Function
		for g := range p.exclusiveHelpers(ah) {
			helpers = append(helpers, g)
		}
		sort.Slice(helpers, func(i, j int) bool { return helpers[i].String() < helpers[j].String() })
		for _, g := range helpers {
			collect(g)
		}
		var served ssa.Value
		var servedIn *ssa.Function
		for _, f := range all {
			eachInstr(f, func(b *ssa.BasicBlock, i int, in ssa.Instruction) {
				if c, ok := in.(*ssa.Call); ok && c.Call.IsInvoke() && c.Call.Method.Name() == "ServeHTTP" {
					served, servedIn = c.Call.Args[0], f
				}
			})
		}
		okS, okB := false, false
		for _, f := range all {
			eachInstr(f, func(b *ssa.BasicBlock, i int, in ssa.Instruction) {
				c, ok := in.(*ssa.Call)
				if !ok || !c.Call.IsInvoke() {
					return
				}
				if c.Call.Method.Name() != "Status" && c.Call.Method.Name() != "BytesWritten" {
					return
				}
				same := sameProxy(c.Call.Value, f, served, servedIn)
				if c.Call.Method.Name() == "Status" && same {
					okS = true
				}
				if c.Call.Method.Name() == "BytesWritten" && same {
					okB = true
				}
			})
		}
		r.Ob("PROXY", FnName(ah)+"/reports-own-proxy", p.Pos(ah.Pos()), okS && okB && served != nil, true, tern(okS && okB, "the access callback reads Status/BytesWritten of the proxy handed to the next handler", "the access callback does not read both Status and BytesWritten from the proxy that was handed to the next handler"))
	}
}

func isAssertOfField(v ssa.Value, field string) bool {
	ta, ok := v.(*ssa.TypeAssert)
	if !ok {
		if ex, isEx := v.(*ssa.Extract); isEx {
			ta, ok = ex.Tuple.(*ssa.TypeAssert)
		}
	}
	if !ok {
		return false
	}
	fv, _ := loadedField(ta.X)
	return fv != nil && fname(fv) == field
}

// sameProxy: v (in function f) designates the same local as `served` in servedIn (directly or as a captured variable).
func sameProxy(v ssa.Value, f *ssa.Function, served ssa.Value, servedIn *ssa.Function) bool {
	if served == nil {
		return false
	}
	strip := func(x ssa.Value) ssa.Value {
		for {
			switch y := x.(type) {
			case *ssa.UnOp:
				if y.Op == token.MUL {
					x = y.X
					continue
				}
			case *ssa.ChangeInterface:
				x = y.X
				continue
			case *ssa.MakeInterface:
				x = y.X
				continue
			}
			return x
		}
	}
	a, b := strip(v), strip(served)
	if f == servedIn {
		return a == b
	}
	// the per-request state lives in a struct (`a := access{lw: WrapWriter(w), …}`): the proxy is
	// field F of an object built in the serving function and handed, as a parameter, to the
	// reporting function (call, defer); F is stored once, by the serving function
	if faA, ok := a.(*ssa.FieldAddr); ok {
		faB, ok := b.(*ssa.FieldAddr)
		if !ok || fieldVar(faA) != fieldVar(faB) {
			return false
		}
		bound := false
		for i, prm := range f.Params {
			if faA.X != ssa.Value(prm) {
				continue
			}
			eachInstr(servedIn, func(_ *ssa.BasicBlock, _ int, in ssa.Instruction) {
				if cc := callCommon(in); cc != nil && !cc.IsInvoke() && staticCallee(cc) == f && i < len(cc.Args) && cc.Args[i] == faB.X {
					bound = true
				}
			})
		}
		stores := 0
		for _, g := range []*ssa.Function{f, servedIn} {
			eachInstr(g, func(_ *ssa.BasicBlock, _ int, in ssa.Instruction) {
				if st, ok := in.(*ssa.Store); ok {
					if fa, ok := st.Addr.(*ssa.FieldAddr); ok && fieldVar(fa) == fieldVar(faB) {
						stores++
					}
				}
			})
		}
		return bound && stores == 1
	}
	if fv, ok := a.(*ssa.FreeVar); ok {
		// binding in the parent's MakeClosure
		idx := -1
		for i, x := range f.FreeVars {
			if x == fv {
				idx = i
			}
		}
		parent := f.Parent()
		if idx < 0 || parent != servedIn {
			return false
		}
		same := false
		eachInstr(parent, func(_ *ssa.BasicBlock, _ int, in ssa.Instruction) {
			if mc, ok := in.(*ssa.MakeClosure); ok && mc.Fn == ssa.Value(f) && idx < len(mc.Bindings) {
				if strip(mc.Bindings[idx]) == b || mc.Bindings[idx] == b {
					same = true
				}
			}
		})
		return same
	}
	return false
}

// ---- A24 ----

func ruleA24(r *Run, p *Prog) {
	ww := p.Func(mutilRel, "WrapWriter")
	if !r.Anchor(ww != nil, "A24", "mutil.WrapWriter") {
		return
	}
	for _, tn := range []string{"fancyWriter", "flushWriter"} {
		named := p.NamedType(mutilRel, tn)
		if named == nil {
			r.Anchor(false, "A24", "mutil."+tn)
			continue
		}
		// guards at the construction site
		guards := map[string]bool{}
		var guardTypes []types.Type
		nCons := 0
		ww := p.View(ww, "", nil)
		eachInstr(ww, func(b *ssa.BasicBlock, i int, in ssa.Instruction) {
			al, ok := in.(*ssa.Alloc)
			if !ok || namedOf(al.Type()) != named {
				return
			}
			nCons++
			for _, c := range necessaryCmps(ww, al) {
				ex, ok := c.X.(*ssa.Extract)
				if !ok || ex.Index != 1 {
					continue
				}
				ta, ok := ex.Tuple.(*ssa.TypeAssert)
				if !ok {
					continue
				}
				bv, isB := constBool(c.Y)
				if isB && ((c.Op == token.EQL && bv) || (c.Op == token.NEQ && !bv)) && isParam(ta.X, ww, 0) {
					guards[types.TypeString(ta.AssertedType, shortQual)] = true
					guardTypes = append(guardTypes, ta.AssertedType)
				}
			}
		})
		// unchecked assertions in the type's methods
		for _, m := range p.Methods(mutilRel, tn, false) {
			// judged with private helpers inlined (a shared "flush the proxied writer" helper of the
			// embedded basicWriter is part of each method that calls it)
			m = p.View(m, "", nil)
			eachInstr(m, func(b *ssa.BasicBlock, i int, in ssa.Instruction) {
				ta, ok := in.(*ssa.TypeAssert)
				if !ok || ta.CommaOk {
					return
				}
				fv, _ := loadedField(ta.X)
				if fv == nil || fname(fv) != "ResponseWriter" {
					return
				}
				it := types.TypeString(ta.AssertedType, shortQual)
				okc := guards[it] && nCons > 0
				// a guard on a wider interface (one that embeds the asserted one) covers it too
				if want, isI := ta.AssertedType.Underlying().(*types.Interface); isI && !okc && nCons > 0 {
					for _, g := range guardTypes {
						if gi, ok := g.Underlying().(*types.Interface); ok && types.Implements(gi, want) {
							okc = true
						}
					}
				}
				r.Ob("A24", FnName(m)+"/assert:"+it, p.Pos(ta.Pos()), okc, true, tern(okc, tn+" is only constructed when the writer implements "+it, "unchecked assertion to "+it+" in "+FnName(m)+", but WrapWriter constructs "+tn+" without having checked that capability: the call panics for writers that lack it"))
			})
		}
		r.Ob("A24", tn+"/constructed", p.Pos(ww.Pos()), nCons > 0, false, fmt.Sprintf("%d construction site(s) of %s in WrapWriter, guards %v", nCons, tn, keysOf(guards)))
	}
}
