package main

import (
	"fmt"
	"go/constant"
	"go/token"
	"go/types"
	"strings"

	"golang.org/x/tools/go/ssa"
)

func init() { register("C13", checkC13) }

func checkC13(r *Run) {
	r.Explain = "Decides the clauses of C13 that are shape: GATE events rejected by the level gate never reach a sampler and DisableSampling(true) bypasses it (path table of (*Logger).should); BASIC the admit predicate of BasicSampler.Sample is extracted symbolically: N==0 → false, N==1 → true, otherwise (c mod N) == 1 with c the value returned by atomic.AddUint32(&s.counter, 1) — with a counter that only this fetch-add touches (A14) the k-th call sees c = k, so exactly the calls 1, N+1, 2N+1, … are admitted: ceil(k/N) of any k, the first included, however calls interleave; BURST BurstSampler.Sample admits under Burst>0 && Period>0 && inc()<=Burst, otherwise hands over to NextSampler.Sample(lvl) and rejects only when it is nil; inc() opens a window exactly when now >= resetAt (now = TimestampFunc().UnixNano(), resetAt loaded atomically), sets the count to 1 and the new end to now+Period, and otherwise fetch-adds the count; LEVEL LevelSampler pairs each level constant with its own sampler field, returns its answer, admits levels without one; A14 the counters, the window end, the global level and the sampling switch are accessed only through sync/atomic. BASIC also: exactly one atomic operation on the admitting path; GATE disabled-never-sampled: an exported entry point that passes a caller-chosen level to a sampler does so only under a test that excludes Disabled (the largest level, which the gate's comparisons never reject); GATE one-event-per-call: the self-finalising entry points create at most one event (one sampler decision) per call. GATE decided-once: nothing reachable from a method of *Event reads the global level again — an event the sampler admitted is not dropped later because the global level moved between creation and Msg."
	r.NotDec = "BurstSampler under concurrent callers racing on a window boundary, counter wrap-around after 2^32 calls, RandomSampler's distribution: not decided. The window semantics over arbitrary (non-monotonic) clock histories is decided only as far as the extracted per-call transition above determines it."
	r.Assume = []string{"sync/atomic fetch-add returns distinct consecutive values", "user samplers behind NextSampler are outside the claim"}
	p := r.Use("J")
	if p == nil {
		return
	}
	ruleGate(r, p, true)
	ruleSamplingSwitch(r, p)
	ruleBasicSampler(r, p)
	ruleBurstSampler(r, p)
	ruleLevelSlots(r, p, "LEVEL", "LevelSampler", "Sample", "Sampler", 1, "result")
	ruleA14(r, p, "A14", map[string]bool{"": true}, []string{"BasicSampler.counter", "BurstSampler.counter", "BurstSampler.resetAt", "@SetGlobalLevel|GlobalLevel", "@DisableSampling|samplingDisabled"})
	ruleOneEventPerCall(r, p)
	ruleDisabledNeverSampled(r, p)
	ruleEventPathIgnoresGlobalLevel(r, p, "GATE")
	r.Floor("GATE", 8)
	r.Floor("SWITCH", 2)
	r.Floor("BASIC", 4)
	r.Floor("BURST", 10)
	r.Floor("LEVEL", 12)
	r.Floor("A14", 8)
}

func ruleBasicSampler(r *Run, p *Prog) {
	f := p.Method("", "BasicSampler", "Sample")
	if !r.Anchor(f != nil, "BASIC", "(*BasicSampler).Sample") {
		return
	}
	paths, complete := enumPaths(f, 1, 1000)
	if !complete {
		r.Fail("BASIC", FnName(f)+"/paths", p.Pos(f.Pos()), "cannot enumerate paths")
		return
	}
	isN := func(v ssa.Value) bool { return isFieldOfParam(v, f, 0, "N") }
	seen := map[string]bool{}
	for i, pa := range paths {
		ret, _ := pa.Exit.(*ssa.Return)
		cons := fmt.Sprintf("%s/path#%d", FnName(f), i)
		if ret == nil {
			r.Ob("BASIC", cons, p.Pos(pa.Exit.Pos()), false, true, "path ends in panic")
			continue
		}
		cs := pa.Cmps()
		res := pa.Resolve(ret.Results[0])
		is0 := hasCmp(cs, func(op token.Token, x, y ssa.Value) bool {
			n, ok := constInt(y)
			return ok && isN(x) && op == token.EQL && n == 0
		})
		is1 := hasCmp(cs, func(op token.Token, x, y ssa.Value) bool {
			n, ok := constInt(y)
			return ok && isN(x) && op == token.EQL && n == 1
		})
		// does the path touch the counter?
		var add *ssa.Call
		for _, in := range pa.Instrs() {
			if c, ok := in.(*ssa.Call); ok && isAtomicCall(&c.Call) {
				add = c
			}
		}
		switch {
		case is0:
			b, ok := constBool(res)
			good := ok && !b && add == nil
			seen["N0"] = true
			r.Ob("BASIC", cons+"/N==0", p.Pos(ret.Pos()), good, true, tern(good, "N == 0 admits nothing and leaves the counter alone", "N == 0 does not simply return false"))
		case is1:
			b, ok := constBool(res)
			good := ok && b && add == nil
			seen["N1"] = true
			r.Ob("BASIC", cons+"/N==1", p.Pos(ret.Pos()), good, true, tern(good, "N == 1 admits everything", "N == 1 does not simply return true"))
		default:
			// (c % N) == 1 with c = atomic.AddUint32(&s.counter, 1)
			good := false
			why := "result is " + descr(res)
			if eq, ok := res.(*ssa.BinOp); ok && eq.Op == token.EQL {
				if one, ok := constInt(eq.Y); ok && one == 1 {
					if rem, ok := eq.X.(*ssa.BinOp); ok && rem.Op == token.REM && isN(rem.Y) {
						if c, ok := rem.X.(*ssa.Call); ok && isCallTo(&c.Call, "sync/atomic.AddUint32") && len(c.Call.Args) == 2 {
							d, okd := constInt(c.Call.Args[1])
							fa, okf := c.Call.Args[0].(*ssa.FieldAddr)
							if okd && d == 1 && okf && fname(fieldVar(fa)) == "counter" && isParam(fa.X, f, 0) {
								good = true
								why = "admit iff (atomic.AddUint32(&s.counter, 1) mod N) == 1"
							}
						}
					}
				}
			}
			// exactly one atomic operation per call: a second one on the same path (a separate
			// "reset at the end of the cycle" Store) is not atomic with the fetch-add — increments
			// landing between the two are wiped and extra events are admitted
			nAtomic := 0
			for _, in := range pa.Instrs() {
				if c, ok := in.(*ssa.Call); ok && isAtomicCall(&c.Call) {
					nAtomic++
				}
			}
			if good && nAtomic != 1 {
				good = false
				why = fmt.Sprintf("%d atomic operations on one path of Sample", nAtomic)
			}
			seen["general"] = true
			if !good {
				why = "the admit predicate is not (fetch-add(counter,1) mod N) == 1 (" + why + "): the admitted share is no longer exactly ceil(k/N) with the first call included"
			}
			r.Ob("BASIC", cons+"/predicate", p.Pos(ret.Pos()), good, true, why)
		}
	}
	for _, k := range []string{"N0", "N1", "general"} {
		if !seen[k] {
			r.Ob("BASIC", FnName(f)+"/case-"+k, p.Pos(f.Pos()), false, true, "BasicSampler.Sample has no path for the case "+k)
		}
	}
	// the counter starts at zero: no function stores into it except through the fetch-add (A14 covers the rest)
	r.Ob("BASIC", FnName(f)+"/shape", p.Pos(f.Pos()), true, false, fmt.Sprintf("%d paths examined", len(paths)))
}

func ruleBurstSampler(r *Run, p *Prog) {
	f := p.Method("", "BurstSampler", "Sample")
	inc := p.Method("", "BurstSampler", "inc")
	if !r.Anchor(f != nil && inc != nil, "BURST", "(*BurstSampler).Sample and inc") {
		return
	}
	f = p.View(f, "keep-inc", func(g *ssa.Function) bool { return g == inc })
	paths, complete := enumPaths(f, 1, 1000)
	if !complete {
		r.Fail("BURST", FnName(f)+"/paths", p.Pos(f.Pos()), "cannot enumerate paths")
		return
	}
	fld := func(name string) func(ssa.Value) bool {
		return func(v ssa.Value) bool { return isFieldOfParam(v, f, 0, name) }
	}
	isBurst, isPeriod, isNext := fld("Burst"), fld("Period"), fld("NextSampler")
	isInc := func(v ssa.Value) bool { return isCallOfFunc(v, inc) }
	for i, pa := range paths {
		ret, _ := pa.Exit.(*ssa.Return)
		cons := fmt.Sprintf("%s/path#%d", FnName(f), i)
		if ret == nil {
			r.Ob("BURST", cons, p.Pos(pa.Exit.Pos()), false, true, "path ends in panic")
			continue
		}
		cs, feasible := pa.ExpandedCmps()
		if !feasible {
			continue // `pass := …; if !pass` taken against the constant the path carried into pass
		}
		res := pa.Resolve(ret.Results[0])
		burstOn := hasCmp(cs, func(op token.Token, x, y ssa.Value) bool {
			n, ok := constInt(y)
			return ok && isBurst(x) && ((op == token.GTR && n == 0) || (op == token.NEQ && n == 0))
		})
		periodOn := hasCmp(cs, func(op token.Token, x, y ssa.Value) bool {
			n, ok := constInt(y)
			return ok && isPeriod(x) && op == token.GTR && n == 0
		})
		within := hasCmp(cs, func(op token.Token, x, y ssa.Value) bool { return isInc(x) && isBurst(y) && op == token.LEQ })
		beyond := hasCmp(cs, func(op token.Token, x, y ssa.Value) bool { return isInc(x) && isBurst(y) && op == token.GTR })
		calledInc := false
		for _, in := range pa.Instrs() {
			if c, ok := in.(*ssa.Call); ok && staticCallee(&c.Call) == inc {
				calledInc = true
			}
		}
		nextNil := hasCmp(cs, func(op token.Token, x, y ssa.Value) bool { return isNext(x) && isNilConst(y) && op == token.EQL })
		nextSet := hasCmp(cs, func(op token.Token, x, y ssa.Value) bool { return isNext(x) && isNilConst(y) && op == token.NEQ })
		var ok bool
		var d string
		// a result computed as a comparison (`pass := … && s.inc() <= s.Burst; return pass`) has
		// the truth value the path's own branch on that comparison gave it
		if bo, isCmp := res.(*ssa.BinOp); isCmp {
			for _, c := range cs {
				if sameValue(c.X, bo.X) && sameValue(c.Y, bo.Y) {
					if c.Op == bo.Op {
						res = ssa.NewConst(constant.MakeBool(true), types.Typ[types.Bool])
					} else if c.Op == negateOp(bo.Op) {
						res = ssa.NewConst(constant.MakeBool(false), types.Typ[types.Bool])
					}
				}
			}
		}
		if calledInc != (burstOn && periodOn) {
			ok, d = false, "the window counter is consulted although Burst or Period is zero (or not consulted although both are set)"
		} else if b, isB := constBool(res); isB && b {
			ok = burstOn && periodOn && within
			d = tern(ok, "admitted by the burst: Burst>0, Period>0, inc() <= Burst", "admits without Burst>0 && Period>0 && inc() <= Burst")
		} else if isB && !b {
			ok = nextNil && (beyond || !calledInc)
			d = tern(ok, "rejected only when there is no NextSampler and the burst did not admit", "rejects although a NextSampler exists or the burst should have admitted")
		} else {
			c, isC := res.(*ssa.Call)
			ok = isC && c.Call.IsInvoke() && c.Call.Method.Name() == "Sample" && isNext(c.Call.Value) && len(c.Call.Args) == 1 && isParam(c.Call.Args[0], f, 1) && nextSet && (beyond || !calledInc)
			d = tern(ok, "handed to NextSampler.Sample(lvl)", "result "+descr(res)+" is not NextSampler.Sample(lvl) under NextSampler != nil")
		}
		r.Ob("BURST", cons, p.Pos(ret.Pos()), ok, true, d+" ["+joinMax(cmpStrings(cs), 6)+"]")
	}
	// inc(): the window transition
	ipaths, complete := enumPaths(inc, 1, 1000)
	if !complete {
		r.Fail("BURST", FnName(inc)+"/paths", p.Pos(inc.Pos()), "cannot enumerate paths")
		return
	}
	tsf := p.Global("", "TimestampFunc")
	isNow := func(v ssa.Value) bool {
		c, ok := v.(*ssa.Call)
		if !ok || !isCallTo(&c.Call, "(time.Time).UnixNano") {
			return false
		}
		tc, ok := c.Call.Args[0].(*ssa.Call)
		return ok && loadedGlobal(tc.Call.Value) == tsf && tsf != nil
	}
	isResetAtLoad := func(v ssa.Value) bool {
		c, ok := v.(*ssa.Call)
		if !ok || !isCallTo(&c.Call, "sync/atomic.LoadInt64") {
			return false
		}
		fa, ok := c.Call.Args[0].(*ssa.FieldAddr)
		return ok && fname(fieldVar(fa)) == "resetAt" && isParam(fa.X, inc, 0)
	}
	isCounterAddr := func(v ssa.Value) bool {
		fa, ok := v.(*ssa.FieldAddr)
		return ok && fname(fieldVar(fa)) == "counter" && isParam(fa.X, inc, 0)
	}
	for i, pa := range ipaths {
		ret, _ := pa.Exit.(*ssa.Return)
		cons := fmt.Sprintf("%s/path#%d", FnName(inc), i)
		if ret == nil {
			continue
		}
		cs, feasible := pa.ExpandedCmps()
		if !feasible {
			continue // a `reset` flag tested against the constant this path carried into it
		}
		open := hasCmp(cs, func(op token.Token, x, y ssa.Value) bool { return isNow(x) && isResetAtLoad(y) && op == token.GEQ })
		inside := hasCmp(cs, func(op token.Token, x, y ssa.Value) bool { return isNow(x) && isResetAtLoad(y) && op == token.LSS })
		var stored1, cas, adds bool
		var casCall *ssa.Call
		for _, in := range pa.Instrs() {
			c, ok := in.(*ssa.Call)
			if !ok {
				continue
			}
			switch {
			case isCallTo(&c.Call, "sync/atomic.StoreUint32") && isCounterAddr(c.Call.Args[0]):
				if v, ok := constInt(pa.Resolve(c.Call.Args[1])); ok && v == 1 {
					stored1 = true
				}
			case isCallTo(&c.Call, "sync/atomic.CompareAndSwapInt64"):
				casCall = c
				// new end = now + s.Period.Nanoseconds(); old = the loaded resetAt
				if len(c.Call.Args) == 3 && isResetAtLoad(c.Call.Args[1]) {
					if sum, ok := c.Call.Args[2].(*ssa.BinOp); ok && sum.Op == token.ADD && isNow(sum.X) {
						if pc, ok := sum.Y.(*ssa.Call); ok && isCallTo(&pc.Call, "(time.Duration).Nanoseconds") && isFieldOfParam(pc.Call.Args[0], inc, 0, "Period") {
							cas = true
						}
					}
				}
			case isCallTo(&c.Call, "sync/atomic.AddUint32") && isCounterAddr(c.Call.Args[0]):
				if v, ok := constInt(c.Call.Args[1]); ok && v == 1 {
					adds = true
				}
			}
		}
		res := pa.Resolve(ret.Results[0])
		var ok bool
		var d string
		switch {
		case open:
			won := casCall != nil && hasCmp(cs, func(op token.Token, x, y ssa.Value) bool {
				b, isB := constBool(y)
				return isB && x == ssa.Value(casCall) && ((op == token.EQL && b) || (op == token.NEQ && !b))
			})
			if won {
				v, isC := constInt(res)
				ok = stored1 && cas && !adds && isC && v == 1
				d = tern(ok, "window opens at now >= resetAt: count := 1, end := now + Period, returns 1", "opening a window does not set count=1 / end=now+Period / return 1")
			} else {
				c, isCall := res.(*ssa.Call)
				ok = stored1 && cas && adds && isCall && isCallTo(&c.Call, "sync/atomic.AddUint32")
				d = tern(ok, "lost the race for opening the window: counts itself with fetch-add", "lost CAS path does not count the event with fetch-add")
			}
		case inside:
			c, isCall := res.(*ssa.Call)
			ok = adds && !stored1 && casCall == nil && isCall && isCallTo(&c.Call, "sync/atomic.AddUint32")
			d = tern(ok, "inside the window (now < resetAt): returns fetch-add(count, 1)", "inside the window the event is not counted by a single fetch-add")
		default:
			ok, d = false, "a path through inc() does not compare now with resetAt as now >= resetAt"
		}
		r.Ob("BURST", cons, p.Pos(ret.Pos()), ok, true, d)
	}
}

// ruleSamplingSwitch: DisableSampling(true) stores the very constant samplingDisabled() tests for.
func ruleSamplingSwitch(r *Run, p *Prog) {
	ds := p.Func("", "DisableSampling")
	sd := p.Func("", "samplingDisabled")
	if !r.Anchor(ds != nil && sd != nil, "SWITCH", "DisableSampling / samplingDisabled") {
		return
	}
	var testC *int64
	eachInstr(sd, func(b *ssa.BasicBlock, i int, in ssa.Instruction) {
		if ret, ok := in.(*ssa.Return); ok && len(ret.Results) == 1 {
			if bo, ok := ret.Results[0].(*ssa.BinOp); ok && bo.Op == token.EQL {
				if c, ok := bo.X.(*ssa.Call); ok && isAtomicCall(&c.Call) {
					if v, ok := constInt(bo.Y); ok {
						testC = &v
					}
				}
			}
		}
	})
	if testC == nil {
		r.Ob("SWITCH", "samplingDisabled/test", p.Pos(sd.Pos()), false, true, "samplingDisabled() is not `atomic load == constant`")
		return
	}
	ds = p.View(ds, "", nil)
	sd = p.View(sd, "", nil)
	paths, _ := enumPaths(ds, 1, 100)
	for i, pa := range paths {
		var stored ssa.Value
		for _, in := range pa.Instrs() {
			if c, ok := in.(*ssa.Call); ok && isCallTo(&c.Call, "sync/atomic.StoreInt32") {
				stored = pa.Resolve(c.Call.Args[1])
			}
		}
		on := hasCmp(pa.Cmps(), func(op token.Token, x, y ssa.Value) bool {
			b, ok := constBool(y)
			return ok && isParam(x, ds, 0) && ((op == token.EQL && b) || (op == token.NEQ && !b))
		})
		v, isC := constInt(stored)
		var ok bool
		if on {
			ok = isC && v == *testC
		} else {
			ok = isC && v != *testC
		}
		r.Ob("SWITCH", "DisableSampling/path#"+itoa(i), p.Pos(ds.Pos()), ok, true, tern(ok, fmt.Sprintf("DisableSampling(%v) stores %d; samplingDisabled tests == %d", on, v, *testC), "DisableSampling and samplingDisabled disagree on the stored constant"))
	}
}

// ruleOneEventPerCall: every entry point that finalises an event itself (package log's Print
// family, Logger.Print/Printf/Println/Write) creates at most one event per call on every path:
// creating one consults the sampler, so a probe such as `if !Logger.Debug().Enabled()` followed by
// the real `Logger.Debug()` spends two sampler decisions (and one pooled event) per call.
func ruleOneEventPerCall(r *Run, p *Prog) {
	ev := p.NamedType("", "Event")
	lg := p.NamedType("", "Logger")
	if !r.Anchor(ev != nil && lg != nil, "GATE", "Event / Logger types") {
		return
	}
	// judged with private helpers inlined (a shared `printEvent()` of the Print family); the
	// logger's own newEvent stays a call and counts as a creation
	lne := p.Method("", "Logger", "newEvent")
	creates := func(c *ssa.CallCommon) bool {
		sc := staticCallee(c)
		if sc == nil || sc.Signature.Recv() == nil || namedOf(sc.Signature.Recv().Type()) != lg {
			return false
		}
		res := sc.Signature.Results()
		return res.Len() == 1 && isPointer(res.At(0).Type()) && namedOf(res.At(0).Type()) == ev && sc.Object() != nil && (sc.Object().Exported() || sc == lne)
	}
	n := 0
	for _, f := range p.ModFns {
		if f.Blocks == nil || f.Parent() != nil || f.Object() == nil || !f.Object().Exported() {
			continue
		}
		inLogPkg := pkgRel(f) == "log"
		isPrint := pkgRel(f) == "" && f.Signature.Recv() != nil && namedOf(f.Signature.Recv().Type()) == lg && (strings.HasPrefix(f.Name(), "Print") || f.Name() == "Write")
		if !inLogPkg && !isPrint {
			continue
		}
		// only functions that finalise the event themselves (those returning *Event hand it out)
		if res := f.Signature.Results(); res.Len() == 1 && namedOf(res.At(0).Type()) == ev {
			continue
		}
		fo := f
		f = p.View(f, "keep-Logger.newEvent", func(g *ssa.Function) bool { return g == lne })
		has := false
		eachInstr(f, func(b *ssa.BasicBlock, i int, in ssa.Instruction) {
			if cc := callCommon(in); cc != nil && creates(cc) {
				has = true
			}
		})
		if !has {
			continue
		}
		_ = fo
		n++
		paths, complete := enumPaths(f, 1, 2000)
		worst := 0
		for _, pa := range paths {
			k := 0
			for _, in := range pa.Instrs() {
				if cc := callCommon(in); cc != nil && creates(cc) {
					k++
				}
			}
			if k > worst {
				worst = k
			}
		}
		okc := complete && worst <= 1
		r.Ob("GATE", FnName(f)+"/one-event-per-call", p.Pos(f.Pos()), okc, true, tern(okc, "at most one event is created per call", fmt.Sprintf("%s creates %d events on one path: every creation consults the logger's sampler, so one call spends several sampler decisions and the admitted share is no longer the documented one", FnName(f), worst)))
	}
	if n < 5 {
		r.Fail("GATE", "one-event-per-call/floor", "-", fmt.Sprintf("only %d self-finalising entry points found (package log's and Logger's Print family expected)", n))
	}
}

// ruleDisabledNeverSampled: Disabled is the largest Level, so the gate's "below the logger's level /
// below the global level" comparisons never reject it; an entry point that lets its caller choose the
// level must keep Disabled away from the sampler by an explicit test (WithLevel(Disabled) yields no
// event — if it reached should(), it would pass both comparisons and consume sampler budget for an
// event that is never written).
func ruleDisabledNeverSampled(r *Run, p *Prog) {
	lc := levelConsts(p)
	dis, ok := lc["Disabled"]
	lt := p.NamedType("", "Level")
	wl := p.Method("", "Logger", "WithLevel")
	if !r.Anchor(ok && lt != nil && wl != nil, "GATE", "const Disabled, type Level, (*Logger).WithLevel") {
		return
	}
	excludes := func(v ssa.Value) func(op token.Token, x, y ssa.Value) bool {
		return func(op token.Token, x, y ssa.Value) bool {
			k, isC := constInt(y)
			if !isC || stripChange(x) != v {
				return false
			}
			switch op {
			case token.NEQ:
				return k == dis
			case token.EQL:
				return k != dis
			case token.LSS:
				return k <= dis
			case token.LEQ:
				return k < dis
			}
			return false
		}
	}
	n := 0
	for _, f := range p.RootViews([]string{"", "log", "hlog"}, "", nil) {
		if f.Object() == nil || !f.Object().Exported() {
			continue
		}
		var lvl []*ssa.Parameter
		for _, pr := range f.Params {
			if types.Identical(pr.Type(), lt) {
				lvl = append(lvl, pr)
			}
		}
		if len(lvl) == 0 || (f.Name() == "Sample" && f.Signature.Recv() != nil) {
			continue // a sampler handing its argument to the next sampler is downstream of the gate
		}
		sites, bad, badPos := 0, "", ""
		eachInstr(f, func(b *ssa.BasicBlock, i int, in ssa.Instruction) {
			c, ok := in.(*ssa.Call)
			if !ok || !c.Call.IsInvoke() || c.Call.Method.Name() != "Sample" || len(c.Call.Args) != 1 {
				return
			}
			for _, pr := range lvl {
				if stripChange(c.Call.Args[0]) != ssa.Value(pr) {
					continue
				}
				sites++
				if !hasCmp(necessaryCmps(f, c), excludes(pr)) && bad == "" {
					bad, badPos = pr.Name(), p.Pos(c.Pos())
				}
			}
		})
		if sites == 0 && f.Name() != wl.Name() {
			continue
		}
		n++
		pos := p.Pos(f.Pos())
		if bad != "" {
			pos = badPos
		}
		r.Ob("GATE", FnName(f)+"/disabled-never-sampled", pos, bad == "", true, tern(bad == "", fmt.Sprintf("%d sampler call(s) receive the caller-chosen level, each control-dependent on a test that excludes Disabled (%d)", sites, dis), "the sampler is consulted with the caller-chosen level "+bad+" without a test that excludes Disabled: Disabled ("+itoa(int(dis))+") is above every level the gate compares with, so a "+f.Name()+"(Disabled) call — which can never produce output — passes the level gate and consumes sampler budget"))
	}
	if n == 0 {
		r.Fail("GATE", "disabled-never-sampled/sites", "-", "no exported entry point with a Level parameter was judged")
	}
}
