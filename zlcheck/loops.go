package main

import (
	"go/token"

	"golang.org/x/tools/go/ssa"
)

// rangeLoopFacts describes a `for _, x := range S { … call(x) … }` loop around a call.
type rangeLoopFacts struct {
	Hdr         *ssa.BasicBlock
	NoEarlyExit bool
	RangeAll    bool // index runs from 0 in steps of 1 to len(S), S accepted by isSlice
	EveryIter   bool // the call executes exactly once in every iteration
	Element     bool // the call's receiver/value is S[i] of this iteration
	Paths       []iterPath
	Complete    bool // Paths lists every iteration path
}

// analyseRangeLoop finds the innermost loop containing call and extracts the facts.
func analyseRangeLoop(f *ssa.Function, call ssa.Instruction, recv ssa.Value, isSlice func(ssa.Value) bool) (rangeLoopFacts, bool) {
	var out rangeLoopFacts
	var hdr *ssa.BasicBlock
	for _, b := range f.Blocks {
		if isLoopHeader(b) && loopBlocks(b)[call.Block()] {
			if hdr == nil || loopBlocks(hdr)[b] {
				hdr = b
			}
		}
	}
	if hdr == nil {
		return out, false
	}
	out.Hdr = hdr
	body := loopBlocks(hdr)
	out.NoEarlyExit = true
	for b := range body {
		if b == hdr {
			continue
		}
		for _, s := range b.Succs {
			if !body[s] {
				out.NoEarlyExit = false
			}
		}
		switch b.Instrs[len(b.Instrs)-1].(type) {
		case *ssa.Return, *ssa.Panic:
			out.NoEarlyExit = false
		}
	}
	var idx ssa.Value
	if ifi, ok := hdr.Instrs[len(hdr.Instrs)-1].(*ssa.If); ok {
		if bo, ok := ifi.Cond.(*ssa.BinOp); ok && bo.Op == token.LSS {
			if lc, ok := bo.Y.(*ssa.Call); ok && builtinName(&lc.Call) == "len" && isSlice(lc.Call.Args[0]) {
				// (a) go/ssa range loop: idx = phi+1, phi starts at -1, back edges carry idx
				if inc, ok := bo.X.(*ssa.BinOp); ok && inc.Op == token.ADD {
					if one, ok := constInt(inc.Y); ok && one == 1 {
						if ph, ok := inc.X.(*ssa.Phi); ok && ph.Block() == hdr {
							good := true
							for k, e := range ph.Edges {
								if !hdr.Dominates(hdr.Preds[k]) {
									if v, ok := constInt(e); !ok || v != -1 {
										good = false
									}
								} else if e != ssa.Value(inc) {
									good = false
								}
							}
							if good {
								out.RangeAll = true
								idx = inc
							}
						}
					}
				}
				// (b) classic index loop: idx = phi, starts at 0, back edges carry phi+1
				if ph, ok := bo.X.(*ssa.Phi); ok && ph.Block() == hdr {
					good := true
					for k, e := range ph.Edges {
						if !hdr.Dominates(hdr.Preds[k]) {
							if v, ok := constInt(e); !ok || v != 0 {
								good = false
							}
						} else {
							inc, ok := e.(*ssa.BinOp)
							one, isOne := int64(0), false
							if ok {
								one, isOne = constInt(inc.Y)
							}
							if !ok || inc.Op != token.ADD || inc.X != ssa.Value(ph) || !isOne || one != 1 {
								good = false
							}
						}
					}
					if good {
						out.RangeAll = true
						idx = ph
					}
				}
			}
		}
	}
	paths, complete := loopIterPaths(hdr, 4000)
	out.Paths = paths
	out.Complete = complete
	out.EveryIter = complete && len(paths) > 0
	for _, pa := range paths {
		c := 0
		for _, b := range pa.blocks {
			for _, in := range b.Instrs {
				if in == call {
					c++
				}
			}
		}
		if c != 1 {
			out.EveryIter = false
		}
	}
	if u, ok := recv.(*ssa.UnOp); ok && u.Op == token.MUL {
		if ia, ok := u.X.(*ssa.IndexAddr); ok && isSlice(ia.X) && idx != nil && ia.Index == idx {
			out.Element = true
		}
	}
	return out, true
}
