package main

// Small IR helpers shared by the rules: call resolution, field identification,
// path queries on the SSA control-flow graph, necessary edge conditions.

import (
	"go/constant"
	"go/token"
	"go/types"
	"sort"
	"strings"

	"golang.org/x/tools/go/ssa"
)

// ---------- generic walkers ----------

func eachInstr(f *ssa.Function, fn func(b *ssa.BasicBlock, i int, in ssa.Instruction)) {
	for _, b := range f.Blocks {
		for i, in := range b.Instrs {
			fn(b, i, in)
		}
	}
}

// callCommon returns the CallCommon of call/go/defer instructions.
func callCommon(in ssa.Instruction) *ssa.CallCommon {
	switch x := in.(type) {
	case *ssa.Call:
		return &x.Call
	case *ssa.Go:
		return &x.Call
	case *ssa.Defer:
		return &x.Call
	}
	return nil
}

// staticCallee resolves a call to its function, following immediately-made closures.
func staticCallee(c *ssa.CallCommon) *ssa.Function {
	if c == nil {
		return nil
	}
	if f := c.StaticCallee(); f != nil {
		return f
	}
	return nil
}

func builtinName(c *ssa.CallCommon) string {
	if c == nil {
		return ""
	}
	if b, ok := c.Value.(*ssa.Builtin); ok {
		return b.Name()
	}
	return ""
}

// calleeObj returns the *types.Func of the called function or interface method.
func calleeObj(c *ssa.CallCommon) *types.Func {
	if c == nil {
		return nil
	}
	if c.IsInvoke() {
		return c.Method
	}
	if f := c.StaticCallee(); f != nil {
		if o, ok := f.Object().(*types.Func); ok {
			return o
		}
	}
	return nil
}

// funcFullName renders pkgpath.Recv.Name for a types.Func.
func funcFullName(o *types.Func) string {
	if o == nil {
		return ""
	}
	return o.FullName()
}

// isCallTo reports whether the call's static callee has the given full name
// (e.g. "os.Exit", "(*sync.Mutex).Lock").
func isCallTo(c *ssa.CallCommon, full string) bool {
	o := calleeObj(c)
	return o != nil && o.FullName() == full
}

func isByteSlice(t types.Type) bool {
	s, ok := t.Underlying().(*types.Slice)
	if !ok {
		return false
	}
	b, ok := s.Elem().Underlying().(*types.Basic)
	return ok && b.Kind() == types.Uint8
}

func isPointer(t types.Type) bool { _, ok := t.Underlying().(*types.Pointer); return ok }

func derefType(t types.Type) types.Type {
	if p, ok := t.Underlying().(*types.Pointer); ok {
		return p.Elem()
	}
	return t
}

// namedOf returns the named type behind t (through one pointer) or nil.
func namedOf(t types.Type) *types.Named {
	t = derefType(t)
	n, _ := t.(*types.Named)
	if n == nil {
		if a, ok := t.(*types.Alias); ok {
			n, _ = types.Unalias(a).(*types.Named)
		}
	}
	return n
}

func typeIs(t types.Type, pkgPath, name string) bool {
	n := namedOf(t)
	if n == nil || n.Obj() == nil || n.Obj().Pkg() == nil {
		return false
	}
	return n.Obj().Name() == name && n.Obj().Pkg().Path() == pkgPath
}

// fieldVar returns the struct field selected by a FieldAddr / Field instruction.
func fieldVar(v ssa.Value) *types.Var {
	switch x := v.(type) {
	case *ssa.FieldAddr:
		st, ok := derefType(x.X.Type()).Underlying().(*types.Struct)
		if !ok {
			return nil
		}
		return st.Field(x.Field)
	case *ssa.Field:
		st, ok := x.X.Type().Underlying().(*types.Struct)
		if !ok {
			return nil
		}
		return st.Field(x.Field)
	}
	return nil
}

// loadedField: if v is `*(&x.f)` or `x.f`, return the field and the base value.
func loadedField(v ssa.Value) (*types.Var, ssa.Value) {
	switch x := v.(type) {
	case *ssa.ChangeType:
		// a conversion between types of identical underlying type keeps the value
		return loadedField(x.X)
	case *ssa.UnOp:
		if x.Op == token.MUL {
			if fa, ok := x.X.(*ssa.FieldAddr); ok {
				return fieldVar(fa), fa.X
			}
		}
	case *ssa.Field:
		return fieldVar(x), x.X
	}
	return nil, nil
}

// loadedGlobal: if v is a load of a package-level variable, return it.
func loadedGlobal(v ssa.Value) *ssa.Global {
	if ct, ok := v.(*ssa.ChangeType); ok {
		return loadedGlobal(ct.X)
	}
	if u, ok := v.(*ssa.UnOp); ok && u.Op == token.MUL {
		if g, ok := u.X.(*ssa.Global); ok {
			return g
		}
	}
	return nil
}

func isNilConst(v ssa.Value) bool {
	c, ok := v.(*ssa.Const)
	if !ok {
		return false
	}
	if c.IsNil() {
		return true
	}
	// nil of unsafe.Pointer (a basic type) is not covered by Const.IsNil
	if b, isB := c.Type().Underlying().(*types.Basic); isB && b.Kind() == types.UnsafePointer && c.Value == nil {
		return true
	}
	return false
}

func constInt(v ssa.Value) (int64, bool) {
	c, ok := v.(*ssa.Const)
	if !ok || c.Value == nil {
		return 0, false
	}
	if c.Value.Kind() != constant.Int {
		return 0, false
	}
	n, exact := constant.Int64Val(c.Value)
	return n, exact
}

func constBool(v ssa.Value) (bool, bool) {
	c, ok := v.(*ssa.Const)
	if !ok || c.Value == nil || c.Value.Kind() != constant.Bool {
		return false, false
	}
	return constant.BoolVal(c.Value), true
}

func constString(v ssa.Value) (string, bool) {
	c, ok := v.(*ssa.Const)
	if !ok || c.Value == nil || c.Value.Kind() != constant.String {
		return "", false
	}
	return constant.StringVal(c.Value), true
}

// stripConv removes value-preserving wrappers (ChangeType, MakeInterface is kept).
func stripChange(v ssa.Value) ssa.Value {
	for {
		switch x := v.(type) {
		case *ssa.ChangeType:
			v = x.X
		default:
			return v
		}
	}
}

// ---------- CFG path queries ----------

type instrPos struct {
	b *ssa.BasicBlock
	i int
}

func posOf(in ssa.Instruction) instrPos {
	b := in.Block()
	for i, x := range b.Instrs {
		if x == in {
			return instrPos{b, i}
		}
	}
	return instrPos{b, 0}
}

// edgeFilter decides whether the CFG edge from block b to its succ index si may be taken.
type edgeFilter func(b *ssa.BasicBlock, si int) bool

// pathExists reports whether some CFG path starting right after `from`
// (or at the function entry when from == nil) reaches an instruction satisfying
// `target` without first executing an instruction satisfying `avoid`.
// Returns the witness path of blocks when found.
func pathExists(f *ssa.Function, from ssa.Instruction, target, avoid func(ssa.Instruction) bool, ef edgeFilter) (bool, []*ssa.BasicBlock) {
	if len(f.Blocks) == 0 {
		return false, nil
	}
	type item struct {
		b     *ssa.BasicBlock
		start int
		path  []*ssa.BasicBlock
	}
	var st []item
	visited := map[*ssa.BasicBlock]bool{}
	if from == nil {
		st = append(st, item{f.Blocks[0], 0, []*ssa.BasicBlock{f.Blocks[0]}})
		visited[f.Blocks[0]] = true
	} else {
		p := posOf(from)
		st = append(st, item{p.b, p.i + 1, []*ssa.BasicBlock{p.b}})
	}
	for len(st) > 0 {
		it := st[len(st)-1]
		st = st[:len(st)-1]
		blocked := false
		for i := it.start; i < len(it.b.Instrs); i++ {
			in := it.b.Instrs[i]
			if avoid != nil && avoid(in) {
				blocked = true
				break
			}
			if target(in) {
				return true, it.path
			}
		}
		if blocked {
			continue
		}
		for si, s := range it.b.Succs {
			if ef != nil && !ef(it.b, si) {
				continue
			}
			if visited[s] {
				continue
			}
			visited[s] = true
			np := append(append([]*ssa.BasicBlock{}, it.path...), s)
			st = append(st, item{s, 0, np})
		}
	}
	return false, nil
}

func isReturn(in ssa.Instruction) bool { _, ok := in.(*ssa.Return); return ok }

// isExit: return or panic (end of a path).
func isExit(in ssa.Instruction) bool {
	switch in.(type) {
	case *ssa.Return, *ssa.Panic:
		return true
	}
	return false
}

func blockPath(p *Prog, path []*ssa.BasicBlock) []string {
	var out []string
	for _, b := range path {
		pos := token.NoPos
		for _, in := range b.Instrs {
			if in.Pos().IsValid() {
				pos = in.Pos()
				break
			}
		}
		c := b.Comment
		out = append(out, "block "+itoa(b.Index)+" ("+c+") "+p.Pos(pos))
	}
	return out
}

func itoa(n int) string {
	if n == 0 {
		return "0"
	}
	neg := n < 0
	if neg {
		n = -n
	}
	var b []byte
	for n > 0 {
		b = append([]byte{byte('0' + n%10)}, b...)
		n /= 10
	}
	if neg {
		b = append([]byte{'-'}, b...)
	}
	return string(b)
}

// ---------- necessary edge conditions ----------

// CondEdge is "the If at the end of block B took its true (Pol) / false (!Pol) edge".
type CondEdge struct {
	If  *ssa.If
	Pol bool
}

// necessaryEdges returns the If-edges that every path from the entry to the
// instruction `at` must take (edge deletion makes `at` unreachable).
func necessaryEdges(f *ssa.Function, at ssa.Instruction) []CondEdge {
	var out []CondEdge
	target := func(in ssa.Instruction) bool { return in == at }
	for _, b := range f.Blocks {
		ifi, ok := b.Instrs[len(b.Instrs)-1].(*ssa.If)
		if !ok {
			continue
		}
		if b.Succs[0] == b.Succs[1] {
			continue
		}
		for si := 0; si < 2; si++ {
			bb, ssi := b, si
			ok, _ := pathExists(f, nil, target, nil, func(x *ssa.BasicBlock, i int) bool { return !(x == bb && i == ssi) })
			if !ok {
				// deleting edge si disconnects `at`: edge si is necessary
				// (unless `at` is unreachable altogether)
				if r, _ := pathExists(f, nil, target, nil, nil); r {
					out = append(out, CondEdge{ifi, si == 0})
				}
			}
		}
	}
	return out
}

// Cmp is a normalised comparison  X op Y  that holds on a CondEdge.
type Cmp struct {
	Op   token.Token
	X, Y ssa.Value
}

func negateOp(op token.Token) token.Token {
	switch op {
	case token.EQL:
		return token.NEQ
	case token.NEQ:
		return token.EQL
	case token.LSS:
		return token.GEQ
	case token.GEQ:
		return token.LSS
	case token.GTR:
		return token.LEQ
	case token.LEQ:
		return token.GTR
	}
	return token.ILLEGAL
}

func swapOp(op token.Token) token.Token {
	switch op {
	case token.LSS:
		return token.GTR
	case token.GTR:
		return token.LSS
	case token.LEQ:
		return token.GEQ
	case token.GEQ:
		return token.LEQ
	}
	return op
}

// cmpOf returns the comparison that is true on the edge, if the condition is a
// comparison (possibly under `!`). Boolean values are rendered as  v == true/false.
func cmpOf(e CondEdge) (Cmp, bool) {
	v := e.If.Cond
	pol := e.Pol
	for {
		if u, ok := v.(*ssa.UnOp); ok && u.Op == token.NOT {
			v = u.X
			pol = !pol
			continue
		}
		break
	}
	if b, ok := v.(*ssa.BinOp); ok {
		switch b.Op {
		case token.EQL, token.NEQ, token.LSS, token.LEQ, token.GTR, token.GEQ:
			op := b.Op
			if !pol {
				op = negateOp(op)
			}
			return Cmp{op, b.X, b.Y}, true
		}
	}
	// boolean value
	op := token.EQL
	return Cmp{op, v, ssa.NewConst(constant.MakeBool(pol), types.Typ[types.Bool])}, true
}

// necessaryCmps lists the comparisons that hold whenever `at` executes.
func necessaryCmps(f *ssa.Function, at ssa.Instruction) []Cmp {
	var out []Cmp
	for _, e := range necessaryEdges(f, at) {
		if c, ok := cmpOf(e); ok {
			out = append(out, c)
		}
	}
	return out
}

// ---------- description of values (for diagnostics and table extraction) ----------

// descr renders an SSA value structurally: parameters, fields, globals, constants, calls.
func descr(v ssa.Value) string {
	return descrN(v, 0)
}

func descrN(v ssa.Value, depth int) string {
	if v == nil {
		return "<nil>"
	}
	if depth > 6 {
		return "…"
	}
	switch x := v.(type) {
	case *ssa.Const:
		if x.Value == nil {
			return "nil"
		}
		return x.Value.ExactString()
	case *ssa.Parameter:
		return "param:" + x.Name()
	case *ssa.Global:
		return "&global:" + x.Name()
	case *ssa.FreeVar:
		return "freevar:" + x.Name()
	case *ssa.Function:
		return "func:" + FnName(x)
	case *ssa.UnOp:
		if x.Op == token.MUL {
			if g, ok := x.X.(*ssa.Global); ok {
				return "global:" + g.Name()
			}
			if fa, ok := x.X.(*ssa.FieldAddr); ok {
				if fv := fieldVar(fa); fv != nil {
					return descrN(fa.X, depth+1) + "." + fname(fv)
				}
			}
			return "*" + descrN(x.X, depth+1)
		}
		return x.Op.String() + descrN(x.X, depth+1)
	case *ssa.FieldAddr:
		if fv := fieldVar(x); fv != nil {
			return "&" + descrN(x.X, depth+1) + "." + fname(fv)
		}
	case *ssa.Field:
		if fv := fieldVar(x); fv != nil {
			return descrN(x.X, depth+1) + "." + fname(fv)
		}
	case *ssa.BinOp:
		return "(" + descrN(x.X, depth+1) + " " + x.Op.String() + " " + descrN(x.Y, depth+1) + ")"
	case *ssa.Convert:
		return types.TypeString(x.Type(), shortQual) + "(" + descrN(x.X, depth+1) + ")"
	case *ssa.ChangeType:
		return descrN(x.X, depth+1)
	case *ssa.MakeInterface:
		return "iface(" + descrN(x.X, depth+1) + ")"
	case *ssa.Call:
		if b := builtinName(&x.Call); b != "" {
			var as []string
			for _, a := range x.Call.Args {
				as = append(as, descrN(a, depth+1))
			}
			return b + "(" + strings.Join(as, ",") + ")"
		}
		if o := calleeObj(&x.Call); o != nil {
			var as []string
			for _, a := range x.Call.Args {
				as = append(as, descrN(a, depth+1))
			}
			name := o.Name()
			if x.Call.IsInvoke() {
				return descrN(x.Call.Value, depth+1) + "." + name + "(" + strings.Join(as, ",") + ")"
			}
			return name + "(" + strings.Join(as, ",") + ")"
		}
		return "call(" + descrN(x.Call.Value, depth+1) + ")"
	case *ssa.Phi:
		if depth > 0 {
			return "phi:" + x.Name()
		}
		var es []string
		for _, e := range x.Edges {
			if e == v {
				continue
			}
			es = append(es, descrN(e, depth+2))
		}
		sort.Strings(es)
		return "phi[" + strings.Join(es, "|") + "]"
	case *ssa.Extract:
		return descrN(x.Tuple, depth+1) + "#" + itoa(x.Index)
	case *ssa.Alloc:
		return "alloc:" + x.Comment
	case *ssa.Slice:
		return descrN(x.X, depth+1) + "[" + optDescr(x.Low, depth) + ":" + optDescr(x.High, depth) + "]"
	case *ssa.IndexAddr:
		return "&" + descrN(x.X, depth+1) + "[" + descrN(x.Index, depth+1) + "]"
	case *ssa.Index:
		return descrN(x.X, depth+1) + "[" + descrN(x.Index, depth+1) + "]"
	case *ssa.Lookup:
		return descrN(x.X, depth+1) + "[" + descrN(x.Index, depth+1) + "]"
	case *ssa.TypeAssert:
		return descrN(x.X, depth+1) + ".(" + types.TypeString(x.AssertedType, shortQual) + ")"
	case *ssa.MakeClosure:
		return "closure:" + FnName(x.Fn.(*ssa.Function))
	}
	return v.Name() + ":" + strings.TrimPrefix(strings.TrimPrefix(types.TypeString(v.Type(), shortQual), "*"), "ssa.")
}

func optDescr(v ssa.Value, depth int) string {
	if v == nil {
		return ""
	}
	return descrN(v, depth+1)
}

func shortQual(p *types.Package) string {
	if p == nil {
		return ""
	}
	return p.Name()
}

// sameValue: structural identity of two SSA values in the same function (object identity,
// or both loads of the same field of the same base / same global, or equal constants).
func sameValue(a, b ssa.Value) bool {
	if a == b {
		return true
	}
	if ca, ok := a.(*ssa.Const); ok {
		if cb, ok := b.(*ssa.Const); ok {
			if ca.Value == nil || cb.Value == nil {
				return ca.Value == nil && cb.Value == nil
			}
			return constant.Compare(ca.Value, token.EQL, cb.Value)
		}
		return false
	}
	fa, ba := loadedField(a)
	fb, bb := loadedField(b)
	if fa != nil && fa == fb {
		return sameValue(ba, bb)
	}
	ga, gb := loadedGlobal(a), loadedGlobal(b)
	if ga != nil && ga == gb {
		return true
	}
	// go/ssa does no CSE: i+1 computed twice are two values
	if xa, ok := a.(*ssa.BinOp); ok {
		if xb, ok := b.(*ssa.BinOp); ok && xa.Op == xb.Op {
			return sameValue(xa.X, xb.X) && sameValue(xa.Y, xb.Y)
		}
	}
	return false
}

// referrersOf returns the instructions using v (nil-safe).
func referrersOf(v ssa.Value) []ssa.Instruction {
	r := v.Referrers()
	if r == nil {
		return nil
	}
	return *r
}

// enclosingLoopHeader: a block is a loop header if one of its predecessors is dominated by it.
func isLoopHeader(b *ssa.BasicBlock) bool {
	for _, p := range b.Preds {
		if b.Dominates(p) {
			return true
		}
	}
	return false
}

// loopBlocks returns the natural loop of header h (blocks that can reach a back edge
// source without leaving through h).
func loopBlocks(h *ssa.BasicBlock) map[*ssa.BasicBlock]bool {
	body := map[*ssa.BasicBlock]bool{h: true}
	var stack []*ssa.BasicBlock
	for _, p := range h.Preds {
		if h.Dominates(p) && !body[p] {
			body[p] = true
			stack = append(stack, p)
		}
	}
	for len(stack) > 0 {
		b := stack[len(stack)-1]
		stack = stack[:len(stack)-1]
		for _, p := range b.Preds {
			if !body[p] {
				body[p] = true
				stack = append(stack, p)
			}
		}
	}
	return body
}

type types_Signature = types.Signature

// signatureOf returns the signature of the called function or method.
func signatureOf(c *ssa.CallCommon) *types.Signature {
	if c.IsInvoke() {
		s, _ := c.Method.Type().(*types.Signature)
		return s
	}
	s, _ := c.Value.Type().Underlying().(*types.Signature)
	return s
}

type typesStruct = types.Struct

type ssaGlobal = ssa.Global

type typesSlice = types.Slice
