package main

import (
	"fmt"
	"go/token"
	"strings"

	"golang.org/x/tools/go/ssa"
)

func init() { register("C15", checkC15) }

func checkC15(r *Run) {
	r.Explain = "Decides the structural clauses of TriggerLevelWriter: A15a buf/triggered and the wrapped writer are touched only with w.mu held (all public methods lock; trigger() is only called with the lock held); TLW-PATH a path table of WriteLevel: trigger() is called exactly under !triggered && l >= TriggerLevel and before any write of the triggering line; a line is held back exactly under !triggered && l <= ConditionalLevel, as one level byte byte(l) followed by p, reporting len(p), nil and writing nothing to the destination; every other path hands (l, p) to the destination exactly once; TLW-FRAME trigger() latches triggered (the only stores anywhere are the constant true), walks the buffer front to back splitting at '\\n', and re-emits each line as (Level(line[0]), line[1:]) — the inverse of the byte(l)+p framing (int8<->uint8 is a bit-preserving round trip, so negative levels and levels above 127 survive); buf.Bytes() is read only by trigger(), so held lines cannot reach the destination unless the trigger fires; every return of the explicit Trigger() leaves the latch set (also when nothing is held); A13 the pooled hold-back buffer is owned by one writer at a time (no use after it was put back, no double put, the field is cleared when the buffer returns to the pool). A13d every *bytes.Buffer put into a module pool is empty on every path to the Put (WriteLevel appends to what Get returns without clearing it, so a writer sharing the pool that puts back a used buffer injects its bytes into the held lines). Every return of Close leaves the hold-back buffer detached; A15a no-relock: no method calls, with the mutex held, a method of the same writer that acquires it. FILTER (shared with C14): a FilteredLevelWriter in front forwards through WriteLevel with the level (through Write the embedded destination is reached past hold and trigger). WCOUNT (shared with C14): module destinations report len(p) for a line they accepted, so a replayed held line is not turned into a short write that aborts the flush."
	r.NotDec = "Behaviour over arbitrary histories as such (the re-splitting relies on the stated input restriction: newline-terminated lines without interior newlines, level byte != 10); error returns of the destination during a flush."
	r.Assume = []string{"lines are newline-terminated and contain no interior newline; level byte != '\\n' (property's input restriction)"}
	p := r.Use("J")
	if p == nil {
		return
	}
	ruleA15a(r, p, "A15a", "", "TriggerLevelWriter")
	ruleTLWPaths(r, p)
	ruleTLWFrame(r, p)
	// the hold-back buffer comes from a pool shared by all TriggerLevelWriters: single ownership
	// (no use after put, no double put, the field cleared when the buffer goes back) is what keeps
	// one writer's held lines out of another writer's destination
	ruleA13Filtered(r, p, map[string]bool{"": true}, "ab", func(root *ssa.Function) bool {
		return root.Signature.Recv() != nil && typeIs(root.Signature.Recv().Type(), modPath, "TriggerLevelWriter")
	})
	ruleTLWCloseDrops(r, p)
	// WriteLevel appends to the buffer it takes from the pool without clearing it: every Put into
	// that pool, by whichever writer shares it, must hand back an empty buffer on every path
	ruleBufferPoolClean(r, p, []string{""})
	// a FilteredLevelWriter in front of the trigger writer must forward through WriteLevel with the
	// level: through Write the embedded destination is reached directly, past hold and trigger
	ruleFilteredWriter(r, p)
	// a destination of this module that reports a count other than len(p) for a line it accepted
	// turns a replayed held line into a short write and aborts the flush (WCOUNT, shared with C14)
	ruleWriterCount(r, p, "WCOUNT", []string{"", "journald", "diode"}, map[string]string{"multiLevelWriter": "the fan-out itself (FANOUT in C14 decides its count and error)"})
	r.Floor("A13d", 2)
	r.Floor("A13a", 2)
	r.Floor("A15a", 10)
	r.Floor("TLW-PATH", 8)
	r.Floor("TLW-FRAME", 6)
}

func ruleTLWPaths(r *Run, p *Prog) {
	f := p.Method("", "TriggerLevelWriter", "WriteLevel")
	trig := p.Method("", "TriggerLevelWriter", "trigger")
	if !r.Anchor(f != nil && trig != nil, "TLW-PATH", "(*TriggerLevelWriter).WriteLevel and trigger") {
		return
	}
	f = p.View(f, "keep-trigger", func(g *ssa.Function) bool { return g == trig })
	paths, complete := enumPaths(f, 1, 20000)
	if !complete {
		r.Fail("TLW-PATH", FnName(f)+"/paths", p.Pos(f.Pos()), "cannot enumerate paths")
		return
	}
	lv, pp := f.Params[1], f.Params[2]
	isFld := func(name string) func(ssa.Value) bool {
		return func(v ssa.Value) bool { return isFieldOfParam(v, f, 0, name) }
	}
	isTrig, isTL, isCL := isFld("triggered"), isFld("TriggerLevel"), isFld("ConditionalLevel")
	classes := map[string]int{}
	for i, pa := range paths {
		ret, _ := pa.Exit.(*ssa.Return)
		if ret == nil {
			r.Ob("TLW-PATH", fmt.Sprintf("%s/path#%d", FnName(f), i), p.Pos(pa.Exit.Pos()), false, true, "path ends in panic")
			continue
		}
		// ordered events and conditions
		var events []string
		var evInstr []ssa.Instruction
		okOperands := true
		for _, in := range pa.Instrs() {
			c, ok := in.(*ssa.Call)
			if !ok {
				continue
			}
			switch {
			case staticCallee(&c.Call) == trig:
				events = append(events, "trigger")
				evInstr = append(evInstr, c)
			case isCallTo(&c.Call, "(*bytes.Buffer).WriteByte"):
				events = append(events, "levelbyte")
				cv, ok := c.Call.Args[1].(*ssa.Convert)
				if !ok || cv.X != ssa.Value(lv) || !isFld("buf")(c.Call.Args[0]) {
					okOperands = false
				}
			case isCallTo(&c.Call, "(*bytes.Buffer).Write"):
				events = append(events, "hold")
				if c.Call.Args[1] != ssa.Value(pp) || !isFld("buf")(c.Call.Args[0]) {
					okOperands = false
				}
			case c.Call.IsInvoke() && c.Call.Method.Name() == "WriteLevel":
				events = append(events, "dest")
				if len(c.Call.Args) != 2 || c.Call.Args[0] != ssa.Value(lv) || c.Call.Args[1] != ssa.Value(pp) {
					okOperands = false
				}
			case (c.Call.IsInvoke() && c.Call.Method.Name() == "Write") || (staticCallee(&c.Call) != nil && staticCallee(&c.Call).Name() == "Write" && len(c.Call.Args) == 2 && c.Call.Args[1] == ssa.Value(pp)):
				events = append(events, "dest")
				last := c.Call.Args[len(c.Call.Args)-1]
				if last != ssa.Value(pp) {
					okOperands = false
				}
			}
		}
		// conditions in path order: loads of `triggered` are distinct values; take them in order
		var trigReads []bool // value of each read of w.triggered along the path
		var lastTrigRead ssa.Instruction
		geTrig, ltTrig, leCond, gtCond := false, false, false, false
		trigErr := false
		infeasible := false
		for _, e := range pa.Edges {
			c, ok := cmpOf(e)
			if !ok {
				continue
			}
			if isTrig(c.X) {
				if b, ok := constBool(c.Y); ok {
					val := (c.Op == token.EQL) == b
					// two reads of w.triggered with nothing in between that can change it must agree
					if len(trigReads) > 0 && trigReads[len(trigReads)-1] != val {
						prev := lastTrigRead
						cur, _ := c.X.(ssa.Instruction)
						if prev != nil && cur != nil && !mayChangeBetween(pa, prev, cur, trig) {
							infeasible = true
						}
					}
					lastTrigRead, _ = c.X.(ssa.Instruction)
					trigReads = append(trigReads, val)
				}
			}
			if c.X == ssa.Value(lv) && isTL(c.Y) {
				geTrig = geTrig || c.Op == token.GEQ
				ltTrig = ltTrig || c.Op == token.LSS
			}
			if c.X == ssa.Value(lv) && isCL(c.Y) {
				leCond = leCond || c.Op == token.LEQ
				gtCond = gtCond || c.Op == token.GTR
			}
			if call, ok := c.X.(*ssa.Call); ok && staticCallee(&call.Call) == trig && c.Op == token.NEQ && isNilConst(c.Y) {
				trigErr = true
			}
		}
		if infeasible {
			continue
		}
		seq := strings.Join(events, "→")
		cons := fmt.Sprintf("%s/path#%d", FnName(f), i)
		calledTrig := contains(events, "trigger")
		firstUntriggered := len(trigReads) > 0 && !trigReads[0]
		wantTrig := firstUntriggered && geTrig
		var ok bool
		var d string
		switch {
		case calledTrig != wantTrig:
			ok, d = false, "trigger() is "+tern(calledTrig, "", "not ")+"called on a path with conditions ["+pa.String(p)+"]: it must run exactly under !triggered && l >= TriggerLevel"
		case trigErr:
			ok = !contains(events, "dest") && !contains(events, "hold")
			d = "flush error is returned without writing the triggering line"
			classes["trigger-error"]++
		default:
			rest := events
			if calledTrig {
				ok = events[0] == "trigger"
				rest = events[1:]
				if !ok {
					d = "the triggering line is handled before the held lines are flushed (" + seq + ")"
					break
				}
			}
			lastUntriggered := len(trigReads) > 0 && !trigReads[len(trigReads)-1]
			holding := strings.Join(rest, "→") == "levelbyte→hold"
			if holding {
				n := pa.Resolve(ret.Results[0])
				e := pa.Resolve(ret.Results[1])
				lenP := false
				if c, isC := n.(*ssa.Call); isC && builtinName(&c.Call) == "len" && c.Call.Args[0] == ssa.Value(pp) {
					lenP = true
				}
				ok = lastUntriggered && leCond && lenP && isNilConst(e) && (ltTrig || calledTrig)
				d = tern(ok, "held back: level byte then the line, reports len(p), nil", "a line is held back without !triggered && l <= ConditionalLevel (and l < TriggerLevel: a line at or above TriggerLevel must fire the trigger, not be held), or does not report (len(p), nil)")
				classes["hold"]++
			} else if strings.Join(rest, "→") == "dest" {
				ok = !(lastUntriggered && leCond)
				d = tern(ok, "passed to the destination once with (l, p)", "a line that must be held back (!triggered && l <= ConditionalLevel) is written through")
				classes["pass"]++
			} else {
				ok = false
				d = "unexpected event sequence " + seq + ": every line is either held (level byte + line) or written to the destination exactly once"
			}
		}
		if !okOperands {
			ok = false
			d = "operands are not the unmodified (l, p): " + seq
		}
		r.Ob("TLW-PATH", cons, p.Pos(ret.Pos()), ok, true, d)
	}
	for _, k := range []string{"hold", "pass"} {
		if classes[k] == 0 {
			r.Ob("TLW-PATH", FnName(f)+"/class-"+k, p.Pos(f.Pos()), false, true, "WriteLevel has no path of kind "+k)
		}
	}
	_ = gtOrFalse
}

var gtOrFalse = false

func ruleTLWFrame(r *Run, p *Prog) {
	trig := p.Method("", "TriggerLevelWriter", "trigger")
	if trig == nil {
		return
	}
	fn := FnName(trig)
	trigSet := p.exclusiveHelpers(trig)
	// latch: every store to `triggered` anywhere is the constant true
	n := 0
	for _, f := range p.ModFns {
		eachInstr(f, func(b *ssa.BasicBlock, i int, in ssa.Instruction) {
			st, ok := in.(*ssa.Store)
			if !ok {
				return
			}
			fa, ok := st.Addr.(*ssa.FieldAddr)
			if !ok || !typeIs(fa.X.Type(), modPath, "TriggerLevelWriter") || fname(fieldVar(fa)) != "triggered" {
				return
			}
			n++
			bv, isB := constBool(st.Val)
			r.Ob("TLW-FRAME", FnName(f)+"/latch", p.Pos(st.Pos()), isB && bv && trigSet[f], true, tern(isB && bv && trigSet[f], "triggered is only ever set to true, by trigger()", "triggered is stored with "+descr(st.Val)+" in "+FnName(f)+": the latch can be released and lines held again"))
		})
	}
	if n == 0 {
		r.Ob("TLW-FRAME", fn+"/latch", p.Pos(trig.Pos()), false, true, "trigger() never sets triggered")
	}
	// the explicit Trigger() latches on every path: it returns with `triggered` set (by it, or
	// already), whether or not lines are held — a later low-level line must pass at once
	if tr := p.Method("", "TriggerLevelWriter", "Trigger"); r.Anchor(tr != nil, "TLW-FRAME", "(*TriggerLevelWriter).Trigger") {
		tv := p.View(tr, "", nil)
		paths, complete := enumPaths(tv, 2, 5000)
		isTrigField := func(v ssa.Value) bool {
			fv, base := loadedField(v)
			return fv != nil && fname(fv) == "triggered" && typeIs(base.Type(), modPath, "TriggerLevelWriter")
		}
		okAll, nRet := complete, 0
		for _, pa := range paths {
			if _, isRet := pa.Exit.(*ssa.Return); !isRet {
				continue
			}
			nRet++
			latched := hasCmp(pa.Cmps(), func(op token.Token, x, y ssa.Value) bool {
				b, ok := constBool(y)
				return ok && isTrigField(x) && ((op == token.EQL && b) || (op == token.NEQ && !b))
			})
			for _, in := range pa.Instrs() {
				if st, ok := in.(*ssa.Store); ok {
					if fa, ok := st.Addr.(*ssa.FieldAddr); ok && typeIs(fa.X.Type(), modPath, "TriggerLevelWriter") && fname(fieldVar(fa)) == "triggered" {
						if bv, isB := constBool(st.Val); isB && bv {
							latched = true
						}
					}
				}
			}
			if !latched {
				okAll = false
			}
		}
		okc := okAll && nRet > 0
		r.Ob("TLW-FRAME", FnName(tr)+"/latches-on-every-path", p.Pos(tr.Pos()), okc, true, tern(okc, "every return of Trigger() leaves triggered set", "Trigger() can return without having set triggered (a shortcut before the latch, e.g. when nothing is held): lines at or below the conditional level written afterwards are held back instead of passing"))
	}
	// buf.Bytes() only read by trigger
	for _, f := range p.ModFns {
		eachInstr(f, func(b *ssa.BasicBlock, i int, in ssa.Instruction) {
			c, ok := in.(*ssa.Call)
			if !ok || !(isCallTo(&c.Call, "(*bytes.Buffer).Bytes") || isCallTo(&c.Call, "(*bytes.Buffer).String") || isCallTo(&c.Call, "(*bytes.Buffer).WriteTo")) {
				return
			}
			fv, base := loadedField(c.Call.Args[0])
			if fv == nil || fname(fv) != "buf" || !typeIs(base.Type(), modPath, "TriggerLevelWriter") {
				return
			}
			r.Ob("TLW-FRAME", FnName(f)+"/reads-buf", p.Pos(c.Pos()), trigSet[f], true, tern(trigSet[f], "held lines are read only by trigger()", "held lines are read outside trigger(): they can reach the destination without the trigger firing"))
		})
	}
	// the flush loop: dest(level=Level(line[0]), line[1:]) with line = p[0:i+1], p = p[i+1:], i = IndexByte(p,'\n')
	var dests []*ssa.Call
	trigV := p.View(trig, "", nil)
	eachInstr(trigV, func(b *ssa.BasicBlock, i int, in ssa.Instruction) {
		if c, ok := in.(*ssa.Call); ok {
			if c.Call.IsInvoke() && (c.Call.Method.Name() == "WriteLevel" || c.Call.Method.Name() == "Write") {
				dests = append(dests, c)
			} else if sc := staticCallee(&c.Call); sc != nil && sc.Name() == "Write" && sc != trig && len(c.Call.Args) == 2 && isByteSlice(c.Call.Args[1].Type()) && !isCallTo(&c.Call, "(*bytes.Buffer).Write") {
				dests = append(dests, c)
			}
		}
	})
	if len(dests) == 0 {
		r.Ob("TLW-FRAME", fn+"/flush", p.Pos(trig.Pos()), false, true, "trigger() does not write the held lines to the destination")
		return
	}
	for _, c := range dests {
		args := c.Call.Args
		payload := args[len(args)-1]
		okPayload, okLevel := false, true
		var lineSlice ssa.Value
		if sl, ok := payload.(*ssa.Slice); ok {
			if lo, ok := constInt(sl.Low); ok && lo == 1 && sl.High == nil {
				lineSlice = sl.X
				okPayload = true
			}
		}
		if c.Call.IsInvoke() && c.Call.Method.Name() == "WriteLevel" {
			okLevel = false
			if cv, ok := args[0].(*ssa.Convert); ok && typeIs(cv.Type(), modPath, "Level") {
				if ld, ok := cv.X.(*ssa.UnOp); ok && ld.Op == token.MUL {
					if ia, ok := ld.X.(*ssa.IndexAddr); ok {
						if k, ok := constInt(ia.Index); ok && k == 0 && ia.X == lineSlice {
							okLevel = true
						}
					}
				}
			}
		}
		// line = p[0:i+1]; i = IndexByte(p, '\n'); next p = p[i+1:]
		okSplit := false
		if ls, ok := lineSlice.(*ssa.Slice); ok {
			if hi, ok := ls.High.(*ssa.BinOp); ok && hi.Op == token.ADD {
				if one, ok := constInt(hi.Y); ok && one == 1 {
					if ib, ok := hi.X.(*ssa.Call); ok && isCallTo(&ib.Call, "bytes.IndexByte") && ib.Call.Args[0] == ls.X {
						if nl, ok := constInt(ib.Call.Args[1]); ok && nl == '\n' {
							lo, isLo := constInt(ls.Low)
							if ls.Low == nil || (isLo && lo == 0) {
								// p advances to p[i+1:]
								if ph, ok := ls.X.(*ssa.Phi); ok {
									for _, e := range ph.Edges {
										if nx, ok := e.(*ssa.Slice); ok && nx.X == ssa.Value(ph) && nx.High == nil && nx.Low != nil && sameValue(nx.Low, hi) {
											okSplit = true
										}
									}
								}
							}
						}
					}
				}
			}
		}
		good := okPayload && okLevel && okSplit
		destName := "Write"
		if c.Call.Method != nil {
			destName = c.Call.Method.Name()
		} else if sc := staticCallee(&c.Call); sc != nil {
			destName = sc.Name()
		}
		r.Ob("TLW-FRAME", fn+"/flush:"+destName, p.Pos(c.Pos()), good, true, tern(good, "held lines are re-emitted front to back as (Level(line[0]), line[1:]) with line = p[:i+1], p = p[i+1:], i = IndexByte(p,'\\n')", "the flush does not undo the framing (payload line[1:]="+boolStr(okPayload)+", level Level(line[0])="+boolStr(okLevel)+", split at newline and advance="+boolStr(okSplit)+")"))
	}
	// trigger() is only called with the lock held
	named := p.NamedType("", "TriggerLevelWriter")
	if named != nil {
		li := &lockInfo{p: p, expects: map[*ssa.Function]int{}, named: named}
		st := named.Underlying().(interface{ NumFields() int })
		_ = st
		if s, ok := named.Underlying().(*typesStruct); ok {
			for i := 0; i < s.NumFields(); i++ {
				if isMutexType(s.Field(i).Type()) {
					li.mu = s.Field(i)
				}
			}
		}
		if li.mu != nil {
			for cf, sites := range callersOf(p, trig, "*") {
				for _, s := range sites {
					held := s != nil && li.heldAt(cf, s)
					r.Ob("TLW-FRAME", FnName(cf)+"/calls-trigger-locked", p.Pos(cf.Pos()), held, true, tern(held, "trigger() called with the mutex held", "trigger() is called without the mutex"))
				}
			}
		}
	}
}

// mayChangeBetween: between two instructions on the path, is there a store to a field or a call
// to a module function (which could store)?
func mayChangeBetween(pa Path, a, b ssa.Instruction, trig *ssa.Function) bool {
	on := false
	for _, in := range pa.Instrs() {
		if in == a {
			on = true
			continue
		}
		if in == b {
			return false
		}
		if !on {
			continue
		}
		switch x := in.(type) {
		case *ssa.Store:
			if _, ok := x.Addr.(*ssa.FieldAddr); ok {
				return true
			}
		case *ssa.Call:
			if sc := staticCallee(&x.Call); sc != nil && InModule(sc) {
				return true
			}
			if x.Call.IsInvoke() {
				return true
			}
		}
	}
	return false
}

// ruleTLWCloseDrops: Close discards the held lines whatever their size: every return of Close
// leaves w.buf nil (the buffer is either back in the pool or — above the reuse limit — dropped).
// A buffer that stays attached keeps lines of the closed request; the next trigger writes them out.
func ruleTLWCloseDrops(r *Run, p *Prog) {
	cl := p.Method("", "TriggerLevelWriter", "Close")
	if !r.Anchor(cl != nil, "TLW-FRAME", "(*TriggerLevelWriter).Close") {
		return
	}
	v := p.View(cl, "", nil)
	paths, complete := enumPaths(v, 2, 5000)
	isBuf := func(x ssa.Value) bool {
		fv, base := loadedField(x)
		return fv != nil && fname(fv) == "buf" && typeIs(base.Type(), modPath, "TriggerLevelWriter")
	}
	okAll, nRet := complete, 0
	for _, pa := range paths {
		if _, isRet := pa.Exit.(*ssa.Return); !isRet {
			continue
		}
		nRet++
		dropped := hasCmp(pa.Cmps(), func(op token.Token, x, y ssa.Value) bool {
			return isBuf(x) && isNilConst(y) && op == token.EQL
		})
		for _, in := range pa.Instrs() {
			if st, ok := in.(*ssa.Store); ok {
				if fa, ok := st.Addr.(*ssa.FieldAddr); ok && typeIs(fa.X.Type(), modPath, "TriggerLevelWriter") && fname(fieldVar(fa)) == "buf" {
					dropped = isNilConst(st.Val)
				}
			}
		}
		if !dropped {
			okAll = false
		}
	}
	okc := okAll && nRet > 0
	r.Ob("TLW-FRAME", FnName(cl)+"/drops-held-lines", p.Pos(cl.Pos()), okc, true, tern(okc, "every return of Close leaves buf nil", "Close can return with the hold-back buffer still attached (e.g. when it grew above the reuse limit): its lines belong to the closed request and are written out by the next trigger"))
}
