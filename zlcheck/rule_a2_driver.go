package main

import (
	"fmt"
	"sort"
	"strings"

	"golang.org/x/tools/go/ssa"
)

// ruleA2 runs the typestate analysis from every exported entry of the front-end and checks
// that each one maps the public invariant of its carrier to itself.
func ruleA2(r *Run, p *Prog) *a2 {
	a := newA2(r, p)
	if !r.Anchor(a.ok(), "A2", "carrier types Event/Array/Logger/Context with one []byte field each, and the enc binding") {
		return nil
	}
	type root struct {
		f *ssa.Function
	}
	// The per-build hooks appendJSON / appendCBOR are taken as value primitives by contract (their
	// interior belongs to A4).  The contract has one structural part that is checked here: the
	// hook never returns its destination unchanged — a path that appends nothing leaves the key
	// already written by the caller without a value.
	for _, hn := range []string{"appendJSON", "appendCBOR"} {
		h := p.Func("", hn)
		if !r.Anchor(h != nil && len(h.Params) >= 1, "A2", "per-build hook "+hn) {
			continue
		}
		hv := p.View(h, "", nil)
		dstPar := ssa.Value(hv.Params[0])
		unchanged := false
		var carries func(v ssa.Value, depth int) bool
		carries = func(v ssa.Value, depth int) bool {
			if v == dstPar {
				return true
			}
			if ph, ok := v.(*ssa.Phi); ok && depth < 6 {
				for _, e := range ph.Edges {
					if carries(e, depth+1) {
						return true
					}
				}
			}
			return false
		}
		var pos ssa.Instruction
		eachInstr(hv, func(b *ssa.BasicBlock, i int, in ssa.Instruction) {
			if ret, ok := in.(*ssa.Return); ok && len(ret.Results) == 1 && carries(ret.Results[0], 0) {
				unchanged = true
				pos = in
			}
		})
		at := h.Pos()
		if pos != nil {
			at = pos.Pos()
		}
		r.Ob("A2", FnName(h)+"/appends-a-value", p.Pos(at), !unchanged, true, tern(!unchanged, hn+" returns an extended buffer on every path (one value per call, as its callers assume)", hn+" can return its destination unchanged: the key its caller has already written is left without a value"))
	}
	var roots []*ssa.Function
	for _, tn := range []string{"Event", "Array", "Context", "Logger"} {
		roots = append(roots, p.Methods("", tn, true)...)
	}
	for _, fn := range []string{"Dict", "Arr", "New", "Nop"} {
		if f := p.Func("", fn); f != nil {
			roots = append(roots, f)
		}
	}
	nEntries := 0
	perType := map[string]int{}
	for _, f := range roots {
		tk, _ := a.trackedParams(f)
		// entry tuples: product of the public states of every carrier parameter
		tuples := [][]string{make([]string, len(tk))}
		for i, k := range tk {
			if k == cNone {
				continue
			}
			var defs []string
			if k == cBytes {
				defs = []string{"?"}
			} else {
				defs = a.defaults(f.Params[i].Type())
			}
			var next [][]string
			for _, t := range tuples {
				for _, d := range defs {
					nt := append([]string{}, t...)
					nt[i] = d
					next = append(next, nt)
				}
			}
			tuples = next
		}
		bad := 0
		var seenExit []string
		for _, t := range tuples {
			nEntries++
			before := len(a.reported)
			exits := a.summary(f, t)
			if len(a.reported) > before {
				bad++
			}
			for _, ex := range exits {
				msg := a.checkPublicExit(f, tk, t, ex)
				if msg != "" {
					bad++
					a.report(f, f.Pos(), "exit", msg)
				}
				seenExit = append(seenExit, strings.Join(t, ",")+"->"+ex.key())
			}
		}
		if recvT := recvTypeName(f); recvT != "" {
			perType[recvT]++
		}
		if bad == 0 {
			sort.Strings(seenExit)
			d := strings.Join(seenExit, " ")
			if len(d) > 160 {
				d = d[:160] + "…"
			}
			r.Ob("A2", FnName(f), p.Pos(f.Pos()), true, true, "preserves the buffer invariant: "+d)
		}
	}
	if a.recursion {
		r.Note("A2[%s]: recursive summaries were cut (bottom); none on the pinned tree", p.Spec.Name)
	}
	r.Count("a2_roots_"+p.Spec.Name, len(roots))
	r.Count("a2_entry_tuples_"+p.Spec.Name, nEntries)
	r.Count("a2_summaries_"+p.Spec.Name, a.nSumm)
	r.Count("a2_configurations_"+p.Spec.Name, a.nCfg)
	r.Count("a2_transfer_steps_"+p.Spec.Name, a.nTrans)
	for _, tn := range []string{"Event", "Context", "Array"} {
		floor := map[string]int{"Event": 60, "Context": 50, "Array": 22}[tn]
		if perType[tn] < floor {
			r.Fail("A2", "roots:"+tn, "-", fmt.Sprintf("only %d exported methods of %s analysed (floor %d)", perType[tn], tn, floor))
		}
	}
	return a
}

func recvTypeName(f *ssa.Function) string {
	if f.Signature.Recv() == nil {
		return ""
	}
	if n := namedOf(f.Signature.Recv().Type()); n != nil {
		return n.Obj().Name()
	}
	return ""
}

// checkPublicExit: the state in which an exported method leaves its carrier must again be a
// public state (induction over call sequences).
func (a *a2) checkPublicExit(f *ssa.Function, tk []int, entry []string, ex a2exit) string {
	inSet := func(s string, set ...string) bool {
		for _, x := range set {
			if s == x {
				return true
			}
		}
		return false
	}
	describe := func(s, what string) string {
		switch {
		case s == "?":
			return what + " is left in a state the analysis cannot determine (undecided, fail closed)"
		case topOf(s) == 'k':
			return what + " is left with a key that still waits for its value (state " + s + ")"
		case len(s) > 1:
			return what + " is left inside an unclosed nested container (state " + s + ")"
		}
		return what + " is left in state " + s
	}
	hasResult := f.Signature.Results().Len() > 0
	// pointer receiver
	if len(tk) > 0 && tk[0] == cPtr && f.Signature.Recv() != nil && hasResult {
		s := ex.cells[0]
		switch namedOf(f.Params[0].Type()) {
		case a.event:
			if kr, _ := a.carrier(f.Signature.Results().At(0).Type()); kr == cPtr && namedOf(f.Signature.Results().At(0).Type()) == a.event {
				if s != "" && !inSet(s, "o", "v") {
					return describe(s, "the event buffer")
				}
			}
		case a.array:
			if namedOf(f.Signature.Results().At(0).Type()) == a.array {
				if s != "" && !inSet(s, "a", "b") {
					return describe(s, "the array buffer")
				}
			}
		}
	}
	if hasResult {
		rt := f.Signature.Results().At(0).Type()
		if k, _ := a.carrier(rt); k == cVal && ex.result != "-" {
			switch namedOf(rt) {
			case a.context:
				if !inSet(ex.result, "o", "v") {
					return describe(ex.result, "the context buffer of the returned Context")
				}
			case a.logger:
				if !inSet(ex.result, "N", "o", "v") {
					return describe(ex.result, "the context buffer of the returned Logger")
				}
			}
		}
		if k, _ := a.carrier(rt); k == cPtr && ex.result != "-" && ex.result != "*" && ex.result != "nil" && a.aliasParam(f) < 0 {
			switch namedOf(rt) {
			case a.event:
				if !inSet(ex.result, "o", "v") {
					return describe(ex.result, "the buffer of the returned event")
				}
			case a.array:
				if !inSet(ex.result, "a", "b") {
					return describe(ex.result, "the buffer of the returned array")
				}
			}
		}
	}
	return ""
}
