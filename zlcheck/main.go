package main

// zlcheck — repository-specific static analyses deciding structural clauses of
// properties C01..C19 of rs/zerolog.  See /verif/DESIGN.md.
//
//   zlcheck -property C04 -tier quick|thorough
//   zlcheck -property C04 -explain evidence/C04.violations.json
//
// The tree judged is $ZL_REPO (default /repo) as it is on disk now.

import (
	"encoding/json"
	"flag"
	"fmt"
	"os"
	"runtime/debug"
	"sort"
	"strconv"
)

var props = map[string]func(*Run){}

func register(id string, fn func(*Run)) { props[id] = fn }

func main() {
	prop := flag.String("property", "", "property id (C01..C19)")
	tier := flag.String("tier", "", "quick or thorough (default: $VERIF_TIER or quick)")
	explain := flag.String("explain", "", "violations file to pretty-print")
	list := flag.Bool("list", false, "list implemented properties")
	viewOf := flag.String("view", "", "debug: print the inlined view of rel:Type.method (or rel:func); 'ALL' self-tests every module function")
	flag.Parse()
	if *viewOf != "" {
		os.Exit(debugView(*viewOf))
	}
	if *list {
		var ids []string
		for id := range props {
			ids = append(ids, id)
		}
		sort.Strings(ids)
		for _, id := range ids {
			fmt.Println(id)
		}
		return
	}
	if *explain != "" {
		b, err := os.ReadFile(*explain)
		if err != nil {
			fmt.Fprintln(os.Stderr, err)
			os.Exit(2)
		}
		var reps []Report
		if err := json.Unmarshal(b, &reps); err != nil {
			fmt.Fprintln(os.Stderr, err)
			os.Exit(2)
		}
		for _, r := range reps {
			fmt.Printf("%s  rule=%s construct=%s [cfg %s]\n    %s\n", r.Pos, r.Rule, r.Construct, r.Cfg, r.Msg)
			for _, w := range r.Witness {
				fmt.Printf("      %s\n", w)
			}
		}
		// fallthrough: re-run the property to re-derive from the current source
		if *prop == "" {
			return
		}
	}
	fn, ok := props[*prop]
	if !ok {
		fmt.Fprintf(os.Stderr, "unknown property %q\n", *prop)
		os.Exit(2)
	}
	t := *tier
	if t == "" {
		t = os.Getenv("VERIF_TIER")
	}
	if t != "thorough" {
		t = "quick"
	}
	seed, _ := strconv.ParseInt(os.Getenv("VERIF_SEED"), 10, 64)
	run := NewRun(*prop, t, seed)
	code := func() (code int) {
		defer func() {
			if r := recover(); r != nil {
				// An analyzer crash is not a pass: fail closed, naming the rule state.
				run.cur = ""
				run.Fail("PANIC", "analyzer", "-", fmt.Sprintf("analyzer panic: %v\n%s", r, debug.Stack()))
				code = run.Finish()
			}
		}()
		fn(run)
		return run.Finish()
	}()
	os.Exit(code)
}
