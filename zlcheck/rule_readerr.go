package main

// READERR — read-error discipline of the CBOR decoder (C17 "a partial trailing event is reported
// as an error"): every operation that reads input from the *bufio.Reader and can fail
// (Peek, ReadByte, Read, ReadRune, Discard, io.CopyN/ReadFull/ReadAtLeast on it) has its error
// result tested, and on the `err != nil` edge every path ends in a panic (the decoder's error
// channel, recovered at the entry point) — it never continues decoding or returns normally.
// The single exception, with its reason, is the between-events probe that turns EOF at an item
// boundary into the normal end of the stream.

import (
	"go/token"
	"go/types"

	"golang.org/x/tools/go/ssa"
)

// functions allowed to turn a read error into a normal result, by role, with the reason
var readErrAllowed = map[string]string{
	"moreBytesToRead": "EOF between two events is the normal end of the stream; called only from the stream loop",
}

func isFallibleInputRead(c *ssa.CallCommon) bool {
	o := calleeObj(c)
	if o == nil || o.Pkg() == nil {
		return false
	}
	sig, _ := o.Type().(*types.Signature)
	if sig == nil || sig.Results().Len() == 0 || !isErrorType(sig.Results().At(sig.Results().Len()-1).Type()) {
		return false
	}
	switch o.Pkg().Path() {
	case "bufio":
		if sig.Recv() == nil || !typeIs(sig.Recv().Type(), "bufio", "Reader") {
			return false
		}
		switch o.Name() {
		case "Peek", "ReadByte", "Read", "ReadRune", "Discard", "ReadString", "ReadBytes", "ReadSlice", "ReadLine", "WriteTo":
			return true
		}
	case "io":
		switch o.Name() {
		case "CopyN", "ReadFull", "ReadAtLeast", "Copy", "ReadAll":
			for _, a := range c.Args {
				if typeIs(stripIface(a).Type(), "bufio", "Reader") {
					return true
				}
			}
		}
	}
	return false
}

func ruleReadErr(r *Run, p *Prog) {
	rule := "READERR"
	n := 0
	// one obligation per read site of the real program: a site inlined into several callers is
	// judged in each of them, discharged once, and reported for the first caller in which it fails
	type verdict struct {
		ok     bool
		detail string
		pos    token.Pos
		nontr  bool
	}
	verdicts := map[string]*verdict{}
	var order []string
	record := func(cons string, pos token.Pos, ok, nontrivial bool, detail string) {
		v := verdicts[cons]
		if v == nil {
			verdicts[cons] = &verdict{ok, detail, pos, nontrivial}
			order = append(order, cons)
			return
		}
		if v.ok && !ok {
			*v = verdict{ok, detail, pos, nontrivial}
		}
	}
	for _, f := range p.RootViews([]string{cborRel}, "", nil) {
		root := viewRoot(f)
		eachInstr(f, func(b *ssa.BasicBlock, i int, in ssa.Instruction) {
			c, ok := in.(*ssa.Call)
			if !ok || !isFallibleInputRead(&c.Call) {
				return
			}
			n++
			cons := originFnName(f, c) + "/" + calleeObj(&c.Call).Name() + "#" + itoa(readOrdinal(f, c))
			// the error value
			var errv ssa.Value
			if tup, isT := c.Type().(*types.Tuple); isT {
				for _, ref := range referrersOf(c) {
					if ex, ok := ref.(*ssa.Extract); ok && ex.Index == tup.Len()-1 {
						errv = ex
					}
				}
			} else {
				errv = c
			}
			if errv == nil || len(referrersOf(errv)) == 0 {
				record(cons, c.Pos(), false, true, "the error of this read is discarded: a truncated stream is decoded as if the bytes had been there")
				return
			}
			origin := root
			if m := viewInfo[f]; m != nil {
				if o, ok := m.origin[c]; ok && o.Parent() != nil {
					origin = o.Parent()
				}
			}
			if why, ok := readErrAllowed[canonFn(origin)]; ok && origin.Parent() == nil {
				record(cons, c.Pos(), true, false, "read error mapped to a normal result in "+origin.Name()+": "+why)
				return
			}
			// every use of the error: a nil test whose failing edge only reaches panics, or the panic itself
			okAll := true
			why := ""
			tested := false
			for _, ref := range referrersOf(errv) {
				switch x := ref.(type) {
				case *ssa.BinOp:
					if !(x.Op == token.NEQ || x.Op == token.EQL) || !(isNilConst(x.X) || isNilConst(x.Y)) {
						continue
					}
					for _, u := range referrersOf(x) {
						iff, isIf := u.(*ssa.If)
						if !isIf {
							okAll, why = false, "the error test is used as a value, not as a branch"
							continue
						}
						tested = true
						errSucc := iff.Block().Succs[0]
						if x.Op == token.EQL {
							errSucc = iff.Block().Succs[1]
						}
						// from the error edge no normal return and no way back into decoding: only panics
						if len(errSucc.Instrs) == 0 {
							continue
						}
						if escapes, wit := pathFromBlock(errSucc, func(in ssa.Instruction) bool {
							if isReturn(in) {
								return true
							}
							// reading on after a failed read
							if cc, ok := in.(*ssa.Call); ok && isFallibleInputRead(&cc.Call) {
								return true
							}
							return false
						}); escapes {
							okAll = false
							why = "after a failed read the decoder carries on (" + blockPathStr(p, wit) + ") instead of reporting the error"
						}
					}
				case *ssa.Panic, *ssa.MakeInterface, *ssa.Return, *ssa.Store, *ssa.Phi, *ssa.DebugRef:
					// panic(e) / wrapped into an error value: fine
				}
			}
			if !tested {
				okAll = false
				if why == "" {
					why = "the error of this read is never tested"
				}
			}
			record(cons, c.Pos(), okAll, true, tern(okAll, "a failed read ends in a panic carrying the error (recovered at the entry point)", why+": a truncated event is not reported as an error"))
		})
	}
	// the exception is only sound between events: the probe must not be used inside an item
	if one := p.Func(cborRel, "cbor2JsonOneObject"); one != nil {
		inItem := map[*ssa.Function]bool{one: true}
		for changed := true; changed; {
			changed = false
			for g := range inItem {
				eachInstr(g, func(b *ssa.BasicBlock, i int, in ssa.Instruction) {
					if cc := callCommon(in); cc != nil {
						if sc := staticCallee(cc); sc != nil && InModule(sc) && !inItem[sc] {
							inItem[sc] = true
							changed = true
						}
					}
				})
			}
		}
		for _, g := range p.ModFns {
			if _, ok := readErrAllowed[canonFn(g)]; !ok || pkgRel(g) != cborRel || g.Parent() != nil {
				continue
			}
			for cf := range callersOf(p, g, cborRel) {
				okc := !inItem[cf]
				r.Ob(rule, FnName(cf)+"/uses-"+canonFn(g), p.Pos(cf.Pos()), okc, true, tern(okc, canonFn(g)+" is used between events only", canonFn(g)+" (which turns a read error into 'no more data') is used while decoding an item: a truncated item ends silently"))
			}
		}
	}
	for _, cons := range order {
		v := verdicts[cons]
		r.Ob(rule, cons, p.Pos(v.pos), v.ok, v.nontr, v.detail)
	}
	if n < 6 {
		r.Fail(rule, "floor", "-", "fewer input reads found in internal/cbor than on the pinned tree ("+itoa(n)+" < 6)")
	}
}

// pathFromBlock: is an instruction satisfying target reachable from the start of block b?
func pathFromBlock(b *ssa.BasicBlock, target func(ssa.Instruction) bool) (bool, []*ssa.BasicBlock) {
	type item struct {
		b    *ssa.BasicBlock
		path []*ssa.BasicBlock
	}
	seen := map[*ssa.BasicBlock]bool{b: true}
	st := []item{{b, []*ssa.BasicBlock{b}}}
	for len(st) > 0 {
		it := st[len(st)-1]
		st = st[:len(st)-1]
		for _, in := range it.b.Instrs {
			if target(in) {
				return true, it.path
			}
		}
		for _, s := range it.b.Succs {
			if !seen[s] {
				seen[s] = true
				st = append(st, item{s, append(append([]*ssa.BasicBlock{}, it.path...), s)})
			}
		}
	}
	return false, nil
}

func blockPathStr(p *Prog, path []*ssa.BasicBlock) string {
	s := ""
	for i, x := range blockPath(p, path) {
		if i > 0 {
			s += "→"
		}
		s += x
	}
	return s
}

// readOrdinal: index of the read among the fallible reads of the function it was written in
// (source order), so that the construct name does not depend on line numbers.
func readOrdinal(view *ssa.Function, c *ssa.Call) int {
	var org ssa.Instruction = c
	if m := viewInfo[view]; m != nil {
		if o, ok := m.origin[c]; ok {
			org = o
		}
	}
	fn := org.Parent()
	n := 0
	for _, b := range fn.Blocks {
		for _, in := range b.Instrs {
			if cc, ok := in.(*ssa.Call); ok && isFallibleInputRead(&cc.Call) && cc.Pos() < org.Pos() {
				n++
			}
		}
	}
	return n
}

// OUTDIRECT — "every whole event of a truncated stream is written before the error is returned"
// has a structural necessary condition at the stream entry point: what the item decoders write
// reaches the caller's writer even when a later item panics. Either the per-event decoder is handed
// the caller's writer itself, or a *bufio.Writer around it whose Flush is deferred (it then runs on
// the panic path too). Any other intermediate writer is reported as undecided.
func ruleOutDirect(r *Run, p *Prog) {
	rule := "OUTDIRECT"
	many := p.Func(cborRel, "Cbor2JsonManyObjects")
	one := p.Func(cborRel, "cbor2JsonOneObject")
	if !r.Anchor(many != nil && one != nil, rule, "cbor.Cbor2JsonManyObjects / cbor2JsonOneObject") {
		return
	}
	dstIdx := -1
	for i, par := range many.Params {
		if types.TypeString(par.Type(), nil) == "io.Writer" {
			dstIdx = i
		}
	}
	if dstIdx < 0 {
		r.Fail(rule, FnName(many)+"/writer-param", p.Pos(many.Pos()), "the stream entry point has no io.Writer parameter")
		return
	}
	v := p.View(many, "keep-one-object", func(g *ssa.Function) bool { return g == one })
	dst := v.Params[dstIdx]
	n := 0
	eachInstr(v, func(b *ssa.BasicBlock, i int, in ssa.Instruction) {
		c, ok := in.(*ssa.Call)
		if !ok || staticCallee(&c.Call) != one {
			return
		}
		var w ssa.Value
		for _, a := range c.Call.Args {
			if types.TypeString(a.Type(), nil) == "io.Writer" {
				w = a
			}
		}
		if w == nil {
			return
		}
		n++
		okc, why := false, ""
		switch {
		case w == ssa.Value(dst):
			okc, why = true, "the item decoder writes to the caller's writer itself: completed events are out before a later item can fail"
		default:
			inner := stripIface(w)
			bc, isCall := inner.(*ssa.Call)
			if isCall && (isCallTo(&bc.Call, "bufio.NewWriter") || isCallTo(&bc.Call, "bufio.NewWriterSize")) && len(bc.Call.Args) > 0 && bc.Call.Args[0] == ssa.Value(dst) {
				// Flush must be deferred (runs when an item decoder panics)
				deferred := false
				eachInstr(v, func(bb *ssa.BasicBlock, k int, x ssa.Instruction) {
					if d, ok := x.(*ssa.Defer); ok && isCallTo(&d.Call, "(*bufio.Writer).Flush") && len(d.Call.Args) == 1 && d.Call.Args[0] == inner && bb.Dominates(c.Block()) {
						deferred = true
					}
				})
				if deferred {
					okc, why = true, "buffered writer around the caller's writer with a deferred Flush (runs on the error path too)"
				} else {
					why = "the item decoders write into a bufio.Writer that is flushed only on the normal return: when a later event is truncated or malformed the events decoded before it are lost with the buffer"
				}
			} else {
				why = "the item decoders write to " + descr(w) + ", not to the caller's writer: cannot determine that completed events reach it when a later event fails (undecided)"
			}
		}
		r.Ob(rule, FnName(many)+"/events-reach-writer", p.Pos(c.Pos()), okc, true, why)
	})
	if n == 0 {
		r.Fail(rule, FnName(many)+"/decode-call", p.Pos(many.Pos()), "no call of the per-event decoder found in the stream entry point")
	}
}
